#!/usr/bin/env python3
"""Translate the harness dump (tables of the compiled /repo tree) into Calc/Generated/*.lean.
Files are rewritten only when their content changes, so lake re-checks exactly the theorems that
depend on a table that moved."""
import json, os, sys

UNIT_CTORS = (
    [("distance", n) for n in "nanometer micrometer millimeter centimeter meter kilometer inch foot yard mile".split()]
    + [("mass", n) for n in "nanogram microgram milligram gram kilogram tonne ounce pound stone".split()]
    + [("temperature", n) for n in "kelvin celsius fahrenheit".split()]
    + [("storage", n) for n in ("byte kilobyte megabyte gigabyte terabyte petabyte exabyte kibibyte mebibyte gibibyte "
                                 "tebibyte petibyte exbibyte bit kilobit megabit gigabit terabit petabit exabit kibibit "
                                 "mebibit gibibit tebibit petibit exbibit").split()]
)

def unit_term(i):
    k, n = UNIT_CTORS[i]
    return f"(Calc.Unit.{k} .{n})"

def lstr(s):
    out = '"'
    for ch in s:
        if ch == '"': out += '\\"'
        elif ch == '\\': out += '\\\\'
        elif ch == '\n': out += '\\n'
        else: out += ch
    return out + '"'

CONSTRAINT = {"function": ".function", "number": ".number", "real": ".real", "natural": ".natural",
              "integer": ".integer", "positive_integer": ".positiveInteger", "matrix": ".matrix",
              "square_matrix": ".squareMatrix"}
KW_TAG = {23: ".delete", 20: ".cross", 25: ".as_", 19: ".dot", 24: ".clear"}

DRY = False   # with DRY set, report what would change and write nothing

def write_if_changed(path, text):
    try:
        if open(path).read() == text:
            return False
    except FileNotFoundError:
        pass
    if DRY:
        return True
    os.makedirs(os.path.dirname(path), exist_ok=True)
    with open(path, "w") as f:
        f.write(text)
    return True

def generate(dump, outdir):
    hdr = "-- GENERATED on every run from the compiled /repo tree by gen_tables.py (harness dump). Do not edit.\n"
    changed = []
    # ---- UnitTable
    units = dump["units"]
    assert len(units) == len(UNIT_CTORS), "unit count changed: update the model's Unit type"
    t = hdr + "import Calc.Model.Basic\nnamespace Calc.Gen\n\n"
    t += "/-- `get_per_meter` / `get_per_kilo` / `get_per_byte` as IEEE-754 bits (0 for temperature, which has no factor) -/\n"
    t += "def perBaseBits : Calc.Unit → Nat\n"
    for i, u in enumerate(units):
        k, n = UNIT_CTORS[i]
        bits = int(u["bits"], 16) if u["bits"] else 0
        t += f"  | .{k} .{n} => 0x{bits:016x}\n"
    t += "\n/-- `Display` of the unit -/\ndef unitSymbol : Calc.Unit → String\n"
    for i, u in enumerate(units):
        k, n = UNIT_CTORS[i]
        t += f"  | .{k} .{n} => {lstr(u['symbol'])}\n"
    t += "\n/-- the Rust variant names in protocol order (checked against the model's constructor order) -/\n"
    t += "def unitVariantNames : List (String × String) :=\n  [" + ",\n   ".join(
        f"({lstr(u['kind'])}, {lstr(u['variant'])})" for u in units) + "]\n"
    t += "\nend Calc.Gen\n"
    if write_if_changed(os.path.join(outdir, "UnitTable.lean"), t): changed.append("UnitTable")
    # ---- Keywords
    t = hdr + "import Calc.Model.TableTypes\nnamespace Calc.Gen\n\n"
    t += "/-- every word the scanner turns into a keyword or unit token, with what it denotes -/\n"
    t += "def keywordTable : List (String × KwKind) :=\n  ["
    rows = []
    for k in dump["keywords"]:
        kind = f".unit {unit_term(k['unit'])}" if k["unit"] is not None else KW_TAG.get(k["tag"], f".other {int(k['tag'])}")
        rows.append(f"({lstr(k['word'])}, {kind})")
    t += ",\n   ".join(rows) + "]\n\nend Calc.Gen\n"
    if write_if_changed(os.path.join(outdir, "Keywords.lean"), t): changed.append("Keywords")
    # ---- BuiltinTable + InitEnv
    t = hdr + "import Calc.Model.TableTypes\nnamespace Calc.Gen\n\n"
    t += "/-- the native functions of the initial table, by their own name -/\ndef builtins : List BuiltinSpec :=\n  ["
    rows, seen = [], set()
    for b in dump["builtins"]:
        if "native" in b and b["native"] not in seen:
            seen.add(b["native"])
            ps = ", ".join(f"⟨{lstr(p['name'])}, {CONSTRAINT.get(p['constraint'], '.function')}⟩" for p in b["params"])
            rows.append(f"⟨{lstr(b['native'])}, [{ps}]⟩")
    t += ",\n   ".join(rows) + "]\n\nend Calc.Gen\n"
    if write_if_changed(os.path.join(outdir, "BuiltinTable.lean"), t): changed.append("BuiltinTable")
    t = hdr + "import Calc.Model.TableTypes\nnamespace Calc.Gen\n\n"
    t += "/-- `get_constants()` (builtin_math.rs:60-102), sorted by key -/\ndef initEntries : List InitEntry :=\n  ["
    rows = []
    for b in dump["builtins"]:
        c = "true" if b["constant"] else "false"
        if "native" in b:
            rows.append(f"⟨{lstr(b['key'])}, {c}, .native {lstr(b['native'])}⟩")
        elif "re" in b:
            rows.append(f"⟨{lstr(b['key'])}, {c}, .number 0x{b['re']} 0x{b['im']}⟩")
        else:
            raise SystemExit(f"initial table entry of an unmodelled kind: {b}")
    t += ",\n   ".join(rows) + "]\n\nend Calc.Gen\n"
    if write_if_changed(os.path.join(outdir, "InitEnv.lean"), t): changed.append("InitEnv")
    # ---- UnicodeClasses
    t = hdr + "namespace Calc.Gen\n\n/-- inclusive code-point ranges of `char::is_alphanumeric` -/\n"
    t += "def alnumRanges : Array (Nat × Nat) := #[\n  " + ",\n  ".join(
        ", ".join(f"({a},{b})" for a, b in dump["alnum"][i:i + 8]) for i in range(0, len(dump["alnum"]), 8)) + "]\n"
    t += "\nend Calc.Gen\n"
    if write_if_changed(os.path.join(outdir, "UnicodeClasses.lean"), t): changed.append("UnicodeClasses")
    return changed

if __name__ == "__main__":
    d = json.load(open(sys.argv[1]))
    print("regenerated:", generate(d, sys.argv[2]))
