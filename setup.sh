#!/bin/sh
# One-off offline build of the framework (MANIFEST.setup_cmd): harness against /repo, tables, the whole
# Lean project (model, proofs, property theorems, audits) and the model driver.
set -e
cd "$(dirname "$0")"
export CARGO_NET_OFFLINE=true
python3 - <<'PY'
import sys
sys.path.insert(0, ".")
from vlib import core
core.build_impl("/repo", need_binary=True)
core.dump_tables("/repo")
PY
cd lean
lake build Calc calcdriver $(python3 -c "import json;r=json.load(open('READY.json'));print(' '.join('Calc.Props.%s Calc.Audit.%s'%(m,m) for ms in r.values() for m in ms))")
