#!/usr/bin/env python3
"""tools/seed_table.py — regenerate the seeded-change table of DESIGN.md section 16 (between the SEED-TABLE markers)
from seeded/<id>/meta.txt, seeded/HISTORY.json (what had to be strengthened) and work/selftest-last.json (last
`./selftest` outcome, if it covered the seed)."""
import json, os, re

VERIF = os.path.dirname(os.path.dirname(os.path.abspath(__file__)))


def summary(text):
    t = " ".join(text.split())
    t = re.sub(r"^Change [AB]\s*[-:—]*\s*", "", t)
    t = t.replace("|", "/")
    return t[:230] + ("…" if len(t) > 230 else "")


def main():
    sd = os.path.join(VERIF, "seeded")
    hist = json.load(open(os.path.join(sd, "HISTORY.json")))
    last = {}
    p = os.path.join(VERIF, "work", "selftest-last.json")
    if os.path.exists(p):
        last = {r["id"]: r for r in json.load(open(p))}
    rows = ["| seed | property | change (beginning of its description) | first run | now |", "|---|---|---|---|---|"]
    n = first = 0
    for s in sorted(d for d in os.listdir(sd) if os.path.isdir(os.path.join(sd, d))):
        mt = os.path.join(sd, s, "meta.txt")
        desc = summary(open(mt, encoding="utf-8").read()) if os.path.exists(mt) else ""
        pid = s.split("-")[0]
        n += 1
        if s in hist:
            fr = "strengthened: " + hist[s].replace("|", "/")
        else:
            fr = "VIOLATION"
            first += 1
        now = "VIOLATION" if last.get(s, {}).get("ok", True) else "MISSED"
        rows.append("| %s | %s | %s | %s | %s |" % (s, pid, desc, fr, now))
    rows.append("")
    rows.append("%d seeded changes; %d reported by the check as it stood when the change arrived, %d after the strengthening named in the row." % (n, first, n - first))
    dp = os.path.join(VERIF, "DESIGN.md")
    doc = open(dp, encoding="utf-8").read()
    a, b = "<!-- SEED-TABLE-BEGIN -->", "<!-- SEED-TABLE-END -->"
    assert a in doc and b in doc
    doc = doc[: doc.index(a) + len(a)] + "\n" + "\n".join(rows) + "\n" + doc[doc.index(b):]
    open(dp, "w", encoding="utf-8").write(doc)
    print("table: %d seeds, %d first time" % (n, first))


if __name__ == "__main__":
    main()
