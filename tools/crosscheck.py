#!/usr/bin/env python3
"""crosscheck.py SEED…: apply a seeded change to a scratch worktree and run EVERY property's quick check against it;
prints which properties raise an alarm (to see whether projections keep unrelated properties silent)."""
import os, subprocess, sys, shutil
V = os.path.dirname(os.path.dirname(os.path.abspath(__file__)))
S = "/tmp/calc-cross"
env = dict(os.environ, VERIF_OUT="/tmp/calc-cross-out", CARGO_NET_OFFLINE="true")
def sh(c, **k): return subprocess.run(c, stdout=subprocess.PIPE, stderr=subprocess.STDOUT, text=True, env=env, **k)
sh(["git", "-C", "/repo", "worktree", "remove", "--force", S]); shutil.rmtree(S, ignore_errors=True)
sh(["git", "-C", "/repo", "worktree", "add", "--detach", S, "HEAD"])
try:
    for seed in sys.argv[1:]:
        sh(["git", "-C", S, "checkout", "--", "."])
        r = sh(["git", "-C", S, "apply", os.path.join(V, "seeded", seed, "patch.diff")])
        alarms = []
        for i in range(1, 20):
            pid = "C%02d" % i
            r = sh([os.path.join(V, "check"), pid, "--repo", S], cwd=V)
            if r.returncode == 1: alarms.append(pid)
            elif r.returncode != 0: alarms.append(pid + "(rc%d)" % r.returncode)
        print(seed, "->", " ".join(alarms), flush=True)
finally:
    sh(["git", "-C", "/repo", "worktree", "remove", "--force", S]); shutil.rmtree(S, ignore_errors=True)
    import hashlib
    key = hashlib.sha1(S.encode()).hexdigest()[:10]
    for d in ("target-" + key, "repo-target-" + key): shutil.rmtree(os.path.join(V, "work", d), ignore_errors=True)
    shutil.rmtree("/tmp/calc-cross-out", ignore_errors=True)
