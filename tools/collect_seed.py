#!/usr/bin/env python3
"""collect_seed.py <ID> <src_dir> <A:C> [<B:D>]: copy out/patchX.diff etc. into seeded/<ID>-<Y>/ and drop the worktree"""
import json, os, shutil, subprocess, sys
pid, src = sys.argv[1], sys.argv[2]
for m in sys.argv[3:]:
    a, b = m.split(":")
    d = "/verif/seeded/%s-%s" % (pid, b)
    if not os.path.exists(os.path.join(src, "out", "patch%s.diff" % a)):
        print("missing", pid, a); continue
    os.makedirs(d, exist_ok=True)
    shutil.copy(os.path.join(src, "out", "patch%s.diff" % a), os.path.join(d, "patch.diff"))
    shutil.copy(os.path.join(src, "out", "demo%s.sh" % a), os.path.join(d, "demo.sh"))
    shutil.copy(os.path.join(src, "out", "meta%s.txt" % a), os.path.join(d, "meta.txt"))
    meta = open(os.path.join(d, "meta.txt")).read()
    json.dump({"property": pid, "source": "independent sub-agent given only the property text and a scratch worktree (round %s)" % {"A": 1, "B": 1, "C": 2, "D": 2, "E": 3, "F": 3, "G": 4, "H": 4, "I": 5, "J": 5, "K": 6, "L": 6, "M": 7, "N": 7, "O": 8, "P": 8}.get(b, "?"),
               "needs_to_manifest": meta.strip(), "confirmed": "see DESIGN.md section 16 (selftest --verify)"},
              open(os.path.join(d, "meta.json"), "w"), indent=1, ensure_ascii=False)
    print("collected", d)
subprocess.run(["git", "-C", "/repo", "worktree", "remove", "--force", src])
