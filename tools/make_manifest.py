#!/usr/bin/env python3
"""Regenerate MANIFEST.json from properties.jsonl, lean/READY.json and the audit files."""
import json, os, re
V = os.path.dirname(os.path.dirname(os.path.abspath(__file__)))
props = [json.loads(l) for l in open(os.path.join(V, "properties.jsonl"))]
ready = json.load(open(os.path.join(V, "lean", "READY.json")))

PARTIAL = {
    "C01": "Proved: the scanner, the parser and the evaluator of the model never loop and never take a panic branch on well-formed trees and reachable environments (fuel adequacy, progress, invariant over all histories; hypothesis PosToNat on the kernel for identity()). C01Term: evaluation returns with an explicit fuel bound for every tree whose calls go to native functions or to non-recursive (ranked) user functions, running out of fuel requires the application of a user function, and the known non-terminating witnesses (named recursion, self-application through a parameter, a missed base case such as r(2.5)) are proved to diverge for every fuel. Carried by the streams alone: native stack depth, allocation failure, RefCell borrow flags; byte-index slicing is proved safe in the model (C04Bytes: the cursor offsets of every token of every accepted text are character boundaries inside the text and the slice is the encoding of the consumed characters) and the lexeme texts are compared with the code by the scanner streams; the K4 witnesses are replayed and listed as known findings.",
    "C02": "Proved: evaluation of every number expression equals an independent denotation into Mathlib's complex numbers, with exactly the stated refusals; kind table; factorial. Floating-point rounding is carried by running the same definitions at Float against the implementation (bitwise / 4 ulp) and by an independent evaluator under a magnitude-scaled bound.",
    "C03": "Proved: the parser accepts exactly the documented grammar and returns its tree (C03_exact: parse ts = ok ss <-> DerivesProgram ts ss; soundness, completeness, unambiguity, statement shapes, delimiter requirement).",
    "C04": "Proved: scan ok <-> declarative decomposition into blank runs and lexemes with exact slices, positions, number shape and value, whole-word keyword lookup, longest match, bad-character report; the byte cursor (idx += len_utf8, input[prev..cur]) yields boundaries and exactly the consumed characters for every token, and UTF-8 encoding is injective (C04Bytes); shipped spelling table = documented spellings except the known finding yard/yards/yd (partial theorem + proved counterexample). The number reader of the executable model (decimalToBits) is proved correctly rounded for every digit string and exponent (nearest, ties to even, subnormals, overflow threshold: C04Round); Rust's f64::from_str is compared with it bit for bit by the fmt stream.",
    "C05": "Proved: shipped factors within tolerance of the exact definitions except the 13 bit-family rows (known finding; partial theorem + proved counterexample), symbols, spellings (partial: yard), round trip, paths, cross-kind refusal, bare numbers, affine temperature.",
    "C06": "Proved in any field with a lawful kernel: sizes add, subtract, scale and divide, cancellation laws, negation, every refusal.",
    "C07": "Proved for arbitrary sizes: every matrix operation refines the Mathlib operation, cofactor determinant = Matrix.det, det multiplicative, transpose laws, inverse exists iff det != 0 and A * inverse A = 1 (adjugate), cross product laws, |v|, shapes never panic. The column-cross orientation is a known finding (stated as a proved fact about the model).",
    "C08": "Proved: shipped built-in table = specification table (names, arities, parameter names, domains), name table, constants in 16-digit enclosures, refusal order and the identity of the diagnostic, each name runs the kernel primitive of its name; the formulas of num-complex (written once, generically, in Calc/Model/CxGeneric.lean and instantiated at Float for the driver) equal Mathlib's complex functions when instantiated at the reals (field operations, norm, arg, exp, log, principal square root, complex power, truncated remainder, sin cos tan sinh cosh tanh, the inverse functions by their log formulas); Euclid's loop of gcd/lcm returns Nat.gcd / Nat.lcm and gcd*lcm = |ab|. Rounding, and the fidelity of the port to the Rust crate, are carried by the bit-for-bit built-in stream.",
    "C09": "Proved: invariant (every constant entry is the initial one, every initial entry is present) over all histories, sessions and texts; every refusal; clear = initial table up to permutation.",
    "C10": "Proved: a statement that prints a failure line leaves the environment unchanged; a text that fails to scan or parse runs nothing and prints exactly one line.",
    "C11": "Proved: evaluation returns the environment it was given (all trees, environments, fuel), parameters are scoped, evaluation is repeatable.",
    "C12": "Proved: frame property of every statement, clear keeps exactly the constants, a copied function is independent of the original. C12Heap: a handle-level model of the statement interpreter (function values as shared mutable objects, in-place definition and deletion, copy on assignment) is proved to keep 'no two names share a handle' along every history and to refine the value model (same lines, same bindings), and proved to break both without the copy (the repaired defect); the same no-alias invariant is monitored on the real Rc handles by the harness after every statement.",
    "C13": "Proved: first-match dispatch by arity and literals, binding of named parameters, define replaces in place or appends, delete removes exactly one, reachable signature lists are non-empty and pairwise inequivalent, listing order (Kernel.eq = equality is an explicit hypothesis where needed in C13; C13Per re-proves distinctness, in-place replacement and exact deletion under the hypothesis that Kernel.eq is a partial equivalence, reflexive off NaN, which the bit-level model of binary64 == is proved to satisfy while the old hypothesis is proved false for it; number literals are proved never to be NaN; C13PerSession: literal parameters are decimal number tokens, so along every session with no hypothesis on literals every stored signature is self-equivalent and a redefinition replaces in place).",
    "C14": "Proved: every operator-level diagnostic carries its own token's position, evaluation order (left before right, callee before arguments, entries left to right), statement-level blame, exactly one line per failing statement and the run continues, C14_eval_blame for whole trees; parse errors carry the first unconsumed token. C14Render: the printed frame `Line l, Column c :: msg` is inside the model with a reader proved to return (l, c, msg) for every position and message; every positioned diagnostic of processText renders to a line that reads back as the stored position; the model's reader is run on every rendered diagnostic the streams observe (driver command diagline).",
    "C15": "Proved under an explicit FmtSpec on the formatter of reals, which is discharged for binary64 bit patterns with the executable model's own printer (C15Bits: every canonical pattern's text reads back, every complex pair reads back exactly except the sign of a zero part): an independent reader inverts the complex printer on all nine forms; measurement form; distinct symbols; matrix structure; built-in marker. The model's float printer is proved to read back to the same bits for every positive finite double, on the digits and on the text (C04Round: shortest_roundtrip, fmtBits_reads_back); Rust's Display for f64 is compared with it byte for byte by the fmt and print streams, and by an independent reader.",
    "C16": "Proved for the model of main.rs: trailing newline, shared environment, exit in any letter case, line isolation, tab size changes positions only (scanner and parser commute with position erasure), and C16_three_modes: well-formed lines given as a file, as the expression, or typed line by line produce the same outputs up to positions and the same final bindings (scanner and parser compositional over lines; evaluation commutes with position erasure). clap, rustyline and the real process are observed only through the binary (front stream: binary vs in-process prediction vs model, cross-mode comparison).",
    "C17": "Proved: inserting blanks at any token boundary preserves kinds, lexemes and values (general, discharged for the shipped Unicode table); removing a blank run is harmless whenever a decidable adjacency rule (needsSepAt) says the neighbours cannot fuse; delimiter flips and extra delimiters do not change the parse. C17Meaning lifts this from tokens to meaning: expressions, statements, function values and environments that differ only in the line/column of their tokens evaluate to related values, print equal text, report the same diagnostics up to line/column and end in related environments (logical relation over eval, step and runStmts). C17MeaningText: the same end to end on texts — blank insertion, blank removal and delimiter variants give processText runs that print the same value texts, the same diagnostics up to line/column, and related tables.",
    "C18": "Proved: listing shape, printer structure (in-order lexemes, nothing dropped), adjacency safety; C18Parse: the kinds of the tokens the parser consumed are the in-order kinds of the tree, the grammar depends on tokens only through their kinds, hence the printed body scans and is re-read by the grammar and by the parser as a tree similar to the defined one (same shape, kinds, values, units), and every reading of those tokens is similar to it (matrix-free bodies). C18Scan: every token of a successful scan is well formed, so the TreeOK hypothesis of the round trip is discharged for every matrix-free tree parsed from scanned tokens (under TableOK on the keyword table and the printer/reader round trip of its finite literals), and the re-read tree carries the same identifier lexemes. C18Table discharges the table and character-class hypotheses for the shipped configuration by kernel-decided statements over the keyword and class tables regenerated from the compiled tree on every run. Reading the listing back through the real scanner is the two-phase listing stream.",
    "C19": "Proved: every observable of a session is invariant under permutation of the variable table. Hash seeds, locale, working directory and environment variables are exercised by repeated fresh processes.",
}
TECH = "Lean 4 kernel-checked theorems about a hand-written executable model + table theorems re-checked against tables regenerated from the compiled tree + implementation-vs-model correspondence streams with independent oracles"

def n_theorems(mods):
    n = 0
    for m in mods:
        p = os.path.join(V, "lean", "Calc", "Audit", m + ".lean")
        if os.path.exists(p):
            n += len(re.findall(r"#print axioms", open(p).read()))
    return n

checks = []
for p in props:
    pid = p["id"]
    mods = ready.get(pid, [])
    text = ("%d property theorems in lean/Calc/Props/{%s}.lean, proved for all inputs with no size bound and accepted by Lean's kernel (axioms audited on every run). %s "
            "The model is tied to the current source on every run by tables regenerated from the compiled tree and by differential streams that run the model's executable definitions and the real library / binary on the same inputs."
            % (n_theorems(mods), ",".join(mods), PARTIAL[pid])) if mods else \
           ("Theorem modules for this property are not registered yet; the check currently rests on the correspondence streams and oracles. " + PARTIAL[pid])
    checks.append({
        "property_id": pid,
        "quick_cmd": "./check %s --tier quick" % pid,
        "thorough_cmd": "./check %s --tier thorough" % pid,
        "evidence_file": "/verif/evidence/%s.json" % pid,
        "replay_cmd_template": "./check %s --replay {path}" % pid,
        "engine": "lean-model+correspondence",
        "level_claimed": {"category": "proof", "text": text, "design_ref": "DESIGN.md sections 7 (%s) and 14" % pid},
        "level_note": "Trusted: Lean kernel and the three standard axioms; Mathlib as the definition of the mathematics; the hand-written model (faithful exactly as far as the streams of the run exercised it); harness, generators, comparison and oracle code; Rust std float parsing/printing, Unicode classes, HashMap; num-complex; clap and rustyline observed only through the binary.",
        "technique": TECH,
    })
m = {
    "version": 1,
    "setup_cmd": "./setup.sh",
    "hooks": {"guard": "calculator_verif",
              "enable": "no source hook is needed: the library API, Token fields, Statement/Expr variants and the variable table are public and the front end is observed through the binary; checks build /repo as it is",
              "baseline_off_cmd": "cd /repo && cargo test --workspace --no-fail-fast --offline", "source_commits": [], "add_only": True},
    "engines": [{"name": "lean-model+correspondence", "path": "/verif/check", "serves_properties": [p["id"] for p in props],
                 "kind_free_text": "Lean 4 model + theorems (lean/), Rust harness (harness/), Python orchestrator and oracles (check, vlib/)"}],
    "checks": checks,
    "notes": "All 19 properties are claimed; none is not applicable. Genuine defects found: nine repaired by `fix:` commits in /repo, the rest listed in known_findings.json (see DESIGN.md sections 8 and 13-16). Every library-level check also replays its own programs through the real binary in all input modes; when the in-process harness does not build against a tree that itself builds (an internal API rename), a check falls back to a black-box comparison of the binary's stdout with the executable model (DESIGN.md section 13) instead of giving no verdict.",
    "not_applicable": [],
}
json.dump(m, open(os.path.join(V, "MANIFEST.json"), "w"), indent=1)
print("MANIFEST.json written:", {c["property_id"]: n_theorems(ready.get(c["property_id"], [])) for c in checks})
