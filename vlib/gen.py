"""Case generators.  Every random choice derives from one `random.Random(seed)`; every case is one line
`<stream> <id> …` of the protocol in DESIGN.md appendix C.  Generators are structured from the model's own
case analysis (operator x operand-kind pairs, statement kind x state class, scanner branches)."""
import itertools, random
from .core import hx

# ------------------------------------------------------------------------------------------------
# scanner strings

TOK_ALPHABET = ["1", "5", "e", "-", ".", "x", "m", "°", "²", " ", "\t", "\n", "\r", "+", "(", "#", "√"]
EXTRA_CHARS = ["µ", "μ", "π", "ϕ", "_", "0", "9", "E", "K", "B", "i", "é", "٣", "Ⅷ", "½", "א", "中", "😀", ";", ",", "=",
               "[", "]", "|", "⌈", "⌉", "⌊", "⌋", "*", "/", "^", "!", "%", "•", "×", ")", " ", " ", "\x0b"]


def tok_exhaustive(maxlen, tabs=(4,)):
    n = 0
    for tab in tabs:
        for L in range(0, maxlen + 1):
            for combo in itertools.product(TOK_ALPHABET, repeat=L):
                yield "tok x%d_%d %d %s" % (tab, n, tab, hx("".join(combo)))
                n += 1


def tok_random(rng, count, spellings):
    chars = TOK_ALPHABET + EXTRA_CHARS
    for k in range(count):
        L = rng.choice([1, 2, 3, 5, 8, 13, 30, 80, 200])
        parts = []
        while sum(len(p) for p in parts) < L:
            r = rng.random()
            if r < 0.35:
                parts.append(rng.choice(chars))
            elif r < 0.5:
                parts.append(rng.choice(spellings))
            elif r < 0.7:
                parts.append(random_number_text(rng, allow_junk=True))
            elif r < 0.8:
                parts.append(rng.choice(["foo", "x1", "_a", "sin", "π", "e", "ee", "e1", "m2", "kmh", "deletex", "asx", "dotx"]))
            else:
                parts.append(rng.choice([" ", "  ", "\t", "\r\n", "\n", " \t "]))
        tab = rng.choice([0, 1, 2, 4, 8, 100, 255])
        yield "tok r%d %d %s" % (k, tab, hx("".join(parts)))


def tok_spellings(spellings):
    k = 0
    for w in spellings:
        for text in (w, w + "s", "x" + w, w + "1", w + "_", w + " " + w, "1" + w, "1 " + w, w.upper(), w + "°"):
            yield "tok s%d 4 %s" % (k, hx(text))
            k += 1


def random_number_text(rng, allow_junk=False):
    d = rng.choice(["0", "1", "7", "12", "100", "170", "171", "9007199254740993", "18446744073709551616", "0000012", "1" + "0" * rng.choice([20, 60, 310]),
                    str(rng.randrange(0, 10 ** rng.choice([1, 3, 6, 17, 25])))])
    s = d
    r = rng.random()
    if r < 0.4:
        s += "." + rng.choice(["0", "5", "25", "125", "000001", str(rng.randrange(0, 10 ** rng.choice([1, 4, 18]))),
                               "".join(rng.choice("0123456789") for _ in range(rng.choice([17, 18, 19, 25, 40, 80]))),
                               "0" * rng.choice([16, 17, 18, 30]) + "1", "000000000000000111022302462515655", "1000000000000000055511151231257827"])
    r = rng.random()
    if r < 0.35:
        s += "e" + rng.choice(["", "-"]) + rng.choice(["0", "1", "2", "5", "10", "19", "22", "100", "308", "309", "324", "400", "0005", "18", "17", "00"])
    if allow_junk and rng.random() < 0.3:
        s += rng.choice(["e", "e-", ".", "e+1", ".e1", "e²", "e٣", "..1", "e1e1", ".5.5", "x", "m", "em"])
    return s


# ------------------------------------------------------------------------------------------------
# token-kind sequences for the parser (tokens built directly)

# tag codes: see canon.rs / Canon.lean
T = dict(lparen=0, rparen=1, lbracket=2, rbracket=3, lceil=4, rceil=5, lfloor=6, rfloor=7, plus=8, minus=9, slash=10,
         star=11, caret=12, bang=13, pipe=14, percent=15, comma=16, equal=17, sqrt=18, dot=19, cross=20, newline=21,
         semicolon=22, delete=23, clear=24, as_=25, ident=26, number=27, unit=28)
LEX = {0: "(", 1: ")", 2: "[", 3: "]", 4: "⌈", 5: "⌉", 6: "⌊", 7: "⌋", 8: "+", 9: "-", 10: "/", 11: "*", 12: "^",
       13: "!", 14: "|", 15: "%", 16: ",", 17: "=", 18: "√", 19: "dot", 20: "cross", 21: "\\n", 22: ";",
       23: "delete", 24: "clear", 25: "as"}
F1 = "#3ff0000000000000"
F0 = "#0000000000000000"
F2 = "#4000000000000000"


def tokdesc(code, line, col, variant=0):
    if code == 26:
        name = ["x", "f", "sin"][variant % 3]
        return "26@%d:%d:%s:%s" % (line, col, hx(name), hx(name))
    if code == 27:
        bits = [F0, F2][variant % 2]
        return "27@%d:%d:%s:%s_%s" % (line, col, hx(["0", "2"][variant % 2]), bits, F0)
    if code == 28:
        u = [4, 14][variant % 2]
        return "28@%d:%d:%s:%d" % (line, col, hx(["m", "kg"][variant % 2]), u)
    return "%d@%d:%d:%s" % (code, line, col, hx(LEX[code]))


REDUCED = [0, 1, 2, 3, 14, 8, 9, 11, 12, 13, 18, 19, 20, 16, 17, 21, 22, 23, 24, 25, 26, 27, 28]
ALL_KINDS = list(range(29))


def parsek_exhaustive(alphabet, maxlen, prefix):
    n = 0
    for L in range(0, maxlen + 1):
        for combo in itertools.product(alphabet, repeat=L):
            descs = [tokdesc(c, 1, 1 + 2 * i, variant=i) for i, c in enumerate(combo)]
            yield "parsek %s%d %s" % (prefix, n, " ".join(descs))
            n += 1


# ------------------------------------------------------------------------------------------------
# expression / statement text generators

CONSTS = ["i", "e", "pi", "π", "tau", "phi", "ϕ", "c", "G"]
NUM_LITS = ["0", "1", "2", "3", "7", "10", "0.5", "2.5", "1.25", "1e3", "2.5e-3", "1e-7", "12.75", "100", "1e10", "3.14159"]
BIG_LITS = ["1e19", "1e308", "1e309", "9007199254740993", "4.9e-324", "1e-320", "170", "171", "1e18", "1e400"]

UNITS_BY_KIND = {
    "distance": ["nm", "µm", "μm", "mm", "cm", "m", "km", "in", "ft", "yd", "micrometer", "meters", "inches", "feet", "yards",
                 "nanometers", "kilometer", "centimeters", "millimeter"],
    "mass": ["ng", "µg", "mg", "g", "kg", "t", "oz", "lb", "lbs", "st", "grams", "kilograms", "tonnes", "ounces", "pounds", "stone",
             "nanogram", "micrograms", "milligram"],
    "temperature": ["°K", "K", "°C", "C", "°F", "F"],
    "storage": ["B", "KB", "MB", "GB", "TB", "PB", "EB", "KiB", "MiB", "GiB", "TiB", "PiB", "EiB",
                "b", "Kb", "Mb", "Gb", "Tb", "Pb", "Eb", "Kib", "Mib", "Gib", "Tib", "Pib", "Eib"],
}
TARGET_UNITS = {
    "distance": ["nm", "µm", "mm", "cm", "m", "km", "in", "ft"],
    "mass": ["ng", "µg", "mg", "g", "kg", "t", "oz", "lb", "st"],
    "temperature": ["°K", "°C", "°F"],
    "storage": UNITS_BY_KIND["storage"],
}


class ExprGen:
    """grammar-directed random expressions, one method per precedence level of parser.rs"""

    def __init__(self, rng, vars_num=("x", "y"), lits=None, allow_call=True, funcs=("sqrt", "abs", "re", "im", "conj", "sin", "cos", "ln")):
        self.rng = rng
        self.vars = list(vars_num)
        self.lits = lits or NUM_LITS
        self.allow_call = allow_call
        self.funcs = list(funcs)

    def atom(self):
        r = self.rng.random()
        if r < 0.5:
            return self.rng.choice(self.lits)
        if r < 0.75:
            return self.rng.choice(CONSTS)
        if self.vars:
            return self.rng.choice(self.vars)
        return self.rng.choice(self.lits)

    def primary(self, d):
        r = self.rng.random()
        if d <= 0 or r < 0.35:
            return self.atom()
        if r < 0.6:
            return "(" + self.expression(d - 1) + ")"
        if r < 0.7:
            return "|" + self.expression(d - 1) + "|"
        if r < 0.77:
            return "⌈" + self.term(d - 1, real=True) + "⌉"
        if r < 0.84:
            return "⌊" + self.term(d - 1, real=True) + "⌋"
        if self.allow_call and r < 0.95:
            return self.rng.choice(self.funcs) + "(" + self.expression(d - 1) + ")"
        return self.atom()

    def factorial(self, d):
        if self.rng.random() < 0.08:
            return self.rng.choice(["0", "1", "3", "5", "10", "20", "(2+1)"]) + "!"
        return self.primary(d)

    def unary(self, d):
        r = self.rng.random()
        if r < 0.12:
            return "-" + self.unary(d - 1)
        if r < 0.2:
            return "√" + self.unary(d - 1)
        return self.factorial(d)

    def exponent(self, d):
        left = self.unary(d)
        if d > 0 and self.rng.random() < 0.2:
            return left + self.sp() + "^" + self.sp() + self.exponent(d - 1)
        return left

    def factor(self, d, real=False):
        s = self.exponent(d)
        while d > 0 and self.rng.random() < 0.35:
            s += self.sp() + self.rng.choice(["*", "/", "%"] if not real else ["*", "/"]) + self.sp() + self.exponent(d - 1)
            d -= 1
        return s

    def term(self, d, real=False):
        s = self.factor(d, real)
        while d > 0 and self.rng.random() < 0.4:
            s += self.sp() + self.rng.choice(["+", "-"]) + self.sp() + self.factor(d - 1, real)
            d -= 1
        return s

    def expression(self, d):
        return self.term(d)

    def sp(self):
        return self.rng.choice(["", " ", " "])


def kind_atoms():
    """one or more representative texts per operand kind (DESIGN.md appendix E)"""
    return {
        "N": ["2", "0", "2.5", "(1+2*i)", "-3"],
        "Ql": ["5 km", "3 ft", "0 m"],
        "Qm": ["2 kg", "7 lb"],
        "Qt": ["20 °C", "300 K"],
        "Qs": ["3 KiB", "8 b"],
        "R": ["[1,2,3]", "[4,5,6]", "[1,2]", "[i,0]"],
        "C": ["[1;2;3]", "[4;5;6]", "[1;2]"],
        "M": ["[1,2;3,4]", "[0,1;1,0]", "[1,2,3;4,5,6]", "[1,2;3,4;5,6]", "[1,2;2,4]"],
        "O": ["[7]", "[0]"],
        "Fn": ["sin"],
        "Fu": ["f"],
    }


BINOPS = ["+", "-", "*", "/", "%", "^", "dot", "cross", "•", "×"]


def op_kind_matrix():
    """every binary operator x every ordered pair of operand kinds, every prefix/postfix/grouping x kind"""
    atoms = kind_atoms()
    out = []
    for op in BINOPS:
        for ka, la in atoms.items():
            for kb, lb in atoms.items():
                out.append("%s %s %s" % (la[0], op, lb[0]))
                if len(la) > 1 and len(lb) > 1:
                    out.append("%s %s %s" % (la[1], op, lb[1]))
    for k, l in atoms.items():
        for a in l:
            out += ["-%s" % a, "√%s" % a, "%s!" % a, "(%s)" % a, "|%s|" % a, "⌈%s⌉" % a, "⌊%s⌋" % a,
                    "%s as km" % a, "%s as kg" % a, "%s as °F" % a, "%s as MiB" % a, "%s(1)" % a, "[%s]" % a,
                    "[1, %s]" % a, "[1; %s]" % a]
    return out


def hist_case(cid, texts, tab=4):
    return "hist %s %d %s" % (cid, tab, " ".join(hx(t) for t in texts))


PRELUDE_F = "f(x) = x\n"
