"""Per-property stream definitions: which cases, which observables (projection), which monitors."""
import itertools, os, random, re
from . import gen, core
from .core import hx

# ------------------------------------------------------------------------------------------------
# projections


def norm_abort(line):
    p = line.split(" ", 1)[0]
    if p in ("PANIC", "CRASH", "TIMEOUT"):
        return "ABORT"
    return None


def proj_values(with_info=False, with_pos=False, with_text=False, with_env=False, with_stmt=False, consts_only=False):
    def f(line):
        a = norm_abort(line)
        if a:
            return a
        parts = line.split(" ")
        if parts[0] == "FUEL" or len(parts) < 2:
            return line
        tag = parts[1]
        if tag.startswith("O"):
            if parts[2] == "val":
                out = parts[:4]
                if with_text:
                    out = out + [parts[-1]]
                return " ".join(out)
            if parts[2] == "err":
                out = parts[:4]
                if with_pos:
                    out = out + parts[4:6]
                if with_info:
                    out = out + [parts[6]]
                return " ".join(out)
            return " ".join(parts[:3])
        if tag == "scanerr":
            return " ".join(parts[:5]) if with_pos else parts[0] + " scanerr"
        if tag == "parseerr":
            return " ".join(parts[:6]) if with_pos else " ".join(parts[:3])
        if tag == "empty":
            return line
        if tag.startswith("E"):
            if consts_only:
                return " ".join(parts[:2] + [parts[-1]])       # only the digest of the constant entries
            return line if with_env else None
        if tag.startswith("S"):
            return (core.POS_RE.sub("@", line) if not with_pos else line) if with_stmt else None
        return line
    return f


def proj_parse(with_pos):
    def f(line):
        a = norm_abort(line)
        if a:
            return a
        if line.startswith("PARSE err"):
            parts = line.split(" ")
            return line if with_pos else " ".join(parts[:3])
        if line.startswith("PARSE scanerr"):
            return line if with_pos else "PARSE scanerr"
        return line if with_pos else core.POS_RE.sub("@", line)
    return f


def proj_tok(with_pos=True):
    def f(line):
        a = norm_abort(line)
        if a:
            return a
        if with_pos:
            return line
        if line.startswith("TOK bad"):
            return "TOK bad " + line.split(" ")[4]
        return core.POS_RE.sub("@", line)
    return f


def proj_abort_only(line):
    a = norm_abort(line)
    if a:
        return a
    if line.startswith("FUEL"):
        return line
    return None


# ------------------------------------------------------------------------------------------------
# shared case families


def numbers_for(rng, n, big=False):
    g = gen.ExprGen(rng, lits=gen.NUM_LITS + (gen.BIG_LITS if big else []))
    for k in range(n):
        d = rng.choice([1, 2, 3, 4, 5, 6])
        yield g.expression(d)


def expr_cases(prefix, exprs, prelude="x = 3\ny = 0.5 - 2*i\nf(x) = x\n", tab=4):
    for k, e in enumerate(exprs):
        yield gen.hist_case("%s%d" % (prefix, k), [prelude, e + "\n"] if prelude else [e + "\n"], tab)


# numeric classes a generator of "typical" values does not reach: halves, signed zero, subnormals, the edges of the
# exactly representable integers, neighbours in the last bit, long decimal texts, the printer's magnitude thresholds
VALUE_CLASSES = ["0", "(0*-1)", "0.5", "1.5", "2.5", "-0.5", "-1.5", "-2.5", "1", "-1", "2", "3", "10", "0.1", "0.2", "0.30000000000000004", "0.1+0.2",
                 "4.9e-324", "-4.9e-324", "2.2250738585072014e-308", "2.225073858507201e-308", "1e-7", "0.000001", "1e15", "1e16", "1e17", "1e21", "1e22",
                 "9007199254740991", "9007199254740992", "9007199254740993", "9007199254740994", "4503599627370496.5", "4503599627370497.5",
                 "0.49999999999999994", "0.5000000000000001", "1.0000000000000002", "0.9999999999999999", "123456789012345678901234567890",
                 "0.1000000000000000055511151231257827021181583404541015625", "1.7976931348623157e308", "8.98846567431158e307", "170", "171", "-170",
                 "i", "(0-i)", "(0.5*i)", "(1+i)", "(1-i)", "(1e-320*i)", "(3+4*i)", "(1e308*10)", "(0-1e308*10)", "(1e308*10-1e308*10)"]


MAGS = ["0", "1", "-1", "0.5", "2.75", "1e12", "1e-12", "123456.789", "(2+3*i)", "(0-i)"]


def conversion_exprs(spellings_by_kind, quick):
    out = []
    kinds = list(gen.UNITS_BY_KIND)
    for kind in kinds:
        sp = spellings_by_kind[kind]
        targets = gen.TARGET_UNITS[kind]
        for s in sp:
            for t in targets:
                for m in (MAGS[:4] if quick else MAGS):
                    if m[0].isdigit():
                        out.append("%s %s as %s" % (m, s, t))      # NUMBER UNIT needs a plain literal
                # any magnitude, also negative and complex ones, enters through `as`
                for m in ("(2+3*i)", "(0-1.5)", "(0.5-2*i)") if quick else MAGS:
                    out.append("(%s as %s) as %s" % (m, s, t))
        # the literal written without a blank between number and unit, for every spelling (also what the calculator prints)
        for sp_ in sp:
            for m in ("12", "1.5", "2.5e3", "1e-3", "0"):
                out.append("%s%s as %s" % (m, sp_, targets[0]))
                out.append("%s%s" % (m, sp_))
        # three-unit paths
        for a, b, c in itertools.islice(itertools.permutations(targets, 3), 0, 60 if quick else 2000):
            out.append("2.5 %s as %s as %s" % (a, b, c))
            out.append("(2.5 %s as %s) as %s" % (a, b, a))
        # cross-kind
        for other in kinds:
            if other != kind:
                out.append("1 %s as %s" % (sp[0], gen.TARGET_UNITS[other][0]))
                out.append("(1 %s) as %s" % (sp[-1], gen.TARGET_UNITS[other][-1]))
        for a, b, c in itertools.islice(itertools.permutations(targets, 3), 0, 30 if quick else 500):
            out.append("(((1.5+2*i) as %s) as %s) as %s" % (a, b, c))
            out.append("(((1.5+2*i) as %s) as %s) as %s" % (a, b, a))
        for a, b in itertools.islice(itertools.permutations(targets, 2), 0, 12 if quick else 200):
            out += ["f(2.5 %s) as %s" % (a, b), "cv(x) = x as %s\ncv(2.5 %s)" % (b, a), "f(f(1 %s)) as %s" % (a, b), "cv(x) = x as %s\ncv(7)" % b]
        for t in targets:
            out += ["3 as %s" % t, "(1+2*i) as %s" % t, "0 as %s" % t, "x as %s" % t, "1 + 2 as %s" % t, "2 * 3 %s as %s" % (t, targets[0])]
    return out


def measurement_exprs(rng, quick):
    out = []
    for kind in ("distance", "mass", "storage"):
        us = gen.TARGET_UNITS[kind]
        pairs = list(itertools.product(us, us))
        if quick:
            pairs = pairs[:: max(1, len(pairs) // 80)]
        for a, b in pairs:
            m1 = rng.choice(["1", "2.5", "1e15", "1e-15", "3", "0", "(1+i)"])
            m2 = rng.choice(["4", "0.125", "1e9", "7e-9", "1", "(2-i)"])
            q1 = "%s %s" % (m1, a) if m1[0].isdigit() else "(%s as %s)" % (m1, a)     # NUMBER UNIT needs a plain literal
            q2 = "%s %s" % (m2, b) if m2[0].isdigit() else "(%s as %s)" % (m2, b)
            out += ["%s + %s" % (q1, q2), "%s - %s" % (q1, q2), "(%s + %s) as %s" % (q1, q2, a)]
        for a in us:
            for k in ["2", "0", "1", "-1", "0.5", "1e10", "(1+i)", "i", "(0*i)", "1e-16", "1e-20", "1e-300", "(1e-17*i)", "1e300", "(0*-1)"]:
                out += ["6 %s * %s" % (a, k), "%s * 6 %s" % (k, a), "6 %s / %s" % (a, k), "(6 %s / %s) * %s" % (a, k, k),
                        "6 %s * (1/%s)" % (a, k), "-(6 %s)" % a, "-1 * 6 %s" % a, "%s / 6 %s" % (k, a)]
            for ex in ["0", "1", "1.0", "(2-1)", "2", "0.5", "-1", "i"]:
                out += ["6 %s ^ %s" % (a, ex), "(6 %s) ^ %s" % (a, ex), "%s ^ 6 %s" % (ex, a), "6 %s %% %s" % (a, ex)]
            out += ["-(i * 5 %s)" % a, "-((1+2*i) * 3 %s)" % a, "(i * 5 %s) + (-(i * 5 %s))" % (a, a), "-((2+3*i) as %s)" % a,
                    "-(-(2 %s))" % a, "-(2 %s) + 2 %s" % (a, a), "(1+i) * 2 %s - (1+i) * 2 %s" % (a, a)]
            out += ["6 %s %% 2" % a, "6 %s ^ 2" % a, "√(4 %s)" % a, "(3 %s)!" % a, "|3 %s|" % a, "⌈3.5 %s⌉" % a, "⌊3.5 %s⌋" % a,
                    "2 %s * 3 %s" % (a, a), "2 %s / 3 %s" % (a, a), "(2 %s)" % a, "2 %s + 1" % a, "1 - 2 %s" % a]
    for kind, base in (("distance", "m"), ("mass", "kg"), ("storage", "B")):
        for u in gen.TARGET_UNITS[kind]:
            out += ["1 %s + 1 %s" % (u, base), "1 %s - 1 %s" % (base, u), "(3 %s * 2) as %s" % (u, base), "8 %s - 1 %s" % (u, u), "1 %s / 1 %s" % (u, base) if False else "2 %s + 2 %s" % (u, u)]
    for kind, base in (("distance", "m"), ("mass", "kg"), ("storage", "B")):
        for u in gen.TARGET_UNITS[kind]:
            for mg in ("0", "1", "10", "0.0", "1e3", "0e0", "00", "0.5"):
                out += ["%s%s + 1%s" % (mg, u, base), "%s%s" % (mg, u), "1%s - %s%s" % (base, mg, u), "%s%s * 5" % (mg, u), "-%s%s" % (mg, u)]
    for a_, b_ in [("3kg", "500g"), ("1m", "2m"), ("5km", "5m"), ("2.5KiB", "512B"), ("1e3mg", "1g"), ("7lb", "3oz")]:
        out += ["%s-%s" % (a_, b_), "%s -%s" % (a_, b_), "%s- %s" % (a_, b_), "%s+%s" % (a_, b_), "(%s-%s) as %s" % (a_, b_, "mm" if a_.endswith("m") and not a_.endswith("km") else "g" if "g" in a_ else "B" if "B" in a_ else "m" if "km" in a_ else "oz"),
                "f(%s-%s)" % (a_, b_), "-%s" % a_, "-%s+%s" % (a_, b_), "2*%s-%s" % (a_, b_), "%s*2-%s" % (a_, b_), "%s/2-%s" % (a_, b_)]
    near = [("1000000000000.5 B", "1 TB"), ("2000.000000001 kg", "2 t"), ("1000.0000000001 m", "1 km"), ("1.0000000000001 km", "1000 m"), ("1000000.0000001 mg", "1 kg"),
            ("1024.0000000001 KiB", "1 MiB"), ("100.00000000001 cm", "1 m"), ("1e12 nm + 0.001 nm", "1 km"), ("1000.0000000001 m", "1000 m"), ("1 km", "1000 m"), ("1 km", "999.9999999999 m")]
    for a_, b_ in near:
        out += ["%s - %s" % (a_, b_), "%s - %s" % (b_, a_), "%s + -(%s)" % (a_, b_), "(%s - %s) * 1e12" % (a_, b_), "%s + %s" % (a_, b_)]
    for a in ("m", "kg", "B", "km"):
        for num in ("(1+2*i)", "(0.5-3*i)", "(2*i)"):
            for k in ("2", "-4", "0.5", "1e3", "(1+i)", "i"):
                out += ["(%s as %s) / %s" % (num, a, k), "(%s as %s) * %s" % (num, a, k), "((%s as %s) / %s) * %s" % (num, a, k, k), "%s * (%s as %s)" % (k, num, a)]
    out += ["1 m + 1 kg", "1 kg - 1 B", "1 B + 1 °C", "1 km * 1 kg", "1 m / 1 s", "2 °C + 3 °C", "2 °F * 2", "-(5 °C)"]
    return out


MATS = {
    (1, 1): ["[7]", "[0]", "[2+i]"],
    (1, 2): ["[1,2]", "[0,0]"], (1, 3): ["[1,2,3]", "[4,5,6]", "[i,0,1]", "[0,0,0]"], (1, 4): ["[1,2,3,4]"],
    (2, 1): ["[1;2]"], (3, 1): ["[1;2;3]", "[4;5;6]", "[0;0;0]"], (4, 1): ["[1;2;3;4]"],
    (2, 2): ["[1,2;3,4]", "[0,1;1,0]", "[1,2;2,4]", "[i,1;0,2-i]", "[0,0;0,0]", "[1e-8,1;1,1e8]"],
    (2, 3): ["[1,2,3;4,5,6]"], (3, 2): ["[1,2;3,4;5,6]"],
    (3, 3): ["[1,2,3;4,5,6;7,8,10]", "[0,1,0;0,0,1;1,0,0]", "[1,2,3;4,5,6;7,8,9]", "[2,0,0;0,3,0;0,0,i]", "[1,0,0;0,0,0;0,0,1]"],
    (2, 4): ["[1,2,3,4;5,6,7,8]"], (4, 2): ["[1,2;3,4;5,6;7,8]"], (3, 4): ["[1,2,3,4;5,6,7,8;9,1,2,3]"], (4, 3): ["[1,2,3;4,5,6;7,8,9;1,2,4]"],
    (4, 4): ["[1,2,3,4;0,1,2,3;0,0,1,2;1,0,0,1]", "[0,0,0,1;0,0,1,0;0,1,0,0;1,0,0,0]", "[1,2,3,4;5,6,7,8;9,10,11,12;13,14,15,16]"],
    (5, 5): ["[2,1,0,0,0;1,2,1,0,0;0,1,2,1,0;0,0,1,2,1;0,0,0,1,2]"],
}


def rand_matrix(rng, r, c, complex_=False, ints=True):
    def entry():
        v = str(rng.randrange(-9, 10)) if ints else rng.choice(["0.5", "-1.25", "3", "1e3", "2.5e-2", "0"])
        if complex_ and rng.random() < 0.4:
            v = "%s%s%s*i" % (v, rng.choice(["+", "-"]), rng.randrange(1, 9))
        return v
    return "[" + ";".join(",".join(entry() for _ in range(c)) for _ in range(r)) + "]"


def shape_pair_exprs(maxdim=4):
    out = []
    shapes = [s for s in MATS if max(s) <= maxdim]
    for sa in shapes:
        for sb in shapes:
            for op in ["+", "-", "*", "dot", "cross", "/", "•", "×"]:
                out.append("%s %s %s" % (MATS[sa][0], op, MATS[sb][0]))
    return out


def matrix_exprs(rng, quick):
    out = []
    v3 = ["[1,2,3]", "[4,5,6]", "[7,8,10]", "[1,0,0]", "[0,1,0]", "[i,1,2]"]
    for a in v3[:4]:
        for b in v3[1:5]:
            for c in v3[2:]:
                out += ["%s cross %s cross %s" % (a, b, c), "%s × %s × %s" % (a, b, c), "%s cross %s dot %s" % (a, b, c), "%s dot %s cross %s" % (a, b, c),
                        "%s - %s - %s" % (a, b, c), "%s cross %s - %s" % (a, b, c), "%s cross -%s cross %s" % (a, b, c)]
    out += ["[1,2;3,4] * [0,1;1,0] * [2,0;0,3]", "[1,2;3,4] - [0,1;1,0] - [2,0;0,3]", "[1,2;3,4] / 2 / 2", "2 * [1,2;3,4] * 3", "[1,2;3,4] * [1;2] dot [3;4]",
            "[1,2,3] cross [4,5,6] cross [7,8,10] cross [1,1,1]", "[1,2] dot [3,4] dot 5", "[1,2,3] dot [4,5,6] * [1,1]",
            # entries that are matrices themselves (1x1 included) are refused
            "[[5], 2]", "[[1,2,3]*[4;5;6], 1]", "[inverse([2]), 0]", "[transpose([3]), 1; 2, 3]", "[[1,2], 3]", "[identity(1), 1]", "[determinant([2]), 0]", "[[1]]", "[[[1]]]",
            "ee(q) = [q, 1; 0, q]\nee([7])", "ee(q) = [q, 1; 0, q]\nee(7)", "[|[3,4]|, 1]", "[[3,4] dot [1,2], 1]"]
    shapes = [s for s in MATS if max(s) <= (4 if quick else 5)]
    for sa in shapes:
        for sb in shapes:
            a, b = MATS[sa][0], MATS[sb][0]
            for op in ["+", "-", "*", "dot", "cross", "/"]:
                out.append("%s %s %s" % (a, op, b))
    for s in shapes:
        for m in MATS[s]:
            out += ["transpose(%s)" % m, "transpose(transpose(%s))" % m, "-%s" % m, "%s * 2" % m, "(1+i) * %s" % m, "%s / 4" % m, "%s / 0" % m, "%s / i" % m, "%s / (2*i)" % m, "%s / (0-3*i)" % m, "%s / (1+i)" % m, "(%s / i) * i" % m, "%s * i" % m, "%s / (0*i)" % m,
                    "|%s|" % m, "determinant(%s)" % m, "inverse(%s)" % m, "%s * inverse(%s)" % (m, m), "inverse(%s) * %s" % (m, m),
                    "%s + %s" % (m, m), "%s - %s" % (m, m), "%s ^ 2" % m, "2 / %s" % m, "%s %% 2" % m, "%s!" % m]
    # scale classes: "refused exactly when the determinant is zero" must not depend on magnitude
    for k in ["1e-3", "1e-8", "1e-9", "(1/134217728)", "1e-12", "1e-100", "1e-160", "1e8", "1e100", "(1e-9*i)", "0"]:
        out += ["inverse([%s])" % k, "inverse([%s,0;0,%s])" % (k, k), "inverse([%s,0,0;0,%s,0;0,0,1])" % (k, k),
                "[%s,0;0,%s] * inverse([%s,0;0,%s])" % (k, k, k, k), "determinant([%s,0;0,%s])" % (k, k),
                "inverse([1,2;3,4] * %s)" % k, "inverse(identity(3) * %s)" % k]
    for k, kinv in [("1e-200", "1e200"), ("1e-170", "1e170"), ("1e200", "1e-200"), ("1e-100", "1e100")]:
        out += ["[%s,2*%s;3*%s,4*%s] * [%s,0;0,%s]" % (k, k, k, k, kinv, kinv), "[%s,0;0,%s] * [%s,2*%s;3*%s,4*%s]" % (kinv, kinv, k, k, k, k),
                "[%s, %s] * [%s; %s]" % (k, k, kinv, kinv), "[%s; %s] * [%s, %s]" % (k, k, kinv, kinv), "[1,2;3,4] * %s * %s" % (k, kinv),
                "[%s, 1] dot [%s, 1]" % (k, kinv), "|[%s, %s]| * %s" % (k, k, kinv)]
    for name, arg in [("transpose", "[1,2;3,4]"), ("determinant", "[1,2;3,4]"), ("inverse", "[1,2;3,4]"), ("identity", "2")]:
        out += ["clear\n%s(%s)" % (name, arg), "delete %s\n%s(%s)" % (name, name, arg), "%s = inverse\n%s(%s)" % (name, name, arg),
                "tt = %s\ntt(q) = q\n%s(%s)" % (name, name, arg), "%s(q) = q\n%s(%s)" % (name, name, arg)]
    for n in range(1, 5 if quick else 6):
        for _ in range(6 if quick else 30):
            a = rand_matrix(rng, n, n, complex_=rng.random() < 0.3)
            b = rand_matrix(rng, n, n, complex_=rng.random() < 0.3)
            out += ["determinant(%s * %s) - determinant(%s) * determinant(%s)" % (a, b, a, b),
                    "transpose(%s * %s) - transpose(%s) * transpose(%s)" % (a, b, b, a),
                    "%s * inverse(%s)" % (a, a), "determinant(%s)" % a, "inverse(%s)" % b, "%s * %s" % (a, b)]
    # zero patterns: every 3x3 matrix over {0,1} (512), a sample of 4x4 ones, and banded / triangular / Hessenberg shapes
    import itertools as _it
    for bits in _it.product("01", repeat=9):
        m = "[%s,%s,%s;%s,%s,%s;%s,%s,%s]" % bits
        out += ["determinant(%s)" % m, "inverse(%s)" % m]
    for _ in range(150 if quick else 3000):
        n = rng.choice([3, 4, 4, 5]) if not quick else rng.choice([3, 4, 4])
        style = rng.choice(["sparse", "tri", "hess", "upper", "lower", "perm"])
        def ent(i, j):
            v = rng.randrange(1, 9) * rng.choice([1, -1])
            if style == "sparse":
                return v if rng.random() < 0.4 else 0
            if style == "tri":
                return v if abs(i - j) <= 1 else 0
            if style == "hess":
                return v if i <= j + 1 else 0
            if style == "upper":
                return v if i <= j else 0
            if style == "lower":
                return v if i >= j else 0
            return 0
        rows = [[ent(i, j) for j in range(n)] for i in range(n)]
        if style == "perm":
            perm = list(range(n)); rng.shuffle(perm)
            for i in range(n):
                rows[i][perm[i]] = rng.choice([1, 1, -1, 2])
        m = "[" + ";".join(",".join(str(x) for x in r) for r in rows) + "]"
        out += ["determinant(%s)" % m, "inverse(%s)" % m, "%s * inverse(%s)" % (m, m)]
    # sizes beyond 4 in every tier (an implementation may switch algorithm with the size): every transposition and the
    # cyclic shift of identity(n), n = 5..7, and dense matrices whose leading pivots are zero
    for n in (5, 6, 7):
        perms = []
        for a in range(n):
            for b in range(a + 1, n):
                q = list(range(n)); q[a], q[b] = q[b], q[a]; perms.append(q)
        perms = (perms if n == 5 else perms[:6]) + [[(i + 1) % n for i in range(n)], list(range(n))]
        for q in perms:
            m = "[" + ";".join(",".join("1" if q[i] == j else "0" for j in range(n)) for i in range(n)) + "]"
            out += ["determinant(%s)" % m, "inverse(%s)" % m]
        for _ in range(3):
            rows = [[rng.randrange(-4, 5) for j in range(n)] for i in range(n)]
            rows[0][0] = 0
            rows[1][1] = 0 if rng.random() < 0.5 else rows[1][1]
            rows[1][0] = rows[1][0] or 1
            m = "[" + ";".join(",".join(str(x) for x in r) for r in rows) + "]"
            out += ["determinant(%s)" % m, "inverse(%s)" % m, "%s * inverse(%s)" % (m, m)]
    for _ in range(20 if quick else 200):
        u = rand_matrix(rng, 1, 3, complex_=rng.random() < 0.3)
        v = rand_matrix(rng, 1, 3)
        uc = u.replace(",", ";")
        vc = v.replace(",", ";")
        out += ["%s cross %s" % (u, v), "(%s cross %s) dot %s" % (u, v, u), "(%s cross %s) dot %s" % (u, v, v),
                "%s cross %s + %s cross %s" % (u, v, v, u), "%s cross %s" % (uc, vc), "%s dot %s" % (uc, vc), "|%s|" % u, "|%s|" % uc]
    # 1x1 matrices everywhere a vector, a matrix or a scalar could stand
    for a in ["[2]", "[0]", "[-3]", "[2+i]"]:
        for b in ["[3]", "[0]", "2", "[1,2]", "[1;2]", "[1,2;3,4]"]:
            for op in ["+", "-", "*", "/", "dot", "cross", "^", "%"]:
                out += ["%s %s %s" % (a, op, b), "%s %s %s" % (b, op, a)]
        out += ["|%s|" % a, "-%s" % a, "%s!" % a, "√%s" % a, "determinant(%s)" % a, "inverse(%s)" % a, "transpose(%s)" % a, "⌈%s⌉" % a, "%s as m" % a, "%s(1)" % a]
    out += ["identity(%d)" % n for n in range(1, 6)] + ["identity(0)", "identity(-1)", "identity(2.5)", "identity(i)", "identity([1])",
            "[1, 2 m]", "[1, sin]", "[[1,2], 3]", "[1, [2]]", "[x, y; 1, 2]", "[1/0, 2]", "[1, 2; 3]", "determinant([1,2,3;4,5,6])",
            "inverse([1,2,3;4,5,6])", "transpose(3)", "determinant(2)", "[1,2;3,4] * identity(2)", "identity(3) * [1;2;3]"]
    return out


BOUNDARY2 = ["18446744073709551616", "9223372036854775808", "4294967296", "2147483648", "-9223372036854775808", "0", "1", "-1", "6", "0.5", "1e999", "-1e999", "(1e999-1e999)", "i", "[7]", "1e19", "9007199254740993", "5 m", "sin"]
ARG_VALUES = ["[0]", "[0,0;0,0]", "(0*i)", "0", "1", "-1", "0.5", "-0.5", "2", "9007199254740993", "9007199254740991", "1e19", "-1e19", "1e999", "-1e999",
              "(1e999-1e999)", "i", "(1+i)", "(2-3*i)", "(0.5+0.25*i)", "[7]", "[1,2;3,4]", "[1,2,3]", "[1,2;2,4]", "[1,2;3,4;5,6]",
              "5 m", "sin", "f", "12", "18", "-12", "4e9", "1e300", "0.3", "170", "3"]
BUILTIN_NAMES = ["sin", "cos", "tan", "asin", "acos", "atan", "sinh", "cosh", "tanh", "asinh", "acosh", "atanh", "re", "im", "arg", "conj",
                 "identity", "transpose", "determinant", "inverse", "abs", "ceil", "floor", "log", "log2", "log10", "ln", "sqrt", "gcd", "lcm"]


def builtin_exprs(rng, quick):
    out = []
    for name in BUILTIN_NAMES:
        out.append("%s()" % name)
        out.append(name)
        for a in ARG_VALUES:
            if name == "identity" and a in ("1e19", "9007199254740993", "9007199254740991", "4e9", "1e300"):
                continue  # known finding K4: allocation of an astronomically large identity matrix
            out.append("%s(%s)" % (name, a))
        vals2 = ARG_VALUES if not quick else ARG_VALUES[:: 3]
        for a in vals2:
            for b in (vals2 if name in ("log", "gcd", "lcm") else vals2[:3]):
                if name == "identity":
                    continue
                out.append("%s(%s, %s)" % (name, a, b))
        if name in ("log", "gcd", "lcm"):
            # every ordered pair of domain-boundary values (quick and thorough)
            for a in BOUNDARY2:
                for b in BOUNDARY2:
                    out.append("%s(%s, %s)" % (name, a, b))
        out.append("%s(1, 2, 3)" % name)
    for c in gen.CONSTS:
        out += [c, "%s + 0" % c, "%s(1)" % c]
    # interior points and identities
    for _ in range(60 if quick else 600):
        z = "(%s%s%s*i)" % (rng.choice(["0.3", "1.7", "-2.2", "0.01", "5"]), rng.choice(["+", "-"]), rng.choice(["0.4", "1.1", "3", "0.02"]))
        x = rng.choice(["0.3", "1.7", "2.2", "0.01", "5", "12.5"])
        out += ["sin(%s)^2 + cos(%s)^2" % (z, z), "e^ln(%s)" % z, "ln(e^%s)" % x, "abs(%s)^2 - re(%s)^2 - im(%s)^2" % (z, z, z),
                "tan(%s) - sin(%s)/cos(%s)" % (z, z, z), "sqrt(%s)^2" % z, "log(2, %s) - log2(%s)" % (x, x), "log(10, %s) - log10(%s)" % (x, x),
                "sinh(%s) - (e^%s - e^(-%s))/2" % (x, x, x), "asin(sin(%s))" % rng.choice(["0.3", "1.1", "-0.7"]), "atanh(tanh(%s))" % rng.choice(["0.3", "1.1"]),
                "conj(%s) * %s - abs(%s)^2" % (z, z, z), "arg(%s)" % z, "ceil(%s)" % x, "floor(-%s)" % x]
    for _ in range(40 if quick else 400):
        a, b = rng.randrange(-10 ** 6, 10 ** 6), rng.randrange(-10 ** 6, 10 ** 6)
        out += ["gcd(%d, %d)" % (a, b), "lcm(%d, %d)" % (a, b), "gcd(%d, %d) * lcm(%d, %d)" % (a, b, a, b)]
    out += ["gcd(0, 0)", "lcm(0, 0)", "gcd(0, 5)", "lcm(0, 5)", "gcd(-1e19, 0)", "lcm(4e9, 4e9+1)", "gcd(1e300, 1e299)", "gcd(2^62, 2^61)",
            "lcm(1e200, 1e200)", "gcd(1.5, 3)", "gcd(3, i)"]
    return out


HIST_ALPHABET = [
    "x = 1", "x = 1/0", "f(a) = a", "f(q) = q + 1", "f(a, k) = a + k", "f(0) = 7", "f(n) = n + x", "f = 3", "x(a) = a",
    "h = f", "h(a) = 2", "h(a, k) = 5", "delete h(a)", "delete f(a)", "delete f(0)", "delete f", "delete h", "delete x",
    "clear", "sin = 1", "sin(a) = a", "delete sin", "delete sin(a)", "pi = 3", "s = sin", "s(a) = a",
]
HIST_PROBES = "x\nf\nh\ns\nf(0)\nf(1)\nf(1, 2)\nh(1)\nh(1, 2)\ns(0)\nsin(0)\npi\n"
HIST_PROBES_MORE = HIST_PROBES + "gg\nk\ny\nhh\nhh(1)\né\nünï_1\nans\n_\nlast\nπ\nϕ\ntau\nClear\nDot\n"
HIST_EXTRA = ["delete s(a)", "delete s", "h = sin", "f(x) = x * 2", "f(1) = 1", "f(1, y) = y", "delete f(1, y)", "delete f(q)", "delete f(a, k)",
              "y = f", "y = x", "x = x + 1", "f(a) = f", "gg(0) = 1; gg(n) = n * gg(n - 1)", "gg(5)", "gg(0) = 1; gg(n) = n * gg(n - 1); delete gg(n)",
              "e = 2", "delete pi", "i(x) = x", "delete i(x)", "c = sin", "cos(0) = 1", "delete cos(0)", "f() = 9", "f()", "delete f()",
              "h = (f)", "k(a) = h(a)", "k(1)", "x = [1,2;3,4]", "x = 5 km", "delete x(a)", "x = f(1)", "f(a, a) = a", "f(3, 4)",
              "unknown", "delete unknown", "delete unknown(a)", "1 +", "x = ", "f(a+1) = 2", "delete 3", "x = 2; y = x; delete x; y",
              # copies of copies, names reused for another kind of value, the same statement twice, third redefinitions
              "hh = h", "hh(a) = 3", "delete hh(a)", "delete hh", "hh", "hh(1)", "h = hh", "f = h", "x = f", "x = sin", "f = x", "f = [1,2]", "f = 2 km", "f(a) = a; f(a) = a",
              "f(a) = 1; f(a) = 2; f(a) = 3", "f(a) = 1; f(p) = 2; f(q) = 3; f", "delete f(a); delete f(a)", "clear; clear", "x = 1; x = 1", "h = f; h = f",
              "f(a) = a; h = f; hh = h; delete hh(a); f; h", "f(a) = a; f(a, k) = k; h = f; delete h(a); delete h(a, k); h; f", "x = x", "f = f", "h = h; h(a) = 9; h",
              "gg(0) = 0; gg(n) = n * gg(n - 1); gg(0) = 1; gg(5)", "gg(0) = 1; gg(n) = n * gg(n - 1); gg(n) = n * gg(n - 1); gg(3)",
              "f(a) = 1; f(a, k) = 2; f(a, k, q) = 3; f(1, 2); delete f(u, v); delete f(u, v)", "delete f()", "delete x()", "delete s()", "delete sin()", "f(); x(); s()",
              "π = 3", "delete ϕ", "π(a) = a", "delete ϕ(1)", "tau = 1", "delete e", "c = 1", "G(a) = a", "i = 2", "phi = 1", "delete i", "e(a) = a", "π", "ϕ", "tau; c; G; i; e; phi",
              "Clear", "CLEAR", "DELETE x", "Delete f(a)", "x = 1; Clear; x", "Dot = 1", "As = 2", "Cross(a) = a", "cLeAr", "deLete = 3", "1 Dot 2", "5 As km",
              "1 + 1", "2 * 3; x", "ans", "ans = 5", "ans(a) = a", "_", "last", "7; ans; _; last; it; result",
              "é = 2", "é(a) = a", "é", "ünï_1 = é", "delete é", "f(é) = é * 2", "f(2)", "x = 3 m; x = x as cm; x", "x = [1,2;3,4]; x = x * x; x", "x = f; x(a) = 0; f"]


def hist_exhaustive(maxlen):
    n = 0
    for L in range(1, maxlen + 1):
        for combo in itertools.product(HIST_ALPHABET, repeat=L):
            yield gen.hist_case("hx%d" % n, [s + "\n" for s in combo] + [HIST_PROBES])
            n += 1


def hist_random(rng, count, maxlen=40):
    for k in range(count):
        L = rng.choice([2, 4, 6, 10, 20, maxlen])
        texts = []
        for _ in range(L):
            s = rng.choice(HIST_ALPHABET) if rng.random() < 0.6 else rng.choice(HIST_EXTRA)
            texts.append(s + "\n")
            if rng.random() < 0.3:
                texts.append(HIST_PROBES)
        texts.append(HIST_PROBES_MORE)
        yield gen.hist_case("hr%d" % k, texts)


def hist_generated(rng, count):
    """histories built from templates over a small universe of names with generated expressions: copies (also through a
    grouping or a call), redefinitions with renamed parameters, parameters that shadow globals / built-ins, deletes,
    clears, calls of every arity, then a probe text"""
    names_v = ["x", "y", "acc", "Rate"]
    names_f = ["f", "h", "k", "sq", "w"]
    params = ["a", "n", "x", "y", "e", "pi", "f", "sin", "acc"]
    g = gen.ExprGen(rng, vars_num=("x", "y", "acc"), funcs=("f", "h", "k", "sq", "sqrt", "abs", "sin"))
    gb = gen.ExprGen(rng, vars_num=("x", "y", "acc"), funcs=("sqrt", "abs", "sin", "re"))     # bodies never call user functions:
    for c in range(count):                                                                      # unbounded recursion is a known finding
        texts = []
        for _ in range(rng.choice([3, 5, 8, 12, 20, 30])):
            r = rng.random()
            fn, fn2 = rng.choice(names_f), rng.choice(names_f)
            v = rng.choice(names_v)
            p1, p2 = rng.choice(params), rng.choice(params)
            if r < 0.15:
                t = "%s = %s" % (v, g.expression(rng.choice([0, 1, 2])))
            elif r < 0.3:
                t = "%s(%s) = %s" % (fn, p1, rng.choice(["%s + 1" % p1, "%s * x" % p1, "1 / %s" % p1, "sqrt(%s)" % p1, gb.expression(1), "[%s, 1]" % p1, "%s m" % rng.randrange(1, 9)]))
            elif r < 0.4:
                t = "%s(%s, %s) = %s" % (fn, p1, rng.choice(params + ["0", "1"]), rng.choice(["%s + 1" % p1, "0", "%s - %s" % (p1, p2)]))
            elif r < 0.46:
                t = "%s(%s) = %s" % (fn, rng.choice(["0", "1", "2.5"]), rng.randrange(100))
            elif r < 0.55:
                t = "%s = %s" % (fn, rng.choice([fn2, "(%s)" % fn2, "sin", "%s(1)" % fn2]))
            elif r < 0.62:
                t = "delete %s(%s)" % (fn, rng.choice([p1, "0", "1", "%s, %s" % (p1, p2), ""]))
            elif r < 0.68:
                t = "delete %s" % rng.choice(names_f + names_v)
            elif r < 0.71:
                t = "clear"
            elif r < 0.8:
                t = "%s(%s)" % (fn, ", ".join(rng.choice(["1", "0", "x", "2.5", "[1,2]", "y", "sin"]) for _ in range(rng.randrange(0, 4))))
            elif r < 0.86:
                t = "%s = %s(%s)" % (v, fn, rng.choice(["1", "0", "x", "1, 2"]))
            elif r < 0.9:
                t = rng.choice(["%s = 3" % p1, "%s(q) = q" % p1, "delete %s" % p1]) if p1 in ("e", "pi", "sin") else "%s" % v
            else:
                t = rng.choice([fn, v, "k(q) = q", "x = x + 1", "acc = acc * 2", "Rate = 1; rate = 2; RATE"])
            texts.append(t + "\n")
        texts.append("x\ny\nacc\nf\nh\nk\nsq\nw\nf(1)\nh(1)\nk(1)\nsq(2)\nw(0)\nf(1, 2)\ne\npi\nsin(0)\n")
        yield gen.hist_case("hg%d" % c, texts)


def statement_programs(rng, count, faulty=0.3):
    """programs of 1..8 statements, some of them failing"""
    g = gen.ExprGen(rng)
    stmts_ok = ["x = %s", "%s", "y = %s", "f(a) = a + %s", "f(2)", "x", "clear", "delete x", "f(a, b) = a * b - %s", "f(1, 2)", "[1, 2; 3, %s]",
                "5 km + 3 m * %s", "z = [1, 2, 3] cross [%s, 0, 1]", "w(0) = %s", "w(0)", "w(1)"]
    stmts_bad = ["1 / 0", "unknown + 1", "sin(1, 2)", "ceil(i)", "5 m + 1", "[1, 2] * [3, 4]", "pi = 3", "delete sin", "2.5!", "sin = 2",
                 "(1 m)!", "|sin|", "⌈i⌉", "3(4)", "delete nothing", "[1, 5 m]", "inverse([1,2;2,4])", "1 m as kg", "f(1,2,3,4)", "-sin", "delete x(a)"]
    for k in range(count):
        n = rng.randrange(1, 9)
        lines = []
        for _ in range(n):
            if rng.random() < faulty:
                lines.append(rng.choice(stmts_bad))
            else:
                t = rng.choice(stmts_ok)
                lines.append(t % g.expression(rng.choice([0, 1, 2])) if "%s" in t else t)
        yield lines


def render_program(rng, lines, seps=("\n",)):
    return "".join(l + rng.choice(seps) for l in lines)
