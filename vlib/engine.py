"""Verdict logic of one check (DESIGN.md section 5): obligations, disagreements, monitors, search,
VIOLATION / KNOWN-FINDING lines, replay files, evidence."""
import re, hashlib, json, os, random, re, sys, time
from . import core
from .core import InfraError, VERIF, WORK

TRUSTED_BASE = [
    "Lean 4.33.0 kernel; axioms allowed in property theorems: propext, Classical.choice, Quot.sound (audited by #print axioms on every run)",
    "Mathlib v4.33.0 as the definition of the mathematics the properties refer to (Matrix.det, adjugate, crossProduct, Complex, Nat.factorial)",
    "the hand-written Lean model Calc/Model/*.lean: all of /repo is modelled, none of it verified directly; its faithfulness is what the correspondence streams exercised on this run",
    "Calc/Generated/*.lean regenerated from the compiled tree by harness dump + gen_tables.py (translator, trusted)",
    "harness/src/*.rs (in-process executor, replica of process_text validated against the real binary by the front stream), vlib/*.py (generators, comparison)",
    "executable Float kernel Calc/Exec/*.lean (formulas of num-complex 0.4.6, glibc libm via @[extern], own decimal<->binary64 routines validated by the fmt stream); occurs in no theorem",
    "Rust std f64::from_str / Display, char::is_alphanumeric, HashMap, UTF-8 slicing; num-complex transcendental functions; clap; rustyline (observed, not modelled)",
]


def load_known():
    p = os.path.join(VERIF, "known_findings.json")
    if not os.path.exists(p):
        return []
    return json.load(open(p)).get("findings", [])


class Report:
    def __init__(self, pid, tier, seed):
        self.pid, self.tier, self.seed = pid, tier, seed
        self.t0 = time.time()
        self.obligations = []        # (name, ok, detail)
        self.violations = []         # dicts with replay content
        self.known_hits = {}         # key -> text
        self.evaluations = 0
        self.distinct = set()
        self.samples = []
        self.dist = {}
        self.unjudged = {}
        self.streams = {}
        self.exhaustive = []
        self.notes = []
        self.dirty_streams = set()

    def count(self, key, n=1):
        self.dist[key] = self.dist.get(key, 0) + n

    def oblige(self, name, ok, detail=""):
        self.obligations.append((name, bool(ok), detail))

    def violation(self, what, case=None, impl=None, model=None, oracle=None, found_input=True, stream=None):
        self.violations.append(dict(what=what, case=case, impl=impl, model=model, oracle=oracle,
                                    found_input=found_input, stream=stream))
        self.dirty_streams.add(stream)


def known_match(known, pid, key_text):
    for k in known:
        if k.get("status") == "known" and k["property"] == pid and k["key"] in key_text:
            return k
    return None


def finish(rep, checker_cmd, rule, extra_cov=None):
    """print verdict lines, write replays and evidence, return the exit status"""
    known = load_known()
    OUT = os.environ.get("VERIF_OUT", VERIF)   # the self-test redirects evidence and replays of mutated trees
    os.makedirs(os.path.join(OUT, "replays"), exist_ok=True)
    os.makedirs(os.path.join(OUT, "evidence"), exist_ok=True)
    real = []
    for v in rep.violations:
        key_text = json.dumps(v, ensure_ascii=False, sort_keys=True)
        k = known_match(known, rep.pid, key_text)
        if k:
            rep.known_hits[k["key"]] = k["what"]
        else:
            real.append(v)
    for key, what in sorted(rep.known_hits.items()):
        print("KNOWN-FINDING: property=%s %s" % (rep.pid, what))
    # an obligation that failed only because of listed known findings counts as discharged
    real_streams = set(v.get("stream") for v in real)
    known_streams = set(v.get("stream") for v in rep.violations) - real_streams
    fixed_obl = []
    for n, ok, d in rep.obligations:
        if not ok and any(ks and ("stream %s:" % ks) in n for ks in known_streams):
            fixed_obl.append((n, True, d + " (all of them listed known findings)"))
        else:
            fixed_obl.append((n, ok, d))
    rep.obligations = fixed_obl
    failed_obl = [o for o in rep.obligations if not o[1]]
    status = 0
    seen = set()
    # group violations by their description so that one defect is one VIOLATION line
    for v in real:
        sig = v["what"]
        if sig in seen:
            continue
        seen.add(sig)
        if len(seen) > 3:
            break
        h = hashlib.sha1(json.dumps(v, ensure_ascii=False, sort_keys=True).encode()).hexdigest()[:12]
        path = os.path.join(OUT, "replays", "%s-%s.json" % (rep.pid, h))
        v2 = dict(v, property=rep.pid, seed=rep.seed, tier=rep.tier,
                  replay_cmd="./check %s --replay %s" % (rep.pid, path))
        json.dump(v2, open(path, "w"), indent=1, ensure_ascii=False)
        tail = "" if v["found_input"] else " no-failing-input-found"
        print("VIOLATION property=%s replay=%s%s" % (rep.pid, path, tail))
        status = 1
    discharged = sum(1 for o in rep.obligations if o[1])
    cov = {
        "obligations": len(rep.obligations),
        "discharged": discharged,
        "checker_cmd": checker_cmd,
        "trusted_base": TRUSTED_BASE,
        "evaluations": rep.evaluations,
        "distinct_nontrivial": len(rep.distinct),
        "rule": rule,
        "samples": rep.samples[:12],
        "obligation_list": [{"name": n, "ok": ok, "detail": d[:300]} for n, ok, d in rep.obligations],
        "input_distribution": dict(sorted(rep.dist.items())),
        "unjudged": rep.unjudged,
        "streams": rep.streams,
        "known_findings_hit": sorted(rep.known_hits),
        "notes": rep.notes,
    }
    if rep.exhaustive:
        cov["exhaustive"] = True
        cov["exhaustive_spaces"] = rep.exhaustive
    if extra_cov:
        cov.update(extra_cov)
    ev = {
        "property_id": rep.pid, "tier": rep.tier, "seed": rep.seed, "level": "proof", "coverage": cov,
        "assumptions": TRUSTED_BASE, "wall_s": round(time.time() - rep.t0, 2), "violations": len(seen),
    }
    json.dump(ev, open(os.path.join(OUT, "evidence", "%s.json" % rep.pid), "w"), indent=1, ensure_ascii=False)
    if status == 0 and failed_obl:
        # an obligation failed but nothing was turned into a violation: still not shown to hold
        path = os.path.join(OUT, "replays", "%s-obligation.json" % rep.pid)
        json.dump(dict(property=rep.pid, failed=[o[0] + ": " + o[2] for o in failed_obl]), open(path, "w"), indent=1)
        print("VIOLATION property=%s replay=%s no-failing-input-found" % (rep.pid, path))
        status = 1
    print("%s %s: %d obligations (%d discharged), %d cases, %d distinct non-trivial, %d known findings, %.1fs -> %s" % (
        rep.pid, rep.tier, len(rep.obligations), discharged, rep.evaluations, len(rep.distinct), len(rep.known_hits),
        time.time() - rep.t0, ("OK" if status == 0 else "VIOLATION") + (" (black-box mode: the harness does not build against this tree; see notes in the evidence)" if getattr(rep, "blackbox", False) else "")))
    return status


# ---------------------------------------------------------------------------------------------
# Lean obligations

ALLOWED_AXIOMS = {"propext", "Classical.choice", "Quot.sound"}
FORBIDDEN_RE = re.compile(r"\b(sorry|admit|native_decide|bv_decide|implemented_by|unsafe)\b|^\s*axiom\s|maxHeartbeats\s+0")


def strip_comments(src):
    # remove /- ... -/ (nested) and -- ... comments
    out, i, depth = [], 0, 0
    while i < len(src):
        if src.startswith("/-", i):
            depth += 1; i += 2; continue
        if src.startswith("-/", i) and depth > 0:
            depth -= 1; i += 2; continue
        if depth == 0:
            if src.startswith("--", i):
                j = src.find("\n", i)
                i = len(src) if j < 0 else j
                continue
            out.append(src[i])
        i += 1
    return "".join(out)


def ready_modules(pid):
    """theorem modules registered as complete for this property (lean/READY.json)"""
    reg = json.load(open(os.path.join(core.LEAN, "READY.json")))
    return reg.get(pid, [])


def lean_obligations(rep, pid, tier):
    """build Props.<module> and Audit.<module> of every registered module of the property; parse
    `#print axioms`; grep for forbidden constructs"""
    mods = ready_modules(pid)
    if not mods:
        rep.notes.append("no theorem module registered yet for " + pid)
        rc, out = core.lake_build(["calcdriver"])
        if rc != 0:
            raise InfraError(out[-2000:])
        return
    targets = ["calcdriver"]
    audits = []
    for m in mods:
        targets.append("Calc.Props." + m)
        audit = os.path.join(core.LEAN, "Calc", "Audit", m + ".lean")
        if os.path.exists(audit):
            audits.append(audit)
            targets.append("Calc.Audit." + m)
            # force the audit to print again: its output is the obligation
            for ext in (".olean", ".ilean", ".trace", ".hash"):
                f = os.path.join(core.LEAN, ".lake", "build", "lib", "lean", "Calc", "Audit", m + ext)
                if os.path.exists(f):
                    os.remove(f)
    rc, out = core.lake_build(targets)
    if rc != 0:
        # which module failed?
        failed = re.findall(r"^✖ \[\d+/\d+\] Building (\S+)", out, re.M) + re.findall(r"^- (\S+)$", out, re.M)
        detail = out[-1500:]
        if any(m.startswith("Calc.Props") or m.startswith("Calc.Proofs") or m.startswith("Calc.Audit") or m.startswith("Calc.Spec") for m in failed):
            errs = re.findall(r"error: (\S+?):(\d+):\d+: (.*)", out)
            rep.oblige("lake build %s" % " ".join(targets[1:]), False, "failed modules: %s; first errors: %s" % (sorted(set(failed)), errs[:3]))
            rep.lean_failure = (sorted(set(failed)), errs[:5], detail)
            return
        raise InfraError("lake build failed outside the property's theorem files:\n" + detail)
    rep.oblige("lake build %s (kernel re-checks every theorem)" % " ".join(t for t in targets[1:] if ".Props." in t), True)
    # axiom audit
    blocks = re.findall(r"'([^']+)' (depends on axioms: \[([^\]]*)\]|does not depend on any axioms)", out)
    if audits:
        wanted = []
        for audit in audits:
            wanted += re.findall(r"#print axioms\s+(\S+)", strip_comments(open(audit).read()))
        got = {}
        for name, _, axs in blocks:
            got[name] = set(a.strip() for a in axs.replace("\n", " ").split(",") if a.strip())
        for w in wanted:
            if w not in got:
                rep.oblige("axioms of %s" % w, False, "no #print axioms output")
            else:
                extra = got[w] - ALLOWED_AXIOMS
                rep.oblige("axioms of %s ⊆ {propext, Classical.choice, Quot.sound}" % w, not extra, "extra: %s" % sorted(extra) if extra else "")
        rep.theorems = wanted
    # forbidden constructs in the theorem cone (every Calc module the registered theorems import)
    bad = []
    seen, todo = set(), ["Calc.Props." + m for m in mods]
    while todo:
        mod = todo.pop()
        if mod in seen or not mod.startswith("Calc."):
            continue
        seen.add(mod)
        path = os.path.join(core.LEAN, *mod.split(".")) + ".lean"
        if not os.path.exists(path):
            continue
        src = strip_comments(open(path).read())
        todo += re.findall(r"^import\s+(\S+)", src, re.M)
        if ".Exec." in mod:
            continue
        for ln, line in enumerate(src.splitlines(), 1):
            if FORBIDDEN_RE.search(line):
                bad.append("%s:%d %s" % (mod, ln, line.strip()[:60]))
    rep.cone = sorted(seen)
    rep.oblige("no sorry/admit/axiom/native_decide/bv_decide/implemented_by/unsafe/maxHeartbeats 0 in the %d modules of the theorem cone" % len(seen), not bad, "; ".join(bad[:5]))
    if tier == "thorough":
        for m in mods:
            rc, o = core.sh(["lake", "env", "leanchecker", "Calc.Props." + m], cwd=core.LEAN, timeout=3600)
            rep.oblige("leanchecker Calc.Props.%s (independent re-check of the compiled theorems)" % m, rc == 0, o[-300:])


# ---------------------------------------------------------------------------------------------
# one correspondence stream


LOCATED = re.compile(r"^Line (\d+), Column (\d+) :: .+$")


def blackbox_stream(rep, repo, name, cases):
    """Black-box mode (the harness does not build against this tree): the hist cases of the stream are run through
    the real binary — one text as the argument, two as preload file + argument, more as prompt lines — and stdout is
    compared line by line with the executable model's prediction: printed values exactly, diagnostics by their
    `Line l, Column c :: ` prefix (the line number only where the mode preserves it)."""
    from . import front
    import concurrent.futures
    key = core.repo_key(repo)
    d = os.path.join(WORK, "%s-%s-%s-bb" % (rep.pid, key, rep.tier))
    os.makedirs(d, exist_ok=True)
    cpath = os.path.join(d, name + ".cases")
    lines = [c for c in cases if c.startswith("hist ") and len(c) < 20000]
    cap = 1200 if rep.tier == "quick" else 12000
    if len(lines) > cap:
        step = len(lines) / float(cap)
        lines = [lines[int(i * step)] for i in range(cap)]
    with open(cpath, "w") as f:
        for c in lines:
            f.write(c + "\n")
    rep._cpath = cpath
    if not lines:
        return {}, {}, [], {}, cpath
    core.run_model(cpath, os.path.join(d, name + ".model"))
    b = core.read_obs(os.path.join(d, name + ".model"))
    ctx = dict(repo=repo, rep=rep)
    banner, goodbye = front.framing(ctx)

    def plan(c):
        p = c.split(" ")
        cid, tab, texts = p[1], int(p[2]), [core.unhx(t) for t in p[3:]]
        obs = b.get(cid) or []
        if any(l.split(" ")[0] in ("PANIC", "fuel") or " fuel" in l for l in obs):
            return None
        if any("\x00" in t for t in texts):
            return None
        if len(texts) == 1:
            return cid, dict(id=cid, tab=tab, file=None, expr=texts[0], stdin=None), obs, True
        if len(texts) == 2:
            return cid, dict(id=cid, tab=tab, file=texts[0], expr=texts[1], stdin=None), obs, True
        # prompt mode: every text must be accepted by the model (then line-by-line processing reads the same statements)
        if any(len(l.split(" ")) > 1 and l.split(" ")[1] in ("parseerr", "scanerr") for l in obs):
            return None
        ls = []
        for t in texts:
            for l in (t[:-1] if t.endswith("\n") else t).split("\n"):
                if l.strip().lower() == "exit" or "\r" in l:
                    return None
                ls.append(l)
        return cid, dict(id=cid, tab=tab, file=None, expr=None, stdin=ls, end=None, after=[]), obs, False

    def expected(obs):
        exp = []
        for l in obs:
            p = l.split(" ")
            if len(p) < 2 or l.startswith("MON "):
                continue
            if p[1] in ("scanerr", "parseerr"):
                lc = (p[2], p[3]) if p[1] == "scanerr" else (p[3], p[4])
                exp.append(("diag", lc))
            elif p[1][:1] == "O" and len(p) > 2:
                if p[2] == "val":
                    exp.append(("text", core.unhx(p[-1][5:])))
                elif p[2] == "err":
                    exp.append(("diag", (p[4], p[5])))
        return exp

    def judge(item):
        cid, s, obs, keep_lines = item
        rc, so, se = front.run_binary(ctx, s)
        out = so
        if s["expr"] is None:
            if not out.startswith(banner + "\n") or not out.endswith(goodbye + "\n"):
                return cid, s, "the prompt session is not framed by its banner and goodbye lines", so
            out = out[len(banner) + 1: len(out) - len(goodbye) - 1]
        if rc != 0:
            return cid, s, "exit status %d" % rc, so
        pos = 0
        for kind, v in expected(obs):
            if kind == "text":
                if not out.startswith(v, pos):
                    return cid, s, "expected the printed value %r at offset %d" % (v[:80], pos), so
                pos += len(v)
            else:
                e = out.find("\n", pos)
                line = out[pos:e] if e >= 0 else out[pos:]
                m = LOCATED.match(line)
                if not m:
                    return cid, s, "expected one located diagnostic line, got %r" % line[:120], so
                if v[1] not in ("-", m.group(2)) or (keep_lines and v[0] not in ("-", m.group(1))):
                    return cid, s, "diagnostic at line %s column %s, the model gives line %s column %s" % (m.group(1), m.group(2), v[0], v[1]), so
                pos = e + 1 if e >= 0 else len(out)
        if pos != len(out):
            return cid, s, "output the model does not predict: %r" % out[pos:pos + 120], so
        return None

    items = [x for x in (plan(c) for c in lines) if x]
    bad = 0
    with concurrent.futures.ThreadPoolExecutor(max_workers=12) as ex:
        for r in ex.map(judge, items):
            if r:
                bad += 1
                if bad <= 3:
                    cid, s, why, so = r
                    rep.violation("black-box %s: the binary and the model disagree on %s: %s" % (name, front.describe(s)[:500], why), case=front.json_case(s),
                                  impl=dict(stdout=so[:3000]), model=b.get(cid), stream=name,
                                  oracle="black-box mode: printed values byte for byte, diagnostics by line and column, nothing else printed")
    rep.evaluations += len(items)
    rep.streams[name] = dict(cases=len(items), impl_s=0, model_s=0, disagreements=bad, numeric_within_4ulp=0, incidents=0)
    rep.oblige("black-box stream %s: binary stdout = model prediction on %d of the property's programs" % (name, len(items)), bad == 0, "%d disagreements" % bad)
    for cid, lines_ in b.items():
        rep.distinct.add(hash(tuple(lines_)))
    return {}, b, [], {}, cpath


def run_stream(rep, repo, name, cases, project=None, stall_s=20, keep_lines=None, impl_only=False):
    """Run `cases` (iterable of case lines) on both executors.  Returns (impl_obs, model_obs, incidents,
    case_by_id).  `project(line) -> str|None` selects / reduces the observables the property is about."""
    if getattr(rep, "blackbox", False):
        if impl_only:
            for _ in cases:     # streams judged on the in-process implementation alone have no black-box counterpart
                pass
            return {}, {}, [], {}, None
        return blackbox_stream(rep, repo, name, cases)
    # one working directory per property, tree and tier, so that checks of different trees (./selftest) or tiers can
    # run side by side
    key = core.repo_key(repo)
    d = os.path.join(WORK, rep.pid if key == "default" and rep.tier == "quick" else "%s-%s-%s" % (rep.pid, key, rep.tier))
    os.makedirs(d, exist_ok=True)
    cpath = os.path.join(d, name + ".cases")
    n = 0
    case_by_id = {}
    with open(cpath, "w") as f:
        for c in cases:
            f.write(c + "\n")
            n += 1
            if keep_lines is None or n <= keep_lines:
                case_by_id[c.split(" ", 2)[1]] = c
    if n == 0:
        return {}, {}, [], {}, cpath
    t0 = time.time()
    shards = 1 if n < 600 else min(12, n // 300)
    if shards == 1:
        incidents = core.run_impl(repo, cpath, os.path.join(d, name + ".impl"), stall_s=stall_s)
        t1 = time.time()
        if not impl_only:
            core.run_model(cpath, os.path.join(d, name + ".model"))
        t2 = time.time()
        a = core.read_obs(os.path.join(d, name + ".impl"))
        b = core.read_obs(os.path.join(d, name + ".model")) if not impl_only else {}
    else:
        # shard the case file and run the executors on all cores
        import concurrent.futures
        paths = [os.path.join(d, "%s.shard%d" % (name, i)) for i in range(shards)]
        outs = [open(p, "w") for p in paths]
        with open(cpath) as f:
            for i, line in enumerate(f):
                outs[i % shards].write(line)
        for o in outs:
            o.close()
        incidents = []
        with concurrent.futures.ThreadPoolExecutor(max_workers=shards) as ex:
            futs = [ex.submit(core.run_impl, repo, p, p + ".impl", stall_s) for p in paths]
            for fu in futs:
                incidents += fu.result()
            t1 = time.time()
            if not impl_only:
                futs = [ex.submit(core.run_model, p, p + ".model") for p in paths]
                for fu in futs:
                    fu.result()
        t2 = time.time()
        a, b = {}, {}
        for p in paths:
            a.update(core.read_obs(p + ".impl"))
            if not impl_only:
                b.update(core.read_obs(p + ".model"))
            for q in (p, p + ".impl", p + ".model", p + ".impl.stdout"):
                if os.path.exists(q):
                    os.remove(q)
    rep.evaluations += n
    rep.streams[name] = dict(cases=n, impl_s=round(t1 - t0, 2), model_s=round(t2 - t1, 2), disagreements=0,
                             numeric_within_4ulp=0, incidents=len(incidents))
    rep._cpath = cpath
    return a, b, incidents, case_by_id, cpath


def find_case(cpath, cid):
    with open(cpath) as f:
        for line in f:
            if line.split(" ", 2)[1] == cid:
                return line.rstrip("\n")
    return None


def compare_stream(rep, name, a, b, cpath, project=None, max_report=5, on_disagree=None):
    """compare projected observation lists case by case; returns list of disagreeing case ids"""
    bad = []
    st = rep.streams[name]
    for cid, la in a.items():
        lb = b.get(cid)
        if lb is None:
            bad.append((cid, 0, "<no model output>", ""))
            continue
        pa = [l for l in la if not core.is_mon(l)]
        pb = lb
        if project:
            pa = [x for x in (project(l) for l in pa) if x is not None]
            pb = [x for x in (project(l) for l in pb) if x is not None]
        if pa == pb:
            continue
        m = min(len(pa), len(pb))
        diff = None
        for i in range(m):
            eq, numeric = core.lines_equal(pa[i], pb[i])
            if not eq:
                diff = (cid, i, pa[i], pb[i])
                break
            if numeric:
                st["numeric_within_4ulp"] += 1
        if diff is None and len(pa) != len(pb):
            diff = (cid, m, pa[m] if len(pa) > m else "<end>", pb[m] if len(pb) > m else "<end>")
        if diff:
            bad.append(diff)
    st["disagreements"] = len(bad)
    return bad
