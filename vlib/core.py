"""Build, run and compare: the shared machinery of every check (DESIGN.md sections 2, 4, 5)."""
import time, fcntl, hashlib, json, os, re, shutil, signal, subprocess, sys, time

VERIF = os.path.dirname(os.path.dirname(os.path.abspath(__file__)))
WORK = os.path.join(VERIF, "work")
LEAN = os.path.join(VERIF, "lean")
HARNESS = os.path.join(VERIF, "harness")
ENV = dict(os.environ, CARGO_NET_OFFLINE="true", RUST_BACKTRACE="0")


class InfraError(Exception):
    """a build failure that is not an obligation of the property (exit 2, no VIOLATION line)"""


def hx(s):
    return s.encode("utf-8").hex() if s else "-"


def unhx(h):
    return "" if h == "-" else bytes.fromhex(h).decode("utf-8", "replace")


def sh(cmd, cwd=None, env=None, timeout=None):
    p = subprocess.run(cmd, cwd=cwd, env=env or ENV, stdout=subprocess.PIPE, stderr=subprocess.STDOUT,
                       text=True, timeout=timeout)
    return p.returncode, p.stdout


class Lock:
    def __init__(self, name):
        os.makedirs(WORK, exist_ok=True)
        self.path = os.path.join(WORK, name)

    def __enter__(self):
        self.f = open(self.path, "w")
        fcntl.flock(self.f, fcntl.LOCK_EX)
        return self

    def __exit__(self, *a):
        fcntl.flock(self.f, fcntl.LOCK_UN)
        self.f.close()


def repo_key(repo):
    return "default" if os.path.abspath(repo) == "/repo" else hashlib.sha1(os.path.abspath(repo).encode()).hexdigest()[:10]


def harness_bin(repo):
    return os.path.join(WORK, "target-" + repo_key(repo), "release", "harness")


def calculator_bin(repo):
    return os.path.join(WORK, "repo-target-" + repo_key(repo), "debug", "calculator")


def driver_bin():
    return os.path.join(LEAN, ".lake", "build", "bin", "calcdriver")


SPEC_SPELLINGS = os.path.join(VERIF, "spec", "spellings.txt")


BLACKBOX = set()        # trees for which this process has fallen back to black-box mode


def build_impl(repo, need_binary=False, log=None):
    """cargo build of the harness against the repo's current working tree (+ the calculator binary)"""
    if os.path.abspath(repo) in BLACKBOX:
        ok, out = build_binary(repo)
        if not ok:
            raise InfraError("the calculator binary does not build\n" + out[-3000:])
        return
    with Lock(".build.lock"):
        tmpl = open(os.path.join(HARNESS, "Cargo.toml.in")).read().replace("@REPO@", os.path.abspath(repo))
        toml = os.path.join(HARNESS, "Cargo.toml")
        if not os.path.exists(toml) or open(toml).read() != tmpl:
            open(toml, "w").write(tmpl)
        lock_src = os.path.join(repo, "Cargo.lock")
        lock_dst = os.path.join(HARNESS, "Cargo.lock")
        if not os.path.exists(lock_dst) or open(lock_dst).read() != open(lock_src).read():
            shutil.copy(lock_src, lock_dst)
        env = dict(ENV, CALC_REPO=os.path.abspath(repo), CARGO_TARGET_DIR=os.path.join(WORK, "target-" + repo_key(repo)))
        rc, out = sh(["cargo", "build", "--release", "--quiet"], cwd=HARNESS, env=env, timeout=1200)
        if rc != 0 and "error[E" not in out and "could not compile" not in out:
            # not a compile error of the tree (e.g. a transient lock on the cargo cache): try once more
            time.sleep(3)
            rc, out = sh(["cargo", "build", "--release", "--quiet"], cwd=HARNESS, env=env, timeout=1200)
        if rc != 0:
            try:
                open(os.path.join(WORK, "last-build-error.txt"), "w").write("%s\n%s\n%s" % (time.ctime(), repo, out))
            except OSError:
                pass
            raise InfraError("the harness does not build against %s (does the tree compile?)\n%s" % (repo, out[-3000:]))
        if need_binary:
            env2 = dict(ENV, CARGO_TARGET_DIR=os.path.join(WORK, "repo-target-" + repo_key(repo)))
            rc, out = sh(["cargo", "build", "--quiet", "--offline", "-p", "calculator"], cwd=repo, env=env2, timeout=1200)
            if rc != 0:
                raise InfraError("the calculator binary does not build\n" + out[-3000:])


_TABLES_LOCK = None


def build_binary(repo):
    """cargo build of the calculator binary of the tree alone (used when the harness cannot be built against it)"""
    with Lock(".build.lock"):
        env2 = dict(ENV, CARGO_TARGET_DIR=os.path.join(WORK, "repo-target-" + repo_key(repo)))
        rc, out = sh(["cargo", "build", "--quiet", "--offline", "-p", "calculator"], cwd=repo, env=env2, timeout=1200)
        return rc == 0, out


def last_good_dump():
    """the most recent dump of a tree the harness did build against (black-box mode keeps the generated tables as they are)"""
    cands = [os.path.join(WORK, f) for f in os.listdir(WORK) if f.startswith("dump-") and f.endswith(".json")] if os.path.isdir(WORK) else []
    pref = os.path.join(WORK, "dump-default.json")
    if os.path.exists(pref):
        return json.load(open(pref))
    if cands:
        return json.load(open(max(cands, key=os.path.getmtime)))
    raise InfraError("no table dump available for black-box mode (run setup.sh on a tree the harness builds against)")


def dump_tables(repo):
    """harness dump -> work/dump-<key>.json -> Calc/Generated/*.lean (rewritten only on change).
    The generated tables (and the model driver built from them) are shared by every check process, so a process
    holds work/.tables.lock shared from here to its exit while the tables are those of its tree, and exclusively
    while it rewrites them and relinks the driver: checks of different trees (./selftest next to ./check) take turns."""
    global _TABLES_LOCK
    sys.path.insert(0, VERIF)
    import gen_tables
    with Lock(".build.lock"):
        out = os.path.join(WORK, "dump-%s.json" % repo_key(repo))
        env = dict(ENV, KEYWORD_CANDIDATES=SPEC_SPELLINGS)
        rc, o = sh([harness_bin(repo), "dump", out], env=env, timeout=300)
        if rc != 0:
            raise InfraError("harness dump failed\n" + o[-2000:])
        d = json.load(open(out))
    outdir = os.path.join(LEAN, "Calc", "Generated")
    if _TABLES_LOCK is None:
        os.makedirs(WORK, exist_ok=True)
        _TABLES_LOCK = open(os.path.join(WORK, ".tables.lock"), "a+")
    changed = []
    try:
        while True:
            fcntl.flock(_TABLES_LOCK, fcntl.LOCK_SH)
            gen_tables.DRY = True
            try:
                pending = gen_tables.generate(d, outdir)
            finally:
                gen_tables.DRY = False
            if not pending and os.path.exists(driver_bin()):
                return d, changed
            fcntl.flock(_TABLES_LOCK, fcntl.LOCK_UN)
            fcntl.flock(_TABLES_LOCK, fcntl.LOCK_EX)
            changed += gen_tables.generate(d, outdir)
            rc, o = lake_build(["calcdriver"])
            if rc != 0:
                raise InfraError("the model driver does not build with the tables of this tree\n" + o[-3000:])
            fcntl.flock(_TABLES_LOCK, fcntl.LOCK_UN)
    except (AssertionError, SystemExit, KeyError) as e:
        raise InfraError("the tables of the tree no longer fit the model's types: %s" % e)


def lake_build(targets, timeout=3600):
    with Lock(".lake.lock"):
        rc, out = sh(["lake", "build"] + targets, cwd=LEAN, timeout=timeout)
        return rc, out


# ---------------------------------------------------------------------------------------------
# running the two executors


def run_impl(repo, cases_path, obs_path, stall_s=20):
    """Run the harness as a supervised worker.  Each case is journaled (BEGIN) before it runs; a dead
    or silent worker is attributed to the journaled case, and the worker is restarted after it."""
    for p in (obs_path, obs_path + ".stdout"):
        if os.path.exists(p):
            os.remove(p)
    open(obs_path, "w").close()
    ncases = sum(1 for _ in open(cases_path))
    start = 0
    incidents = []
    while start < ncases:
        proc = subprocess.Popen([harness_bin(repo), "run", cases_path, obs_path, str(start)], env=ENV,
                                stdout=subprocess.DEVNULL, stderr=subprocess.PIPE)
        last_size, last_change = -1, time.time()
        status = None
        while True:
            try:
                proc.wait(timeout=0.5)
                status = "exit"
                break
            except subprocess.TimeoutExpired:
                pass
            size = os.path.getsize(obs_path)
            if size != last_size:
                last_size, last_change = size, time.time()
            elif time.time() - last_change > stall_s:
                proc.kill()
                proc.wait()
                status = "stall"
                break
        if status == "exit" and proc.returncode == 0:
            break
        # find the journaled case that did not end
        last_begin = None
        with open(obs_path, "rb") as f:
            data = f.read()
        # drop a torn last line
        if not data.endswith(b"\n"):
            data = data[: data.rfind(b"\n") + 1]
        ended = True
        for line in data.decode("utf-8", "replace").splitlines():
            parts = line.split(" ")
            if len(parts) >= 3 and parts[1] == "BEGIN":
                last_begin = (parts[0], int(parts[2]))
                ended = False
            elif len(parts) >= 2 and parts[1] == "END":
                ended = True
        if last_begin is None or ended:
            err = proc.stderr.read().decode("utf-8", "replace")[-500:] if proc.stderr else ""
            raise InfraError("the harness worker died outside a case (rc=%s)\n%s" % (proc.returncode, err))
        cid, idx = last_begin
        what = "TIMEOUT" if status == "stall" else "CRASH rc=%s" % proc.returncode
        with open(obs_path, "wb") as f:
            f.write(data)
            f.write(("%s %s\n%s END\n" % (cid, what, cid)).encode())
        incidents.append((cid, what))
        start = idx + 1
    return incidents


def run_model(cases_path, obs_path, timeout=3600):
    with open(obs_path, "w") as out:
        p = subprocess.run([driver_bin(), cases_path], stdout=out, stderr=subprocess.PIPE, timeout=timeout)
    if p.returncode != 0:
        raise InfraError("the model driver failed: rc=%s %s" % (p.returncode, p.stderr.decode()[-500:]))


def read_obs(path):
    """id -> list of lines (without id, BEGIN/END dropped)"""
    obs = {}
    with open(path, encoding="utf-8", errors="replace") as f:
        for line in f:
            line = line.rstrip("\n")
            sp = line.find(" ")
            if sp < 0:
                continue
            cid, rest = line[:sp], line[sp + 1:]
            if rest.startswith("BEGIN"):
                obs.setdefault(cid, [])
                continue
            if rest == "END":
                continue
            obs.setdefault(cid, []).append(rest)
    return obs


# ---------------------------------------------------------------------------------------------
# comparison

FLOAT_RE = re.compile(r"#([0-9a-f]{16})")


def bits_to_ordered(b):
    n = int(b, 16)
    return -(n & 0x7FFFFFFFFFFFFFFF) if n >> 63 else n


def ulp_close(a, b, ulps=4):
    if a == b:
        return True
    na, nb = int(a, 16), int(b, 16)
    nan_a = (na & 0x7FFFFFFFFFFFFFFF) > 0x7FF0000000000000
    nan_b = (nb & 0x7FFFFFFFFFFFFFFF) > 0x7FF0000000000000
    if nan_a or nan_b:
        return nan_a and nan_b
    return abs(bits_to_ordered(a) - bits_to_ordered(b)) <= ulps


def lines_equal(a, b, ulps=4):
    """(equal?, numeric-only difference?)"""
    if a == b:
        return True, False
    fa, fb = FLOAT_RE.findall(a), FLOAT_RE.findall(b)
    if len(fa) != len(fb) or FLOAT_RE.sub("#", a) != FLOAT_RE.sub("#", b):
        return False, False
    return all(ulp_close(x, y, ulps) for x, y in zip(fa, fb)), True


POS_RE = re.compile(r"@\d+:\d+")
TEXT_RE = re.compile(r" text=\S+")


def is_mon(line):
    return line.startswith("MON ")
