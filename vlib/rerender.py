"""C17 (blank space / separator choice) and C18 (listings read back): two-phase streams that re-render what the
implementation itself produced and run it again."""
import os, re
from . import core, engine, gen, props
from .core import hx, unhx

TOK_RE = re.compile(r"\{(\d+)@(\d+):(\d+):([0-9a-f-]+)(?::([^}]*))?\}")


def parse_tokens(line):
    """'TOK ok {..}{..}' -> list of (tag, lexeme, payload)"""
    out = []
    for m in TOK_RE.finditer(line):
        lex = unhx(m.group(4))
        if int(m.group(1)) == 21:
            lex = "\n"
        out.append((int(m.group(1)), lex, m.group(5)))
    return out


def wordish(ch):
    return ch.isalnum() or ch in "_°"


NUM_RE = re.compile(r"^[0-9]+(\.[0-9]+)?(e-?[0-9]+)?$")


def needs_sep(a, b):
    """independent adjacency rule: a blank is needed only between two lexemes that would fuse.  A word fuses with
    anything that continues a word; a number fuses only with what continues a number: a digit, `.digit` when it has no
    fraction or exponent yet, `e digit` / `e - digit` when it has no exponent yet (`2i`, `2x`, `3pi` are two tokens)"""
    if not a or not b:
        return False
    if a[0].isascii() and a[0].isdigit() and NUM_RE.match(a):
        if b[0].isascii() and b[0].isdigit():
            return True
        has_exp = "e" in a
        has_frac = "." in a
        if b[0] == "." and len(b) > 1 and b[1].isdigit() and not has_frac and not has_exp:
            return True
        if b[0] == "e" and not has_exp:
            rest = b[1:]
            if rest[:1].isdigit() and rest[:1].isascii():
                return True
            if rest == "":          # `e` alone: the next lexeme could be `-` digit; keep the blank to stay on the safe side
                return True
        return False
    return wordish(a[-1]) and (wordish(b[0]) or b[0] == ".")


def render(tokens, rng, mode):
    out = []
    depth = 0
    prev = ""
    for tag, lex, _ in tokens:
        if tag == 2:
            depth += 1
        elif tag == 3:
            depth = max(0, depth - 1)
        if mode == "flip" and depth == 0 and tag in (21, 22):
            lex = ";" if tag == 21 else "\n"
        if mode == "blanks":
            sep = "".join(rng.choice([" ", " ", "\t", "\r", "  "]) for _ in range(rng.randrange(0, 4)))
            if needs_sep(prev, lex) and not sep:
                sep = " "
        elif mode == "minimal":
            sep = " " if needs_sep(prev, lex) else ""
        else:
            sep = " " if prev and prev != "\n" and lex != "\n" else ""
        out.append(sep + lex)
        prev = lex
    if mode == "blanks":
        out.append(rng.choice(["", " ", "\t\r"]))
    return "".join(out)


def strip_positions(lines):
    P = props.proj_values(with_text=False)
    return [x for x in (P(l) for l in lines if not l.startswith("MON ")) if x is not None]


def kinds_of(line):
    if not line.startswith("TOK ok"):
        return line.split(" ")[:2] + line.split(" ")[4:5]
    return [(t, l if t != 27 else None, p) for t, l, p in parse_tokens(line)]


def run_rerender(ctx):
    from . import judges
    rep, rng, quick = ctx["rep"], ctx["rng"], ctx["quick"]
    programs = []
    for lines in props.statement_programs(rng, 400 if quick else 8000, faulty=0.25):
        sep = rng.choice(["\n", ";", " ; ", "\n\n", ";;\n"])
        programs.append(sep.join(lines) + rng.choice(["\n", ";", ";\n\n"]))
    g = gen.ExprGen(rng, funcs=("sin", "sqrt", "f"))
    for k in range(300 if quick else 6000):
        programs.append("f(a)=a\n" + g.expression(rng.choice([2, 4, 6])) + rng.choice(["\n", ";"]) + "x=[1,2;3,4];x*x\n")
    programs += ["7e-x\n", "x=3;7e-x\n", "2e x\n", "1.5e-(3)\n", "10e+1\n", "3e\n", "2e--1\n", "1e5m\n", "2e-3 e\n", "10e + 1e-x 12.5e3\n", "1e\n", "1e-\n",
                 "2e-e\n", "1.5e\n", "3e-2e-1\n", "4e - 1\n", "x=1;2e-x;x e - 1\n", "12.5e3e\n", "1e1e1\n", "5 m2\n", "5m 2\n", "2x\n", "2 x\n", "x2\n", "ab\n", "a b\n"]
    programs += ["sq(x) =\nx^2\nsq(3)\n", "sq(x) =;x^2;sq(3)\n", "x =\n1\nx\n", "x =;1;x\n", "delete\nx\n", "f(\n1)\n", "1 +;2;", "x = 2;;x * 3\n", ";x = 5\nx\n", "x = 1\nx;;\n",
                 "clear\n;\nx\n", "[1,2\n]\n", "1 as\nkm\n", "f(a) = a;f(\n2)\n"]
    programs += ["g(x)=x*2;g(4)", "g (x)=x*2;g (4)", "5 m (2)", "5 m(2)", "t(3)", "t (3)", "2 km(1)", "2 km (1)", "m(1)", "in(2)", "st (3)", "B(1)+b (2)", "K(1)", "x = 3\nx(2)\nx (2)\n",
                 "sin(0)", "sin (0)", "f(a)=a\nf(1)\nf (1)\n", "f(a) =a;f( 1 )", "2(3)", "2 (3)", "(1)(2)", "(1) (2)", "[1](2)", "[1] (2)",
                 "x=3\nx*2", "x=3 \nx*2", "x=3\t\nx*2", "1/0 \n2+", "x = 1 \n\n \nx\n", "a=1 ;b=2 ;a+b", "a=1 \n", " \n \n1\n", "1 \r\n2 \r\n",
                 "3!!", "x = 4\nx!!\n", "3!!!", "3! !", "(3!)!", "hh(x) = x!!\nhh(3)\n", "2^3!!", "3!!+1", "200*50%", "w = 3\nw*10%\nw+1\n", "1 +", "1 -", "1 *", "1 /", "1 ^", "1 %", "1 dot", "1 cross",
                 "1 as", "-", "√", "5 !", "x = 3 %\nx\n", "2 %;3", "2 %\n3", "- -1", "--1", "1--1", "1 - -1", "2 ^-1", "2^ -1", "a=1;b=2;a--b", "||", "|1|2|3|", "| 1 | 2 | 3 |"]
    programs += ["2 i", "a + 2 i", "f(3 i)", "2 x", "3 pi", "2 (3)", "5 km m", "2 e", "2 e3", "2 e 3", "2 e - 3", "1.5 e2", "2 .5", "2. 5", "1 . 5", "2 in", "2 inch", "12 i n", "0 b", "0 b1",
                 "x = 2 i\nx\n", "1 2 3", "a b", "sin 0", "2 sin(0)", "10 e", "10 e-", "1 e²"]
    programs += ["1 +\n2", "x = \n", "[1, 2; 3]\n", "(1\n)", "1 2\n", "5 as\n", "# 1\n", "delete 3\n", "1e5m\n2e-3 e\n10e + 1e-x 12.5e3 1.\n",
                 "x=1;;;;x\n\n\n;x\n", ";\n", "", "\n\n", "[1,2\n;3,4]\n", "[1;\n2]\n", "f(a,\nb)=a\n"]
    # phase 1: tokens of the originals (implementation and model agree or C04 reports it)
    P_tok = props.proj_tok(False)
    a, b = judges.do_stream(ctx, "originals-tok", ("tok o%d 4 %s" % (k, hx(p)) for k, p in enumerate(programs)), P_tok)
    variants = []
    for k, p in enumerate(programs):
        lines = a.get("o%d" % k) or []
        if not lines or not lines[0].startswith("TOK ok"):
            continue
        toks = parse_tokens(lines[0])
        for mode in ("blanks", "minimal", "flip", "blanks"):
            variants.append((k, mode, render(toks, rng, mode)))
    # phase 2: token kinds / lexemes / number values of every variant equal the original's
    va, vb = judges.do_stream(ctx, "variants-tok", ("tok v%d_%d 4 %s" % (k, j, hx(t)) for j, (k, mode, t) in enumerate(variants)), P_tok)
    bad = 0
    for j, (k, mode, t) in enumerate(variants):
        o = a.get("o%d" % k, [""])[0]
        v = (va.get("v%d_%d" % (k, j)) or [""])[0]
        ko, kv = kinds_of(o), kinds_of(v)
        if mode == "flip":
            ko = [(22 if x[0] == 21 else x[0], None, x[2]) if isinstance(x, tuple) and x[0] in (21, 22) else x for x in ko]
            kv = [(22 if x[0] == 21 else x[0], None, x[2]) if isinstance(x, tuple) and x[0] in (21, 22) else x for x in kv]
        if ko != kv:
            bad += 1
            if bad <= 3:
                rep.violation("re-rendering (%s) changes the token sequence of %r" % (mode, programs[k]), case="tok x 4 %s" % hx(t),
                              impl=dict(original=o, variant=v), stream="variants-tok", oracle="same kinds, lexemes and number values expected")
    rep.oblige("re-rendered texts (random blanks, minimal spacing, flipped separators) scan to the original's tokens (%d variants)" % len(variants), bad == 0, "%d differ" % bad)
    # phase 3: per-statement outcomes
    P = props.proj_values(with_stmt=False)
    cases = [gen.hist_case("po%d" % k, [p if p.endswith("\n") else p + "\n"]) for k, p in enumerate(programs)]
    cases += [gen.hist_case("pv%d_%d" % (k, j), [t if t.endswith("\n") else t + "\n"]) for j, (k, mode, t) in enumerate(variants)]
    ha, hb = judges.do_stream(ctx, "outcomes", cases, P)
    bad = 0
    for j, (k, mode, t) in enumerate(variants):
        o = strip_positions(ha.get("po%d" % k, []))
        v = strip_positions(ha.get("pv%d_%d" % (k, j), []))
        if o != v:
            bad += 1
            if bad <= 3:
                rep.violation("re-rendering (%s) changes the outcome of %r" % (mode, programs[k]), case=gen.hist_case("x", [t + "\n"]),
                              impl=dict(original=o[:8], variant=v[:8], variant_text=t), stream="outcomes", oracle="same results and diagnostic kinds expected")
    rep.oblige("re-rendered programs give the original's results and diagnostic kinds (%d variants)" % len(variants), bad == 0, "%d differ" % bad)
    separator_choice_on_binary(ctx, rng, 40 if quick else 400)


def separator_choice_on_binary(ctx, rng, count):
    """the same statements in a preload file separated by newlines and by `;` (the real binary, file mode): same
    output lines up to positions and the separator's own spelling — also when one statement is malformed"""
    from . import front
    core.build_impl(ctx["repo"], need_binary=True)
    rep = ctx["rep"]
    broken = ["1 +", "x = ", ")", "5 as", "delete 3", "1 2", "f(a+1) = 2"]
    bad = n = 0
    POSRE = re.compile(r"Line \d+, Column \d+")
    SEPRE = re.compile(r"'(\\\\n|\\n|;)'")        # the quoted delimiter lexeme, whatever words surround it
    def norm(t):
        return SEPRE.sub("<sep>", POSRE.sub("Line _, Column _", t))
    for lines in props.statement_programs(rng, count, faulty=0.2):
        lines = [l for l in lines if "[" not in l][:6] or ["1"]
        if n % 2 == 0:
            lines.insert(rng.randrange(len(lines) + 1), rng.choice(broken))
        n += 1
        outs = []
        for sep in ("\n", ";", " ;\n"):
            s = dict(id="sep", tab=4, file=sep.join(lines) + sep, expr="x; y", stdin=None)
            outs.append(front.run_binary(ctx, s))
            rep.evaluations += 1
        if any(norm(o[1]) != norm(outs[0][1]) or o[0] != outs[0][0] for o in outs[1:]):
            bad += 1
            if bad <= 3:
                rep.violation("file mode: newline-separated and `;`-separated statements give different outputs for %r" % lines,
                              case="front-sep " + repr(lines), impl=[o[1] for o in outs], stream="separators-binary",
                              oracle="same results and diagnostic kinds expected, only positions may differ")
    # blank choice through the real binary at several tab sizes (tab-only blanks between word-like tokens)
    bad2 = m = 0
    for prog in ["w = 5 *\r2 ; v = w +\r\r1 ; v \r", "1 /\r0\r", "w = 5 *\r2\r", "w\r=\r3;\rw\r", "\rw = 1;\r\rw\r;", "delete\tw", "x\t=\t1500\tm\tas\tkm\nx", "f(a)\t=\ta\tdot\ta\nf([1,2])", "1\t2", "x\t=\t3\nx\tas\tm", "clear\tx"]:
        base = front.run_binary(ctx, dict(id="b", tab=4, file=None, expr=prog.replace("\t", " ").replace("\r", " "), stdin=None))
        for asfile in (True,):
            o = front.run_binary(ctx, dict(id="b", tab=4, file=prog, expr="0 * 1", stdin=None))
            b2 = front.run_binary(ctx, dict(id="b", tab=4, file=prog.replace("\t", " ").replace("\r", " "), expr="0 * 1", stdin=None))
            m += 1
            rep.evaluations += 1
            if norm(o[1]) != norm(b2[1]):
                bad2 += 1
                rep.violation("a tab / carriage return between tokens of a preload file changes the outcome of %r" % (prog,), case="front-blank-file " + repr(prog),
                              impl=[b2[1], o[1]], stream="blanks-binary", oracle="blanks between tokens are interchangeable")
        for t in (0, 1, 8, 255):
            o = front.run_binary(ctx, dict(id="b", tab=t, file=None, expr=prog, stdin=None))
            m += 1
            rep.evaluations += 1
            if norm(o[1]) != norm(base[1]):
                bad2 += 1
                if bad2 <= 3:
                    rep.violation("a tab between tokens (tab size %d) changes the outcome of %r" % (t, prog), case="front-blank " + repr((t, prog)),
                                  impl=[base[1], o[1]], stream="blanks-binary", oracle="tabs and spaces between tokens are interchangeable; the tab size affects columns only")
    rep.oblige("blanks-binary: tabs vs spaces between tokens at tab sizes 0, 1, 8, 255 through the real binary (%d runs)" % m, bad2 == 0, "%d differ" % bad2)
    rep.oblige("separators-binary: %d programs (half with one malformed statement) through the real binary with newline / `;` / ` ;\\n`" % n, bad == 0, "%d differ" % bad)


# ------------------------------------------------------------------------------------------------
# C18

ALL_UNIT_SYMS = ["nm", "µm", "mm", "cm", "m", "km", "in", "ft", "ng", "µg", "mg", "g", "kg", "t", "oz", "lb", "st", "°K", "°C", "°F",
                 "B", "KB", "MB", "GB", "TB", "PB", "EB", "KiB", "MiB", "GiB", "TiB", "PiB", "EiB", "b", "Kb", "Mb", "Gb", "Tb", "Pb", "Eb",
                 "Kib", "Mib", "Gib", "Tib", "Pib", "Eib"]


class BodyGen:
    """bodies covering every expression form of expr.rs (every binary / prefix / postfix operator incl. the word
    forms, every grouping, calls with 0..3 arguments, `as`, measurements, row and multi-row matrices)"""

    def __init__(self, rng):
        self.rng = rng

    def atom(self):
        r = self.rng.random()
        if r < 0.3:
            return self.rng.choice(["1", "2.5", "0", "10", "1e3", "0.001", "12.75", "1e21", "1e-7", "170", "1e-17", "3e-20", "2e-16", "2.3e-16",
                                    "4.9e-324", "1e-320", "1e-200", "1e300", "0.1", "9007199254740993"])
        if r < 0.6:
            return self.rng.choice(["a", "p", "u", "v", "x1", "pi", "e", "i", "dotx", "crossy", "e2", "m1", "_t", "v_", "_v", "t°", "°k", "a_b", "__"])
        if r < 0.8:
            return "%s %s" % (self.rng.choice(["5", "2.5", "0", "1e3"]), self.rng.choice(ALL_UNIT_SYMS))
        if r < 0.9:
            return self.rng.choice(["[1, 2, 3]", "[a, p]", "[1; 2]", "[1, 2; 3, 4]", "[a + 1, 2; p, u dot v]", "[7]", "[a/2, π]", "[ϕ; a × p]", "[5 µm, 1; 1000, √a]",
                                    "[⌈a⌉; 10 °C]", "[π, 10000; 1, ϕ]", "[a • p, 1, 2 ÷ 3]" if False else "[a • p, 1, 2]"])
        rows, cols = self.rng.choice([(1, 1), (1, 2), (2, 1), (2, 2), (3, 2), (2, 3)])
        return "[" + "; ".join(", ".join(self.expr(1) for _ in range(cols)) for _ in range(rows)) + "]"

    def expr(self, d):
        r = self.rng.random()
        if d <= 0 or r < 0.15:
            return self.atom()
        if r < 0.45:
            op = self.rng.choice(["+", "-", "*", "/", "%", "^", "dot", "cross", "•", "×", " dot ", " cross "])
            sp = self.rng.choice(["", " "]) if op.strip() in "+-*/%^•×" else " "
            return self.expr(d - 1) + sp + op.strip() + sp + self.expr(d - 1)
        if r < 0.55:
            return self.rng.choice(["-", "√"]) + self.expr(d - 1)
        if r < 0.62:
            return "(" + self.expr(d - 1) + ")!"
        if r < 0.78:
            o, c = self.rng.choice([("(", ")"), ("|", "|"), ("⌈", "⌉"), ("⌊", "⌋")])
            return o + self.expr(d - 1) + c
        if r < 0.9:
            n = self.rng.randrange(0, 4)
            return self.rng.choice(["gg", "sin", "a", "(a)"]) + "(" + ", ".join(self.expr(d - 1) for _ in range(n)) + ")"
        return "(" + self.expr(d - 1) + ") as " + self.rng.choice(ALL_UNIT_SYMS)


FIXED_BODIES = ["u dot v", "u cross v", "u • v", "u × v", "2 dot x", "a dot p cross u", "5 µm + a", "5 μm", "3 µg", "a as km", "a!", "-a!", "√a^2", "(a)",
              "|a|", "⌈a⌉", "⌊a⌋", "[a, p; 1, 2]", "gg()", "gg(a)", "gg(a, p, 1)", "a - -p", "a--p", "1e3", "2.5e-3 kg", "a^p^2", "(a+p)*u", "a+p*u",
              "a % p", "a / p / u", "[1, 2, 3] cross [a, p, 1]", "[a; p] dot [1; 2]", "gg(a)(p)", "10 °C as °F", "a as °K", "1 Kib + 2 KiB",
              "i", "e2 + e", "a dot2", "a (p)", "[a + p, (a)!; |a|, ⌈p⌉]", "1e21 + 1e-7", "[a/2, π]", "[ϕ; a × p]", "[π, 10000; 1, ϕ]", "[5 µm, 1; 1000, √a]", "v_ dot p", "t° cross a", "[" + ";".join(["a, 1"] * 25) + "]", "[" + ";".join(["a"] * 40) + "]", "[" + ",".join(["a"] * 30) + "]", "[" + ";".join(",".join(["p"] * 20) for _ in range(26)) + "]",
                "2(a+1)", "3 km(a)", "2(3)^2", "2()", "2(a,1)", "(2)(a)", "2(a)(p)", "[1(a), 2(3); 4, 5]", "2.5(a) + 1", "a(2)(3)", "-2(a)", "2(a)!", "√2(a)", "1e3(a)", "5 µm(a)", "0(0)",
                "[" + "w" * 70000 + ", 1]", "[1, 2; " + "w" * 65536 + ", π]", '[[[[[[[[[1, 2; 3, 4], 2; 3, 4], 2; 3, 4], 2; 3, 4], 2; 3, 4], 2; 3, 4], 2; 3, 4], 2; 3, 4], 2; 3, 4]']


def listing_defs(rng, quick):
    bg = BodyGen(rng)
    bodies = list(FIXED_BODIES)
    for _ in range(500 if quick else 10000):
        bodies.append(bg.expr(rng.choice([1, 2, 3, 4, 5])))
    params = ["a, p, u, v", "a, 0", "1, p", "a", "", "2.5, a, p"]
    defs = []
    for k, body in enumerate(bodies):
        ps = "a, p, u, v" if k < len(FIXED_BODIES) else rng.choice(params)
        defs.append((ps, body))
    return defs


def listing_cases(rng, quick):
    return [gen.hist_case("l%d" % k, ["lf(%s) = %s\nlf\n" % (ps, body)]) for k, (ps, body) in enumerate(listing_defs(rng, quick))]


def run_listing(ctx):
    from . import judges
    rep, rng, quick = ctx["rep"], ctx["rng"], ctx["quick"]
    defs = listing_defs(rng, quick)
    # phase 1: define and list (text compared with the model's printer)
    P = props.proj_values(with_text=True, with_stmt=True)
    cases = [gen.hist_case("l%d" % k, ["lf(%s) = %s\nlf\n" % (ps, body)]) for k, (ps, body) in enumerate(defs)]
    a, b = judges.do_stream(ctx, "define-and-list", cases, P, monitors={"print_mismatch"})
    # phase 2: re-tokenise the listed body and the defined body
    retok = []
    shape_bad = 0
    for k, (ps, body) in enumerate(defs):
        lines = a.get("l%d" % k, [])
        listing = None
        for l in lines:
            p = l.split(" ")
            if p[0] == "T0" and p[1] == "O1" and p[2] == "val" and p[3].startswith("fu:"):
                listing = unhx(p[-1][5:])
        if listing is None:
            continue  # the definition was refused (e.g. syntax error in a generated body): nothing to list
        head = "lf(%s) = " % ", ".join(x.strip() for x in ps.split(",")) if ps else "lf() = "
        if not listing.endswith("\n") or not listing.startswith("lf(") or ") = " not in listing:
            shape_bad += 1
            rep.violation("listing of %r does not have the form name(params) = body: %r" % (body, listing), case=cases[k], impl=lines, stream="define-and-list")
            continue
        listed_body = listing[listing.index(") = ") + 4: -1]
        retok.append((k, body, listed_body))
    tcases = []
    for k, body, listed in retok:
        tcases.append("tok d%d 4 %s" % (k, hx(body)))
        tcases.append("tok r%d 4 %s" % (k, hx(listed)))
    ta, tb = judges.do_stream(ctx, "retokenise", tcases, props.proj_tok(False))
    bad = 0
    for k, body, listed in retok:
        d = (ta.get("d%d" % k) or [""])[0]
        r = (ta.get("r%d" % k) or [""])[0]
        kd = [(t, p) for t, l, p in parse_tokens(d)] if d.startswith("TOK ok") else None
        kr = [(22 if t == 21 else t, p) for t, l, p in parse_tokens(r)] if r.startswith("TOK ok") else ("bad", r)
        if kd is None:
            continue
        if kd != kr:
            bad += 1
            if bad <= 3:
                rep.violation("the listed body %r of the definition %r does not read back as the same tokens" % (listed, body),
                              case=cases[k], impl=dict(defined=d, listed=r), stream="retokenise",
                              oracle="same token kinds, number values, units and identifiers expected (row separators may be line breaks)")
    rep.oblige("listed bodies re-tokenise to the defined bodies (%d listings)" % len(retok), bad == 0 and shape_bad == 0, "%d differ" % bad)
    # redefinitions (other parameter names, literals) and tiny / huge literals: the listing shows what was written last
    redef = ["lf(x) = x + 1\nlf(y) = y * 2\nlf\nlf(3)\n", "lf(0, p) = p\nlf(0, q) = q + 1\nlf\n", "lf(n) = n\nlf(k) = k * lf(k - 1)\nlf(0) = 1\nlf\n",
             "lf(a) = a + 1e-17\nlf\n", "lf(a) = a * 3e-20 km\nlf\n", "lf(a) = [2e-16, a]\nlf\n", "lf(1e-20) = 1\nlf\n", "lf(a) = a / 1e-17\nlf\nlf(1)\n",
             "lf(a) = a + 4.9e-324\nlf\n", "lf(a, a) = a\nlf\n", "lf(x) = x\nww = lf\nww(y) = y + 1\nww\nlf\n",
             "lf(a) = a + 1\nlf(a, q) = a * q\nww = lf\ndelete ww(a)\nlf\nww\n", "lf(n) = n * 2\nlf(0) = [1, 2] dot [3, 4]\nww = lf\ndelete lf(0)\nww\nlf\n",
             "lf(0.3) = 1\nlf(0.30000000000000004) = 2\nlf\nlf(0.3)\n", "lf(9007199254740992) = 1\nlf(9007199254740994) = 2\nlf\n", "lf(1) = 1\nlf(1.0000000000000002) = 2\nlf(0.9999999999999999) = 3\nlf\n",
             "lf(1e300) = 1\nlf(1.0000000000000002e300) = 2\nlf\n", "lf(4.9e-324) = 1\nlf(0) = 2\nlf(1e-323) = 3\nlf\n", "lf(a, 0.1) = a\nlf(a, 0.10000000000000002) = -a\nlf\n",
             "lf(v_, w) = v_ dot w\nlf\n", "lf(w, _v) = w cross _v\nlf\n", "lf(t°) = t° cross t°\nlf\n"]
    judges.do_stream(ctx, "redefinitions", (gen.hist_case("q%d" % k, [t]) for k, t in enumerate(redef)), P, monitors={"print_mismatch"})
    # multi-signature listings: one entry per signature, in order
    multi = ["mf(a) = a\nmf(0) = 1\nmf(a, p) = a + p\nmf\n", "mf(0) = 1\nmf(a) = a dot a\nmf(a) = 2\nmf\n", "mf(a) = [1, 2; 3, 4]\nmf(p, 1) = p\nmf\n"]
    judges.do_stream(ctx, "multi-signature", (gen.hist_case("m%d" % k, [t]) for k, t in enumerate(multi)), P)
