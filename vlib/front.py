"""C16 / C19: sessions on the real binary (file, argument and interactive mode), compared with the
in-process prediction, with the model, across modes and across repeated processes."""
import os, random, re, shutil, subprocess, tempfile
from . import core, engine, gen, props
from .core import hx, unhx

BANNER = "Enter mathematical expressions to evaluate. Type 'exit' to quit."
GOODBYE = "Goodbye!"
LINE_RE = re.compile(r"Line \d+, Column \d+")


def framing(ctx):
    """the banner line and the goodbye line of the interactive mode, as THIS binary prints them (their wording is no
    property's business): learnt from a session with no input; each must be exactly one line"""
    if "framing" not in ctx:
        b, g = BANNER, GOODBYE
        try:
            rc, so, se = run_binary(ctx, dict(id="frame", tab=4, file=None, expr=None, stdin=[], end=None, after=[]))
            lines = so.split("\n")
            if rc == 0 and len(lines) == 3 and lines[2] == "" and lines[0] and lines[1]:
                b, g = lines[0], lines[1]
        except Exception:
            pass
        ctx["framing"] = (b, g)
    return ctx["framing"]


def ensure_nl(s):
    return s if s.endswith("\n") else s + "\n"


def gen_sessions(rng, count):
    g = gen.ExprGen(rng)
    progs = list(props.statement_programs(rng, count * 3, faulty=0.25))
    broken = ["1 +", "x = ", "#", "[1, 2; 3]", "5 as", ")", "1 2", "delete 3", "€"]
    out = []
    for k in range(count):
        file_lines = None
        if rng.random() < 0.7:
            file_lines = progs[3 * k][: rng.randrange(0, 9)]
            if rng.random() < 0.15 and file_lines:
                file_lines.insert(rng.randrange(len(file_lines) + 1), rng.choice(broken))
        mode = rng.choice(["expr", "stdin", "stdin"])
        tab = rng.choice([0, 1, 4, 8, 255])
        eol = rng.choice(["\n", "\n", "\r\n"])
        final_nl = rng.random() < 0.5
        file_text = None
        if file_lines is not None:
            file_text = eol.join(file_lines) + (eol if final_nl else "")
            if rng.random() < 0.3:
                file_text = file_text.replace("x =", "\tx\t=")
        body = progs[3 * k + 1][: rng.randrange(1, 5 if mode == "expr" else 11)]
        if rng.random() < 0.2:
            body.insert(rng.randrange(len(body) + 1), rng.choice(broken))
        if mode == "expr":
            expr = "; ".join(body) if rng.random() < 0.6 else "\n".join(body)
            if rng.random() < 0.3:
                expr += rng.choice(["\n", ";"])
            out.append(dict(id="s%d" % k, tab=tab, file=file_text, expr=expr, stdin=None))
        else:
            lines = [l.replace("\n", " ") for l in body]
            if rng.random() < 0.3:
                lines = [("\t" + l.replace(" ", "\t", 1)) if rng.random() < 0.5 else l for l in lines]
            end = rng.choice(["exit", "EXIT", "Exit", " exit  ", "eXiT", None, None])
            after = ["x", "1 + 1"] if end else []
            out.append(dict(id="s%d" % k, tab=tab, file=file_text, expr=None, stdin=lines, end=end, after=after))
    # fixed corner sessions
    out.append(dict(id="c0", tab=4, file="a = 5\nf(x) = x * a", expr="f(2); a", stdin=None))
    out.append(dict(id="c1", tab=4, file="a = 5\nf(x) = x * a\n", expr=None, stdin=["f(2)", "a", "exit", "a"], end=None, after=[]))
    out.append(dict(id="c2", tab=4, file=None, expr=None, stdin=["x = 1", "1 +", "x", "exit now", "exits", "  EXIT"], end=None, after=[]))
    out.append(dict(id="c3", tab=0, file="\tq = 1 / 0\n\tq\n", expr="\t1/0", stdin=None))
    out.append(dict(id="c4", tab=255, file="\tq = 1 / 0\n\tq", expr="\t1/0\n", stdin=None))
    out.append(dict(id="c5", tab=4, file="", expr="", stdin=None))
    # sessions whose output could pick up ambient state: names in diagnostics after copies, listings with every
    # grouping / operator / unit symbol, clear, every diagnostic kind
    copies = "poly(x) = x*x + 1\ncpa = poly\ncpb = poly\ncpc = poly\nss = sin\n"
    out.append(dict(id="r0", tab=4, file=copies, expr="poly(1, 2); cpb(1, 2); cpa(); cpc(1,2,3); ss(1,2); delete cpa(q, r); cpa; cpb", stdin=None))
    out.append(dict(id="r1", tab=4, file=copies, expr=None, stdin=["poly(1, 2)", "cpb(1, 2)", "delete cpc(zz)", "cpc", "clear", "cpa", "poly"], end="exit", after=[]))
    listing = ("half(x) = ⌈x/2⌉ + ⌊x⌋ - |x| + √x ^ 2 % 3 + (x)! * [x, 1; 2, 3 km as m] dot [1, 2; 3, 4] cross x + 5 µm + 2 °C as °F\n"
               "half(0) = 3 µg + 1 KiB\nhalf(x, yy) = x • yy × x - -x\n")
    out.append(dict(id="r2", tab=4, file=listing, expr="half; half(1); half(0); half(1, 2)", stdin=None))
    out.append(dict(id="r3", tab=8, file=listing, expr=None, stdin=["half", "half(2)", "⌈2.5⌉ + ⌊2.5⌋", "5 µm", "20 °C as °K", "[1, 2; 3, 4]"], end="EXIT", after=[]))
    out.append(dict(id="r4", tab=4, file=None, expr="1/0; nope; sin(1,2); ceil(i); 5 m + 1; 2.5!; |sin|; ⌈i⌉; 3(4); [1, 5 m]; inverse([1,2;2,4]); 1 m as kg; pi = 3; delete sin; delete nope; ss = sin; ss(a) = a; delete ss(a); delete pi(a); e(x) = x", stdin=None))
    out.append(dict(id="r6", tab=4, file="Rate = 10\nrate = 20\nrAte = 30\nff(x) = x + RaTe\n", expr="RATE; RATE + 1; ff(1); Sin(0); PI; Rate; rate", stdin=None))
    out.append(dict(id="r7", tab=4, file=None, expr=None, stdin=["Rate = 10", "rate = 20", "RATE", "raTE = RATE", "raTE", "clear", "rate"], end="exit", after=[]))
    for i, tail in enumerate(["w +", "k =", "v = (1 + 2", "d = 5 as", "f(1,", "[1, 2", "delete", "x = 1 y"]):
        out.append(dict(id="t%d" % i, tab=4, file="w = 1\n" + tail, expr="w", stdin=None))
        out.append(dict(id="u%d" % i, tab=4, file=None, expr="w = 1\n" + tail, stdin=None))
    out.append(dict(id="e0", tab=4, file=None, expr="w = 2;;w * 3", stdin=None))
    out.append(dict(id="e1", tab=4, file=";w = 5\n;;\nw;;\n", expr=";w", stdin=None))
    out.append(dict(id="e2", tab=4, file=None, expr=None, stdin=["w = 2;;w * 3", ";w", "w;;", ""], end="exit", after=[]))
    out.append(dict(id="r8", tab=4, file="poly(x) = x*x + 1\ncpa = poly\ncpb = poly\ncpc = poly\ncpd = poly\n", expr="delete poly; cpa; delete cpb; cpc(1,2)", stdin=None))
    out.append(dict(id="r9", tab=4, file=None, expr=None, stdin=["poly(x) = x*x + 1", "cpa = poly", "cpb = poly", "cpc = poly", "delete poly", "delete cpa(x)", "cpb"], end=None, after=[]))
    loc = ["zc = 2+i", "w = 1", "0+⌈zc⌉", "⌊zc⌋ + 1", "   1/0", "w + nope", "sin(1, 2)", "  5 m + 1", "[1, 5 m]", "2.5!", "3(4)", "1 m as kg", "pi = 3", "delete nope", "⌈[1]⌉", "|sin|", "inverse([1,2;2,4])"]
    out.append(dict(id="l0", tab=4, file="\n".join(loc) + "\n", expr="w", stdin=None))
    out.append(dict(id="l1", tab=4, file=None, expr="\n".join(loc), stdin=None))
    out.append(dict(id="l2", tab=4, file=None, expr=None, stdin=loc, end="exit", after=[]))
    out.append(dict(id="l3", tab=4, file="\n".join(loc[:2]) + "\n", expr=None, stdin=loc[2:], end=None, after=[]))
    ar = "mf(x) = x; mf(x, y, z) = x; mf(a1, a2, a3, a4, a5) = 1; mf(p, q, r, s, tt, u, v) = 2; mf(a1, a2, a3, a4, a5, a6, a7, a8, a9) = 3; mf(1, 2); delete mf(u, v); mf(); mf; mf(1,2,3,4)"
    out.append(dict(id="m0", tab=4, file=None, expr=ar, stdin=None))
    out.append(dict(id="m1", tab=4, file=None, expr=None, stdin=ar.split("; "), end=None, after=[]))
    out.append(dict(id="m2", tab=4, file=None, expr="scale(e, i) = e*i; scale(2, 3); sc2(pi, tau, c, G, phi) = pi; sc2(1,2,3,4,5); sc3(sin, cos, tan) = sin; sc3(1,2,3); sinn; coss; tann; sih; Pi; taU", stdin=None))
    out.append(dict(id="m3", tab=4, file=None, expr=None, stdin=["scale(e, i) = e*i", "scale(2, 3)", "sinn", "coss + tann", "atann", "ee", "ii"], end=None, after=[]))
    out.append(dict(id="p0", tab=4, file=None, expr="1+1; identity(1e19); 2+2", stdin=None, aborts=True))
    out.append(dict(id="p1", tab=4, file="1+1\nidentity(1e19)\n2+2\n", expr="3", stdin=None, aborts=True))
    out.append(dict(id="p2", tab=4, file=None, expr=None, stdin=["1+1", "identity(1e19)", "2+2"], end=None, after=[], aborts=True))
    out.append(dict(id="w0", tab=4, file=None, expr="fib(0) = 0; fib(1) = 1; fib(k) = fib(k-1) + fib(k-2); fib(26); 1 + 1", stdin=None))
    out.append(dict(id="x0", tab=4, file=None, expr=None, stdin=["exit = 5", "exit * 2", "Exit + 1", "EXIT as km", "exit_code = 1", "exits", "quit", "q", "e", "ex", "exi", "bye", "x = exit", "x"], end="exit", after=["x"]))
    out.append(dict(id="x1", tab=4, file=None, expr=None, stdin=["w = 1  ", "1 +  ", "(w + 1  ", "\tw\t", "   1/0", "\t\t2 + nope", " \t #"], end=None, after=[]))
    for tb in (0, 1, 8, 255):
        out.append(dict(id="x1t%d" % tb, tab=tb, file=None, expr=None, stdin=["w = 1", "\tw +", "\t\t1/0", "w\t% 0", " \t #", "\tsin(1, 2)"], end=None, after=[]))
        out.append(dict(id="x6t%d" % tb, tab=tb, file="w = 1\n\tw +\n", expr="\t\t1/0\n w\t% 0", stdin=None))
        out.append(dict(id="x7t%d" % tb, tab=tb, file="w = 1\n\t\t1/0\nw\t% 0\n\tsin(1, 2)\n", expr="w", stdin=None))
    out.append(dict(id="sh0", tab=4, file=None, expr="[1;2;3] dot [4;5]; [1,2] dot [3,4,5]; [1,2;3,4] dot [5,6;7,8]; [1,2,3] cross [1,2]; [1;2] cross [1;2;3]; [1,2;3,4] * [1,2,3]; determinant([1,2,3]); inverse([1,2;3,4;5,6]); identity(0); 7", stdin=None))
    out.append(dict(id="x2", tab=8, file="w = 2\n(w + 1  ", expr="1 +  ", stdin=None))
    out.append(dict(id="x3", tab=8, file="w = 2\n(w + 1  \n", expr="1 +\t", stdin=None))
    out.append(dict(id="x4", tab=4, file="w = 2 \x0c", expr="w", stdin=None))
    out.append(dict(id="x5", tab=4, file=None, expr="w = 2 \u00a0", stdin=None))
    out.append(dict(id="r5", tab=4, file="a1 = 1\nb1 = 2\nc1 = 3\nd1 = [1,2;3,4]\ne1 = 5 km\nf1(x) = x\n", expr="clear; a1; b1; c1; d1; e1; f1; pi; sin", stdin=None))
    out.append(dict(id="c6", tab=4, file=None, expr=None, stdin=[], end=None, after=[]))
    return out


def session_texts(s):
    """the texts the front end hands to process_text, in order (documented contract of main.rs)"""
    texts = []
    if s["file"] is not None:
        texts.append(ensure_nl(s["file"]))
    if s["expr"] is not None:
        texts.append(ensure_nl(s["expr"]))
    else:
        for l in stdin_lines(s):
            if l.strip().lower() == "exit" and l.strip().isascii():
                break
            texts.append(ensure_nl(l))
    return texts


def stdin_lines(s):
    lines = list(s["stdin"] or [])
    if s.get("end"):
        lines.append(s["end"])
    lines += s.get("after", [])
    return lines


def run_binary(ctx, s, env_extra=None, cwd=None, stdin_as_file=False):
    binp = core.calculator_bin(ctx["repo"])
    d = tempfile.mkdtemp(prefix="calc-front-", dir=core.WORK)
    try:
        args = [binp, "-t", str(s["tab"])]
        if s["file"] is not None:
            fp = os.path.join(d, "preload.txt")
            with open(fp, "w", encoding="utf-8", newline="") as f:
                f.write(s["file"])
            args += ["-f", fp]
        stdin_data = None
        if s["expr"] is not None:
            args += ["--", s["expr"]]
        else:
            stdin_data = "".join(l + "\n" for l in stdin_lines(s))
        env = {"PATH": os.environ.get("PATH", ""), "TERM": "xterm", "HOME": d}
        env.update(env_extra or {})
        if stdin_as_file and stdin_data is not None:
            sp = os.path.join(d, "stdin.txt")
            open(sp, "w", encoding="utf-8").write(stdin_data)
            with open(sp, "rb") as fin:
                p = subprocess.run(args, stdin=fin, stdout=subprocess.PIPE, stderr=subprocess.PIPE, env=env, cwd=cwd or d, timeout=30)
        else:
            p = subprocess.run(args, input=(stdin_data or "").encode("utf-8"), stdout=subprocess.PIPE, stderr=subprocess.PIPE,
                               env=env, cwd=cwd or d, timeout=30)
        return p.returncode, p.stdout.decode("utf-8", "replace"), p.stderr.decode("utf-8", "replace")
    except subprocess.TimeoutExpired:
        return -999, "", "timeout"
    finally:
        shutil.rmtree(d, ignore_errors=True)


def predicted_stdout(lines, only_text=None, skip_text=None):
    """stdout predicted from the in-process observation lines of one hist case"""
    out = []
    for l in lines:
        p = l.split(" ")
        if len(p) < 2 or l.startswith("MON "):
            continue
        if only_text is not None and p[0] != "T%d" % only_text:
            continue
        if skip_text is not None and p[0] == "T%d" % skip_text:
            continue
        if p[1] in ("scanerr", "parseerr"):
            out.append(unhx(p[-1]) + "\n")
        elif p[1].startswith("O"):
            t = p[-1]
            if t.startswith("text="):
                out.append(unhx(t[5:]))
    return "".join(out)


def run_front(ctx, repeat=1, cross_modes=True, vary_env=False):
    from . import judges
    rep, rng, quick = ctx["rep"], ctx["rng"], ctx["quick"]
    sessions = gen_sessions(rng, 150 if quick else 1500)
    by_id = {s["id"]: s for s in sessions}
    BANNER, GOODBYE = framing(ctx)
    # positions, diagnostic details and printed text are the business of C14 / C08 / C15 / C18: the model comparison of
    # the sessions is on results and diagnostic kinds; the binary is compared with the in-process run byte for byte below
    P = props.proj_values()
    a, b = judges.do_stream(ctx, "sessions-inprocess", (gen.hist_case(s["id"], session_texts(s), tab=s["tab"]) for s in sessions if not s.get("aborts")), P)
    mism = 0
    nondet = 0
    envs = [None]
    if vary_env:
        envs = [None, {"LANG": "C", "LC_ALL": "C", "RUST_BACKTRACE": "1"}, {"LANG": "tr_TR.UTF-8", "LC_ALL": "tr_TR.UTF-8", "RUST_BACKTRACE": "0"},
                {"LANG": "de_DE.ISO-8859-1", "RUST_BACKTRACE": "full", "CALC_UNUSED": "1", "COLUMNS": "10", "LC_NUMERIC": "de_DE"},
                {"LANG": "POSIX", "TZ": "Asia/Tokyo", "NO_COLOR": "1"}]
    for s in sessions:
        obs = a.get(s["id"], [])
        if s["expr"] is None:
            # main.rs: the file is processed before the prompt banner is printed
            if s["file"] is not None:
                pred = predicted_stdout(obs, only_text=0) + BANNER + "\n" + predicted_stdout(obs, skip_text=0) + GOODBYE + "\n"
            else:
                pred = BANNER + "\n" + predicted_stdout(obs) + GOODBYE + "\n"
        else:
            pred = predicted_stdout(obs)
        outs = []
        for r in range(repeat):
            envx = envs[r % len(envs)]
            cwd = ["/", "/tmp", None][r % 3] if vary_env else None
            rc, so, se = run_binary(ctx, s, env_extra=envx, cwd=cwd, stdin_as_file=(vary_env and r % 2 == 1))
            outs.append((rc, so, se))
            rep.evaluations += 1
        rc, so, se = outs[0]
        rep.count("front:mode:%s" % ("expr" if s["expr"] is not None else "stdin"))
        rep.count("front:file:%s" % (s["file"] is not None))
        if s.get("aborts") or getattr(rep, "blackbox", False):
            pass        # a session that ends in a known abort (K4): only its repeatability is judged; in black-box mode the
            # prediction comes from the model (stream sessions-inprocess above), not from an in-process run
        elif rc != 0 or so != pred:
            mism += 1
            if mism <= 5:
                rep.violation("front: the binary's output differs from the in-process prediction for session %s" % describe(s), case=json_case(s),
                              impl=dict(rc=rc, stdout=so, stderr=se[-300:]), model=dict(predicted=pred), stream="front",
                              oracle="documented front-end contract: file first, then expression or prompt lines, each text with a final newline")
        if any((o[:2] if s.get("aborts") else o) != (outs[0][:2] if s.get("aborts") else outs[0]) for o in outs[1:]):       # exit status and stdout (stderr carries the backtrace setting of a known abort)
            nondet += 1
            if nondet <= 5:
                rep.violation("front: repeated runs of session %s differ" % describe(s), case=json_case(s),
                              impl=[dict(rc=o[0], stdout=o[1]) for o in outs], stream="front", oracle="byte-identical output expected")
        rep.distinct.add(hash(so))
    rep.oblige("front: binary stdout = in-process prediction (%d sessions)" % len(sessions), mism == 0, "%d mismatches" % mism)
    if repeat > 1:
        rep.oblige("front: %d repeated fresh processes per session under varied environment are byte-identical" % repeat, nondet == 0, "%d differ" % nondet)
    if cross_modes:
        cross_mode_check(ctx, rng, 60 if quick else 600)
    if vary_env:
        ambient_monitor(ctx, [s for s in sessions if s["id"] in ("c0", "c1", "r2", "r3", "s0", "s1", "s2")])
    rep.samples.append(dict(stream="front", case=describe(sessions[0])))


ALLOWED_PATH = re.compile(r"^(/etc/ld\.so\.|/lib/|/lib64/|/usr/lib|/proc/self/|/sys/devices/system/cpu|/dev/(tty|null|urandom)$|/etc/localtime$|/usr/share/zoneinfo/)")
SYSCALL_PATH = re.compile(r"^\d+\s+(?:openat|open|access|stat|lstat|statx|readlink|readlinkat|newfstatat|faccessat2?|execve)\((?:AT_FDCWD, |\d+, )?\"((?:[^\"\\]|\\.)*)\"")


def ambient_monitor(ctx, sessions):
    """C19: the front end reads only its arguments, the named file and stdin.  A few sessions are run under strace;
    every path the process touches must be the loader's, /proc/self, or the file it was given."""
    rep = ctx["rep"]
    if shutil.which("strace") is None:
        rep.notes.append("ambient-state monitor skipped: strace not available")
        return
    binp = core.calculator_bin(ctx["repo"])
    bad = n = 0
    for s in sessions:
        d = tempfile.mkdtemp(prefix="calc-amb-", dir=core.WORK)
        try:
            args = ["strace", "-f", "-qq", "-e", "trace=%file", "-o", os.path.join(d, "trace.txt"), binp, "-t", str(s["tab"])]
            given = None
            if s["file"] is not None:
                given = os.path.join(d, "preload.txt")
                open(given, "w", encoding="utf-8", newline="").write(s["file"])
                args += ["-f", given]
            stdin_data = ""
            if s["expr"] is not None:
                args += ["--", s["expr"]]
            else:
                stdin_data = "".join(l + "\n" for l in stdin_lines(s))
            home = os.path.join(d, "home")
            os.makedirs(home)
            p = subprocess.run(args, input=stdin_data.encode(), stdout=subprocess.PIPE, stderr=subprocess.PIPE,
                               env={"PATH": os.environ.get("PATH", ""), "TERM": "xterm", "HOME": home, "XDG_CONFIG_HOME": os.path.join(home, ".config")},
                               cwd=home, timeout=60)
            tr = os.path.join(d, "trace.txt")
            if not os.path.exists(tr) or os.path.getsize(tr) == 0:
                rep.notes.append("ambient-state monitor skipped: strace produced no trace (ptrace not permitted?)")
                return
            n += 1
            for line in open(tr, errors="replace"):
                m = SYSCALL_PATH.match(line)
                if not m:
                    continue
                path = m.group(1)
                if path in ("", binp, given) or ALLOWED_PATH.match(path):
                    continue
                bad += 1
                if bad <= 3:
                    rep.violation("front: the process touches %r, which is neither the loader's nor the file it was given (session %s)" % (path, describe(s)[:200]),
                                  case=json_case(s), impl=[line.strip()[:300]], stream="ambient",
                                  oracle="the front end reads only its arguments, the named file and stdin")
                break
        finally:
            shutil.rmtree(d, ignore_errors=True)
    rep.oblige("ambient: %d sessions under strace touch no path outside the loader's, /proc/self and the given file" % n, bad == 0, "%d do" % bad)


def malformed_text_on_binary(ctx, rng, count):
    """C03 / C10 on the real binary: a text with a lexical or syntax error anywhere — given as a preload file or as the
    expression — prints exactly one diagnostic and runs none of its statements"""
    core.build_impl(ctx["repo"], need_binary=True)
    rep = ctx["rep"]
    broken = ["1 +", "x = ", ")", "5 as", "delete 3", "1 2", "f(a+1) = 2", "#", "[1, 2; 3]", "clear 5", "(1"]
    bad = n = 0
    for lines in props.statement_programs(rng, count, faulty=0.1):
        lines = ["zq = 41"] + [l for l in lines if "[" not in l][:5]
        lines.insert(rng.randrange(1, len(lines) + 1), rng.choice(broken))
        for mode in ("file", "expr"):
            sep = rng.choice(["\n", "\n", ";"])
            text = sep.join(lines) + rng.choice(["", sep])
            s = dict(id="mal", tab=4, file=text if mode == "file" else None, expr="zq" if mode == "file" else text + "\nzq" if False else (text if mode == "expr" else "zq"), stdin=None)
            rc, so, se = run_binary(ctx, s)
            rep.evaluations += 1
            n += 1
            out_lines = so.splitlines()
            # file mode: one diagnostic for the file, then `zq` must be unknown; expression mode: one diagnostic, nothing else
            want = 2 if mode == "file" else 1
            ok = rc == 0 and len(out_lines) == want and all(LINE_RE.match(l) for l in out_lines)
            if not ok:
                bad += 1
                if bad <= 3:
                    rep.violation("binary (%s mode): a malformed text does not print exactly one diagnostic and run nothing: %r" % (mode, text),
                                  case="front-malformed " + repr((mode, text)), impl=dict(rc=rc, stdout=so), stream="malformed-binary",
                                  oracle="exactly one diagnostic line for the text" + ("; the probe `zq` must then be unknown" if mode == "file" else ""))
    rep.oblige("malformed-binary: %d malformed texts through the real binary print exactly one diagnostic and run nothing" % n, bad == 0, "%d do not" % bad)


def describe(s):
    return "tab=%d file=%r expr=%r stdin=%r" % (s["tab"], s["file"], s["expr"], stdin_lines(s) if s["expr"] is None else None)


def json_case(s):
    import json
    return "front " + json.dumps(s, ensure_ascii=False)


def mask(out):
    return LINE_RE.sub("Line _, Column _", out)


def mask_line(out):
    """one statement per line in every mode: only the line numbers may differ, the columns may not"""
    return re.sub(r"Line \d+,", "Line _,", out)


def cross_mode_check(ctx, rng, count):
    """the same well-formed statements in a preload file, as the expression, and line by line"""
    rep = ctx["rep"]
    bad = 0
    n = 0
    from . import judges
    progs = [[l for l in lines if l.strip().lower() != "exit"] for lines in props.statement_programs(rng, count, faulty=0.25)]
    # the clause is about well-formed statements: keep the programs every line of which scans and parses
    pa, _ = judges.do_stream(ctx, "cross-mode-wellformed", ("parset w%d_%d 4 %s" % (i, j, core.hx(l + "\n")) for i, ls in enumerate(progs) for j, l in enumerate(ls)),
                             props.proj_parse(False))
    progs = [ls for i, ls in enumerate(progs) if all((pa.get("w%d_%d" % (i, j)) or [""])[0].startswith("PARSE ok") for j in range(len(ls)))]
    # every kind of located run-time diagnostic on a line of its own, with and without indentation
    progs.append(["zc = 2+i", "w = 1", "0+⌈zc⌉", "⌊zc⌋ + 1", "   1/0", "w + nope", "sin(1, 2)", "  5 m + 1", "[1, 5 m]", "2.5!", "3(4)", "1 m as kg", "pi = 3", "delete nope", "⌈[1]⌉", "|sin|",
                  "inverse([1,2;2,4])", "f(q) = q + 1", "f(3)", "f(q) = 2 * q", "f(3)", "sin(q) = q", "y = 3", "delete y", "y"])
    progs.append(["f(q) = q + 1", "f(3)", "x = 5", "f(q) = 2 * x * q", "f(3)", "g2(3)", "g2(q) = q", "g2(3)", "clear", "f(1)", "f(q) = 7", "f(1)", "f = 3", "f(q) = 1", "f"])
    for lines in progs:
        tab = rng.choice([0, 4, 8])
        as_file = dict(id="m", tab=tab, file="\n".join(lines), expr="", stdin=None)
        as_expr = dict(id="m", tab=tab, file=None, expr="\n".join(lines), stdin=None)
        as_expr2 = dict(id="m", tab=tab, file=None, expr="; ".join(lines) + ";", stdin=None)
        as_lines = dict(id="m", tab=tab, file=None, expr=None, stdin=lines, end="exit", after=[])
        # final bindings are observed by a trailing probe of every name the programs use
        probe = ["x", "y", "z", "f", "w"]
        outs = []
        for s in (as_file, as_expr, as_expr2):
            s2 = dict(s)
            if s2["expr"] == "":
                s2["expr"] = "\n".join(probe)              # one statement per line, as at the prompt
            elif s2["expr"].endswith(";"):
                s2["expr"] = s2["expr"] + "; ".join(probe)
            else:
                s2["expr"] = s2["expr"] + "\n" + "\n".join(probe)
            outs.append(run_binary(ctx, s2))
        s3 = dict(as_lines, stdin=lines + probe)
        BANNER, GOODBYE = framing(ctx)
        rc, so, se = run_binary(ctx, s3)
        so = so.replace(BANNER + "\n", "", 1)
        if so.endswith(GOODBYE + "\n"):
            so = so[: -len(GOODBYE) - 1]
        outs.append((rc, so, se))
        rep.evaluations += 4
        n += 1
        base = mask(outs[0][1])
        # file, argument with line breaks and prompt put one statement per line: columns must agree too
        per_line = [outs[0], outs[1], outs[3]]
        if any(mask(o[1]) != base for o in outs[1:]) or any(mask_line(o[1]) != mask_line(per_line[0][1]) for o in per_line[1:]):
            bad += 1
            if bad <= 3:
                rep.violation("front: file, argument and interactive mode disagree on %r" % lines, case="front-cross " + repr(lines),
                              impl=[o[1] for o in outs], stream="front-cross", oracle="same outputs up to line numbers, same final bindings")
    rep.oblige("front: file / argument (newline and ';') / interactive modes agree on %d programs (outputs up to line numbers, final bindings)" % n,
               bad == 0, "%d differ" % bad)
