"""What each property's check runs (streams, projections, monitors, oracles) and how a run is judged."""
import hashlib, itertools, json, os, re, subprocess, time
from fractions import Fraction
from . import core, engine, gen, props, oracles
from .core import hx, unhx

PROPS = {
    "C01": dict(rule="every case of every stream (scanner strings, token sequences, expressions over all magnitude classes, every built-in x argument kind x arity 0..3, matrices <= 5x5, histories, tab sizes) is run under catch_unwind in a watchdog-supervised worker; non-trivial = distinct projected observation that got past the scanner; a panic, crash or stall on the implementation is a violation"),
    "C02": dict(rule="random number-valued expression trees (depth <= 6, grammar-directed, minimal bracketing) plus every operator x ordered operand-kind pair; compared value bits (<= 4 ulp) / diagnostic kind with the model, and with an independent complex evaluator under a magnitude-scaled bound; non-trivial = distinct observation that is a value or an evaluation diagnostic"),
    "C03": dict(rule="token-kind sequences built directly (exhaustive over all 29 kinds and over the reduced alphabet to the tier's length) and generated well-formed / one-edit statements through the real tokenizer; statement trees compared structurally (positions dropped), accept/reject and error kind compared; independent precedence-climbing reader as oracle; non-trivial = distinct accepted tree or distinct (error kind, prefix)"),
    "C04": dict(rule="all strings over the 17-character branch alphabet to the tier's length, random strings to 200 chars (ASCII, multi-byte, Unicode numerics), every spelling alone and embedded, tab sizes 0..255; token kind, lexeme, line, column, number bits compared with the model and with an independent longest-match scanner; non-trivial = distinct token vector or bad-character report"),
    "C05": dict(rule="every (spelling, target) pair of a kind x magnitudes, every cross-kind pair, three-unit paths, bare numbers; value bits compared with the model; sizes compared with exact rational unit definitions (1e-5 imperial / 1e-9 otherwise); non-trivial = distinct (source unit, target unit, outcome class)"),
    "C06": dict(rule="all ordered unit pairs of length/mass/storage with + and -, scaling by real and complex scalars incl. 0, 1, -1, refusals; compared with the model and relationally through exact sizes; non-trivial = distinct observation"),
    "C07": dict(rule="all shapes 1x1..4x4 (5x5 thorough) and all ordered shape pairs for + - * / dot cross, fixed and random real/complex matrices, identities det(AB)=det(A)det(B), (AB)^T=B^T A^T, A*inverse(A)=I; compared with the model and an independent Leibniz/adjugate evaluator; non-trivial = distinct observation"),
    "C08": dict(rule="every built-in x arity 0..3 x argument kinds and domain boundaries, interior points and functional identities; value bits / diagnostic kind and identity (function, argument index, domain) compared with the model; identities judged numerically; non-trivial = distinct observation"),
    "C09": dict(rule="all histories over the 26-statement alphabet to the tier's length followed by the probe text, random histories to length 40; after every statement the constants digest is compared with the model and a deep comparison with a fresh get_constants() runs on the implementation; non-trivial = distinct final environment snapshot"),
    "C10": dict(rule="same histories as C09 plus texts of <= 6 statements with one lexical or syntax fault injected at every position; environment snapshot before/after every failing statement (implementation monitor) and after every text (vs model); non-trivial = distinct (failing statement kind, state)"),
    "C11": dict(rule="generated expressions (depth <= 6) with user functions whose parameters collide with globals, constants and function names, nested, recursive and failing calls, in environments reached by histories; implementation monitor: deep snapshot before/after Expr::evaluate on the live table, evaluated twice; non-trivial = distinct observation"),
    "C12": dict(rule="histories with copies of user and native functions followed by definitions, deletions and clears through either name; every other name's value compared with the model after each step; implementation monitor: no two names share one function handle; non-trivial = distinct snapshot"),
    "C13": dict(rule="histories of definitions / redefinitions / deletions over arity 0..3 signatures with literals and names, probe calls, listing after every step; compared with the model (value semantics, ordered signature list); non-trivial = distinct signature-list state"),
    "C14": dict(rule="programs of 1..8 statements with one planted fault of each evaluation kind, syntax kind and bad character at random offsets, tab sizes and multi-byte prefixes; diagnostic kind, line, column compared with the model; rendered line checked to be one line starting 'Line l, Column c ::'; non-trivial = distinct (kind, position class)"),
    "C15": dict(rule="values constructed from bits: all combinations of the special parts plus random doubles, all 48 units, shapes to 4x4; printed text compared with the model's printer, and read back by an independent reader; non-trivial = distinct printed text"),
    "C16": dict(binary=True, rule="generated sessions run on the real binary in file, argument and interactive mode, tab sizes {0,1,4,8,255}, LF/CRLF, with/without final newline; stdout compared with the in-process prediction, with the model's session, and across modes for error-free sessions; non-trivial = distinct session output"),
    "C17": dict(rule="every generated program re-rendered with random blank runs, minimal spacing (adjacency rule) and flipped separators; token kinds and per-statement outcomes compared with the original's in the implementation and with the model; non-trivial = distinct program"),
    "C18": dict(rule="definitions covering every expression form to depth 5; listing text compared with the model's printer and re-tokenised by the real tokenizer, kinds compared with the body's tokens; non-trivial = distinct listing"),
    "C19": dict(binary=True, rule="sessions of C16 executed repeatedly in fresh processes under varied LANG/LC_ALL/RUST_BACKTRACE/HOME/cwd and stdin as pipe or file; all outputs byte-identical and identical to the model; non-trivial = distinct session"),
}


# ------------------------------------------------------------------------------------------------
# generic stream runner


def do_stream(ctx, name, cases, project, monitors=(), exhaustive=None, oracle=None, nontrivial=None, stall_s=20,
              impl_only=False, on_obs=None, setup=0):
    rep, repo = ctx["rep"], ctx["repo"]
    a, b, incidents, case_by_id, cpath = engine.run_stream(rep, repo, name, cases, stall_s=stall_s, keep_lines=0, impl_only=impl_only)
    if not a:
        return a, b
    if name not in ("known",) and not name.startswith("front-replay"):
        ctx.setdefault("case_files", []).append((name, cpath))
    if setup and not impl_only:
        # generator sanity (judged on the model, so a change to the code cannot trigger or hide it): the first `setup`
        # texts of every case are set-up texts and must be well-formed, or the stream would be vacuous
        for cid, lines in b.items():
            for l in lines:
                p = l.split(" ", 2)
                if len(p) > 1 and p[0][:1] == "T" and p[0][1:].isdigit() and int(p[0][1:]) < setup and p[1] in ("parseerr", "scanerr"):
                    raise core.InfraError("generator bug in stream %s: set-up text %s of case %s is not well-formed: %s" % (name, p[0], cid, l[:200]))
    if impl_only:
        # judged on the implementation alone: the process must survive every case
        bad = []
        aborts = 0
        for cid, lines in a.items():
            ab = [l for l in lines if l.split(" ")[0] in ("PANIC", "CRASH", "TIMEOUT")]
            if ab:
                aborts += 1
                case = engine.find_case(cpath, cid)
                rep.violation("%s [%s]: the implementation does not survive %s" % (name, cid, describe_case(case)[:300]), case=case, impl=lines[-3:],
                              stream=name, oracle=ab[0][:300])
        rep.oblige("stream %s: the implementation returns normally on every case (%d cases)" % (name, len(a)), aborts == 0, "%d aborts" % aborts)
    else:
        bad = engine.compare_stream(rep, name, a, b, cpath, project)
        rep.oblige("stream %s: implementation = model on the property's observables (%d cases)" % (name, len(a)), not bad,
                   "%d disagreements" % len(bad))
    for cid, i, la, lb in bad[:40]:
        case = engine.find_case(cpath, cid)
        rep.violation("%s: implementation and model disagree on %s" % (name, describe_case(case)), case=case,
                      impl=a.get(cid), model=b.get(cid), oracle="first difference at projected line %d: impl=%r model=%r" % (i, la, lb),
                      stream=name)
    # input distribution: how many texts of this stream the model accepts / rejects (a stream meant to exercise
    # evaluation that is mostly rejected would be vacuous; see DESIGN.md section 15)
    if not impl_only:
        acc = rej = 0
        for cid, lines in b.items():
            for l in lines:
                p = l.split(" ", 3)
                if len(p) > 1 and p[0][:1] == "T" and p[0][1:].isdigit():
                    if p[1] in ("parseerr", "scanerr"):
                        rej += 1
                    elif p[1] == "S0" or p[1] == "empty":
                        acc += 1
        if acc + rej:
            rep.count("texts-accepted:" + name, acc)
            rep.count("texts-rejected:" + name, rej)
    # monitors on the implementation alone
    mon_hits = 0
    for cid, lines in a.items():
        for l in lines:
            if l.startswith("MON "):
                what = l.split(" ")[1]
                rep.count("monitor:" + what)
                if what in monitors:
                    mon_hits += 1
                    if mon_hits <= 40:
                        case = engine.find_case(cpath, cid)
                        rep.violation("%s: monitor %s fired on %s" % (name, what, describe_case(case)), case=case, impl=lines, stream=name,
                                      oracle=l)
    if monitors:
        rep.oblige("stream %s: implementation monitors %s silent" % (name, sorted(monitors)), mon_hits == 0, "%d hits" % mon_hits)
    # distribution + distinct non-trivial
    proj = project or (lambda l: l)
    if project is props.proj_abort_only:
        proj = lambda l: l  # C01: every distinct completed observation counts
    nsample = 0
    for cid, lines in a.items():
        pl = [x for x in (proj(l) for l in lines if not l.startswith("MON ")) if x is not None]
        triv = nontrivial(pl) if nontrivial else default_nontrivial(pl)
        for l in lines:
            classify(rep, l)
        if triv:
            rep.distinct.add(hashlib.sha1(("\n".join(pl)).encode()).digest()[:8])
        if on_obs:
            on_obs(cid, lines, b.get(cid))
    if oracle:
        for orc in (oracle if isinstance(oracle, (list, tuple)) else [oracle]):
            orc(ctx, name, a, b, cpath)
    if exhaustive:
        rep.exhaustive.append(exhaustive)
    # samples
    k = 0
    with open(cpath) as f:
        for line in f:
            if k in (0, 7, 101):
                cid = line.split(" ", 2)[1]
                rep.samples.append(dict(stream=name, case=readable_case(line.rstrip("\n")), impl=(a.get(cid) or [])[:6]))
            k += 1
            if k > 101:
                break
    return a, b


def default_nontrivial(pl):
    # something got past the scanner
    return any(("scanerr" not in l and not l.startswith("TOK bad") and "PARSE scanerr" not in l) for l in pl) and len(pl) > 0


def classify(rep, l):
    p = l.split(" ")
    if p[0] in ("TOK", "PARSE", "PRINT", "FMT"):
        rep.count("%s %s" % (p[0], p[1] if len(p) > 1 and p[0] != "PRINT" else ""))
        if p[0] == "PARSE" and p[1] == "err":
            rep.count("parse-error:" + p[2])
    elif p[0] in ("PANIC", "CRASH", "TIMEOUT"):
        rep.count("abort:" + p[0])
    elif len(p) > 2 and p[1].startswith("O"):
        if p[2] == "err":
            rep.count("diag:" + p[3])
        else:
            rep.count("outcome:" + p[2] + (":" + p[3].split(":")[0] if p[2] == "val" else ""))
    elif len(p) > 1 and p[1] in ("scanerr", "parseerr"):
        rep.count("text:" + p[1] + (":" + p[2] if p[1] == "parseerr" else ""))


def readable_case(case):
    f = case.split(" ")
    if f[0] in ("hist",):
        return dict(stream=f[0], tab=int(f[2]), texts=[unhx(t) for t in f[3:]])
    if f[0] in ("tok", "parset"):
        return dict(stream=f[0], tab=int(f[2]), text=unhx(f[3]))
    return dict(stream=f[0], raw=" ".join(f[2:])[:400])


def describe_case(case):
    if case is None:
        return "?"
    r = readable_case(case)
    if "texts" in r:
        return "texts %r (tab %d)" % (r["texts"], r["tab"])
    if "text" in r:
        return "text %r (tab %d)" % (r["text"], r["tab"])
    return "%s %s" % (r["stream"], r["raw"])


# ------------------------------------------------------------------------------------------------
# the properties


def spellings(ctx):
    return [k["word"] for k in ctx["dump"]["keywords"]]


def spellings_by_kind(ctx):
    units = ctx["dump"]["units"]
    out = {"distance": [], "mass": [], "temperature": [], "storage": []}
    for k in ctx["dump"]["keywords"]:
        if k["unit"] is not None:
            out[units[k["unit"]]["kind"]].append(k["word"])
    return out


def known_finding_witnesses(ctx):
    """K4: inputs beyond the property's bounds that crash today, each by its witness"""
    deep = "(" * 100000 + "1" + ")" * 100000
    yield gen.hist_case("kf_nesting", [deep + "\n"])
    yield gen.hist_case("kf_unbounded_recursion", ["f(x) = f(x)\nf(1)\n"])
    yield gen.hist_case("kf_identity_1e10", ["identity(1e10)\n"])


SYNTAX_FAULTS = ["#", "1 +", ")", "x = ", "[1, 2; 3]", "5 as", "delete 3", "f(a+1) = 2", "1e²", "clear 5", "delete x 5", "x = 1 5", "1 5", "(1", "[1, 2", "|1", "f(1,", "5 m m",
                 "delete", "= 3", "f(a) = ", "[]", "hh(v) = []", "[;]", "[1,]", "[,1]", "()", "x = ()", "f(,)", "||", "⌈⌉", "1 as as m", "as", "dot", "1 dot", "cross 1",
                 "[1,2;;3,4]", "[1,2;\n3,4]", "[1;;2]", "[;1]", "[1;]", "[1,2; ;3,4]", "[1,2;;]", "f(1;;2)", "(1;;2)", "[1,,2]", "f(1,,2)", "x = [1;;2]", "hh(v) = [v;;v]", "[1\n,2]", "f(1\n)",
                 "2 * []", "transpose([])", "x = []", "ee(q) = []\nee(1)", "ee(q) = [q;;q]\nee(1)", "|[]|", "[[]]", "[[], 1]", "f([])", "-[]", "[]!", "[] as m", "1 %", "1 *", "2 ^", "200*50%", "w = 3; w*10%"]


def run_C01(ctx):
    rng, quick, rep = ctx["rng"], ctx["quick"], ctx["rep"]
    sp = spellings(ctx)
    P = props.proj_abort_only
    do_stream(ctx, "known", known_finding_witnesses(ctx), P, stall_s=60, impl_only=True)
    do_stream(ctx, "tok-exhaustive", gen.tok_exhaustive(4 if quick else 5, tabs=(4,) if quick else (0, 4, 255)), P,
              exhaustive="all strings over the 17-character scanner alphabet up to length %d" % (4 if quick else 5))
    do_stream(ctx, "tok-random", gen.tok_random(rng, 3000 if quick else 60000, sp), P)
    do_stream(ctx, "parsek", gen.parsek_exhaustive(gen.ALL_KINDS, 3 if quick else 4, "k"), P,
              exhaustive="all token sequences over the 29 kinds up to length %d" % (3 if quick else 4))
    ex = list(props.numbers_for(rng, 1500 if quick else 30000, big=True)) + gen.op_kind_matrix() + \
        props.builtin_exprs(rng, quick) + props.matrix_exprs(rng, quick) + props.measurement_exprs(rng, quick) + \
        ["%s!" % b for b in gen.BIG_LITS] + ["%s %s %s" % (a, op, b) for a in gen.BIG_LITS for b in gen.BIG_LITS[:4] for op in "+-*/%^"] + \
        ["√%s" % b for b in gen.BIG_LITS] + ["|%s|" % b for b in gen.BIG_LITS] + ["⌈%s⌉" % b for b in gen.BIG_LITS] + \
        ["(1e999-1e999) %s 2" % op for op in "+-*/%^"] + ["(1e999-1e999)!", "1e999!", "(0-1e999)!", "170!", "171!", "1e18!", "18446744073709551616!"]
    do_stream(ctx, "eval", props.expr_cases("e", ex), P)
    do_stream(ctx, "tabs", (gen.hist_case("t%d" % t, ["x\t=\t1\n\tx +\t\n"], tab=t) for t in range(256)), P)
    # nesting up to the property's bound of 32 with every bracket / operator / call form, and 64-token statements
    nest = []
    for d in (1, 2, 8, 16, 31, 32):
        for o, c in (("(", ")"), ("|", "|"), ("⌈", "⌉"), ("⌊", "⌋"), ("[", "]"), ("sqrt(", ")"), ("f(", ")"), ("-(", ")"), ("√(", ")"), ("(2*", ")"), ("[1,", "]")):
            nest.append(o * d + "2" + c * d)
            nest.append(o * d + "2" + c * (d - 1))          # one closer missing
        nest += ["-" * d + "3", "√" * d + "16", "3" + "!" * d, "^".join(["2"] * d), " - ".join(["1"] * d), "f(" * d + "1" + ", 1)" * d,
                 "x" + "(1)" * d, "[" + ",".join(["1"] * d) + "]", "[" + ";".join(["1"] * d) + "]", "1 " + "as km " * d, "f" + "(" * d]
    nest += [" + ".join(["x * 2"] * 16), " ".join(["1"] * 64), "f(" + ", ".join(["1"] * 62) + ")", ";".join(["x"] * 64), "\n".join(["x = x + 1"] * 64),
             "[" + ";".join(",".join(["1"] * 5) for _ in range(5)) + "] * " + "[" + ";".join(",".join(["2"] * 5) for _ in range(5)) + "]",
             "inverse([2,1,0,0,0;1,2,1,0,0;0,1,2,1,0;0,0,1,2,1;0,0,0,1,2])", "determinant(identity(5) * 3)"]
    do_stream(ctx, "nesting", props.expr_cases("n", nest), P)
    # every malformed snippet alone, in an assignment, in a function body that is then called, and as an argument
    fl = []
    for ft in SYNTAX_FAULTS:
        fl += [ft, "zz = " + ft if "=" not in ft else ft, "ee(q) = %s\nee(1)\nee" % ft if "=" not in ft and "\n" not in ft else ft, "sqrt(%s)" % ft, ft + "\n" + ft]
    do_stream(ctx, "malformed", props.expr_cases("m", fl, prelude=None), P)
    names = []
    for n in list(range(1, 70)) + [127, 128, 129, 255, 256, 1000]:
        for stem in ("a", "ab", "abc", "", "é", "x_"):
            for ch in ("π", "é", "ϕ", "°", "𝑥" if False else "ü"):
                names.append(stem + ch * n)
    nm = []
    for w in names:
        nm += [w, w + " = 1", w + "(1)", "delete " + w, w + "(q) = q", "1 + " + w, "[%s]" % w, w + " as km", "5 " + w]
    do_stream(ctx, "long-names", props.expr_cases("l", nm, prelude=None), P)
    big = []
    for n in (2, 16, 17, 24, 25, 40, 255, 256, 257, 1000):
        ones = ",".join(["1"] * n)
        big += ["f(%s)" % ones, "[%s]" % ones, "[%s]" % ";".join(["1"] * n), "ff(%s) = 1\nff(%s)\nff" % (",".join("p%d" % i for i in range(n)), ones), "delete ff(%s)" % ",".join("p%d" % i for i in range(n)),
                "|[%s]|" % ones, "[%s] dot [%s]" % (ones, ones), "ee(q) = [%s]\nee(1)\nee" % ";".join(["q"] * n), ";".join("v%d = %d" % (i, i) for i in range(n)) + ";v%d" % (n - 1),
                "\n".join("sg(%d) = %d" % (i, i) for i in range(n)) + "\nsg(%d)\nsg(%d)\n" % (n - 1, n), "1e" + "0" * n + "5", "1e-" + "0" * n + "1 * 25"]
    do_stream(ctx, "scale", props.expr_cases("b", big, prelude=None), P)
    chains = []
    for d in (1, 2, 8, 16, 24, 31):
        chains += ["sf" + "()" * d, "cc" + "(1)" * d, "sf" + "()" * d + "(1)", "sin" + "(0)" * d, "pick(sf)" + "()" * d, "(sf)" + "()" * d]
    do_stream(ctx, "call-chains", props.expr_cases("c", chains, prelude="sf() = sf\ncc(q) = cc\npick(hh) = hh\n"), P, setup=1)
    do_stream(ctx, "factorials", props.expr_cases("f", ["%d!" % n for n in range(0, 180)] + ["(%d + 1)!" % n for n in range(0, 175)] +
                                                  ["w = %d\nw!" % n for n in range(15, 30)] + ["%d! / %d!" % (n, n - 1) for n in range(1, 175)]), P)
    do_stream(ctx, "hist", itertools.chain(props.hist_exhaustive(3 if quick else 4), props.hist_random(rng, 1000 if quick else 20000),
                                           props.hist_generated(rng, 1000 if quick else 20000)), P)
    # printing: every expression form listed back through a definition, and every value form printed
    from . import rerender
    do_stream(ctx, "listing", rerender.listing_cases(rng, quick), P)


def run_values(ctx, name, exprs, with_info=False, prelude="x = 3\ny = 0.5 - 2*i\nf(x) = x\n", oracle=None, monitors=()):
    P = props.proj_values(with_info=with_info)
    return do_stream(ctx, name, props.expr_cases(name[0], exprs, prelude=prelude), P, oracle=oracle, monitors=monitors, setup=1 if prelude else 0)


def run_C02(ctx):
    rng, quick = ctx["rng"], ctx["quick"]
    ex = list(props.numbers_for(rng, 4000 if quick else 100000))
    run_values(ctx, "numbers", ex, oracle=oracles.oracle_numbers)
    # `as` is C05's business
    run_values(ctx, "kinds", [e for e in gen.op_kind_matrix() if " as " not in e])
    edge = ["1/0", "1/(0*i)", "5 % 0", "(1+i) % (0+0*i)", "0/0", "2.5!", "(-1)!", "i!", "0!", "1!", "20!", "170!", "⌈i⌉", "⌊1+i⌋", "⌈2.5⌉", "⌊-2.5⌋",
            "|3+4*i|", "|-7|", "√-4", "√(-4)", "√i", "(-8)^(1/3)", "2^3^2", "2^-1", "-2^2", "(-2)^2", "0^0", "i^i", "7 % 3", "-7 % 3", "7 % -3", "7.5 % 2",
            "(5+3*i) % 2", "1 - -1", "--1", "-√4", "√√16", "3!!", "-3!", "2^3!", "10 - 4 - 3", "100 / 10 / 5", "2 * 3 % 4", "1 + 2 * 3 - 4 / 5",
            "c", "G", "tau - 2*pi", "e^(i*pi) + 1", "phi^2 - phi - 1", "ϕ - phi", "π - pi", "i*i",
            # negative zero, NaN, subnormals, the largest finite values
            "-0", "0 * -1", "-(0)", "0 - 0", "√(0 * -1)", "√-0", "(0*-1) ^ 0.5", "|0 * -1|", "⌈-0.5⌉", "⌊-0⌋", "1 / (0 * -1)", "-1 % 1", "(0*-1) + (0*-1)",
            "0 * -1 * i", "(0*-1)!", "(0 * -1) ^ 0", "4.9e-324 / 2", "4.9e-324 * 0.5", "2.2250738585072014e-308 / 2", "1.7976931348623157e308 + 1e292",
            "1.7976931348623157e308 * 2", "1e308 * 10 - 1e308 * 10", "(1e308*10) ^ 0", "(1e308*10) % 2", "2 % (1e308*10)", "|1e200|", "|1e-200|",
            "|3e200 + 4e200*i|", "|3e-200*i|", "√(1e300 * i)", "(1e200)^2", "169!", "170!", "171!", "(169+1)!", "1.7e2!", "18!", "19!", "22!", "23!",
            "⌈1e300⌉", "⌊-1e300⌋", "⌈0.1 + 0.2⌉", "⌊0.1 * 3 * 10⌋", "5 % 3", "5.5 % -2", "-5.5 % 2", "(5+5*i) % 3", "(5+5*i) % (1+i)", "7 % 7", "1e300 % 7"]
    run_values(ctx, "edge", edge, oracle=oracles.oracle_numbers)
    run_values(ctx, "factorials", ["%d!" % n for n in range(0, 175)] + ["%d! / %d!" % (n, n - 1) for n in range(1, 172)] + ["(%d + 1)!" % n for n in range(0, 40)],
               oracle=oracles.oracle_numbers)
    # powers with whole exponents of every size on bases next to 1 (where the exponent's size matters most)
    pw = ["%s ^ %s" % (b, n) for b in ["1.000000001", "0.999999999", "1.0000001", "(0-1.000000001)", "1.000000001 + 0*i", "(1+1e-9*i)"]
          for n in ["3000000000", "4e9", "-3e9", "2147483647", "2147483648", "-2147483649", "4294967296", "1e10", "65536", "-65537", "1e15"]]
    run_values(ctx, "powers", pw, oracle=oracles.oracle_numbers)
    # every operator on every pair / every unary form on every one of the numeric classes
    vc = props.VALUE_CLASSES
    vcx = ["(%s) %s (%s)" % (a, op, b) for op in ["+", "-", "*", "/", "%", "^"] for a in vc for b in (vc if not quick else vc[::3] + vc[1:9])]
    vcx += [f % a for a in vc for f in ["-(%s)", "√(%s)", "(%s)!", "|%s|", "⌈%s⌉", "⌊%s⌋", "((%s))", "--(%s)", "√√(%s)", "⌈-(%s)⌉", "⌊(%s) + 0.5⌋", "⌈(%s) - 0.5⌉", "(%s)^0.5", "(%s)^-1", "(%s)^2",
                                            "1/(%s)", "0 - (%s)", "(%s) * 1", "(%s) + 0", "(%s) - (%s)" % ("%s", a) if False else "(%s) / 1"]]
    vcx += ["(%s) - (%s)" % (a, a) for a in vc] + ["(%s) / (%s)" % (a, a) for a in vc] + ["(%s) %% (%s)" % (a, a) for a in vc]
    run_values(ctx, "value-classes", vcx, oracle=oracles.oracle_numbers)
    # the same values reached through a variable, a parameter and a function result: binding a value never changes it
    vals = ["1e-20*i", "3e-17*i", "1 + 1e-17*i", "1e-300", "0*-1", "1e308*10", "1e-20", "2.2e-16*i", "i*4.9e-324", "1e-17 + i", "2 - 1e-16*i", "e^(i*pi)",
            "1e-200 + 1e-200*i", "-(0*i)", "1e308*10 - 1e308*10", "0.1 + 0.2", "1/3", "2^0.5", "1e21", "9007199254740993"] + \
        [x for x in props.numbers_for(rng, 40 if quick else 2000)]
    uses = ["dp(1, 2)", "v", "dq(5)", "v", "v * 1e20", "1 / v", "⌈v⌉", "v - v", "v ^ 2", "v % 1", "√v", "|v|", "v!", "id(v)", "id(v) * 1e20", "1 / id(v)", "⌊id(v)⌋", "k()", "k() / 1e-17", "v / 1e-17"]
    run_values(ctx, "bound-values", ["v = %s\nid(q) = q\nk() = %s\ndp(v, v) = v + 1\ndq(v) = v * 0\n%s" % (e, e, "\n".join(uses)) for e in vals])


def run_C03(ctx):
    rng, quick, rep = ctx["rng"], ctx["quick"], ctx["rep"]
    P = props.proj_parse(with_pos=False)
    do_stream(ctx, "parsek-all", gen.parsek_exhaustive(gen.ALL_KINDS, 3 if quick else 4, "a"), P, oracle=oracles.oracle_parse,
              exhaustive="all token sequences over the 29 kinds up to length %d" % (3 if quick else 4))
    do_stream(ctx, "parsek-reduced", gen.parsek_exhaustive(gen.REDUCED, 4 if quick else 5, "r"), P, oracle=oracles.oracle_parse,
              exhaustive="all token sequences over the reduced 23-symbol alphabet up to length %d" % (4 if quick else 5))
    g = gen.ExprGen(rng, vars_num=("x", "y", "x₁", "a²", "n٣", "é", "ß9", "_", "x_1", "°z", "π2", "ünï", "x½"), funcs=("f", "sin", "gg", "g", "sq₂"))     # `g` is the gram: a unit in call position is part of what C03 decides
    texts = []
    for k in range(3000 if quick else 60000):
        e = g.expression(rng.choice([1, 2, 3, 4, 6, 8]))
        form = rng.random()
        if form < 0.5:
            t = e
        elif form < 0.6:
            t = "x = " + e
        elif form < 0.7:
            t = "f(a, 0) = " + e
        elif form < 0.75:
            t = "delete f(a, 2)"
        elif form < 0.8:
            t = e + " as km"
        elif form < 0.9:
            t = "[%s, %s; %s, %s]" % (g.expression(1), g.expression(1), g.expression(1), g.expression(1))
        else:
            t = "%s dot %s cross %s ^ %s" % (g.unary(1), g.unary(1), g.unary(1), g.unary(1))
        t += rng.choice(["\n", ";", "", " ; x\n"])
        if rng.random() < 0.4:  # one edit away from well-formed
            toks = list(t)
            pos = rng.randrange(len(toks))
            r = rng.random()
            if r < 0.4:
                del toks[pos]
            elif r < 0.8:
                toks.insert(pos, rng.choice(list("()[]|,;=+-*/^!%√") + [" as ", " dot ", " delete ", " clear ", " m ", " 2 "]))
            else:
                toks[pos] = rng.choice(list("()[]|,;=+-*/^!"))
            t = "".join(toks)
        texts.append(t)
    n_random = len(texts)
    for rows in (2, 3, 4):
        for lens in itertools.product((1, 2, 3), repeat=rows):
            texts.append("[" + ";".join(",".join(["1"] * n) for n in lens) + "]")
            texts.append("hh(v) = [" + ";".join(",".join(["v"] * n) for n in lens) + "]")
    texts += [t for t in SYNTAX_FAULTS]
    # definition / deletion targets: a parameter is a name or a number literal and nothing else; every other expression
    # form in every parameter position (8 tokens and more: beyond the exhaustive token enumerations above)
    for prm in ["-1", "- 1", "-1.5e-3", "--1", "-(1)", "(1)", "(x)", "-x", "1+1", "x+1", "2!", "x!", "|1|", "⌈1⌉", "⌊x⌋", "√4", "1 m", "x m",
                "1 as m", "[1]", "[1,2]", "q(1)", "q()", "2^2", "x y", "1 2", "", "1.5", "1e3", "π", "i", "x"]:
        for tgt in ("pp(%s)", "pp(x, %s)", "pp(%s, 2)", "pp(%s, %s)"):
            t = tgt % ((prm,) * tgt.count("%s"))
            texts += ["%s = 7\n" % t, "1+1; %s = 7; pp\n" % t, "delete %s\n" % t, "pp(x) = x\ndelete %s\npp\n" % t]
    ops = ["+", "-", "*", "/", "%", "^", "dot", "cross", "•", "×"]
    for o1 in ops:
        texts += ["a %s p %s c" % (o1, o1), "a %s p %s c %s d" % (o1, o1, o1), "-a %s p %s c" % (o1, o1), "a %s p! %s c" % (o1, o1), "f(1)(2)(3) %s a %s p" % (o1, o1)]
        for o2 in ops:
            texts += ["a %s p %s c" % (o1, o2), "a %s p %s c %s d" % (o1, o2, o1)]
    texts += ["f(1)(2)", "f(1)(2)(3)", "f()()", "(f)(1)(2)", "f(1)(2) = 3", "a(1)(2)!", "-f(1)(2)", "2^f(1)(2)", "--a", "√-a", "-√a", "√√a", "2^-√a", "|-√a|", "1+-√a", "---a", "-a!", "√a!", "a!!", "a!!!", "(a!)!", "a!^2", "a^p!", "-a^p", "√a^p"]
    for n in (254, 255, 256, 257, 400, 1000):
        ones = ",".join(["1"] * n)
        texts += ["f(%s)" % ones, "[%s]" % ones, "[%s]" % ";".join(["1"] * n), "ff(%s) = 1" % ",".join("p%d" % i for i in range(n)), "delete ff(%s)" % ",".join("p%d" % i for i in range(n)),
                  "x = 1\n[%s]\nx" % ones, "1 + " * n + "1", "(" * 30 + "1" + ")" * 30]
    # long texts: many statements of one form, then an ordinary one (acceptance must not depend on what came before)
    for form in ["1 as km", "x = 1", "f(a) = a", "delete x", "clear", "(1)", "[1,2;3,4]", "f(1, 2)", "-1!", "|x|", "2 ^ 3 ^ 2", "1 m + 2 m as cm"]:
        for n in (3, 65, 130):
            texts.append("\n".join([form] * n) + "\n1 + 2\n")
            texts.append(";".join([form] * n) + ";1 + 2;")
    # the explicit texts above are meant as whole programs: give each its final delimiter (the random ones carry their own)
    texts = [t if (k < n_random or t.endswith("\n") or t.endswith(";")) else t + "\n" for k, t in enumerate(texts)]
    do_stream(ctx, "parset", ("parset p%d %d %s" % (k, 4, hx(t)) for k, t in enumerate(texts)), P, oracle=oracles.oracle_parse_text)
    from . import front
    front.malformed_text_on_binary(ctx, rng, 30 if quick else 300)
    # consequences: explicit parentheses do not change results
    pe = []
    for k in range(300 if quick else 5000):
        a, b, c = g.unary(1), g.unary(1), g.unary(1)
        for o1, o2 in [("+", "*"), ("*", "+"), ("-", "-"), ("/", "/"), ("^", "^"), ("*", "^"), ("-", "^"), ("%", "*")]:
            pe.append("%s %s %s %s %s" % (a, o1, b, o2, c))
    run_values(ctx, "paren-values", pe, oracle=oracles.oracle_paren_invariance)


def run_C04(ctx):
    rng, quick = ctx["rng"], ctx["quick"]
    sp = spellings(ctx)
    P = props.proj_tok(True)
    L = 5
    do_stream(ctx, "tok-exhaustive", gen.tok_exhaustive(L, tabs=(4,) if quick else (0, 4, 255)), P, oracle=oracles.oracle_scanner,
              exhaustive="all strings over the 17-character scanner alphabet up to length %d (tab %s)" % (L, "4" if quick else "0, 4, 255"))
    if not quick:
        core_alpha = ["1", "e", "-", ".", "x", "m", "°", " ", "\n", "+"]
        do_stream(ctx, "tok-exhaustive-7", ("tok y%d 4 %s" % (n, hx("".join(c))) for n, c in enumerate(itertools.product(core_alpha, repeat=7))), P,
                  exhaustive="all strings of length 7 over the 10 characters that drive the number / word / blank branches (10^7)")
    do_stream(ctx, "tok-tabs", itertools.chain(gen.tok_exhaustive(3, tabs=(0, 1, 255)),
                                               ("tok tb%d %d %s" % (t, t, hx("\tx\t\t12.5e3\t\n\t1.\t#")) for t in range(256))), P,
              oracle=oracles.oracle_scanner)
    do_stream(ctx, "tok-random", gen.tok_random(rng, 5000 if quick else 100000, sp), P, oracle=oracles.oracle_scanner)
    do_stream(ctx, "tok-spellings", gen.tok_spellings(sp + [l.split("\t")[0] for l in open(os.path.join(core.VERIF, "spec", "spellings.tsv"))]), P,
              oracle=oracles.oracle_scanner)
    # every Unicode scalar value, alone and in the contexts that select each scanner branch (exhaustive)
    ctxs = [("", ""), ("x", ""), ("1", ""), ("1e", "2"), ("1.", "5"), ("a ", "q"), ("", "1")]
    if not quick:
        ctxs += [("1e-", "2"), ("°", ""), ("_", "x"), ("µ", "m"), ("1.5e3", ""), ("\t", "x"), ("\n", "x"), ("k", "m"), ("", "x")]
    do_stream(ctx, "charclass", ("charclass u%d %s %s" % (i, hx(a), hx(b)) for i, (a, b) in enumerate(ctxs)), None,
              exhaustive="every Unicode scalar value (1 112 064) in %d contexts: token kinds, lexeme lengths, columns / bad-character report" % len(ctxs),
              nontrivial=lambda pl: True)
    nums = [gen.random_number_text(rng) for _ in range(4000 if quick else 100000)] + \
        ["0", "0.1", "0.3", "1e23", "9007199254740993", "1.7976931348623157e308", "1.7976931348623159e308", "4.9e-324", "2.4703282292062327e-324",
         "2.4703282292062328e-324", "2.2250738585072014e-308", "2.2250738585072011e-308", "123456789012345678901234567890", "0.000001e-310",
         "0.000000000000000001", "0.000000000000000001e18", "1.000000000000000111022302462515655", "1.00000000000000011102230246251565404236316680908203125",
         "1.00000000000000011102230246251565404236316680908203124", "0.1000000000000000055511151231257827021181583404541015625", "9007199254740992.5", "9007199254740993.5",
         "4.9406564584124654e-324", "8.98846567431158e307", "0.30000000000000004", "1" + "0" * 308, "1" + "0" * 309, "0." + "0" * 323 + "49", "0." + "0" * 323 + "25"]
    do_stream(ctx, "fmt-from_str", ("fmt n%d s:%s" % (k, hx(t)) for k, t in enumerate(nums)), None)
    oracles.table_keywords(ctx)


def run_C05(ctx):
    quick = ctx["quick"]
    ex = props.conversion_exprs(spellings_by_kind(ctx), quick)
    run_values(ctx, "conversions", ex, oracle=lambda *a: (oracles.oracle_units(*a), oracles.oracle_eval(*a)))
    oracles.table_units(ctx)


def run_C06(ctx):
    ex = props.measurement_exprs(ctx["rng"], ctx["quick"])
    run_values(ctx, "measurements", ex, oracle=[oracles.oracle_eval, oracles.oracle_reader_hist])
    run_interplay(ctx)


def run_interplay(ctx):
    run_values(ctx, "interplay", INTERPLAY, with_info=True, prelude=INTERPLAY_PRELUDE)


def run_C07(ctx):
    ex = props.matrix_exprs(ctx["rng"], ctx["quick"])
    # what the user gets of a matrix result is its text: it must denote the computed matrix (independent reader)
    run_values(ctx, "matrices", ex, oracle=[oracles.oracle_linear_algebra, oracles.oracle_reader_hist])
    run_interplay(ctx)


INTERPLAY_PRELUDE = "dbl(q) = q * 2\ntokm(q) = q as km\nmk(q) = [q, q + 1; q + 2, q * q]\napply(hh, q) = hh(q)\nlen(v) = |v|\nx = 3\ny = 0.5 - 2*i\n"
INTERPLAY = ["dbl(3 m)", "tokm(1500 m) + 1 km", "dbl(tokm(1500 m))", "tokm(dbl(750 m))", "mk(2) * mk(3)", "mk(1 m)", "determinant(mk(2))", "inverse(mk(2)) * mk(2)", "dbl([1,2])",
             "tokm([1,2])", "dbl(2 °C)", "|dbl(3 m)|", "dbl(3 m) / dbl(2 m)", "tokm(dbl(1 in))", "apply(sqrt, 4 m)", "apply(dbl, 4 m)", "apply(tokm, 2500 m)", "apply(mk, 2)",
             "apply(determinant, mk(3))", "apply(transpose, [1,2;3,4])", "apply(len, [3,4])", "len([3 m, 4 m])", "[1 m, 2 m]", "[dbl(1), dbl(2)] dot [1, 2]", "len(dbl([3,4]))",
             "transpose(dbl([1,2;3,4]))", "dbl(x) as m", "dbl(x as m)", "(dbl(x) as m) as cm", "tokm(x)", "tokm(y)", "tokm(tokm(5))", "tokm(2 kg)", "mk(y)", "determinant(mk(y))",
             "dbl(dbl)", "apply(apply, 1)", "mk(mk(1))", "mk(2) cross mk(2)", "[1,2,3] cross dbl([4,5,6])", "dbl([1,2,3]) dot [4,5,6]", "dbl(1 KiB) as B", "dbl(8 b) as B",
             "tokm(3 m) * tokm(3 m)", "tokm(3 m) + 3", "3 + tokm(3 m)", "-tokm(3 m)", "tokm(-3)", "tokm(0)", "mk(0)", "inverse(mk(0))", "identity(dbl(1))", "identity(2) * dbl(3)",
             "dbl(identity(2))", "determinant(dbl(identity(3)))", "sqrt(dbl(8))", "sqrt(dbl(8)) as m", "gcd(dbl(6), dbl(4))", "dbl(gcd(6, 4)) km"]


def run_C08(ctx):
    ex = props.builtin_exprs(ctx["rng"], ctx["quick"])
    tiny = ["1e-20", "1e-18", "1e-16", "1e-300", "4.9e-324", "(1e-20*i)", "(1+1e-17*i)", "(1e-17+i)", "(0-1e-20)", "1e-15", "3e-16", "(pi + 1e-20*i)"]
    for bname in props.BUILTIN_NAMES:
        if bname not in ("log", "gcd", "lcm", "identity", "transpose", "determinant", "inverse"):
            ex += ["%s(%s)" % (bname, t) for t in tiny] + ["%s(%s) / %s" % (bname, t, t) for t in tiny[:4]] + ["im(%s(1 + 1e-17*i))" % bname, "re(%s(1e-17 + i))" % bname]
    run_values(ctx, "builtins", ex, with_info=True, oracle=oracles.oracle_builtins)
    # what a built-in is must not depend on the history of the session
    hist = []
    std = {"log": "2, 8", "gcd": "12, 18", "lcm": "4, 6", "identity": "2", "transpose": "[1,2;3,4]", "determinant": "[1,2;3,4]", "inverse": "[1,2;3,4]"}
    for name in props.BUILTIN_NAMES:
        arg = std.get(name, "0.5")
        for pre in ["cp = %s\ncp(qq) = qq + 1\n" % name, "cp = %s\ndelete cp(qq)\ndelete cp(qq, rr)\n" % name, "clear\n", "cp = %s\ncp = 5\ndelete cp\n" % name,
                    "%s = 3\n%s(qq) = qq\ndelete %s\n" % (name, name, name), "ww(%s) = %s\nww(1)\n" % (name, name),
                    "dp(%s, %s) = 1\ndp(10, 20)\n" % (name, name), "dq(%s, qq, %s) = qq\ndq(1, 2, 3)\ndq(1, 2)\n" % (name, name),
                    # a shadowing parameter whose call FAILS (unknown name, division by zero, one level down, wrong kind):
                    # the built-in must be what it was (a call that binds in place and skips the restore on error leaks it)
                    "rq(%s) = %s + nopeq\nrq(2)\n" % (name, name), "rz(%s) = 1/%s\nrz(0)\n" % (name, name),
                    "ri(%s) = nopeq\nro(%s) = ri(%s) + %s\nro(4)\n" % (name, name, name, name),
                    "rk(%s, qq) = %s(qq) + [1,2]\nrk(3, 4)\nrk(sin, 4)\n" % (name, name)]:
            hist.append(pre + "%s(%s)\n%s" % (name, arg, name))
    run_values(ctx, "builtins-after-history", hist, with_info=True)
    # every name of the shipped table alone on a line, alone in brackets, and as the only word of its text
    alone = []
    for b in ctx["dump"]["builtins"]:
        alone += [b["key"]]
    do_stream(ctx, "names-alone", (gen.hist_case("a%d" % k, [e + "\n"]) for k, e in enumerate(alone)), props.proj_values(with_info=True))
    mx = [e for e in props.matrix_exprs(ctx["rng"], ctx["quick"]) if any(n in e for n in ("determinant", "inverse", "transpose", "identity"))]
    run_values(ctx, "matrix-builtins", mx, with_info=True, oracle=oracles.oracle_builtins)
    oracles.table_builtins(ctx)


def hist_streams(ctx, P, monitors, oracle=None):
    rng, quick = ctx["rng"], ctx["quick"]
    L = 3 if quick else 4
    do_stream(ctx, "hist-exhaustive", props.hist_exhaustive(L), P, monitors=monitors, oracle=oracle,
              exhaustive="all histories over the 26-statement alphabet up to length %d, each followed by the probe text" % L)
    do_stream(ctx, "hist-random", props.hist_random(rng, 1500 if quick else 40000), P, monitors=monitors, oracle=oracle)
    do_stream(ctx, "hist-generated", props.hist_generated(rng, 1500 if quick else 40000), P, monitors=monitors, oracle=oracle)


def run_C09(ctx):
    # C09 is about the built-ins: outcomes and the digest of the constant entries (user bindings are C12 / C13's business)
    P = props.proj_values(consts_only=True)
    hist_streams(ctx, P, {"builtins_changed"}, oracle=[oracles.oracle_clear, oracles.oracle_guarded])
    # every name of the initial table (as the property documents it: spec side, not the dump) x the four guarded
    # statement kinds, directly and through a copy, then the name itself is probed
    names = [l.strip() for l in open(os.path.join(core.VERIF, "spec", "builtin_names.txt"), encoding="utf-8") if l.strip()]
    cases = []
    for k, n in enumerate(names):
        texts = ["%s = 3\n" % n, "%s(qq) = qq + 100\n" % n, "%s(0) = 1\n" % n, "delete %s\n" % n, "delete %s(qq)\n" % n,
                 "cp = %s\ncp(qq) = qq\ndelete cp(qq)\ncp = 7\ndelete cp\n" % n, "rr(%s) = 1/(%s - %s)\nrr(1)\n" % (n, n, n),
                 "ok(%s) = %s\nok(5)\n" % (n, n), "\r%s = 3\n\r%s(qq) = qq + 41\n\t%s = 4\n \r %s = 5\n" % (n, n, n, n), "dp(%s, %s) = 1\ndp(10, 20)\n" % (n, n),
                 "clear\n", "%s\n%s(0)\n2 * %s\n\r%s\n" % (n, n, n, n)]
        cases.append(gen.hist_case("b%d" % k, texts))
    cases.append(gen.hist_case("fd0", ["rate = 7\nhalf(q) = q / 2\n", "rate\nhalf(4)\nrate = 8\nhalf(q, r) = q\ndelete half(q)\n", "clear\nrate\nhalf\npi\nrate = 1\nrate\n"]))
    cases.append(gen.hist_case("fd1", ["rate = 7\nhalf(q) = q / 2\n", "delete rate\ndelete half\nrate\nhalf\n"]))
    do_stream(ctx, "every-builtin", cases, P, monitors={"builtins_changed"}, oracle=[oracles.oracle_clear, oracles.oracle_guarded],
              exhaustive="every documented built-in name x {assign, define, define literal, delete, delete signature, via copy, shadowing parameter of a failing and of a succeeding call, clear}")


def run_C10(ctx):
    rng, quick = ctx["rng"], ctx["quick"]
    # atomicity is judged on the implementation by the monitor (deep snapshot around every failing statement);
    # the model comparison is on outcomes and on the built-ins
    P = props.proj_values(consts_only=True)
    hist_streams(ctx, P, {"failed_stmt_mutated"}, oracle=oracles.oracle_guarded)
    # texts with one lexical / syntax fault at every position: nothing runs
    cases = []
    n = 0
    for lines in props.statement_programs(rng, 150 if quick else 3000, faulty=0.2):
        lines = lines[:6]
        for pos in range(len(lines) + 1):
            # one lexical fault and, for every statement form, a syntax fault in and right after it
            for fault in ("#", "\u00a0", "\ufeff", "\u200b", "\x0c", "\x0b", "\u2028", "€", "¬", "x\u00a0= 1", "1 +\u00a0 2", "\u3000", "\x7f", "\x00", "1 +", ")", "x = ", "[1, 2; 3]", "5 as", "delete 3", "f(a+1) = 2", "1e²",
                          "clear 5", "clear x = 2", "delete x 5", "delete f(a) 5", "x = 1 5", "f(a) = a 5", "1 5", "x = 7 y = 8",
                          "(1", "[1, 2", "|1", "f(1,", "5 m m", "delete", "= 3", "f(a) = ", "x = = 1",
                          "[]", "hh(v) = []", "[;]", "[1,]", "[,1]", "()", "x = ()", "f(,)", "||", "⌈⌉", "x = 1 as", "1 as as m", "delete clear",
                          "clear = 1", "as", "dot", "1 dot", "cross 1", "x == 1", "2 ** 3", "1 +- * 2", "f(a)(b) = 1", "(x) = 5", "f((n)) = n", "delete (x)",
                          "[1,2;;3,4]", "[1,2;\n3,4]", "[1;;2]", "[;1]", "[1;]", "[1,2; ;3,4]", "f(1;;2)", "(1;;2)", "[1,,2]", "x = [1;;2]", "hh(v) = [v;;v]", "1 %", "200*50%", "2 ^"):
                faulty = lines[:pos] + [fault] + lines[pos:]
                if n % (11 if quick else 1) == 0 or (pos == 1 and n % 3 == 0):
                    cases.append(gen.hist_case("f%d" % n, ["x = 41\nf(a) = a\n", "\n".join(faulty) + "\n", "x\nf\n"]))
                n += 1
    do_stream(ctx, "fault-injection", cases, P, monitors={"failed_stmt_mutated"}, oracle=oracles.oracle_malformed_text_runs_nothing)
    from . import front
    front.malformed_text_on_binary(ctx, rng, 40 if quick else 400)


def run_C11(ctx):
    rng, quick = ctx["rng"], ctx["quick"]
    # purity is judged on the implementation by the monitors (deep snapshot around Expr::evaluate, evaluated twice)
    P = props.proj_values(consts_only=True)
    prelude = ("x = 10\ny = 20\npi2 = 2*pi\nf(x) = x + y\ngg(y, sin) = y * 2 + x\nh(pi, e) = pi + e\nk(f) = f + 1\n"
               "r(0) = 1\nr(n) = n * r(n - 1)\nbad(a) = a / 0\nbad2(a) = unknown + a\nnest(a) = f(gg(a, 1)) + h(a, a)\nsh(x) = k(x) + f(x)\n"
               "apply(hh, x) = hh(x)\ntwice(hh) = hh(hh)\nkk() = 2^10 + 3!\nhalf() = 1/2\nww() = √(-4)\ncc() = [1, 2; 3, 4]\ndup(x, x) = x\nfc(n) = n!\ndist = 5 km\nmass1 = 2 kg\ntemp1 = 20 °C\nstor = 3 KiB\nmat1 = [1, 2; 3, 4]\nvec1 = [1, 2, 3]\n")
    g = gen.ExprGen(rng, vars_num=("x", "y", "pi2"), funcs=("f", "k", "sh", "nest", "sqrt", "bad", "bad2", "abs", "half", "kk"))   # not `r`: r(non-integer) never ends (known finding K4)
    ex = []
    for _ in range(2500 if quick else 50000):
        ex.append(g.expression(rng.choice([1, 2, 3, 4, 6])))
    ex += ["gg(1, 2)", "h(1, 2)", "gg(x, y)", "r(5)", "r(0)", "r(2.5 - 0.5)", "bad(1)", "bad2(1)", "nest(3)", "f(f(f(1)))", "k(k(2))", "sh(4)", "gg(bad(1), 2)",
           "f(1) + x", "x + f(1)", "[f(1), x; y, gg(1,2)]", "f(1, 2)", "f()", "sin(x)", "h(1)", "r(-1 + 1)", "k(sin)", "k([1,2])",
           "apply(f, 3)", "apply(r, 3)", "apply(sin, 0)", "apply(bad, 1)", "twice(f)", "twice(sin)", "apply(k, 2)", "apply(apply, 1)", "kk()", "half()", "ww()", "cc()",
           "kk() + half()", "dup(1, 2)", "dup(bad(1), 2)", "apply(dup, 1)", "apply(kk, 1)",
           "dist as m", "(mass1 as g) * 2", "temp1 as °F", "dist as km", "stor as b", "(dist as cm) + dist", "mat1 * 2", "transpose(mat1)", "dist + 1 m", "-dist", "dist * 2", "dist / 2", "inverse(mat1)", "mat1 * mat1",
           "vec1 cross vec1", "vec1 dot vec1", "|vec1|", "-mat1", "mat1 / 2", "f(dist)", "k(dist as m)", "apply(sqrt, dist)", "dist as kg", "mat1 as m", "(dist) as m", "[dist as m]", "dist as m as cm",
           "PI", "Tau", "Sin(0)", "Log2(8)", "E", "I", "Pi2", "X", "F(1)", "PI + Tau", "Sqrt(4)", "GCD(4, 6)", "Phi"]
    ex += ["%d! %s %d!" % (n, op, m) for n, m in [(25, 5), (30, 3), (28, 4), (100, 7), (170, 20), (26, 24), (40, 23), (5, 25)] for op in ("-", "/", "+")]
    ex += ["fc(28) + fc(4)", "fc(30) / fc(3)", "fc(25) - fc(5) - (fc(25) - fc(5))", "[fc(27), fc(6)]", "fc(fc(4))"]
    texts = ["dist\nmass1\ntemp1\nstor\nmat1\nvec1\nx\ny\nf\ngg\nh\nk\nsin\npi\ne\nkk\nhalf\nww\nr\napply\ndup\nhh\nPI\nTau\nPI = 1\nTau = 1\ndelete Sin\n"]
    ex += []
    do_stream(ctx, "eval-in-env", (gen.hist_case("v%d" % k, [prelude, e + "\n"] + texts) for k, e in enumerate(ex)), P,
              monitors={"eval_mutated", "eval_not_repeatable", "frame_violated"}, setup=1)
    hist_streams(ctx, P, {"eval_mutated", "eval_not_repeatable", "frame_violated"})


def run_C12(ctx):
    # independence is judged on the implementation by two monitors: after every statement no binding other than the
    # statement's target has changed (frame), and no two names share one function handle (alias)
    P = props.proj_values(consts_only=True)
    hist_streams(ctx, P, {"alias", "frame_violated", "builtins_changed"}, oracle=[oracles.oracle_frame, oracles.oracle_guarded])
    extra = ["sq(v) = v*v\nhh = sq\ndelete sq\nww = hh(3)\nsq\nhh\n", "sq(v) = v*v\nhh = sq\ndelete sq\nww = hh(3)\nsq(v, k) = 0\nhh\ndelete sq(v)\nhh\nhh(4)\n",
             "xx = 7\ndup(xx, xx) = xx\nyy = dup(1, 2)\nxx\n", "ff(xx) = xx + 1\npair(ff, ff) = 0\nyy = pair(1, 2)\nff\n", "twice(ww, ww) = ww\nyy = twice(3, 4)\nww\n",
             "ff(xx) = xx\nhh = (ff)\nhh(xx, yy) = xx*yy\nff\ndelete hh(xx)\nff\n", "id(k) = k\nff(xx) = xx\nhh = id(ff)\ndelete ff(xx)\nhh\nff\n",
             "ff(xx) = xx+1\nhh = ff\ndelete hh(xx)\nff\nhh\nff(2)\n", "aa = 1\nbb = aa\naa = 2\nbb\ndelete aa\nbb\n",
             "mm = [1,2;3,4]\nnn = mm\nmm = mm * 2\nnn\n", "ss = sin\ntt = ss\ndelete ss\ntt(0)\nsin(0)\n",
             "aa = 1\r\n fa = 1\r\n fb = 2\r\n fa\r\n fb\r\n", "w = 0\r\n ga(q) = q\r\n gb(q) = 2*q\r\n ga\r\n gb\r\n ga(1)\r\n", "x1 = 1\rx2 = 2; x1; x2\r\n xa = 3; xb = 4; xa; xb\n",
             "hh = sqrt\nrr = 4\nclear\nsqrt(4)\nsqrt\nabs(1)\nG\nphi\n", "clear\nsqrt\nsin\ncos\nlog\ngcd\nidentity\ntranspose\nG\nc\ntau\nϕ\nπ\n",
             "aa = 1\nff(xx) = xx\naa = 2; hh = ff; delete zz\naa\nhh\n", "aa = 1\nff(xx) = xx\ndelete aa; kk(xx) = 2*xx; ff(xx, yy) = xx*yy; pi = 3\naa\nkk\nff\n",
             "aa = 1; bb = aa; bb = 1/0; aa; bb\naa\nbb\n", "ans = 5\n2 + 2\nans\n", "ff(xx) = xx + 1\nff\nans(xx, yy) = xx * yy\nff\nans\n", "last = 1\n_ = 2\nit = 3\n7\nlast\n_\nit\nresult\nprev\n"]
    do_stream(ctx, "copies", (gen.hist_case("c%d" % k, [t]) for k, t in enumerate(extra)), P, monitors={"alias", "frame_violated", "builtins_changed"}, oracle=oracles.oracle_guarded)


def run_C13(ctx):
    rng, quick = ctx["rng"], ctx["quick"]
    P = props.proj_values(with_env=True, with_text=True, with_info=True)
    hist_streams(ctx, P, set(), oracle=oracles.oracle_dispatch)
    # signatures of arity 0..3 with literals and names in all positions
    params = ["a", "p", "0", "1", "2.5", "0.00000000000000000001", "10000000000000000", "10000000000000002"]
    sigs = ["()"] + ["(%s)" % p for p in params] + ["(%s, %s)" % (p, q) for p in params for q in params] + \
        ["(%s, %s, %s)" % (p, q, r) for p in ["a", "0"] for q in ["p", "1"] for r in ["c", "2"]]
    calls = ["f()", "f(0)", "f(1)", "f(2.5)", "f(7)", "f(0, 0)", "f(0, 1)", "f(1, 0)", "f(3, 4)", "f(2.5, 2.5)", "f(0, 1, 2)", "f(9, 1, 2)", "f(9, 8, 7)",
             "f(1, 2, 3, 4)", "f(i)", "f([1])", "f(1 m)", "f\n"]
    cases = []
    for k in range(400 if quick else 8000):
        steps = []
        for j in range(rng.randrange(1, 7)):
            s = rng.choice(sigs)
            if rng.random() < 0.7:
                steps.append("f%s = %s" % (s, rng.choice(["%d" % (100 * k % 1000 + j), "a * 100 + p * 10 + c + %d" % j, "p - a", "c"])))
            else:
                steps.append("delete f%s" % s)
        cases.append(gen.hist_case("s%d" % k, ["a = 1000\np = 2000\n" if k % 2 else "c = 3000\n"] + [st + "\n" + "\n".join(calls) + "\n" for st in steps]))
    do_stream(ctx, "signatures", cases, P, oracle=oracles.oracle_dispatch, setup=1)
    rec = ["gg(0) = 1\ngg(n) = n * gg(n - 1)\ngg(5)\ngg(0)\ngg\n", "fib(0) = 0\nfib(1) = 1\nfib(n) = fib(n-1) + fib(n-2)\nfib(10)\nfib\n",
           "a(x) = x + w\na(1)\nw = 5\na(1)\nw = 6\na(1)\n", "p(x, x) = x\np(1, 2)\n", "q(x) = x\nq(x) = 2*x\nq(3)\nq(y) = 3*y\nq(3)\nq\n",
           "d(1) = 10\nd(x) = 20\nd(1)\nd(2)\ndelete d(1)\nd(1)\ndelete d(x)\nd(1)\nd\n", "d(x) = 20\nd(1) = 10\nd(1)\nd(2)\nd\n"]
    do_stream(ctx, "recursive-and-order", (gen.hist_case("o%d" % k, [t]) for k, t in enumerate(rec)), P)


def run_C14(ctx):
    rng, quick = ctx["rng"], ctx["quick"]
    P = props.proj_values(with_pos=True, with_info=True)
    faults = ["1 / 0", "5 % 0", "[1,2;3,4] / 0", "2 m / 0", "unknown", "sin(1, 2)", "sin()", "ceil(i)", "log(i, 2)", "identity(0)", "inverse([1,2;2,4])",
              "(-3)!", "(0-4)!", "(-1)!", "(0 - 170)!", "5 m + 1", "1 - [1]", "[1,2] * [3,4]", "[1,2] dot [1;2]", "[1,2] cross [3,4]", "2.5!", "(1 m)!", "-sin", "√sin", "|sin|", "|[1,2;3,4]|", "⌈i⌉", "⌊2 m⌋",
              "⌈[1]⌉", "3(4)", "(1+2)(3)", "[1, 5 m]", "[1, 2; 3, sin]", "1 m as kg", "sin as m", "f(1, 2, 3)", "f()", "pi = 3", "sin = 2", "sin(a) = a",
              "delete pi", "delete sin(a)", "delete nothing", "delete nothing(a)", "s(a) = a", "delete s(a)", "delete f(zz, yy, xx)", "delete x(a)", "e(x) = x"]
    syn = ["1 +", "(1", "[1, 2", "|1", "⌈1", "⌊2", "1 2", "x = ", "f(a+1) = 2", "delete 3", "delete (x)", "[1, 2; 3]", "5 as", "5 as x", "1 +* 2", ")", "f(1,",
           "clear x", "delete", "x = 1 y = 2", "#", "1 $ 2", "x ≠ 1", "1e²"]
    cases = []
    k = 0
    pre = "x = 1\nf(a) = a\ns = sin\n"
    for fault in faults + syn:
        for rep_i in range(3 if quick else 25):
            g = gen.ExprGen(rng)
            nb, na = rng.randrange(0, 4), rng.randrange(0, 4)
            before = [rng.choice(["x = %s" % g.expression(1), g.expression(2), "f(%s)" % g.atom(), "y = 2"]) for _ in range(nb)]
            after = [rng.choice(["x + 1", g.expression(1), "f(3)", "y"]) for _ in range(na)]
            indent = rng.choice(["", " ", "\t", "  \t ", "é = 1; ", "π;;  "])
            # plant the fault inside a larger expression sometimes
            fl = fault
            if fault in faults[:30] and rng.random() < 0.5:
                fl = rng.choice(["1 + (%s)", "(%s) * 2", "[%s, 1]", "sqrt(%s)", "-(%s)", "x + %s + (1/0)", "(%s) + (1/0)"]) % fault
            lines = before + [indent + fl] + after
            sep = rng.choice(["\n", "\n", ";", " ;\n"])
            text = sep.join(lines) + "\n"
            cases.append(gen.hist_case("d%d" % k, [pre, text], tab=rng.choice([0, 1, 4, 8, 255])))
            k += 1
    for t in props.shape_pair_exprs(4):
        cases.append(gen.hist_case("d%d" % k, [pre, "1 + 1\n" + t + "\nx + 1\n"]))
        k += 1
    for t in ["ff(n) = 1/n\nn = 5\nff(0)\nn\n", "hh(ww) = [1,2] + ww\nhh(3)\nww\n", "ff(n) = 1/n\nff(0)\nn\nff(2)\n", "gg(pi) = pi(1)\ngg(3)\npi\n",
              "1 +\r\n2\r\n", "x = (1 + 2\r\n", "5 as\r\n", "f(1,\r\n", "1 + 1\r\nnope\r\n2\r\n", "\tx = 1\r\n\tnope + 1\r\n", "1 2\r\n"]:
        cases.append(gen.hist_case("d%d" % k, [pre, t]))
        k += 1
    # far positions: lines and columns beyond 255 and 65535, reached by newlines, blanks, tabs, multi-byte characters,
    # long names, long numerals and many statements
    for fault in ["1 / 0", "unknown", "1 +", "#", "sin(1, 2)", "5 m + 1"]:
        for n in (255, 256, 257, 1000, 65535, 65536, 70000):
            for pref in ["\n" * n, " " * n, "\t" * n, "é" * n + " = 1; ", "é" * n + " + ", "1" * n + " + ", "0." + "3" * n + " * "]:
                cases.append(gen.hist_case("d%d" % k, [pre, pref + fault + "\nx\n"], tab=rng.choice([1, 4, 255])))
                k += 1
        for n in (49, 50, 51, 255, 256, 300):
            cases.append(gen.hist_case("d%d" % k, [pre, "x = x + 1\n" * n + fault + "\nx\n"]))
            k += 1
            cases.append(gen.hist_case("d%d" % k, [pre, "x = x + 1; " * n + fault + "; x\n"]))
            k += 1
    two = ["[1 m, nope]", "[3, sin, 1/0]", "[1, 2; [7], ⌈i⌉]", "[sin, unknown]", "[[1], 1/0]", "[1 m, 2; nope, 3]", "[nope, 1 m]", "[1, 2; 3 m, 1/0]", "sin([1], nope)", "log(sin, 1/0)",
           "(1/0) + unknown", "unknown + (1/0)", "sin(1/0, unknown)", "[1/0, unknown]", "[unknown; 1/0]", "f(unknown)(1/0)", "unknown(1/0)", "(1/0)(unknown)",
           "(5 m + 1) * (1/0)", "-(1/0) + 2.5!", "|unknown| + ⌈i⌉", "f(1/0, unknown, 3)", "sin(unknown) + sin(1, 2)", "(1/0) as m", "unknown as kg"]
    for t in two:
        cases.append(gen.hist_case("d%d" % k, [pre, t + "\n"]))
        k += 1
    do_stream(ctx, "planted-faults", cases, P, oracle=oracles.oracle_diagnostics)
    # a statement-level failure (refused assignment / definition / deletion, failing right-hand side) in the middle of a
    # text: exactly one diagnostic, and the statements after it still run (small fixed stream: replayed whole)
    cont = []
    for k2, ft in enumerate(["pi = 3", "sin = 2", "sin(a) = a", "delete pi", "delete sin(a)", "delete nothing", "delete nothing(a)", "y = 1/0", "y = unknown", "delete f(zz, yy, xx)",
                              "e(x) = x", "delete x(a)", "y = [1, 5 m]", "y = sin(1, 2)", "s(a) = a", "delete s(a)"]):
        for sep in ("\n", "; "):
            cont.append(gen.hist_case("c%d%s" % (k2, "n" if sep == "\n" else "s"), [pre, "x = 2" + sep + ft + sep + "x + 1" + sep + ft + sep + "2 * 3" + sep + "x = 5" + sep + "x\n"]))
    do_stream(ctx, "continue-after-failure", cont, P, oracle=oracles.oracle_diagnostics, setup=1)
    # texts that BEGIN and END with blank space, blank lines, CR, or a byte-order mark (small fixed stream: replayed whole
    # through the binary, also as the preload file): the reported line and column count from the true start of the text
    edge = []
    for k3, lead in enumerate(["\n", "\n\n\n", "  ", "\t", " \t \n  ", "\r\n\r\n", "\n \n\t\n", "\ufeff", "\ufeff\n", "   \n\n      "]):
        for k4, (ft, tail) in enumerate([("1/0", "\n"), ("nope + 1", "   \n\n\n"), ("1 +", "\n"), ("x = 2\n  y = x/0", " \t "), ("2 * 3\n\n\t5 m + 1\nx", "\n \n")]):
            edge.append(gen.hist_case("e%d_%d" % (k3, k4), [lead + ft + tail], tab=[4, 1, 8, 0, 255][k4]))
    do_stream(ctx, "text-edges", edge, P, oracle=oracles.oracle_diagnostics)
    PP = props.proj_parse(with_pos=True)
    do_stream(ctx, "parsek-positions", gen.parsek_exhaustive(gen.REDUCED, 3 if quick else 4, "q"), PP,
              exhaustive="all token sequences over the reduced alphabet up to length %d, error kind and position compared" % (3 if quick else 4))


SPECIAL_F = ["0000000000000000", "8000000000000000", "3ff0000000000000", "bff0000000000000", "3e112e0be826d695", "be112e0be826d695",
             "7fefffffffffffff", "ffefffffffffffff", "3fb999999999999a", "400921fb54442d18", "0000000000000001", "8000000000000001",
             "000fffffffffffff", "7ff0000000000000", "fff0000000000000", "7ff8000000000000", "4340000000000001", "3ff0000000000001",
             "4024000000000000", "c059000000000000", "3f50624dd2f1a9fc", "44b52d02c7e14af6"]


def run_C15(ctx):
    rng, quick = ctx["rng"], ctx["quick"]
    import struct
    def rnd():
        r = rng.random()
        if r < 0.3:
            return "%016x" % rng.getrandbits(64)
        if r < 0.6:
            return "%016x" % struct.unpack("<Q", struct.pack("<d", rng.uniform(-1000, 1000)))[0]
        if r < 0.8:
            return "%016x" % struct.unpack("<Q", struct.pack("<d", float(rng.randrange(-10 ** 6, 10 ** 6))))[0]
        return "%016x" % struct.unpack("<Q", struct.pack("<d", rng.uniform(-1, 1) * 10 ** rng.randrange(-300, 300)))[0]
    cases = []
    k = 0
    for re_ in SPECIAL_F:
        for im in SPECIAL_F:
            cases.append("print n%d n:#%s_#%s" % (k, re_, im)); k += 1
    for _ in range(3000 if quick else 100000):
        cases.append("print n%d n:#%s_#%s" % (k, rnd(), rnd() if rng.random() < 0.6 else "0000000000000000")); k += 1
    wholes = [10 ** e + d for e in range(0, 23) for d in (-1, 0, 1)] + [2 ** e + d for e in (15, 16, 31, 32, 33, 52, 53, 63, 64) for d in (-1, 0, 1)] + \
        [479001600, 6227020800, 87178291200, 3000000000, 2147483647, 2147483648, 4294967295, 9999999999, 10000000000, 123456789012]
    for w in wholes:
        for sgn in (1, -1):
            b = "%016x" % struct.unpack("<Q", struct.pack("<d", float(sgn * w)))[0]
            cases.append("print n%d n:#%s_#0000000000000000" % (k, b)); k += 1
            cases.append("print n%d n:#0000000000000000_#%s" % (k, b)); k += 1
            cases.append("print q%d q:4:#%s_#0000000000000000" % (k, b)); k += 1
    for u in range(48):
        for re_, im in [("3ff8000000000000", "0000000000000000"), ("0000000000000000", "4000000000000000"), ("3ff8000000000000", "c000000000000000"),
                        ("0000000000000000", "0000000000000000"), ("8000000000000000", "3ff0000000000000"), ("7ff8000000000000", "3ff0000000000000"),
                        (rnd(), rnd())]:
            cases.append("print q%d q:%d:#%s_#%s" % (k, u, re_, im)); k += 1
    for r in range(1, 5):
        for c in range(1, 5):
            for _ in range(4 if quick else 40):
                cells = ",".join("#%s_#%s" % (rng.choice(SPECIAL_F + [rnd()]), rng.choice(["0000000000000000", "0000000000000000", rnd(), "3ff0000000000000"])) for _ in range(r * c))
                cases.append("print m%d m:%d:%d:%s" % (k, r, c, cells)); k += 1
    # wide, tall and long outputs (more columns / bytes than any fixed table or buffer would hold)
    for r, c in [(1, 16), (1, 17), (1, 18), (2, 17), (17, 17), (1, 40), (40, 1), (3, 33), (1, 300), (70, 70)]:
        cells = ",".join("#%s_#%s" % (rng.choice(SPECIAL_F[:6] + [rnd()]), "0000000000000000") for _ in range(r * c))
        cases.append("print m%d m:%d:%d:%s" % (k, r, c, cells)); k += 1
    big = "#7e37e43c8800759c_#7e37e43c8800759c"      # 1e300 + 1e300i: 600 bytes per cell
    for r, c in [(4, 4), (3, 4), (2, 8), (6, 6)]:
        cases.append("print m%d m:%d:%d:%s" % (k, r, c, ",".join([big] * (r * c)))); k += 1
    # rows that repeat (first = last, all equal, zero matrix): row separators must not depend on row contents
    for r in range(2, 5):
        for c in range(1, 4):
            row = ["#%s_#%s" % (rng.choice(SPECIAL_F[:6] + [rnd()]), "0000000000000000") for _ in range(c)]
            other = ["#%s_#%s" % (rnd(), "0000000000000000") for _ in range(c)]
            for rows in ([row] * r, [row] + [other] * (r - 2) + [row], [other] * (r - 1) + [row], [row, row] + [other] * (r - 2)):
                cases.append("print m%d m:%d:%d:%s" % (k, r, c, ",".join(x for rw in rows for x in rw))); k += 1
    for b in ctx["dump"]["builtins"]:
        cases.append("print b%d fn:%s" % (k, hx(b["key"]))); k += 1
    do_stream(ctx, "print", cases, None, oracle=oracles.oracle_reader, nontrivial=lambda pl: True)
    fm = ["fmt d%d d:#%s" % (i, s) for i, s in enumerate(SPECIAL_F)] + ["fmt e%d d:#%s" % (i, rnd()) for i in range(5000 if quick else 200000)]
    do_stream(ctx, "fmt-display", fm, None, nontrivial=lambda pl: True)
    # computed values and listings through the statement path
    ex = ["1/3", "2/3 + i/7", "-0.1 - 0.2*i", "5 km", "(1+i) * 3 kg", "[1, 22; 333, 4444]", "[1+i, 2; 3, 4-i]", "sin", "f", "0 * -1", "i * i", "-i", "0*i",
          "1e21", "1e-7", "100 °F as °C", "3 µm", "[0.5; 1.25]", "(0 - i) * 2 m", "1e999", "1e999 - 1e999", "-(1e999)",
          "[1,2;3,4] - [1,2;3,4]", "[1,2;3,4;1,2]", "[5;700;5]", "identity(3) * 0", "1 kg * (1e-17 + 2*i)", "3 m - 1e-20 m * i", "(1e-320 + i) * 1 B",
          "(4.9e-324 + 4.9e-324*i) as km", "(1e999-1e999) as m", "((1e999-1e999) + i) as kg",
          "identity(17)", "identity(40)", "identity(70)", "identity(70) * (1e300 + 1e300*i)", "[1,2,3,4,5,6,7,8,9,10,11,12,13,14,15,16,17,18]",
          "(1e300 + 1e300*i) * [1,1,1,1;1,1,1,1;1,1,1,1;1,1,1,1]", "(1e300 + 1e300*i) * identity(6)", "identity(30) * 1e-300 / 3", "big", "wide(1)", "1e300 + 1e300*i"]
    run_values_text(ctx, "computed", ex)


def run_values_text(ctx, name, exprs, prelude="x = 3\nf(x) = x\nf(0) = 1\nbig = identity(50) / 7\nwide(q) = [q, 2*q, 3*q, 4*q, 5*q, 6*q, 7*q, 8*q, 9*q, 10*q, 11*q, 12*q, 13*q, 14*q, 15*q, 16*q, 17*q, 18*q, 19*q]\n"):
    # judged on the implementation alone: what was printed must denote what was computed (whatever was computed)
    return do_stream(ctx, name, props.expr_cases(name[0], exprs, prelude=prelude), props.proj_values(with_text=True), monitors={"print_mismatch"},
                     oracle=oracles.oracle_reader_hist, impl_only=True)


def run_C16(ctx):
    from . import front
    front.run_front(ctx, repeat=1, cross_modes=True)


def run_C19(ctx):
    from . import front
    front.run_front(ctx, repeat=5 if ctx["quick"] else 10, cross_modes=False, vary_env=True)
    # the in-process half: hash-map order never reaches an observable (same histories, model = implementation)
    P = props.proj_values(with_info=True)
    do_stream(ctx, "hist-random", props.hist_random(ctx["rng"], 500 if ctx["quick"] else 10000), P)


def run_C17(ctx):
    from . import rerender
    rerender.run_rerender(ctx)


def run_C18(ctx):
    from . import rerender
    rerender.run_listing(ctx)


RUNNERS = {"C01": run_C01, "C02": run_C02, "C03": run_C03, "C04": run_C04, "C05": run_C05, "C06": run_C06, "C07": run_C07,
           "C08": run_C08, "C09": run_C09, "C10": run_C10, "C11": run_C11, "C12": run_C12, "C13": run_C13, "C14": run_C14,
           "C15": run_C15, "C16": run_C16, "C17": run_C17, "C18": run_C18, "C19": run_C19}


def run_property(pid, ctx):
    RUNNERS[pid](ctx)
    if pid not in ("C16", "C19"):
        # the same programs through the real binary in every mode (C16 / C19 do nothing else)
        from . import replay as _replay
        _replay.replay_from_files(ctx)


def search_after_lean_failure(pid, ctx, lean_failure):
    """A theorem or generated-table obligation broke and the streams found nothing: look for the
    offending table row and turn it into a calculator input (DESIGN.md section 5)."""
    return oracles.search_tables(pid, ctx)


def replay(a, rep, ctx):
    v = json.load(open(a.replay))
    case = v.get("case")
    if not case:
        print("replay file holds no case (obligation failure): re-running the whole check")
        run_property(a.pid, ctx)
        return engine.finish(rep, "./check %s --replay %s" % (a.pid, a.replay), PROPS[a.pid]["rule"])
    if not (case.startswith("hist ") or case.startswith("tok ") or case.startswith("parse") or case.startswith("print ") or case.startswith("fmt ") or case.startswith("charclass ")) \
            or getattr(rep, "blackbox", False):
        return None     # a front-end session or a table row: judged by the whole check
    d = os.path.join(core.WORK, a.pid)
    os.makedirs(d, exist_ok=True)
    cp = os.path.join(d, "replay.cases")
    open(cp, "w").write(case + "\n")
    inc = core.run_impl(ctx["repo"], cp, os.path.join(d, "replay.impl"))
    core.run_model(cp, os.path.join(d, "replay.model"))
    ia = core.read_obs(os.path.join(d, "replay.impl"))
    mb = core.read_obs(os.path.join(d, "replay.model"))
    print("case:", describe_case(case))
    for cid in ia:
        print("implementation:")
        for l in ia[cid]:
            print("   ", l[:400])
        print("model:")
        for l in mb.get(cid, []):
            print("   ", l[:400])
    print("recorded oracle verdict:", v.get("oracle"))
    same = all([l for l in ia[c] if not l.startswith("MON ")] == mb.get(c) for c in ia)
    mons = [l for c in ia for l in ia[c] if l.startswith("MON ") or l.split(" ")[0] in ("PANIC", "CRASH", "TIMEOUT")]
    if same and not mons:
        print("replay: implementation and model agree on this one case; the recorded verdict came from an oracle, a monitor or the binary —")
        return None
    print("VIOLATION property=%s replay=%s" % (a.pid, a.replay))
    return 1
