"""Front-end replay: a sample of a property's own programs is run through the REAL binary — as a preload file plus
argument, as one argument, and line by line on stdin — and the binary's stdout is compared byte for byte with what the
in-process run of the same texts (same library, same tree) prints.  A change to the library shows on both sides and is
judged by the property's own model comparison; what this comparison isolates is the front end (calculator/src/main.rs:
option handling, how the file / argument / prompt lines are cut into texts, what is done to a line before it is
scanned, what is printed around results).  Each property replays programs that exercise ITS observables, so a front-end
change is reported by the properties whose behaviour it alters for the user and by no other."""
import re
from . import core, engine, gen, props, front
from .core import hx, unhx


def texts_of_case(line):
    p = line.rstrip("\n").split(" ")
    if p[0] == "hist":
        return int(p[2]), [unhx(t) for t in p[3:]]
    if p[0] == "tok" and len(p) >= 4:
        return int(p[2]), [unhx(p[3])]
    return None, None


def replay_from_files(ctx):
    """sample the cases of every stream this check has run (evenly per stream) and replay them through the binary"""
    rng, quick = ctx["rng"], ctx["quick"]
    files = ctx.get("case_files", [])
    total = 90 if quick else 900
    picked = []
    for name, path in files:
        share = max(80, total // max(1, len(files)))       # small streams (fixed corner cases) are replayed whole
        lines = []
        n = 0
        with open(path, encoding="utf-8") as f:
            for line in f:
                if not (line.startswith("hist ") or line.startswith("tok ")) or len(line) > 30000:
                    continue
                n += 1
                if len(lines) < share:
                    lines.append(line)
                else:
                    j = rng.randrange(n)          # reservoir sampling
                    if j < share:
                        lines[j] = line
        picked += lines
    if picked:
        replay(ctx, picked, count=len(picked))


def one_line_statements(text):
    """the lines of a text, if every line can be typed at the prompt on its own (no line is `exit`)"""
    lines = text.split("\n")
    if lines and lines[-1] == "":
        lines = lines[:-1]
    for l in lines:
        if l.strip().lower() == "exit" or "\r" in l:
            return None
    return lines


def sessions_of(cases, rng, count):
    """build front-end sessions from hist cases: (file + argument), (argument only), (stdin), (file + stdin)"""
    cases = [c for c in cases if c.startswith("hist ") or c.startswith("tok ")]
    if len(cases) > count:
        cases = rng.sample(cases, count)
    out = []
    for k, c in enumerate(cases):
        tab, texts = texts_of_case(c)
        if not texts or any("\x00" in t for t in texts) or sum(len(t) for t in texts) > 20000:
            continue
        # an argument must not start with '-' (it would be an option) and must be valid UTF-8 without NUL
        first, rest = texts[0], texts[1:]
        if rest:
            body = "".join(front.ensure_nl(t) for t in rest)
            out.append(dict(id="fa%d" % k, tab=tab, file=first, expr=body, stdin=None))
            lines = one_line_statements(body)
            if lines is not None:
                out.append(dict(id="fs%d" % k, tab=tab, file=first, expr=None, stdin=lines, end=rng.choice([None, "exit"]), after=[]))
        whole = "".join(front.ensure_nl(t) for t in texts)
        out.append(dict(id="aa%d" % k, tab=tab, file=None, expr=whole, stdin=None))
        out.append(dict(id="ff%d" % k, tab=tab, file=whole, expr="", stdin=None))          # the whole program as the preload file
        lines = one_line_statements(whole)
        if lines is not None:
            out.append(dict(id="ss%d" % k, tab=tab, file=None, expr=None, stdin=lines, end=rng.choice([None, "exit", "EXIT"]), after=[]))
    return out


def replay(ctx, cases, count=None, label="front-replay"):
    from . import judges
    rep, rng, quick = ctx["rep"], ctx["rng"], ctx["quick"]
    core.build_impl(ctx["repo"], need_binary=True)
    count = count or (60 if quick else 600)
    sessions = sessions_of(list(cases), rng, count)
    if not sessions:
        return
    P = props.proj_abort_only
    a, b = judges.do_stream(ctx, label + "-inprocess", (gen.hist_case(s["id"], front.session_texts(s), tab=s["tab"]) for s in sessions), P, impl_only=True)
    mism = 0
    BANNER, GOODBYE = front.framing(ctx)
    for s in sessions:
        obs = a.get(s["id"], [])
        if any(l.split(" ")[0] in ("PANIC", "CRASH", "TIMEOUT") for l in obs):
            continue            # reported by the in-process stream itself
        if s["expr"] is None:
            if s["file"] is not None:
                pred = front.predicted_stdout(obs, only_text=0) + BANNER + "\n" + front.predicted_stdout(obs, skip_text=0) + GOODBYE + "\n"
            else:
                pred = BANNER + "\n" + front.predicted_stdout(obs) + GOODBYE + "\n"
        else:
            pred = front.predicted_stdout(obs)
        rc, so, se = front.run_binary(ctx, s)
        rep.evaluations += 1
        rep.count("%s:mode:%s%s" % (label, "file+" if s["file"] is not None else "", "arg" if s["expr"] is not None else "stdin"))
        if rc != 0 or so != pred:
            mism += 1
            if mism <= 3:
                rep.violation("%s: through the real binary (%s) this property's program prints something else than the same texts run in-process: %s"
                              % (label, "preload file + " * (s["file"] is not None) + ("argument" if s["expr"] is not None else "lines on stdin"), front.describe(s)[:600]),
                              case=front.json_case(s), impl=dict(rc=rc, stdout=so[:4000], stderr=se[-300:]), model=dict(predicted=pred[:4000]), stream=label,
                              oracle="front-end contract: the file, then the argument or each prompt line, is handed to the library unchanged (a final newline added); results and diagnostics are printed as the library renders them")
    rep.oblige("%s: binary stdout = in-process prediction for %d sessions built from this property's programs (file+argument, argument, stdin, file+stdin)" % (label, len(sessions)),
               mism == 0, "%d mismatches" % mism)
