"""An independent reading of the calculator's language, written from the property statements and the documented
grammar (parser.rs header), not from the code and not from the Lean model: a longest-match scanner (C04), a
table-driven precedence-climbing reader (C03) and an evaluator over complex numbers, sizes of measurements and
matrices (C02, C05, C06, C07).  It is the oracle that judges the implementation's observations on their own."""
import cmath, math, itertools
from fractions import Fraction


def sabs(x):
    """abs that saturates instead of raising on complex overflow"""
    try:
        return abs(x)
    except OverflowError:
        return float("inf")



# ------------------------------------------------------------------------------------------------
# scanner (C04): longest match; number = digits(.digits)?(e-?digits)?; word = start char then continue chars

SINGLE = {"\n": 21, ";": 22, "(": 0, ")": 1, "[": 2, "]": 3, "⌈": 4, "⌉": 5, "⌊": 6, "⌋": 7, "+": 8, "-": 9, "/": 10, "*": 11,
          "^": 12, "!": 13, "|": 14, "%": 15, ",": 16, "=": 17, "√": 18, "•": 19, "×": 20}
KEYWORDS = {"delete": 23, "cross": 20, "as": 25, "dot": 19, "clear": 24}
WORD_START = set("abcdefghijklmnopqrstuvwxyzABCDEFGHIJKLMNOPQRSTUVWXYZ_πϕ°µμ")


class Scanner:
    def __init__(self, alnum_ranges, unit_spellings):
        self.ranges = alnum_ranges          # from the implementation's own char::is_alphanumeric (trusted std)
        self.units = unit_spellings          # documented spelling -> unit name (spec)
        import bisect
        self.starts = [a for a, b in alnum_ranges]
        self.bisect = bisect.bisect_right

    def alnum(self, ch):
        i = self.bisect(self.starts, ord(ch)) - 1
        return i >= 0 and self.ranges[i][0] <= ord(ch) <= self.ranges[i][1]

    def cont(self, ch):
        return self.alnum(ch) or ch in "_°"

    def scan(self, text, tab):
        """-> ('ok', [(tag, lexeme, line, col, payload)]) | ('bad', line, col, ch)"""
        toks = []
        i, line, col = 0, 1, 1
        n = len(text)

        def adv(s, line, col):
            for ch in s:
                if ch == "\n":
                    line, col = line + 1, 1
                elif ch == "\t":
                    col += tab
                else:
                    col += 1
            return line, col
        while i < n:
            ch = text[i]
            if ch in " \t\r":
                line, col = adv(ch, line, col)
                i += 1
            elif ch in SINGLE:
                toks.append((SINGLE[ch], "\\n" if ch == "\n" else ch, line, col, None))
                line, col = adv(ch, line, col)
                i += 1
            elif ch in WORD_START:
                j = i
                while j < n and self.cont(text[j]):
                    j += 1
                w = text[i:j]
                if w in KEYWORDS:
                    toks.append((KEYWORDS[w], w, line, col, None))
                elif w in self.units:
                    toks.append((28, w, line, col, self.units[w]))
                else:
                    toks.append((26, w, line, col, w))
                line, col = adv(w, line, col)
                i = j
            elif "0" <= ch <= "9":
                j = i
                while j < n and "0" <= text[j] <= "9":
                    j += 1

                def exponent(j):
                    if j < n and text[j] == "e":
                        k = j + 1
                        if k < n and text[k] == "-":
                            k += 1
                        k0 = k
                        while k < n and "0" <= text[k] <= "9":
                            k += 1
                        if k > k0:
                            return k
                    return None
                e = exponent(j)
                if e is not None:
                    j = e
                else:
                    if j + 1 < n and text[j] == "." and "0" <= text[j + 1] <= "9":
                        j += 1
                        while j < n and "0" <= text[j] <= "9":
                            j += 1
                        e = exponent(j)
                        if e is not None:
                            j = e
                w = text[i:j]
                toks.append((27, w, line, col, float(w)))
                line, col = adv(w, line, col)
                i = j
            else:
                return ("bad", line, col, ch)
        return ("ok", toks)


# ------------------------------------------------------------------------------------------------
# reader (C03): precedence climbing over the documented levels

class ParseError(Exception):
    def __init__(self, kind, tok):
        self.kind, self.tok = kind, tok


BIN_LEVELS = [({8, 9}, "L"), ({11, 10, 15}, "L"), ({19}, "L"), ({20}, "L"), ({12}, "R")]   # + - | * / % | dot | cross | ^
CLOSE = {0: 1, 14: 14, 4: 5, 6: 7}
GK = {0: 0, 14: 1, 4: 2, 6: 3}


class Reader:
    """tokens: list of (tag, lexeme, line, col, payload).  Trees are nested tuples:
    ('num', v) ('meas', v, unit) ('id', name) ('bin', tag, L, R) ('un', tag, X) ('grp', k, X) ('as', X, unit)
    ('mat', rows) ('call', F, args)"""

    def __init__(self, toks):
        self.t = toks
        self.i = 0

    def peek(self):
        return self.t[self.i] if self.i < len(self.t) else None

    def tag(self):
        p = self.peek()
        return p[0] if p else None

    def next(self):
        p = self.peek()
        self.i += 1
        return p

    def program(self):
        out = []
        while self.peek() is not None:
            if self.tag() in (21, 22):
                self.next()
                continue
            out.append(self.statement())
        return out

    def delim(self):
        if self.tag() in (21, 22):
            self.next()
        else:
            raise ParseError("expectedDelimeter", self.peek())

    def statement(self):
        if self.tag() == 23:
            d = self.next()
            e = self.expression()
            if e[0] == "id":
                self.delim()
                return ("delvar", e[1])
            if e[0] == "call":
                self.delim()
                sig = self.signature(e)
                if sig is None:
                    raise ParseError("cannotDelete", d)
                return ("delsig", sig[0], sig[1])
            raise ParseError("cannotDelete", d)
        if self.tag() == 24:
            self.next()
            self.delim()
            return ("clear",)
        e = self.expression()
        if e[0] == "id" and self.tag() == 17:
            self.next()
            r = self.expression()
            self.delim()
            return ("assign", e[1], r)
        if e[0] == "call" and self.tag() == 17:
            eq = self.next()
            body = self.expression()
            self.delim()
            sig = self.signature(e)
            if sig is None:
                raise ParseError("invalidAssignmentTarget", eq)
            return ("define", sig[0], sig[1], body)
        self.delim()
        return ("expr", e)

    @staticmethod
    def signature(call):
        if call[1][0] != "id":
            return None
        params = []
        for a in call[2]:
            if a[0] == "id":
                params.append(("i", a[1]))
            elif a[0] == "num":
                params.append(("n", a[1]))
            else:
                return None
        return (call[1][1], tuple(params))

    def expression(self):
        e = self.binary(0)
        if self.tag() == 25:
            self.next()
            u = self.next()
            if u is None or u[0] != 28:
                raise ParseError("expectedUnit", u)
            return ("as", e, u[4])
        return e

    def binary(self, lvl):
        if lvl == len(BIN_LEVELS):
            return self.unary()
        ops, assoc = BIN_LEVELS[lvl]
        left = self.binary(lvl + 1)
        if assoc == "L":
            while self.tag() in ops:
                op = self.next()
                right = self.binary(lvl + 1)
                left = ("bin", op[0], left, right)
            return left
        if self.tag() in ops:
            op = self.next()
            right = self.binary(lvl)      # right-associative
            return ("bin", op[0], left, right)
        return left

    def unary(self):
        if self.tag() in (9, 18):
            op = self.next()
            return ("un", op[0], self.unary())
        e = self.call()
        while self.tag() == 13:
            self.next()
            e = ("un", 13, e)
        return e

    def call(self):
        e = self.primary()
        while self.tag() == 0:
            self.next()
            args = self.arguments(1)
            if self.tag() != 1:
                raise ParseError("expectedToken", self.peek())
            self.next()
            e = ("call", e, tuple(args))
        return e

    def arguments(self, close):
        args = []
        if self.tag() == 1:
            return args
        while True:
            args.append(self.expression())
            if self.tag() == 16:
                self.next()
            else:
                return args

    def primary(self):
        t = self.next()
        if t is None:
            raise ParseError("expectedExpression", None)
        tag = t[0]
        if tag == 27:
            if self.tag() == 28:
                u = self.next()
                return ("meas", t[4], u[4])
            return ("num", t[4])
        if tag == 26:
            return ("id", t[4])
        if tag in CLOSE:
            e = self.expression()
            if self.tag() != CLOSE[tag]:
                raise ParseError("expectedToken", self.peek())
            self.next()
            return ("grp", GK[tag], e)
        if tag == 2:
            rows = []
            while True:
                row = self.arguments(3)
                if rows and len(rows[-1]) != len(row):
                    raise ParseError("inconsistentMatrixRowLength", t)
                rows.append(tuple(row))
                if self.tag() == 22:
                    self.next()
                else:
                    break
            if self.tag() != 3:
                raise ParseError("expectedToken", self.peek())
            self.next()
            return ("mat", tuple(rows))
        raise ParseError("expectedExpression", t)


def parse_program(toks):
    """-> ('ok', [stmt]) | ('err', kind, (line, col) | None)"""
    try:
        return ("ok", Reader(toks).program())
    except ParseError as e:
        return ("err", e.kind, (e.tok[2], e.tok[3]) if e.tok else None)


# ------------------------------------------------------------------------------------------------
# comparing with the implementation's S-expressions (positions dropped)

import re
_TOK = re.compile(r"\{(\d+)@[^}]*\}")
_F = re.compile(r"#([0-9a-f]{16})")


def _fl(bits):
    import struct
    return struct.unpack("<d", struct.pack("<Q", int(bits, 16)))[0]


class SexprReader:
    """parses the harness' expression S-expressions into the tuples of Reader"""

    def __init__(self, s, unit_names):
        self.s, self.i, self.units = s, 0, unit_names

    def tok(self):
        m = _TOK.match(self.s, self.i)
        self.i = m.end()
        body = m.group(0)[1:-1]
        tag = int(m.group(1))
        parts = body.split(":")
        return tag, parts

    def cx(self):
        m = re.match(r"#([0-9a-f]{16})_#([0-9a-f]{16})", self.s[self.i:])
        self.i += m.end()
        return complex(_fl(m.group(1)), _fl(m.group(2)))

    def expect(self, ch):
        assert self.s[self.i] == ch, (self.s, self.i, ch)
        self.i += 1

    def expr(self):
        c = self.s[self.i]
        self.i += 1
        if c == "N":
            z = self.cx()
            return ("num", z.real if z.imag == 0 else z)
        if c == "Q":
            m = re.match(r"(\d+)_", self.s[self.i:])
            self.i += m.end()
            z = self.cx()
            return ("meas", z.real if z.imag == 0 else z, self.units[int(m.group(1))])
        if c == "I":
            tag, parts = self.tok()
            from .core import unhx
            return ("id", unhx(parts[3]))
        if c == "B":
            tag, _ = self.tok()
            self.expect("(")
            l = self.expr()
            self.expect(",")
            r = self.expr()
            self.expect(")")
            return ("bin", tag, l, r)
        if c == "U":
            tag, _ = self.tok()
            self.expect("(")
            x = self.expr()
            self.expect(")")
            return ("un", tag, x)
        if c == "G":
            k = int(self.s[self.i])
            self.i += 1
            self.tok()
            self.expect("(")
            x = self.expr()
            self.expect(")")
            return ("grp", k, x)
        if c == "A":
            self.tok()
            m = re.match(r"u(\d+)\(", self.s[self.i:])
            self.i += m.end()
            x = self.expr()
            self.expect(")")
            return ("as", x, self.units[int(m.group(1))])
        if c == "M":
            self.tok()
            self.expect("[")
            rows, row = [], []
            while True:
                if self.s[self.i] == "]":
                    rows.append(tuple(row))
                    self.i += 1
                    break
                if self.s[self.i] == ";":
                    rows.append(tuple(row))
                    row = []
                    self.i += 1
                    continue
                if self.s[self.i] == ",":
                    self.i += 1
                    continue
                row.append(self.expr())
            return ("mat", tuple(rows))
        if c == "C":
            self.tok()
            self.expect("(")
            f = self.expr()
            self.expect("|")
            args = []
            while self.s[self.i] != ")":
                if self.s[self.i] == ",":
                    self.i += 1
                    continue
                args.append(self.expr())
            self.i += 1
            return ("call", f, tuple(args))
        raise ValueError("bad sexpr at %d: %s" % (self.i, self.s))


def sig_of(s):
    from .core import unhx
    out = []
    if not s:
        return tuple(out)
    for p in s.split(","):
        if p[0] == "i":
            out.append(("i", unhx(p[1:])))
        else:
            m = re.match(r"n#([0-9a-f]{16})_#([0-9a-f]{16})", p)
            z = complex(_fl(m.group(1)), _fl(m.group(2)))
            out.append(("n", z.real if z.imag == 0 else z))
    return tuple(out)


def stmt_of(s, unit_names):
    """harness statement S-expression -> Reader statement tuple"""
    from .core import unhx
    if s == "K":
        return ("clear",)
    kind = s[0]
    body = s[2:]
    if kind == "E":
        return ("expr", SexprReader(body, unit_names).expr())
    m = _TOK.match(body)
    name = unhx(m.group(0)[1:-1].split(":")[3])
    rest = body[m.end():]
    if kind == "X":
        return ("delvar", name)
    if kind == "=":
        return ("assign", name, SexprReader(rest[1:], unit_names).expr())
    if kind == "S":
        return ("delsig", name, sig_of(rest[2:-1]))
    if kind == "D":
        close = rest.index("):")
        return ("define", name, sig_of(rest[2:close]), SexprReader(rest[close + 2:], unit_names).expr())
    raise ValueError(s)


def same_tree(a, b):
    if type(a) is not type(b):
        if isinstance(a, (int, float, complex)) and isinstance(b, (int, float, complex)):
            return complex(a) == complex(b) or (a != a and b != b)
        return False
    if isinstance(a, tuple):
        return len(a) == len(b) and all(same_tree(x, y) for x, y in zip(a, b))
    if isinstance(a, float):
        return a == b or (a != a and b != b)
    return a == b


# ------------------------------------------------------------------------------------------------
# evaluator (C02 / C05 / C06 / C07): values are ('n', z) ('q', kind, size_in_base_or_kelvin) ('m', rows) ('f',)

class Refuse(Exception):
    def __init__(self, kind):
        self.kind = kind


class Unjudged(Exception):
    pass


def inexact_tree(e):
    """does the tree contain an operation whose floating-point result is not exact by construction?"""
    if not isinstance(e, tuple):
        return False
    if (e[0] == "bin" and e[1] in (10, 12, 15)) or (e[0] == "un" and e[1] == 18) or e[0] == "call":
        return True
    return any(inexact_tree(x) for x in e[1:] if isinstance(x, tuple)) or \
        any(inexact_tree(y) for x in e[1:] if isinstance(x, tuple) for y in x if isinstance(y, tuple))


def has_complex(e, env):
    """may a non-real value flow through the tree (so that `im == 0` is a computed, not a structural, fact)?"""
    if not isinstance(e, tuple):
        return False
    if e[0] == "id":
        v = env.get(e[1])
        return e[1] == "i" or (v is not None and v[0] == "n" and v[1].imag != 0)
    if e[0] == "un" and e[1] == 18:
        return True
    if e[0] == "bin" and e[1] == 12:
        return True
    if e[0] == "call":
        return True
    return any(has_complex(x, env) for x in e[1:] if isinstance(x, tuple))


def trunc(x):
    return float(math.trunc(x)) if math.isfinite(x) else x


def crem(a, b):
    q = a / b
    g = complex(trunc(q.real), trunc(q.imag))
    return a - b * g


class Evaluator:
    def __init__(self, unit_spec, env=None, perturb=0.0):
        self.units = unit_spec          # unit name -> (kind, size Fraction | None, imperial)
        self.env = env or {}
        self.cond = 0.0                 # largest magnitude seen (error bound scale)
        self.flags = set()
        self.perturb = perturb          # conditioning probe: relative wobble applied to every number produced
        self.count = 0

    def wob(self, v):
        """conditioning probe: a second evaluation with every intermediate number wobbled by a relative
        `perturb` shows whether the tree amplifies rounding-size changes (ill-conditioned => not judged)"""
        if not self.perturb or v[0] != "n":
            return v
        self.count += 1
        f = 1.0 + self.perturb * (1 if self.count % 3 else -2) * (1 + (self.count % 5) / 7.0)
        return ("n", v[1] * f)

    def ev(self, e):
        v = self.ev0(e)
        # only results of inexact operations wobble: literals and exact integer arithmetic do not
        inexact = (e[0] == "bin" and e[1] in (10, 12, 15)) or (e[0] == "un" and e[1] == 18) or e[0] == "call" or \
                  (e[0] == "grp" and e[1] == 1) or (e[0] == "id" and e[1] in ("e", "pi", "π", "tau", "phi", "ϕ"))
        return self.wob(v) if inexact else v

    def note(self, *zs):
        for z in zs:
            if isinstance(z, complex) or isinstance(z, float):
                z = complex(z)
                if math.isnan(z.real) or math.isnan(z.imag) or math.isinf(z.real) or math.isinf(z.imag):
                    self.flags.add("nonfinite")
                else:
                    self.cond = max(self.cond, sabs(z))
                    if z != 0 and (sabs(z) < 1e-150 or sabs(z) > 1e150):
                        # squares under/overflow binary64: complex division and modulus lose all accuracy there
                        self.flags.add("extreme-magnitude")

    def size(self, v, unit):
        kind, size, imp = self.units[unit]
        if kind == "temperature":
            if unit == "kelvin":
                return kind, v
            if unit == "celsius":
                return kind, v + 273.15
            return kind, (v + 459.67) * 5.0 / 9.0
        if imp:
            self.flags.add("imperial")
        return kind, v * float(size)

    def ev0(self, e):
        t = e[0]
        if t == "num":
            z = complex(e[1])
            self.note(z)
            return ("n", z)
        if t == "meas":
            k, s = self.size(complex(e[1]), e[2])
            return ("q", k, s)
        if t == "id":
            if e[1] in self.env:
                return self.env[e[1]]
            raise Refuse("unknownVariable")
        if t == "grp":
            v = self.ev(e[2])
            k = e[1]
            if k == 0:
                return v
            if k == 1:
                if v[0] == "n":
                    return ("n", complex(sabs(v[1])))
                if v[0] == "m" and (len(v[1]) == 1 or len(v[1][0]) == 1):
                    flat = [x for r in v[1] for x in r]
                    return ("n", complex(math.sqrt(sum(sabs(x) ** 2 for x in flat))))
                raise Refuse("invalidGroupingOperand")
            if v[0] != "n":
                raise Refuse("invalidGroupingOperand")
            if v[1].imag != 0 and sabs(v[1].imag) < 1e-9 * max(sabs(v[1]), 1e-300):
                self.flags.add("near-real")        # the is-real test hinges on rounding
            if v[1].imag == 0 and inexact_tree(e[2]) and self.cond > 0:
                self.flags.add("near-real") if has_complex(e[2], self.env) else None
            if v[1].imag != 0:
                raise Refuse("groupingValueConstraintNotMet")
            if not math.isfinite(v[1].real):
                raise Unjudged()
            if sabs(v[1].real - round(v[1].real)) < 1e-9 * max(1.0, sabs(v[1].real)) and (v[1].real != round(v[1].real) or inexact_tree(e[2])):
                self.flags.add("near-integer")
            return ("n", complex(math.ceil(v[1].real) if k == 2 else math.floor(v[1].real)))
        if t == "un":
            v = self.ev(e[2])
            op = e[1]
            if op == 9:
                if v[0] == "n":
                    return ("n", v[1] * (-1 + 0j))
                if v[0] == "q":
                    if v[1] == "temperature":
                        raise Unjudged()
                    return ("q", v[1], -v[2])
                if v[0] == "m":
                    return ("m", [[-x for x in r] for r in v[1]])
                raise Refuse("unsupportedUnaryOperator")
            if op == 18:
                if v[0] == "n":
                    if v[1].imag == 0 and v[1].real <= 0:
                        self.flags.add("branch-cut")
                    return ("n", cmath.sqrt(v[1]))
                raise Refuse("unsupportedUnaryOperator")
            if op == 13:
                if v[0] != "n":
                    raise Refuse("unsupportedUnaryOperator")
                z = v[1]
                if inexact_tree(e[2]) and sabs(z.imag) < 1e-9 * max(1.0, sabs(z)) and sabs(z.real - round(z.real)) < 1e-9 * max(1.0, sabs(z.real)):
                    self.flags.add("near-integer")     # the is-natural test hinges on rounding
                if z.imag != 0 or z.real < 0 or z.real != math.floor(z.real) or not math.isfinite(z.real):
                    if sabs(z.imag) < 1e-12 and sabs(z.real - round(z.real)) < 1e-9:
                        self.flags.add("near-integer")
                    raise Refuse("unaryOperatorValueConstraintNotMet")
                n = int(z.real)
                if n > 170:
                    return ("n", complex(float("inf")))
                return ("n", complex(float(math.factorial(n))))
        if t == "bin":
            a = self.ev(e[2])
            b = self.ev(e[3])
            return self.binop(e[1], a, b)
        if t == "as":
            v = self.ev(e[1])
            kind, size, imp = self.units[e[2]]
            if v[0] == "n":
                k, s = self.size(v[1], e[2])
                return ("q", k, s)
            if v[0] == "q":
                if v[1] != kind:
                    raise Refuse("invalidMeasurementConversion")
                if imp:
                    self.flags.add("imperial")
                return v
            raise Refuse("invalidMeasurementConversion")
        if t == "mat":
            rows = []
            for r in e[1]:
                row = []
                for x in r:
                    v = self.ev(x)
                    if v[0] != "n":
                        raise Refuse("invalidMatrixParameter")
                    row.append(v[1])
                rows.append(row)
            return ("m", rows)
        if t == "call":
            return self.call(e)
        raise Unjudged()

    # ---- built-ins, from their names (C07 / C08): linear algebra by the Leibniz formula
    def call(self, e):
        f = e[1]
        if f[0] != "id" or f[1] in self.env and self.env[f[1]] != ("builtin", f[1]):
            # user functions and computed callees are not interpreted by this oracle
            if f[0] == "id" and f[1] not in self.env:
                raise Refuse("unknownVariable")
            v = self.env.get(f[1]) if f[0] == "id" else None
            if v is not None and v[0] in ("n", "q", "m"):
                raise Refuse("invalidCallable")
            raise Unjudged()
        name = f[1]
        args = [self.ev(a) for a in e[2]]
        spec = BUILTIN_DOMAINS.get(name)
        if spec is None:
            raise Unjudged()
        if len(spec) != len(args):
            raise Refuse("incorrectParameterCount")
        for dom, a in zip(spec, args):
            if not in_domain(dom, a):
                raise Refuse("incorrectParameterType")
        if name == "determinant":
            return ("n", leibniz_det(args[0][1]))
        if name == "transpose":
            return ("m", [list(r) for r in zip(*args[0][1])])
        if name == "identity":
            n = int(args[0][1].real)
            if n > 64:
                raise Unjudged()
            return ("m", [[1 + 0j if i == j else 0j for j in range(n)] for i in range(n)])
        if name == "inverse":
            A = args[0][1]
            d = leibniz_det(A)
            scale = max(sabs(x) for r in A for x in r) ** len(A) if A else 1.0
            if d == 0:
                raise Refuse("noInverseForMatrix")
            if sabs(d) < 1e-9 * max(scale, 1e-300):
                self.flags.add("near-singular")
            n = len(A)
            if n == 1:
                return ("m", [[1 / A[0][0]]])
            cof = [[leibniz_det([[A[r][c] for c in range(n) if c != j] for r in range(n) if r != i]) * (-1) ** (i + j) for j in range(n)] for i in range(n)]
            return ("m", [[cof[j][i] / d for j in range(n)] for i in range(n)])
        z = args[0][1] if args and args[0][0] == "n" else None
        simple = {"abs": lambda z: complex(sabs(z)), "re": lambda z: complex(z.real), "im": lambda z: complex(z.imag),
                  "conj": lambda z: z.conjugate(), "sin": cmath.sin, "cos": cmath.cos, "sinh": cmath.sinh, "cosh": cmath.cosh,
                  "ceil": lambda z: complex(math.ceil(z.real)), "floor": lambda z: complex(math.floor(z.real)),
                  "arg": lambda z: complex(cmath.phase(z))}
        if name == "arg" and z is not None and z.imag == 0 and z.real <= 0:
            self.flags.add("branch-cut")
        if name in simple:
            if not (math.isfinite(z.real) and math.isfinite(z.imag)):
                raise Unjudged()
            try:
                return ("n", simple[name](z))
            except (OverflowError, ValueError):
                raise Unjudged()
        if name in ("sqrt", "ln"):
            if z.imag == 0 and z.real <= 0:
                self.flags.add("branch-cut")
            if z == 0 and name == "ln":
                raise Unjudged()
            return ("n", cmath.sqrt(z) if name == "sqrt" else cmath.log(z))
        if name in ("gcd", "lcm"):
            a, b = int(sabs(args[0][1].real)), int(sabs(args[1][1].real))
            if max(a, b) > 2 ** 53:
                raise Unjudged()
            g = math.gcd(a, b)
            return ("n", complex(float(g if name == "gcd" else (0 if g == 0 else a // g * b))))
        raise Unjudged()


    def binop(self, op, a, b):
        ka, kb = a[0], b[0]
        un = Refuse("unsupportedBinaryOperator")
        if op in (8, 9):
            sgn = 1 if op == 8 else -1
            if ka == "n" and kb == "n":
                return ("n", a[1] + sgn * b[1])
            if ka == "q" and kb == "q":
                if a[1] != b[1]:
                    raise un
                if a[1] == "temperature":
                    raise Unjudged()
                return ("q", a[1], a[2] + sgn * b[2])
            if ka == "m" and kb == "m":
                if len(a[1]) != len(b[1]) or len(a[1][0]) != len(b[1][0]):
                    raise un
                return ("m", [[x + sgn * y for x, y in zip(r, s)] for r, s in zip(a[1], b[1])])
            raise un
        if op == 11:
            if ka == "n" and kb == "n":
                return ("n", a[1] * b[1])
            if ka == "n" and kb == "m":
                return ("m", [[x * a[1] for x in r] for r in b[1]])
            if ka == "m" and kb == "n":
                return ("m", [[x * b[1] for x in r] for r in a[1]])
            if ka == "m" and kb == "m":
                if len(a[1][0]) != len(b[1]):
                    raise un
                return ("m", [[sum(a[1][i][k] * b[1][k][j] for k in range(len(b[1]))) for j in range(len(b[1][0]))] for i in range(len(a[1]))])
            if ka == "n" and kb == "q":
                if b[1] == "temperature":
                    raise Unjudged()
                return ("q", b[1], a[1] * b[2])
            if ka == "q" and kb == "n":
                if a[1] == "temperature":
                    raise Unjudged()
                return ("q", a[1], a[2] * b[1])
            raise un
        if op == 10:
            if kb == "n" and ka in ("n", "m", "q"):
                if sabs(b[1]) == 0:
                    raise Refuse("divisionByZero")
                if ka == "n":
                    return ("n", a[1] / b[1])
                if ka == "m":
                    return ("m", [[x / b[1] for x in r] for r in a[1]])
                if a[1] == "temperature":
                    raise Unjudged()
                return ("q", a[1], a[2] / b[1])
            raise un
        if op == 12:
            if ka == "n" and kb == "n":
                x, y = a[1], b[1]
                if y == 0:
                    return ("n", 1 + 0j)
                if x == 0:
                    self.flags.add("zero-base")
                    raise Unjudged()
                if x.imag == 0 and x.real < 0:
                    self.flags.add("branch-cut")
                try:
                    r = cmath.exp(y * cmath.log(x))
                except OverflowError:
                    raise Unjudged()
                self.note(y * cmath.log(x))
                self.flags.add("pow")
                return ("n", r)
            raise un
        if op == 15:
            if ka == "n" and kb == "n":
                if sabs(b[1]) == 0:
                    raise Refuse("divisionByZero")
                q = a[1] / b[1]
                if any(sabs(p - round(p)) < 1e-9 * max(1.0, sabs(p)) for p in (q.real, q.imag)):
                    self.flags.add("near-integer")
                return ("n", crem(a[1], b[1]))
            raise un
        if op == 19:
            if ka == "m" and kb == "m":
                A, B = a[1], b[1]
                if len(A) == 1 and len(B) == 1 and len(A[0]) == len(B[0]):
                    return ("n", sum(x * y for x, y in zip(A[0], B[0])))
                if len(A[0]) == 1 and len(B[0]) == 1 and len(A) == len(B):
                    return ("n", sum(x[0] * y[0] for x, y in zip(A, B)))
            raise un
        if op == 20:
            if ka == "m" and kb == "m":
                A, B = a[1], b[1]
                def cr(u, v):
                    return [u[1] * v[2] - u[2] * v[1], u[2] * v[0] - u[0] * v[2], u[0] * v[1] - u[1] * v[0]]
                if len(A) == 1 and len(B) == 1 and len(A[0]) == 3 and len(B[0]) == 3:
                    return ("m", [cr(A[0], B[0])])
                if len(A) == 3 and len(B) == 3 and len(A[0]) == 1 and len(B[0]) == 1:
                    c = cr([r[0] for r in A], [r[0] for r in B])
                    return ("m", [[x] for x in c])       # "has their orientation": a column
            raise un
        raise Unjudged()


BUILTIN_DOMAINS = {n: ["number"] for n in "sin cos tan asin acos atan sinh cosh tanh asinh acosh atanh re im arg conj abs log2 log10 ln sqrt".split()}
BUILTIN_DOMAINS.update({"ceil": ["real"], "floor": ["real"], "log": ["real", "number"], "gcd": ["integer", "integer"], "lcm": ["integer", "integer"],
                        "identity": ["positive_integer"], "transpose": ["matrix"], "determinant": ["square_matrix"], "inverse": ["square_matrix"]})


def in_domain(dom, v):
    if dom in ("matrix", "square_matrix"):
        return v[0] == "m" and (dom == "matrix" or len(v[1]) == len(v[1][0]))
    if v[0] != "n":
        return False
    z = v[1]
    if dom == "number":
        return True
    if z.imag != 0:
        return False
    if dom == "real":
        return True
    if not math.isfinite(z.real) or z.real != math.floor(z.real):
        return False
    return dom == "integer" or z.real > 0


def leibniz_det(A):
    n = len(A)
    total = 0j
    for perm in itertools.permutations(range(n)):
        sign = 1
        for i in range(n):
            for j in range(i + 1, n):
                if perm[i] > perm[j]:
                    sign = -sign
        p = complex(sign)
        for i in range(n):
            p *= A[i][perm[i]]
        total += p
    return total

