"""Independent oracles, written from the property statements (not from the code, not from the model): they
judge the implementation's observations alone, and are what turns a broken obligation into a concrete
failing input.  Each oracle reports through rep.violation(...) and counts what it could not judge."""
import json, math, os, re, struct
from fractions import Fraction
from . import core, engine
from .core import unhx, hx


def sabs(x):
    """abs that saturates instead of raising on complex overflow"""
    try:
        return abs(x)
    except OverflowError:
        return float("inf")



# ------------------------------------------------------------------------------------------------
# exact unit definitions (C05 / C06)

F = Fraction
UNIT_SPEC = {
    # name: (kind, size of one unit in the kind's base unit [metre, kilogram, byte], imperial?)
    "nanometer": ("distance", F(1, 10 ** 9), False), "micrometer": ("distance", F(1, 10 ** 6), False),
    "millimeter": ("distance", F(1, 1000), False), "centimeter": ("distance", F(1, 100), False), "meter": ("distance", F(1), False),
    "kilometer": ("distance", F(1000), False), "inch": ("distance", F(254, 10000), True), "foot": ("distance", F(3048, 10000), True),
    "yard": ("distance", F(9144, 10000), True), "mile": ("distance", F(1609344, 1000), True),
    "nanogram": ("mass", F(1, 10 ** 12), False), "microgram": ("mass", F(1, 10 ** 9), False), "milligram": ("mass", F(1, 10 ** 6), False),
    "gram": ("mass", F(1, 1000), False), "kilogram": ("mass", F(1), False), "tonne": ("mass", F(1000), False),
    "ounce": ("mass", F(28349523125, 10 ** 12), True), "pound": ("mass", F(45359237, 10 ** 8), True), "stone": ("mass", F(635029318, 10 ** 8), True),
    "kelvin": ("temperature", None, False), "celsius": ("temperature", None, False), "fahrenheit": ("temperature", None, False),
    "byte": ("storage", F(1), False),
}
for i, p in enumerate(["kilo", "mega", "giga", "tera", "peta", "exa"], 1):
    UNIT_SPEC[p + "byte"] = ("storage", F(1000 ** i), False)
    UNIT_SPEC[p + "bit"] = ("storage", F(1000 ** i, 8), False)
for i, p in enumerate(["kibi", "mebi", "gibi", "tebi", "peti", "exbi"], 1):
    UNIT_SPEC[p + "byte"] = ("storage", F(1024 ** i), False)
    UNIT_SPEC[p + "bit"] = ("storage", F(1024 ** i, 8), False)
UNIT_SPEC["bit"] = ("storage", F(1, 8), False)

# protocol order of the 48 units (names as in UNIT_SPEC)
UNIT_ORDER = ("nanometer micrometer millimeter centimeter meter kilometer inch foot yard mile "
              "nanogram microgram milligram gram kilogram tonne ounce pound stone kelvin celsius fahrenheit "
              "byte kilobyte megabyte gigabyte terabyte petabyte exabyte kibibyte mebibyte gibibyte tebibyte petibyte exbibyte "
              "bit kilobit megabit gigabit terabit petabit exabit kibibit mebibit gibibit tebibit petibit exbibit").split()
BIT_FAMILY = set(u for u in UNIT_ORDER if u.endswith("bit"))
# the unit table as the known findings K1 / K2 describe the shipped one: every bit-family unit 64 times too large
# (1/8 per byte shipped instead of 8), and what is spelled yard / yards / yd is the foot.  A deviation from the exact
# definitions is attributed to a known finding only if it is exactly the deviation that finding describes.
UNIT_SPEC_K = dict(UNIT_SPEC)
for _u in BIT_FAMILY:
    UNIT_SPEC_K[_u] = (UNIT_SPEC[_u][0], UNIT_SPEC[_u][1] * 64, UNIT_SPEC[_u][2])
UNIT_SPEC_K["yard"] = UNIT_SPEC["foot"]


def spec_spellings():
    out = {}
    for line in open(os.path.join(core.VERIF, "spec", "spellings.tsv"), encoding="utf-8"):
        w, k = line.rstrip("\n").split("\t")
        out[w] = k.split(" ")[-1] if " " in k else k
    return out


def to_kelvin(x, unit):
    if unit == "kelvin":
        return x
    if unit == "celsius":
        return x + 273.15
    return (x + 459.67) * 5.0 / 9.0


def from_kelvin(k, unit):
    if unit == "kelvin":
        return k
    if unit == "celsius":
        return k - 273.15
    return k * 9.0 / 5.0 - 459.67


def fl(bits):
    return struct.unpack("<d", struct.pack("<Q", int(bits, 16)))[0]


def parse_val(tok):
    """'n:#re_#im' / 'q:u:#re_#im' / 'm:r:c:cells' -> python value"""
    p = tok.split(":")
    def cx(s):
        a, b = s.split("_")
        return complex(fl(a[1:]), fl(b[1:]))
    if p[0] == "n":
        return ("n", cx(p[1]))
    if p[0] == "q":
        return ("q", int(p[1]), cx(p[2]))
    if p[0] == "m":
        r, c = int(p[1]), int(p[2])
        cells = [cx(s) for s in p[3].split(",")]
        return ("m", [cells[i * c:(i + 1) * c] for i in range(r)])
    return (p[0], tok)


def last_outcome(lines, text_index=1):
    """the O line of the last statement of text `text_index`"""
    out = None
    for l in lines:
        p = l.split(" ")
        if p[0] == "T%d" % text_index and len(p) > 2 and p[1].startswith("O"):
            out = p
    return out


def close(a, b, rel, abs_=0.0):
    if a == b:
        return True
    if isinstance(a, complex) or isinstance(b, complex):
        a, b = complex(a), complex(b)
        if any(math.isnan(x) or math.isinf(x) for x in (a.real, a.imag, b.real, b.imag)):
            return None
        return sabs(a - b) <= rel * max(sabs(a), sabs(b)) + abs_
    return sabs(a - b) <= rel * max(sabs(a), sabs(b)) + abs_


CONV_RE = re.compile(r"^(\(?[-0-9.e+*i]+\)?) (\S+) as (\S+)$")
SIMPLE_NUM = re.compile(r"^-?[0-9.]+(e-?[0-9]+)?$")


def oracle_units(ctx, name, a, b, cpath):
    """C05/C06: judge `<x> <spelling> as <target>` and the measurement laws against exact definitions"""
    rep = ctx["rep"]
    spell = spec_spellings()
    judged = 0
    with open(cpath) as f:
        for line in f:
            parts = line.rstrip("\n").split(" ")
            cid = parts[1]
            text = unhx(parts[-1]).strip()
            m = CONV_RE.match(text)
            if not m or not SIMPLE_NUM.match(m.group(1)):
                continue
            x, s, t = float(m.group(1)), m.group(2), m.group(3)
            if s not in spell or t not in spell:
                continue
            su, tu = spell[s], spell[t]
            if su not in UNIT_SPEC or tu not in UNIT_SPEC:
                continue
            o = last_outcome(a.get(cid, []))
            if o is None:
                continue
            judged += 1
            ks, kt = UNIT_SPEC[su][0], UNIT_SPEC[tu][0]
            if ks != kt:
                if o[2] != "err":
                    rep.violation("units: cross-kind conversion %r returned a value" % text, case=line.strip(), impl=a[cid], stream=name,
                                  oracle="expected a diagnostic")
                continue
            if o[2] != "val":
                rep.violation("units: same-kind conversion %r refused" % text, case=line.strip(), impl=a[cid], stream=name, oracle="expected a value")
                continue
            v = parse_val(o[3])
            if v[0] != "q":
                rep.violation("units: %r is not a measurement" % text, case=line.strip(), impl=a[cid], stream=name)
                continue
            got_unit = UNIT_ORDER[v[1]]
            if ks == "temperature" and x < 0:
                continue  # `-1 C` is unary minus applied to the measurement 1 C, which the properties leave open for temperature
            if ks == "temperature":
                exp = from_kelvin(to_kelvin(x, su), tu)
                ok = close(v[2], exp, 1e-9, 1e-9)
            else:
                exp = float(F(x).limit_denominator(10 ** 12) * UNIT_SPEC[su][1] / UNIT_SPEC[tu][1]) if x != 0 else 0.0
                exp = x * float(UNIT_SPEC[su][1] / UNIT_SPEC[tu][1])
                tol = 1e-5 if (UNIT_SPEC[su][2] or UNIT_SPEC[tu][2]) else 1e-9
                ok = close(v[2], exp, tol)
            if got_unit != tu or ok is False:
                key = ""
                # is this exactly what the known findings predict?
                tu_k = "foot" if tu == "yard" else tu
                exp_k = x * float(UNIT_SPEC_K[su][1] / UNIT_SPEC_K[tu][1]) if ks != "temperature" else None
                as_known = exp_k is not None and got_unit == tu_k and close(v[2], exp_k, 1e-5 if (UNIT_SPEC[su][2] or UNIT_SPEC[tu][2]) else 1e-9) is not False
                if as_known and (su in BIT_FAMILY) != (tu in BIT_FAMILY):
                    key = " [unit-factor:bit-family]"
                elif as_known and (su == "yard" or tu == "yard"):
                    key = " [spelling:yard]"
                rep.violation("units%s: %r gave %s %s, the definitions give %.12g %s" % (key, text, v[2], got_unit, exp, tu),
                              case=line.strip(), impl=a[cid], stream=name, oracle="exact unit definitions, tolerance %s" % ("1e-5" if UNIT_SPEC[su][2] or UNIT_SPEC[tu][2] else "1e-9"))
    rep.count("oracle:units judged", judged)


def table_units(ctx):
    """python twin of the Lean table theorem C05_table: finds the offending row when the theorem breaks"""
    rep = ctx["rep"]
    bad = []
    for u, name in zip(ctx["dump"]["units"], UNIT_ORDER):
        kind, size, imperial = UNIT_SPEC[name]
        if u["kind"] != kind:
            bad.append((name, "kind %s" % u["kind"]))
            continue
        if size is None:
            continue
        per_base = fl(u["bits"])
        exp = float(1 / size)
        tol = 1e-5 if imperial else 1e-12
        if not close(per_base, exp, tol):
            if name in BIT_FAMILY and close(per_base * 64, exp, tol):
                continue        # exactly the known finding K1 (reported by the stream oracle with its key)
            bad.append((name, "factor %r, definition %r" % (per_base, exp)))
    rep.table_units_bad = bad
    return bad


def table_keywords(ctx):
    rep = ctx["rep"]
    spell = spec_spellings()
    got = {}
    for k in ctx["dump"]["keywords"]:
        got[k["word"]] = UNIT_ORDER[k["unit"]] if k["unit"] is not None else {23: "delete", 20: "cross", 25: "as_", 19: "dot", 24: "clear"}.get(k["tag"], "token kind %s" % k["tag"])
    bad = []
    for w, want in spell.items():
        if got.get(w) != want:
            bad.append((w, got.get(w), want))
    for w in got:
        if w not in spell:
            bad.append((w, got[w], None))
    return bad


def table_builtins(ctx):
    return []


def search_tables(pid, ctx):
    """after a broken table theorem: find the row, turn it into a calculator input, run it (DESIGN.md section 5)"""
    rep = ctx["rep"]
    found = False
    if pid in ("C05", "C06"):
        for name, why in table_units(ctx):
            rep.violation("unit table: %s has %s" % (name, why), oracle="row of the generated UnitTable vs the exact definition", found_input=True,
                          case="hist tbl 4 - %s" % hx("1 %s as %s\n" % (name, name)))
            found = True
    if pid in ("C03", "C04", "C05", "C18"):
        for w, got, want in table_keywords(ctx):
            if want == "yard" and got == "foot":
                continue        # exactly the known finding K2
            rep.violation("spelling table: %r denotes %s, documented %s" % (w, got, want), case="tok kw 4 %s" % hx(w),
                          oracle="generated Keywords table vs the documented spellings", found_input=True)
            found = True
    return found


# ------------------------------------------------------------------------------------------------
# oracles built on the independent reading in vlib/pyeval.py

from . import pyeval

INIT_CONSTS = {"i": 1j, "e": math.e, "pi": math.pi, "π": math.pi, "tau": 2 * math.pi, "phi": (1 + 5 ** 0.5) / 2, "ϕ": (1 + 5 ** 0.5) / 2,
               "c": 299792458.0, "G": 9.80665}


def make_scanner(ctx):
    if "scanner" not in ctx:
        ctx["scanner"] = pyeval.Scanner([tuple(r) for r in ctx["dump"]["alnum"]], {w: k for w, k in spec_spellings().items() if k in UNIT_SPEC})
    return ctx["scanner"]


TOK_FIELD = re.compile(r"\{(\d+)@(\d+):(\d+):([0-9a-f-]+)(?::([^}]*))?\}")


def impl_tokens(line):
    out = []
    for m in TOK_FIELD.finditer(line):
        tag = int(m.group(1))
        payload = m.group(5)
        if tag == 26:
            payload = unhx(payload)
        elif tag == 27:
            a, b = payload.split("_")
            payload = complex(fl(a[1:]), fl(b[1:]))
        elif tag == 28:
            payload = UNIT_ORDER[int(payload)]
        out.append((tag, unhx(m.group(4)), int(m.group(2)), int(m.group(3)), payload))
    return out


def oracle_scanner(ctx, name, a, b, cpath):
    """C04: an independent longest-match scanner recomputes kinds, slices, values and positions"""
    rep = ctx["rep"]
    sc = make_scanner(ctx)
    bad = 0
    judged = 0
    with open(cpath) as f:
        for line in f:
            p = line.rstrip("\n").split(" ")
            if p[0] != "tok":
                continue
            cid, tab, text = p[1], int(p[2]), unhx(p[3])
            lines = a.get(cid)
            if not lines or lines[0].split(" ")[0] in ("PANIC", "CRASH", "TIMEOUT"):
                continue
            judged += 1
            r = sc.scan(text, tab)
            il = lines[0]
            ok = True
            why = ""
            if r[0] == "bad":
                want = "TOK bad %d %d %d" % (r[1], r[2], ord(r[3]))
                ok = il == want
                why = "expected %r" % want
            elif not il.startswith("TOK ok"):
                ok, why = False, "expected %d tokens, got %r" % (len(r[1]), il)
            else:
                it = impl_tokens(il)
                if len(it) != len(r[1]):
                    ok, why = False, "expected %d tokens, got %d" % (len(r[1]), len(it))
                else:
                    for x, y in zip(it, r[1]):
                        same = x[:4] == y[:4] and (x[4] == y[4] if x[0] != 27 else (x[4].imag == 0 and (x[4].real == y[4] or (x[4].real != x[4].real and y[4] != y[4]))))
                        if not same:
                            ok, why = False, "token %r, the longest-match scanner gives %r" % (x, y)
                            break
            if not ok:
                bad += 1
                if bad <= 5:
                    key = " [spelling:yard]" if any(w in text for w in ("yd", "yard")) else ""
                    rep.violation("scanner%s: %r (tab %d) is not scanned as the documented lexical rules say" % (key, text, tab), case=line.strip(),
                                  impl=lines, stream=name, oracle=why)
    rep.count("oracle:scanner judged", judged)


def tokens_of_descs(descs):
    toks = []
    for d in descs:
        if not d:
            continue
        tag, rest = d.split("@")
        parts = rest.split(":", 3)
        tag = int(tag)
        payload = parts[3] if len(parts) > 3 else None
        if tag == 26:
            payload = unhx(payload)
        elif tag == 27:
            a, b = payload.split("_")
            z = complex(fl(a[1:]), fl(b[1:]))
            payload = z.real if z.imag == 0 else z
        elif tag == 28:
            payload = UNIT_ORDER[int(payload)]
        toks.append((tag, unhx(parts[2]), int(parts[0]), int(parts[1]), payload))
    return toks


def judge_parse(rep, name, line, lines, toks, with_pos=False):
    r = pyeval.parse_program(toks)
    il = lines[0]
    if r[0] == "ok":
        if not il.startswith("PARSE ok"):
            return "the grammar derives this token sequence, the implementation rejects it: %s" % il
        body = il[len("PARSE ok "):] if len(il) > len("PARSE ok") else ""
        stmts = [s for s in body.split("~") if s] if body else []
        try:
            got = [pyeval.stmt_of(s, UNIT_ORDER) for s in stmts]
        except Exception as e:  # malformed observation
            return "unreadable statement tree: %s" % e
        if not pyeval.same_tree(tuple(got), tuple(r[1])):
            return "read as %r, the documented grammar gives %r" % (got, r[1])
        return None
    if not il.startswith("PARSE err"):
        return "the grammar does not derive this token sequence (%s), the implementation accepts it: %s" % (r[1], il[:200])
    p = il.split(" ")
    if p[2] != r[1]:
        return "error kind %s, the documented grammar's first failure is %s" % (p[2], r[1])
    if with_pos:
        want = ("%d %d" % r[2]) if r[2] else "- -"
        if " ".join(p[3:5]) != want:
            return "error position %s, expected %s" % (" ".join(p[3:5]), want)
    return None


def oracle_parse(ctx, name, a, b, cpath, with_pos=False):
    """C03: an independent table-driven reader of the documented grammar"""
    rep = ctx["rep"]
    bad = judged = 0
    with open(cpath) as f:
        for line in f:
            p = line.rstrip("\n").split(" ")
            cid = p[1]
            lines = a.get(cid)
            if not lines or not lines[0].startswith("PARSE"):
                continue
            if p[0] == "parsek":
                toks = tokens_of_descs(p[2:])
            elif p[0] == "parset":
                r = make_scanner(ctx).scan(unhx(p[3]), int(p[2]))
                if r[0] != "ok":
                    continue
                if lines[0].startswith("PARSE scanerr"):
                    continue
                toks = r[1]
            else:
                continue
            judged += 1
            try:
                why = judge_parse(rep, name, line, lines, toks, with_pos)
            except RecursionError:
                rep.count("oracle:parse too deep for the independent reader")
                continue
            if why:
                bad += 1
                if bad <= 5:
                    rep.violation("reader: %s is not read as the documented grammar says" % (describe_tokens(toks)), case=line.strip(), impl=lines,
                                  stream=name, oracle=why[:600])
    rep.count("oracle:reader judged", judged)


oracle_parse_text = oracle_parse


def oracle_parse_pos(ctx, name, a, b, cpath):
    return oracle_parse(ctx, name, a, b, cpath, with_pos=True)


def describe_tokens(toks):
    return "`" + " ".join(t[1] for t in toks)[:200] + "`"


def outcomes_by_text(lines):
    """{(k, j): O-line parts}, {k: 'scanerr'|'parseerr ...'}"""
    outs, errs = {}, {}
    for l in lines:
        p = l.split(" ")
        if len(p) < 2 or not p[0].startswith("T"):
            continue
        try:
            k = int(p[0][1:])
        except ValueError:
            continue
        if p[1].startswith("O"):
            outs[(k, int(p[1][1:]))] = p
        elif p[1] in ("scanerr", "parseerr"):
            errs[k] = p[1:]
    return outs, errs


def complex_close(a, b, tol_abs):
    if any(math.isnan(x) or math.isinf(x) for x in (a.real, a.imag, b.real, b.imag)):
        return None
    return sabs(a - b) <= tol_abs


def oracle_eval(ctx, name, a, b, cpath):
    """C02 / C05 / C06 / C07: an independent evaluator judges every expression statement it can interpret"""
    rep = ctx["rep"]
    sc = make_scanner(ctx)
    judged = bad = 0
    unj = {}
    with open(cpath) as f:
        for line in f:
            p = line.rstrip("\n").split(" ")
            if p[0] != "hist":
                continue
            cid, tab = p[1], int(p[2])
            lines = a.get(cid)
            if not lines:
                continue
            outs, errs = outcomes_by_text(lines)
            env = {k: ("n", complex(v)) for k, v in INIT_CONSTS.items()}
            for nme in pyeval.BUILTIN_DOMAINS:
                env[nme] = ("builtin", nme)
            env_k = dict(env)           # the same session in the world the known findings K1 / K2 describe
            for k, th in enumerate(p[3:]):
                text = unhx(th)
                r = sc.scan(text, tab)
                if r[0] != "ok":
                    continue
                pr = pyeval.parse_program(r[1])
                if pr[0] != "ok" or k in errs:
                    continue
                for j, st in enumerate(pr[1]):
                    ev = pyeval.Evaluator(UNIT_SPEC, env)
                    o = outs.get((k, j))
                    if st[0] == "clear":
                        for e_ in (env, env_k):
                            for nm in [n for n, v in e_.items() if v[0] != "builtin" and n not in INIT_CONSTS]:
                                del e_[nm]
                        continue
                    if st[0] in ("delvar",):
                        for e_ in (env, env_k):
                            if st[1] in e_ and e_[st[1]][0] != "builtin" and st[1] not in INIT_CONSTS:
                                del e_[st[1]]
                        continue
                    if st[0] in ("define", "delsig"):
                        for e_ in (env, env_k):
                            if st[1] not in INIT_CONSTS and e_.get(st[1], ("x",))[0] != "builtin":
                                e_[st[1]] = ("f",)
                        continue
                    ev_k = pyeval.Evaluator(UNIT_SPEC_K, env_k)
                    try:
                        res_k = ("val", ev_k.ev(st[2] if st[0] == "assign" else st[1]))
                    except pyeval.Refuse as e:
                        res_k = ("err", e.kind)
                    except (pyeval.Unjudged, ZeroDivisionError, OverflowError, ValueError):
                        res_k = ("unjudged",)
                    if st[0] == "assign" and not (st[1] in INIT_CONSTS or env_k.get(st[1], ("x",))[0] == "builtin"):
                        env_k[st[1]] = res_k[1] if res_k[0] == "val" else ("f",)
                    try:
                        v = ev.ev(st[2] if st[0] == "assign" else st[1])
                        res = ("val", v)
                    except pyeval.Refuse as e:
                        res = ("err", e.kind)
                    except pyeval.Unjudged:
                        res = ("unjudged",)
                    except (ZeroDivisionError, OverflowError, ValueError):
                        res = ("unjudged",)
                    if res[0] != "unjudged" and st[0] == "expr":
                        # conditioning probe: the same tree with every intermediate wobbled by ~1e-12
                        ev2 = pyeval.Evaluator(UNIT_SPEC, env, perturb=1e-12)
                        try:
                            res2 = ("val", ev2.ev(st[1]))
                        except pyeval.Refuse as e2:
                            res2 = ("err", e2.kind)
                        except (pyeval.Unjudged, ZeroDivisionError, OverflowError, ValueError):
                            res2 = ("unjudged",)
                        if not stable(res, res2):
                            ev.flags.add("ill-conditioned")
                    if st[0] == "assign":
                        if st[1] in INIT_CONSTS or env.get(st[1], ("x",))[0] == "builtin":
                            continue
                        if res[0] == "val":
                            env[st[1]] = res[1]
                        elif res[0] == "unjudged":
                            env[st[1]] = ("f",)
                        continue
                    if o is None:
                        continue
                    if res[0] == "unjudged" or ev.flags & {"nonfinite", "branch-cut", "near-integer", "zero-base", "near-singular", "extreme-magnitude", "ill-conditioned", "near-real"}:
                        key = "unjudged:" + ("+".join(sorted(ev.flags & {"nonfinite", "branch-cut", "near-integer", "zero-base", "near-singular", "extreme-magnitude", "ill-conditioned", "near-real"})) or "not-interpreted")
                        unj[key] = unj.get(key, 0) + 1
                        continue
                    judged += 1
                    why = judge_value(res, o, ev, text)
                    if why:
                        bad += 1
                        if bad <= 6:
                            key = ""
                            if "cross" in text or "×" in text:
                                if "orientation" in why:
                                    key = " [column-cross-orientation]"
                            # attributed to K1 / K2 only if the observed value is exactly what those findings predict
                            as_known = res_k[0] != "unjudged" and judge_value(res_k, o, ev_k, text, spec=UNIT_SPEC_K) is None
                            if as_known and (any(u in text.replace("yd", " yard ") for u in (" yard",)) or "yd" in text.split()):
                                key = " [spelling:yard]"
                            if as_known and (re.search(r"\b[KMGTPE]?i?b\b", text) and "B" in text or re.search(r"\d ?[KMGTPE]?i?b\b", text)):
                                if "size" in why:
                                    key = " [unit-factor:bit-family]"
                            rep.violation("evaluator%s: %r evaluates wrongly" % (key, text.strip()), case=line.strip(), impl=[" ".join(o)], stream=name,
                                          oracle=why[:500])
    rep.count("oracle:evaluator judged", judged)
    for k, v in unj.items():
        rep.unjudged[k] = rep.unjudged.get(k, 0) + v


def stable(r1, r2):
    """do two evaluations that differ by rounding-size wobbles agree to 1e-9?"""
    if r1[0] != r2[0]:
        return False
    if r1[0] == "err":
        return r1[1] == r2[1]
    if r1[0] != "val":
        return True
    a, b = r1[1], r2[1]
    if a[0] != b[0]:
        return False
    def near(x, y):
        x, y = complex(x), complex(y)
        if any(math.isnan(t) or math.isinf(t) for t in (x.real, x.imag, y.real, y.imag)):
            return True
        return sabs(x - y) <= 2e-10 * max(sabs(x), sabs(y), 1e-300)
    if a[0] == "n":
        return near(a[1], b[1])
    if a[0] == "q":
        return a[1] == b[1] and near(a[2], b[2])
    if a[0] == "m":
        fa = [x for r in a[1] for x in r]
        fb = [x for r in b[1] for x in r]
        m = max([sabs(x) for x in fa] + [1e-300])
        return len(fa) == len(fb) and all(sabs(x - y) <= 2e-10 * m for x, y in zip(fa, fb))
    return True


def judge_value(res, o, ev, text, spec=None):
    spec = spec or UNIT_SPEC
    if res[0] == "err":
        if o[2] != "err":
            return "the mathematics refuses this (%s); the implementation returned %s" % (res[1], " ".join(o[2:4])[:200])
        if o[3] != res[1]:
            return "diagnostic kind %s, expected %s" % (o[3], res[1])
        return None
    v = res[1]
    if o[2] != "val":
        return "expected a value, the implementation reported %s" % " ".join(o[2:6])
    got = parse_val(o[3])
    scale = max(ev.cond, 1e-300)
    if v[0] == "n":
        if got[0] != "n":
            return "expected a number, got %s" % o[3][:80]
        tol = 1e-9 * max(sabs(v[1]), scale)
        c = complex_close(got[1], v[1], tol)
        if c is False:
            return "value %r, the mathematics gives %r (bound %.3g)" % (got[1], v[1], tol)
        return None
    if v[0] == "q":
        if got[0] != "q":
            return "expected a measurement, got %s" % o[3][:80]
        unit = UNIT_ORDER[got[1]]
        kind, size, imp = spec[unit]
        if kind != v[1]:
            return "kind %s, expected %s" % (kind, v[1])
        if kind == "temperature":
            gsize = to_kelvin(got[2], unit)
            tol = 1e-9 * max(sabs(v[2]), 300.0)
        else:
            gsize = got[2] * float(size)
            rel = 1e-5 if (imp or "imperial" in ev.flags) else 1e-9
            tol = rel * max(sabs(v[2]), scale * 0 + sabs(v[2]))
            tol = max(tol, 1e-300)
        c = complex_close(complex(gsize), complex(v[2]), tol)
        if c is False:
            return "size %r in base units, the definitions give %r" % (gsize, v[2])
        return None
    if v[0] == "m":
        if got[0] != "m":
            return "expected a matrix, got %s" % o[3][:80]
        A, B = got[1], v[1]
        flatA = [x for r in A for x in r]
        flatB = [x for r in B for x in r]
        if (len(A), len(A[0])) != (len(B), len(B[0])):
            if len(flatA) == len(flatB) and all(complex_close(x, y, 1e-9 * max(1.0, sabs(y))) for x, y in zip(flatA, flatB)):
                return "orientation: shape %dx%d, expected %dx%d with the same entries" % (len(A), len(A[0]), len(B), len(B[0]))
            return "shape %dx%d, expected %dx%d" % (len(A), len(A[0]), len(B), len(B[0]))
        m = max([sabs(y) for y in flatB] + [scale])
        for x, y in zip(flatA, flatB):
            c = complex_close(x, y, 1e-8 * m)
            if c is False:
                return "entry %r, expected %r" % (x, y)
        return None
    return None


oracle_numbers = oracle_eval
oracle_linear_algebra = oracle_eval
oracle_builtins = oracle_eval
oracle_units_eval = oracle_eval
oracle_paren_invariance = oracle_eval


def _count_only(label):
    def f(ctx, name, a, b, cpath):
        ctx["rep"].count("oracle:%s (model comparison only)" % label, len(a))
    return f


def oracle_clear(ctx, name, a, b, cpath):
    """C09: after `clear` no user-defined name is left (the built-ins are compared with a fresh table by the
    harness monitor `builtins_changed` after every statement)"""
    rep = ctx["rep"]
    n = bad = 0
    for cid, lines in a.items():
        clear_at = set()
        for l in lines:
            p = l.split(" ")
            if len(p) >= 3 and p[1].startswith("S") and p[2] == "K":
                clear_at.add((p[0], p[1][1:]))
            elif len(p) >= 3 and p[1].startswith("E") and (p[0], p[1][1:]) in clear_at:
                n += 1
                if p[2] != "-":
                    bad += 1
                    if bad <= 3:
                        rep.violation("clear leaves user-defined names behind", case=engine.find_case(cpath, cid), impl=[l], stream=name,
                                      oracle="after `clear` the environment must be exactly the initial one")
    rep.count("oracle:clear judged", n)


STMT_NAME = re.compile(r"^(=|D|X|S):\{\d+@\d+:\d+:([0-9a-f-]+)")
BARE_NAME = re.compile(r"^E:I\{26@\d+:\d+:([0-9a-f]+):[0-9a-f]+\}$")


def documented_builtin_names():
    return set(l.strip() for l in open(os.path.join(core.VERIF, "spec", "builtin_names.txt"), encoding="utf-8") if l.strip())


def oracle_guarded(ctx, name, a, b, cpath):
    """C09 / C10: an assignment, definition, deletion or signature deletion whose target is a DOCUMENTED built-in name
    (the list of the manual, not the table of the tree) must be refused with a diagnostic, whatever came before"""
    rep = ctx["rep"]
    names = documented_builtin_names()
    n = bad = 0
    unbound = 0
    for cid, lines in a.items():
        target = {}
        bare = {}
        for l in lines:
            p = l.split(" ")
            if len(p) >= 3 and p[0][:1] == "T" and p[1][:1] == "S" and p[1][1:].isdigit():
                m = STMT_NAME.match(p[2])
                if m:
                    try:
                        target[(p[0], p[1][1:])] = unhx(m.group(2))
                    except Exception:
                        pass
                mb = BARE_NAME.match(p[2])
                if mb:
                    try:
                        bare[(p[0], p[1][1:])] = unhx(mb.group(1))
                    except Exception:
                        pass
            elif len(p) >= 4 and p[0][:1] == "T" and p[1][:1] == "O" and (p[0], p[1][1:]) in bare:
                nm = bare[(p[0], p[1][1:])]
                if nm in names and p[2] == "err" and p[3] == "unknownVariable":
                    unbound += 1
                    if unbound <= 3:
                        rep.violation("the built-in name %r is not bound" % nm, case=engine.find_case(cpath, cid), impl=[l], stream=name,
                                      oracle="every documented built-in name stays bound whatever the session did (assignments to it, deletions of it and `clear` leave it alone)")
            elif len(p) >= 3 and p[0][:1] == "T" and p[1][:1] == "O" and (p[0], p[1][1:]) in target:
                nm = target[(p[0], p[1][1:])]
                if nm in names:
                    n += 1
                    if p[2] != "err":
                        bad += 1
                        if bad <= 3:
                            rep.violation("a statement whose target is the built-in name %r is not refused" % nm, case=engine.find_case(cpath, cid), impl=[l],
                                          stream=name, oracle="assignment to, definition on and deletion of a documented built-in name must produce a diagnostic")
    rep.count("oracle:guarded statements judged", n)
    rep.oblige("stream %s: every statement targeting a documented built-in name is refused (%d statements)" % (name, n), bad == 0, "%d accepted" % bad)
    rep.oblige("stream %s: no documented built-in name is ever unbound" % name, unbound == 0, "%d reads of an unbound built-in" % unbound)


LINE_COL = re.compile(r"^Line (\d+), Column (\d+) :: \S")


def oracle_diagnostics(ctx, name, a, b, cpath):
    """C14: every failing statement yields exactly one rendered line, `Line l, Column c :: …`, carrying the
    position of the diagnostic value itself"""
    rep = ctx["rep"]
    n = bad = 0
    for cid, lines in a.items():
        for l in lines:
            p = l.split(" ")
            txt, pos = None, None
            if len(p) > 2 and p[1].startswith("O") and p[2] == "err":
                txt, pos = unhx(p[-1][5:]), (p[4], p[5])
            elif len(p) > 2 and p[1] == "scanerr":
                txt, pos = unhx(p[-1]) + "\n", (p[2], p[3])
            elif len(p) > 2 and p[1] == "parseerr" and p[3] != "-":
                txt, pos = unhx(p[-1]) + "\n", (p[3], p[4])
            if txt is None:
                continue
            n += 1
            m = LINE_COL.match(txt)
            why = None
            if txt.count("\n") != 1 or not txt.endswith("\n"):
                why = "not exactly one line: %r" % txt
            elif not m:
                why = "does not start with `Line l, Column c :: `: %r" % txt
            elif (m.group(1), m.group(2)) != pos:
                why = "rendered position %s:%s differs from the diagnostic's %s:%s" % (m.group(1), m.group(2), pos[0], pos[1])
            if why:
                bad += 1
                if bad <= 3:
                    rep.violation("diagnostic line malformed", case=engine.find_case(cpath, cid), impl=[l[:300]], stream=name, oracle=why)
    rep.count("oracle:diagnostic lines judged", n)
    # the model's own rendering (Calc/Model/Render.lean, theorems of Props/C14Render.lean) against the text the code
    # printed: the model's reader must read the diagnostic's own position back from it, and the text must begin with
    # the model's frame `renderPos l c`
    todo = []
    for cid, lines in a.items():
        for k, l in enumerate(lines):
            p = l.split(" ")
            if len(p) > 2 and p[1].startswith("O") and p[2] == "err":
                todo.append((cid, k, p[4], p[5], unhx(p[-1][5:])))
            elif len(p) > 2 and p[1] == "scanerr":
                todo.append((cid, k, p[2], p[3], unhx(p[-1]) + "\n"))
            elif len(p) > 2 and p[1] == "parseerr" and p[3] != "-":
                todo.append((cid, k, p[3], p[4], unhx(p[-1]) + "\n"))
    todo = [t for t in todo if t[2].isdigit() and t[3].isdigit() and len(t[4]) < 20000]
    if todo:
        dpath = cpath + ".diagline"
        with open(dpath, "w", encoding="utf-8") as f:
            for j, (cid, k, li, co, txt) in enumerate(todo):
                f.write("diagline r%d %s %s %s\n" % (j, li, co, core.hx(txt.rstrip("\n"))))
        core.run_model(dpath, dpath + ".obs")
        obs = core.read_obs(dpath + ".obs")
        badm = 0
        for j, (cid, k, li, co, txt) in enumerate(todo):
            o = obs.get("r%d" % j, ["missing"])
            if not (o and o[0].startswith("DIAGLINE 1 ")):
                badm += 1
                if badm <= 3:
                    rep.violation("diagnostic line is not the model's rendering of its position", case=engine.find_case(cpath, cid), impl=[txt[:300]], model=o[:1], stream=name,
                                  oracle="the model's readPos applied to the printed line must give the diagnostic's own line %s and column %s, and the line must begin with the model's renderPos (Props/C14Render: C14_render_reads_back)" % (li, co))
        rep.count("oracle:diagnostic lines read back by the model's reader", len(todo))
        rep.oblige("%s: every rendered diagnostic line begins with the model's frame and reads back, by the model's reader, as the diagnostic's own position (%d lines)" % (name, len(todo)), badm == 0, "%d lines differ" % badm)


def read_number(t):
    """independent reader of complex_to_string's forms -> (re, im) or None; None parts mean 'a zero'"""
    def f(x):
        if x in ("inf", "-inf", "NaN"):
            return float(x.lower())
        if not re.match(r"^-?\d+(\.\d+)?$", x):
            raise ValueError(x)
        return float(x)
    if t == "0":
        return (None, None)
    if t == "i":
        return (None, 1.0)
    if t == "-i":
        return (None, -1.0)
    if " " in t:
        m = re.match(r"^(\S+) ([+-]) (\S*)i$", t)
        if not m:
            raise ValueError(t)
        im = 1.0 if m.group(3) == "" else f(m.group(3))
        return (f(m.group(1)), im if m.group(2) == "+" else -im)
    if t.endswith("i") and t not in ("inf", "-inf"):
        return (None, f(t[:-1]))
    return (f(t), None)


def same_float(x, bits):
    v = fl(bits)
    if x is None:
        return v == 0.0
    if x != x:
        return v != v
    return struct.pack("<d", x) == struct.pack("<d", v)


def check_text_denotes(ctx, desc, text):
    """does `text` (one printed result, without the final newline) denote the value `desc` (n:… / q:… / m:…)?"""
    d = desc.split(":")
    try:
        if d[0] == "n":
            re_, im_ = d[1].split("_")
            r = read_number(text)
            return None if same_float(r[0], re_[1:]) and same_float(r[1], im_[1:]) else "reads back as %r" % (r,)
        if d[0] == "q":
            sym = ctx["dump"]["units"][int(d[1])]["symbol"]
            if not text.endswith(sym):
                return "does not end with the unit symbol %r" % sym
            body = text[: -len(sym)]
            re_, im_ = d[2].split("_")
            both = fl(re_[1:]) != 0.0 and fl(im_[1:]) != 0.0
            if both != (body.startswith("(") and body.endswith(")")):
                return "parenthesised iff both parts are non-zero is violated"
            r = read_number(body[1:-1] if both else body)
            return None if same_float(r[0], re_[1:]) and same_float(r[1], im_[1:]) else "number part reads back as %r" % (r,)
        if d[0] == "m":
            rws, cls = int(d[1]), int(d[2])
            cells = d[3].split(",")
            if not (text.startswith("[") and text.endswith("]")):
                return "no enclosing brackets"
            rows = text[1:-1].split("\n")
            if len(rows) != rws:
                return "%d lines for %d rows" % (len(rows), rws)
            k = 0
            for i, row in enumerate(rows):
                if i > 0:
                    if not row.startswith(" "):
                        return "row %d lacks its leading blank" % (i + 1)
                    row = row[1:]
                ents = row.split(", ")
                if len(ents) != cls:
                    return "row %d has %d entries, expected %d" % (i + 1, len(ents), cls)
                for e in ents:
                    re_, im_ = cells[k].split("_")
                    k += 1
                    r = read_number(e.strip(" "))
                    if not (same_float(r[0], re_[1:]) and same_float(r[1], im_[1:])):
                        return "entry reads back as %r" % (r,)
    except ValueError as e:
        return "unreadable: %s" % e
    return None


def oracle_reader_hist(ctx, name, a, b, cpath):
    """C15 on computed values: every printed result line is read back and compared with the value it was printed from"""
    rep = ctx["rep"]
    n = bad = 0
    for cid, lines in a.items():
        for l in lines:
            p = l.split(" ")
            if len(p) > 4 and p[1].startswith("O") and p[2] == "val" and p[3][0] in "nqm" and p[-1].startswith("text="):
                text = unhx(p[-1][5:])
                n += 1
                why = "no final newline" if not text.endswith("\n") else check_text_denotes(ctx, p[3], text[:-1])
                if why:
                    bad += 1
                    if bad <= 4:
                        rep.violation("printed text %r does not denote the computed value %s" % (text, p[3][:80]), case=engine.find_case(cpath, cid),
                                      impl=[l[:300]], stream=name, oracle=why)
    rep.count("oracle:reader (computed values) judged", n)


def oracle_reader(ctx, name, a, b, cpath):
    """C15: the printed text is read back by an independent reader and compared with the value (bitwise up to
    the sign of zero)"""
    rep = ctx["rep"]
    syms = sorted((u["symbol"] for u in ctx["dump"]["units"]), key=len, reverse=True)
    n = bad = 0
    with open(cpath) as fcases:
        for line in fcases:
            p = line.rstrip("\n").split(" ")
            if p[0] != "print":
                continue
            lines = a.get(p[1])
            if not lines or not lines[0].startswith("PRINT "):
                continue
            text = unhx(lines[0].split(" ")[1])
            d = p[2].split(":")
            why = None
            try:
                if d[0] == "n":
                    re_, im_ = d[1].split("_")
                    r = read_number(text)
                    if not (same_float(r[0], re_[1:]) and same_float(r[1], im_[1:])):
                        why = "reads back as %r" % (r,)
                elif d[0] == "q":
                    sym = ctx["dump"]["units"][int(d[1])]["symbol"]
                    if not text.endswith(sym):
                        why = "does not end with the unit symbol %r" % sym
                    else:
                        body = text[: -len(sym)]
                        re_, im_ = d[2].split("_")
                        both = fl(re_[1:]) != 0.0 and fl(im_[1:]) != 0.0
                        if both != (body.startswith("(") and body.endswith(")")):
                            why = "parenthesised iff both parts are non-zero is violated"
                        else:
                            r = read_number(body[1:-1] if both else body)
                            if not (same_float(r[0], re_[1:]) and same_float(r[1], im_[1:])):
                                why = "number part reads back as %r" % (r,)
                elif d[0] == "m":
                    rws, cls = int(d[1]), int(d[2])
                    cells = d[3].split(",")
                    if not (text.startswith("[") and text.endswith("]")):
                        why = "no enclosing brackets"
                    else:
                        rows = text[1:-1].split("\n")
                        if len(rows) != rws:
                            why = "%d lines for %d rows" % (len(rows), rws)
                        else:
                            k = 0
                            for i, row in enumerate(rows):
                                if i > 0:
                                    if not row.startswith(" "):
                                        why = "row %d lacks its leading blank" % (i + 1)
                                        break
                                    row = row[1:]
                                ents = row.split(", ")
                                if len(ents) != cls:
                                    why = "row %d has %d entries, expected %d" % (i + 1, len(ents), cls)
                                    break
                                for e in ents:
                                    re_, im_ = cells[k].split("_")
                                    k += 1
                                    r = read_number(e.strip(" "))
                                    if not (same_float(r[0], re_[1:]) and same_float(r[1], im_[1:])):
                                        why = "entry reads back as %r" % (r,)
                                        break
                                if why:
                                    break
                elif d[0] == "fn":
                    ent = [b for b in ctx["dump"]["builtins"] if b["key"] == unhx(d[1])][0]
                    if "native" in ent:
                        if text != ent["key"] + " (built-in)":
                            why = "a built-in function must print its name (%s) marked as built-in" % ent["key"]
                    else:
                        r = read_number(text)
                        if not (same_float(r[0], ent["re"]) and same_float(r[1], ent["im"])):
                            why = "constant reads back as %r" % (r,)
            except ValueError as e:
                why = "unreadable: %s" % e
            n += 1
            if why:
                bad += 1
                if bad <= 4:
                    rep.violation("printed text %r does not denote the value %s" % (text, p[2][:80]), case=line.strip(), impl=lines, stream=name, oracle=why)
    rep.count("oracle:reader judged", n)


oracle_frame = _count_only("frame")
oracle_dispatch = _count_only("dispatch")
oracle_malformed_text_runs_nothing = _count_only("malformed")
