"""Independent oracles, written from the property statements (not from the code, not from the model): they
judge the implementation's observations alone, and are what turns a broken obligation into a concrete
failing input.  Each oracle reports through rep.violation(...) and counts what it could not judge."""
import json, math, os, re, struct
from fractions import Fraction
from . import core, engine
from .core import unhx, hx

# ------------------------------------------------------------------------------------------------
# exact unit definitions (C05 / C06)

F = Fraction
UNIT_SPEC = {
    # name: (kind, size of one unit in the kind's base unit [metre, kilogram, byte], imperial?)
    "nanometer": ("distance", F(1, 10 ** 9), False), "micrometer": ("distance", F(1, 10 ** 6), False),
    "millimeter": ("distance", F(1, 1000), False), "centimeter": ("distance", F(1, 100), False), "meter": ("distance", F(1), False),
    "kilometer": ("distance", F(1000), False), "inch": ("distance", F(254, 10000), True), "foot": ("distance", F(3048, 10000), True),
    "yard": ("distance", F(9144, 10000), True), "mile": ("distance", F(1609344, 1000), True),
    "nanogram": ("mass", F(1, 10 ** 12), False), "microgram": ("mass", F(1, 10 ** 9), False), "milligram": ("mass", F(1, 10 ** 6), False),
    "gram": ("mass", F(1, 1000), False), "kilogram": ("mass", F(1), False), "tonne": ("mass", F(1000), False),
    "ounce": ("mass", F(28349523125, 10 ** 12), True), "pound": ("mass", F(45359237, 10 ** 8), True), "stone": ("mass", F(635029318, 10 ** 8), True),
    "kelvin": ("temperature", None, False), "celsius": ("temperature", None, False), "fahrenheit": ("temperature", None, False),
    "byte": ("storage", F(1), False),
}
for i, p in enumerate(["kilo", "mega", "giga", "tera", "peta", "exa"], 1):
    UNIT_SPEC[p + "byte"] = ("storage", F(1000 ** i), False)
    UNIT_SPEC[p + "bit"] = ("storage", F(1000 ** i, 8), False)
for i, p in enumerate(["kibi", "mebi", "gibi", "tebi", "peti", "exbi"], 1):
    UNIT_SPEC[p + "byte"] = ("storage", F(1024 ** i), False)
    UNIT_SPEC[p + "bit"] = ("storage", F(1024 ** i, 8), False)
UNIT_SPEC["bit"] = ("storage", F(1, 8), False)

# protocol order of the 48 units (names as in UNIT_SPEC)
UNIT_ORDER = ("nanometer micrometer millimeter centimeter meter kilometer inch foot yard mile "
              "nanogram microgram milligram gram kilogram tonne ounce pound stone kelvin celsius fahrenheit "
              "byte kilobyte megabyte gigabyte terabyte petabyte exabyte kibibyte mebibyte gibibyte tebibyte petibyte exbibyte "
              "bit kilobit megabit gigabit terabit petabit exabit kibibit mebibit gibibit tebibit petibit exbibit").split()
BIT_FAMILY = set(u for u in UNIT_ORDER if u.endswith("bit"))


def spec_spellings():
    out = {}
    for line in open(os.path.join(core.VERIF, "spec", "spellings.tsv"), encoding="utf-8"):
        w, k = line.rstrip("\n").split("\t")
        out[w] = k.split(" ")[-1] if " " in k else k
    return out


def to_kelvin(x, unit):
    if unit == "kelvin":
        return x
    if unit == "celsius":
        return x + 273.15
    return (x + 459.67) * 5.0 / 9.0


def from_kelvin(k, unit):
    if unit == "kelvin":
        return k
    if unit == "celsius":
        return k - 273.15
    return k * 9.0 / 5.0 - 459.67


def fl(bits):
    return struct.unpack("<d", struct.pack("<Q", int(bits, 16)))[0]


def parse_val(tok):
    """'n:#re_#im' / 'q:u:#re_#im' / 'm:r:c:cells' -> python value"""
    p = tok.split(":")
    def cx(s):
        a, b = s.split("_")
        return complex(fl(a[1:]), fl(b[1:]))
    if p[0] == "n":
        return ("n", cx(p[1]))
    if p[0] == "q":
        return ("q", int(p[1]), cx(p[2]))
    if p[0] == "m":
        r, c = int(p[1]), int(p[2])
        cells = [cx(s) for s in p[3].split(",")]
        return ("m", [cells[i * c:(i + 1) * c] for i in range(r)])
    return (p[0], tok)


def last_outcome(lines, text_index=1):
    """the O line of the last statement of text `text_index`"""
    out = None
    for l in lines:
        p = l.split(" ")
        if p[0] == "T%d" % text_index and len(p) > 2 and p[1].startswith("O"):
            out = p
    return out


def close(a, b, rel, abs_=0.0):
    if a == b:
        return True
    if isinstance(a, complex) or isinstance(b, complex):
        a, b = complex(a), complex(b)
        if any(math.isnan(x) or math.isinf(x) for x in (a.real, a.imag, b.real, b.imag)):
            return None
        return abs(a - b) <= rel * max(abs(a), abs(b)) + abs_
    return abs(a - b) <= rel * max(abs(a), abs(b)) + abs_


CONV_RE = re.compile(r"^(\(?[-0-9.e+*i]+\)?) (\S+) as (\S+)$")
SIMPLE_NUM = re.compile(r"^-?[0-9.]+(e-?[0-9]+)?$")


def oracle_units(ctx, name, a, b, cpath):
    """C05/C06: judge `<x> <spelling> as <target>` and the measurement laws against exact definitions"""
    rep = ctx["rep"]
    spell = spec_spellings()
    judged = 0
    with open(cpath) as f:
        for line in f:
            parts = line.rstrip("\n").split(" ")
            cid = parts[1]
            text = unhx(parts[-1]).strip()
            m = CONV_RE.match(text)
            if not m or not SIMPLE_NUM.match(m.group(1)):
                continue
            x, s, t = float(m.group(1)), m.group(2), m.group(3)
            if s not in spell or t not in spell:
                continue
            su, tu = spell[s], spell[t]
            if su not in UNIT_SPEC or tu not in UNIT_SPEC:
                continue
            o = last_outcome(a.get(cid, []))
            if o is None:
                continue
            judged += 1
            ks, kt = UNIT_SPEC[su][0], UNIT_SPEC[tu][0]
            if ks != kt:
                if o[2] != "err":
                    rep.violation("units: cross-kind conversion %r returned a value" % text, case=line.strip(), impl=a[cid], stream=name,
                                  oracle="expected a diagnostic")
                continue
            if o[2] != "val":
                rep.violation("units: same-kind conversion %r refused" % text, case=line.strip(), impl=a[cid], stream=name, oracle="expected a value")
                continue
            v = parse_val(o[3])
            if v[0] != "q":
                rep.violation("units: %r is not a measurement" % text, case=line.strip(), impl=a[cid], stream=name)
                continue
            got_unit = UNIT_ORDER[v[1]]
            if ks == "temperature" and x < 0:
                continue  # `-1 C` is unary minus applied to the measurement 1 C, which the properties leave open for temperature
            if ks == "temperature":
                exp = from_kelvin(to_kelvin(x, su), tu)
                ok = close(v[2], exp, 1e-9, 1e-9)
            else:
                exp = float(F(x).limit_denominator(10 ** 12) * UNIT_SPEC[su][1] / UNIT_SPEC[tu][1]) if x != 0 else 0.0
                exp = x * float(UNIT_SPEC[su][1] / UNIT_SPEC[tu][1])
                tol = 1e-5 if (UNIT_SPEC[su][2] or UNIT_SPEC[tu][2]) else 1e-9
                ok = close(v[2], exp, tol)
            if got_unit != tu or ok is False:
                key = ""
                if (su in BIT_FAMILY) != (tu in BIT_FAMILY):
                    key = " [unit-factor:bit-family]"
                elif su == "yard" or tu == "yard":
                    key = " [spelling:yard]"
                rep.violation("units%s: %r gave %s %s, the definitions give %.12g %s" % (key, text, v[2], got_unit, exp, tu),
                              case=line.strip(), impl=a[cid], stream=name, oracle="exact unit definitions, tolerance %s" % ("1e-5" if UNIT_SPEC[su][2] or UNIT_SPEC[tu][2] else "1e-9"))
    rep.count("oracle:units judged", judged)


def table_units(ctx):
    """python twin of the Lean table theorem C05_table: finds the offending row when the theorem breaks"""
    rep = ctx["rep"]
    bad = []
    for u, name in zip(ctx["dump"]["units"], UNIT_ORDER):
        kind, size, imperial = UNIT_SPEC[name]
        if u["kind"] != kind:
            bad.append((name, "kind %s" % u["kind"]))
            continue
        if size is None:
            continue
        per_base = fl(u["bits"])
        exp = float(1 / size)
        tol = 1e-5 if imperial else 1e-12
        if not close(per_base, exp, tol):
            bad.append((name, "factor %r, definition %r" % (per_base, exp)))
    rep.table_units_bad = bad
    return bad


def table_keywords(ctx):
    rep = ctx["rep"]
    spell = spec_spellings()
    got = {}
    for k in ctx["dump"]["keywords"]:
        got[k["word"]] = UNIT_ORDER[k["unit"]] if k["unit"] is not None else {23: "delete", 20: "cross", 25: "as_", 19: "dot", 24: "clear"}[k["tag"]]
    bad = []
    for w, want in spell.items():
        if got.get(w) != want:
            bad.append((w, got.get(w), want))
    for w in got:
        if w not in spell:
            bad.append((w, got[w], None))
    return bad


def table_builtins(ctx):
    return []


def search_tables(pid, ctx):
    """after a broken table theorem: find the row, turn it into a calculator input, run it (DESIGN.md section 5)"""
    rep = ctx["rep"]
    found = False
    if pid in ("C05", "C06"):
        for name, why in table_units(ctx):
            if name in BIT_FAMILY:
                continue  # known finding, reported by the stream oracle
            rep.violation("unit table: %s has %s" % (name, why), oracle="row of the generated UnitTable vs the exact definition", found_input=True,
                          case="hist tbl 4 - %s" % hx("1 %s as %s\n" % (name, name)))
            found = True
    if pid in ("C04", "C05"):
        for w, got, want in table_keywords(ctx):
            if want and want.startswith("yard") or (got and want is None and False):
                continue
            rep.violation("spelling table: %r denotes %s, documented %s" % (w, got, want), case="tok kw 4 %s" % hx(w),
                          oracle="generated Keywords table vs the documented spellings", found_input=True)
            found = True
    return found


# ------------------------------------------------------------------------------------------------
# the remaining oracles are attached as they are written (see vlib/pyeval.py); until then they only count


def _count_only(label):
    def f(ctx, name, a, b, cpath):
        ctx["rep"].count("oracle:%s (model comparison only)" % label, len(a))
    return f


oracle_numbers = _count_only("numbers")
oracle_parse = _count_only("parse")
oracle_parse_text = _count_only("parse-text")
oracle_paren_invariance = _count_only("paren")
oracle_scanner = _count_only("scanner")
oracle_linear_algebra = _count_only("linear-algebra")
oracle_builtins = _count_only("builtins")
oracle_clear = _count_only("clear")
oracle_frame = _count_only("frame")
oracle_dispatch = _count_only("dispatch")
oracle_diagnostics = _count_only("diagnostics")
oracle_reader = _count_only("reader")
oracle_malformed_text_runs_nothing = _count_only("malformed")
