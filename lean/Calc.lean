-- Root of the `Calc` library: the executable model.  Theorem modules (Calc/Props, Calc/Audit) are
-- built per property by ../check and all together by ../setup.sh (see READY.json).
import Calc.Model.Front
import Calc.Model.Print
import Calc.Exec.Canon
