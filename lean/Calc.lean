-- This module serves as the root of the `Calc` library.
-- Import modules here that should be built as part of the library.
import Calc.Basic
