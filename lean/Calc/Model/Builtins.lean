/-
  Calc.Model.Builtins — model of the native functions: function.rs:47-60 (arity check),
  proc_macros/src/lib.rs:66-121 (generated constraint check, then extraction with
  `_ => panic!()`), constraint.rs:71-106 (domains), builtin_math.rs:17-57 (bodies).

  The table of names, arities, parameter names and domains is `Gen.builtins`, regenerated from the
  compiled code on every run.  The *bodies* are written here by name: what each name is supposed
  to compute is the specification side of C08.
-/
import Calc.Model.Matrix
import Calc.Generated.BuiltinTable
namespace Calc

variable {S : Type} [Add S] [Sub S] [Mul S] [Div S] [Zero S] [One S] [Kernel S]

/-- `ValueConstraint::does_value_fit` (constraint.rs:71-106) -/
def fits (c : Gen.Constraint) (v : Value S) : Bool :=
  match c, v with
  | .function, .native _ => true
  | .function, .user _ => true
  | .number, .number _ => true
  | .real, .number z => Kernel.imIsZero z
  | .natural, .number z => Kernel.imIsZero z && Kernel.reFractIsZero z && Kernel.reNonneg z
  | .integer, .number z => Kernel.imIsZero z && Kernel.reFractIsZero z
  | .positiveInteger, .number z => Kernel.imIsZero z && Kernel.reFractIsZero z && Kernel.rePos z
  | .matrix, .matrix _ => true
  | .squareMatrix, .matrix m => Mat.nrows m == Mat.ncols m
  | _, _ => false

def constraintName : Gen.Constraint → Str
  | .function => "function".toList | .number => "number".toList | .real => "real".toList
  | .natural => "natural".toList | .integer => "integer".toList
  | .positiveInteger => "positive_integer".toList | .matrix => "matrix".toList
  | .squareMatrix => "square_matrix".toList

def natStr (n : Nat) : Str := (toString n).toList

/-- index (1-based) and spec of the first argument outside its parameter's domain -/
def firstMisfit : Nat → List Gen.ParamSpec → List (Value S) → Option (Nat × Gen.ParamSpec)
  | _, [], _ => none
  | _, _ :: _, [] => none
  | i, p :: ps, a :: as => if fits p.constraint a then firstMisfit (i + 1) ps as else some (i, p)

def numArg (args : List (Value S)) (i : Nat) : Res S :=
  match args[i]? with
  | some (.number z) => .ok z
  | _ => .panic "native: extraction".toList

def matArg (args : List (Value S)) (i : Nat) : Res (Mat S) :=
  match args[i]? with
  | some (.matrix m) => .ok m
  | _ => .panic "native: extraction".toList

def num1 (args : List (Value S)) (f : S → S) : Res (Value S) :=
  (numArg args 0).bind fun z => .ok (.number (f z))

/-- the bodies (builtin_math.rs:17-57), by the *name stored in the native function value* -/
def nativeBody (name : Str) (line col : Nat) (args : List (Value S)) : Res (Value S) :=
  match String.ofList name with
  | "sin" => num1 args Kernel.sin | "cos" => num1 args Kernel.cos | "tan" => num1 args Kernel.tan
  | "asin" => num1 args Kernel.asin | "acos" => num1 args Kernel.acos | "atan" => num1 args Kernel.atan
  | "sinh" => num1 args Kernel.sinh | "cosh" => num1 args Kernel.cosh | "tanh" => num1 args Kernel.tanh
  | "asinh" => num1 args Kernel.asinh | "acosh" => num1 args Kernel.acosh | "atanh" => num1 args Kernel.atanh
  | "re" => num1 args Kernel.reS | "im" => num1 args Kernel.imS | "arg" => num1 args Kernel.argS
  | "conj" => num1 args Kernel.conj
  | "abs" => num1 args Kernel.norm
  | "ceil" => num1 args Kernel.ceilRe | "floor" => num1 args Kernel.floorRe
  | "log2" => num1 args Kernel.log2 | "log10" => num1 args Kernel.log10 | "ln" => num1 args Kernel.ln
  | "sqrt" => num1 args Kernel.sqrt
  | "log" => (numArg args 0).bind fun b => (numArg args 1).bind fun v => .ok (.number (Kernel.logBase b v))
  | "gcd" => (numArg args 0).bind fun a => (numArg args 1).bind fun b => .ok (.number (Kernel.gcd a b))
  | "lcm" => (numArg args 0).bind fun a => (numArg args 1).bind fun b => .ok (.number (Kernel.lcm a b))
  | "identity" => (numArg args 0).bind fun z => (Mat.identity (Kernel.reToNat z)).bind fun m => .ok (.matrix m)
  | "transpose" => (matArg args 0).bind fun m => (Mat.transpose m).bind fun t => .ok (.matrix t)
  | "determinant" => (matArg args 0).bind fun m => (Mat.det m).bind fun d => .ok (.number d)
  | "inverse" => (matArg args 0).bind fun m => (Mat.inverse m).bind fun r =>
      match r with
      | some inv => .ok (.matrix inv)
      | none => .diag ⟨.noInverseForMatrix, line, col, []⟩
  | _ => .panic "native: unknown name".toList

/-- `Function::call` for a native function (function.rs:47-60) followed by the generated wrapper -/
def callNative (name : Str) (line col : Nat) (args : List (Value S)) : Res (Value S) :=
  match Gen.builtins.find? (fun b => b.name.toList = name) with
  | none => .panic "native: not in table".toList
  | some spec =>
    if spec.params.length ≠ args.length then
      .diag ⟨.incorrectParameterCount, line, col,
             name ++ [':'] ++ natStr spec.params.length ++ [':'] ++ natStr args.length⟩
    else
      match firstMisfit 1 spec.params args with
      | some (i, p) =>
        .diag ⟨.incorrectParameterType, line, col,
               name ++ [':'] ++ natStr i ++ [':'] ++ p.name.toList ++ [':'] ++ constraintName p.constraint⟩
      | none => nativeBody name line col args

end Calc
