/-
  Calc.Model.Stmt — model of `Statement::interpret` (stmt.rs:40-183).

  Function values are modelled with value semantics: an assignment stores a *copy* of a function
  value (the `fix:` commit for C12 makes the Rust do exactly that; before it, two names could share
  one `Rc<RefCell<Function>>`).  With copies, "mutate the function through its handle" and
  "store the updated function under that name" are the same thing, and that is what `step` does.
-/
import Calc.Model.Eval
namespace Calc

variable {S : Type} [Add S] [Sub S] [Mul S] [Div S] [Zero S] [One S] [Kernel S]

/-- one printed line, before rendering -/
inductive Line (S : Type)
  | value (v : Value S)
  | evalErr (d : Diag)
  | parseErr (e : PErr)
  | scanErr (e : ScanErr)
  | banner
  | goodbye
  | panic (site : Str)
  | fuel

structure StepOut (S : Type) where
  env : Env S
  out : List (Line S)

/-- `PartialEq` on `UserDefinedFunctionArgType` / `Signature` (function.rs:100-110) -/
def paramEq : Param S → Param S → Bool
  | .ident a, .ident b => a = b
  | .number z, .number w => Kernel.eq z w
  | _, _ => false

def sigEq : List (Param S) → List (Param S) → Bool
  | [], [] => true
  | p :: ps, q :: qs => paramEq p q && sigEq ps qs
  | _, _ => false

/-- `Signature::equivalent` (function.rs:157-178): parameter names are irrelevant -/
def paramEquiv : Param S → Param S → Bool
  | .ident _, .ident _ => true
  | .number z, .number w => Kernel.eq z w
  | _, _ => false

def sigEquiv : List (Param S) → List (Param S) → Bool
  | [], [] => true
  | p :: ps, q :: qs => paramEquiv p q && sigEquiv ps qs
  | _, _ => false

/-- the `for sig in signatures.iter_mut()` loop of a definition (stmt.rs:149-156):
    replace the first equivalent entry in place, else append -/
def defineSig (sigs : List (Sig S × Expr S)) (sig : Sig S) (body : Expr S) : List (Sig S × Expr S) :=
  match sigs with
  | [] => [(sig, body)]
  | (s, b) :: rest =>
    if sigEquiv s.params sig.params then (sig, body) :: rest
    else (s, b) :: defineSig rest sig body

def errOut (env : Env S) (k : EvalErrKind) (t : Tok S) (info : Str := []) : StepOut S :=
  ⟨env, [.evalErr ⟨k, t.line, t.col, info⟩]⟩

def resLine : Res (Value S) → List (Line S)
  | .ok v => [.value v]
  | .diag d => [.evalErr d]
  | .panic s => [.panic s]
  | .fuel => [.fuel]

/-- `Statement::interpret` (stmt.rs:40-183) together with the `println!` of main.rs:81-83 -/
def step (fuel : Nat) (env : Env S) (s : Stmt S) : StepOut S :=
  match s with
  | .expr e =>
    let o := eval fuel e env
    ⟨o.env, resLine o.res⟩
  | .deleteVar name =>
    match Env.get env name.lexeme with
    | some v =>
      if v.constant then errOut env .constantDeletion name name.lexeme
      else ⟨Env.remove env name.lexeme, []⟩
    | none => errOut env .unknownVariable name name.lexeme
  | .deleteSig name sig =>
    match Env.get env name.lexeme with
    | some v =>
      if v.constant then errOut env .constantDeletion name name.lexeme
      else
        match v.value with
        | .native _ => errOut env .cantDeleteSignature name name.lexeme
        | .user fn =>
          let kept := fn.sigs.filter (fun se => !sigEq se.1.params sig.params)
          if kept.length = fn.sigs.length then errOut env .noMatchingSignature name fn.name
          else if kept.isEmpty then ⟨Env.remove env name.lexeme, []⟩
          else ⟨Env.insert env name.lexeme ⟨.user { fn with sigs := kept }, false⟩, []⟩
        | _ => errOut env .invalidCallable name
    | none => errOut env .unknownVariable name name.lexeme
  | .assign name e =>
    match Env.get env name.lexeme with
    | some ⟨_, true⟩ => errOut env .constantAssignment name name.lexeme
    | _ =>
      let o := eval fuel e env
      match o.res with
      | .ok v => ⟨Env.insert o.env name.lexeme ⟨v, false⟩, []⟩
      | r => ⟨o.env, resLine r⟩
  | .define name sig body =>
    let fresh : StepOut S :=
      ⟨Env.insert env name.lexeme ⟨.user ⟨name.lexeme, [(sig, body)]⟩, false⟩, []⟩
    match Env.get env name.lexeme with
    | some v =>
      if v.constant then errOut env .constantAssignment name name.lexeme
      else
        match v.value with
        | .user fn =>
          ⟨Env.insert env name.lexeme ⟨.user { fn with sigs := defineSig fn.sigs sig body }, false⟩, []⟩
        | .native _ => errOut env .cantAddSignature name name.lexeme
        | _ => fresh
    | none => fresh
  | .clear => ⟨Env.retainConstants env, []⟩

/-- the statement loop of `process_text` (main.rs:80-84) -/
def runStmts (fuel : Nat) : Env S → List (Stmt S) → StepOut S
  | env, [] => ⟨env, []⟩
  | env, s :: ss =>
    let o1 := step fuel env s
    let o2 := runStmts fuel o1.env ss
    ⟨o2.env, o1.out ++ o2.out⟩

end Calc
