/-
  Calc.Model.Units — model of common/src/variable/value/measurement.rs (conversion).
  The per-unit factors are *not* written here: they are `Gen.perBaseBits`, regenerated from the
  compiled code on every run (Calc/Generated/UnitTable.lean).
-/
import Calc.Model.Kernel
import Calc.Generated.UnitTable
namespace Calc

variable {S : Type} [Add S] [Sub S] [Mul S] [Div S] [Zero S] [One S] [Kernel S]

/-- `get_per_meter` / `get_per_kilo` / `get_per_byte` as a scalar; temperature has none. -/
def perBase (u : Unit) : S := Kernel.ofBits (Gen.perBaseBits u) 0

def baseUnit : Unit → Unit
  | .distance _ => .distance .meter
  | .mass _ => .mass .kilogram
  | .storage _ => .storage .byte
  | .temperature _ => .temperature .kelvin

/-- `273.15`, `459.67`, `5.0/9.0`, `9.0/5.0` as the code writes them -/
def c273 : S := Kernel.ofDecimal 27315 (-2)
def c459 : S := Kernel.ofDecimal 45967 (-2)

/-- `to_si_base_unit` (measurement.rs:64-92): the magnitude in the kind's base unit -/
def toBase (z : S) (u : Unit) : S :=
  match u with
  | .temperature .kelvin => z
  | .temperature .celsius => z + c273
  | .temperature .fahrenheit => (z + c459) * Kernel.ofRatio 5 9
  | _ => z / perBase u

/-- the second half of `to_other_unit` (measurement.rs:37-62): from the base unit to `u` -/
def fromBase (b : S) (u : Unit) : S :=
  match u with
  | .temperature .kelvin => b
  | .temperature .celsius => b - c273
  | .temperature .fahrenheit => b * Kernel.ofRatio 9 5 - c459
  | _ => Kernel.mulRe b (perBase u)

/-- `to_other_unit` (measurement.rs:30-62): `none` = different kinds -/
def toOther (z : S) (u target : Unit) : Option S :=
  if u.kind ≠ target.kind then none else some (fromBase (toBase z u) target)

end Calc
