/-
  Calc.Model.Kernel — the numeric kernel the model is generic in.

  The Rust code computes on `Complex64`.  The model never looks inside a scalar: every
  operation the Rust applies to a `Complex64` is either one of the core arithmetic classes
  (`+ - * /`, `0`, `1`) or a field of `Kernel`.  Two kinds of instances exist:
    * `Calc.Exec.Cx` (pairs of `Float`, formulas of num-complex 0.4.6) — executable, used by the
      correspondence driver only, occurs in no theorem;
    * exact instances (`ℂ`, any field) in `Calc/Proofs`, used by the theorems.
-/
import Calc.Model.Basic
namespace Calc

class Kernel (S : Type) where
  /-- `Complex64::from(-1.0)` (expr.rs:353,360; matrix.rs:340) -/
  negOne : S
  /-- `Complex64::I` -/
  i : S
  /-- `f64::INFINITY` as a complex number (factorial beyond 170!) -/
  inf : S
  /-- `n as f64` -/
  ofNat : Nat → S
  /-- `f64::from_str` of the decimal `m · 10^e` (tokenizer.rs:202,226) -/
  ofDecimal : Nat → Int → S
  /-- a compile-time `f64` quotient `a / b` of small integers (measurement.rs: 9.0/5.0, 5.0/9.0) -/
  ofRatio : Nat → Nat → S
  /-- a shipped `Complex64` constant identified by the IEEE-754 bit patterns of its parts
      (generated tables) -/
  ofBits : Nat → Nat → S
  /-- `==` on `Complex64` (function.rs:145,170; matrix.rs:128) -/
  eq : S → S → Bool
  /-- `z.norm() == 0.0` (expr.rs:254,264,282) -/
  normIsZero : S → Bool
  /-- `z.re != 0.0` negated, etc. (value/mod.rs:63-88, measurement.rs:17, constraint.rs:82-99) -/
  reIsZero : S → Bool
  imIsZero : S → Bool
  imIsOne : S → Bool
  imIsNegOne : S → Bool
  imIsNeg : S → Bool
  reFractIsZero : S → Bool
  reNonneg : S → Bool
  rePos : S → Bool
  /-- `z.re as u64` / `as usize` on a value already known to be a natural number -/
  reToNat : S → Nat
  /-- `Complex64 * f64`: both parts times the real part of the second argument
      (measurement.rs:39-45) -/
  mulRe : S → S → S
  powc : S → S → S
  rem : S → S → S
  sqrt : S → S
  /-- `z.norm().into()` -/
  norm : S → S
  /-- `Complex64::from(z.norm_sqr())` -/
  normSqr : S → S
  ceilRe : S → S
  floorRe : S → S
  /-- Rust `Display` of the parts (value/mod.rs:63-88) -/
  fmtRe : S → Str
  fmtIm : S → Str
  fmtAbsIm : S → Str
  -- the bodies of the native functions (builtin_math.rs:17-57)
  sin : S → S
  cos : S → S
  tan : S → S
  asin : S → S
  acos : S → S
  atan : S → S
  sinh : S → S
  cosh : S → S
  tanh : S → S
  asinh : S → S
  acosh : S → S
  atanh : S → S
  reS : S → S
  imS : S → S
  argS : S → S
  conj : S → S
  ln : S → S
  log2 : S → S
  log10 : S → S
  /-- `val.log(base)` with arguments in source order `(base, val)` -/
  logBase : S → S → S
  gcd : S → S → S
  lcm : S → S → S

end Calc
