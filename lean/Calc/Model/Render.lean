/-
  Calc.Model.Render — the located frame of a diagnostic line (core Lean only, no imports).

  Mirrors the `write!(f, "Line {}, Column {} :: {}", line, col, kind)` of
  common/src/expr/error.rs, common/src/parser/error.rs, common/src/tokenizer/error.rs:
  a diagnostic line is the frame `Line <l>, Column <c> :: ` followed by the message.

  `natDigits` is an explicit decimal printer (fuel recursion, most significant digit first);
  `Calc.Proofs.RenderPos` proves that it is `toString` on `Nat`.  `readPos` is the reader a
  user (or the correspondence check) applies to a printed line to find the position again.
-/
namespace Calc

/-- the ASCII digit of `d < 10` -/
def digitChar (d : Nat) : Char := Char.ofNat (48 + d)

/-- value of an ASCII digit -/
def decVal (c : Char) : Nat := c.toNat - 48

/-- decimal digits of `n` in front of `acc`; `fuel` only has to exceed the number of digits -/
def natDigitsCore : Nat → Nat → List Char → List Char
  | 0, _, acc => acc
  | fuel + 1, n, acc =>
    if n < 10 then digitChar n :: acc
    else natDigitsCore fuel (n / 10) (digitChar (n % 10) :: acc)

/-- the decimal numeral of `n` (what Rust's `{}` and Lean's `toString` print for an unsigned) -/
def natDigits (n : Nat) : List Char := natDigitsCore (n + 1) n []

/-- Horner value of a digit string -/
def hornerVal (ds : List Char) : Nat := ds.foldl (fun a c => 10 * a + decVal c) 0

def litLine : List Char := ['L', 'i', 'n', 'e', ' ']
def litColumn : List Char := [',', ' ', 'C', 'o', 'l', 'u', 'm', 'n', ' ']
def litSep : List Char := [' ', ':', ':', ' ']

/-- `Line <l>, Column <c> :: ` -/
def renderPos (l c : Nat) : List Char :=
  litLine ++ natDigits l ++ litColumn ++ natDigits c ++ litSep

/-- a located diagnostic line: the frame, then the message -/
def renderDiag (l c : Nat) (msg : List Char) : List Char := renderPos l c ++ msg

/-- remove the literal `p` from the front of `s`, or fail -/
def stripPrefix : List Char → List Char → Option (List Char)
  | [], s => some s
  | _ :: _, [] => none
  | a :: p, b :: s => if a = b then stripPrefix p s else none

/-- Read a located line back: literal `Line `, a maximal non-empty run of ASCII digits,
    literal `, Column `, a maximal non-empty run of ASCII digits, literal ` :: `, the rest. -/
def readPos (s : List Char) : Option (Nat × Nat × List Char) :=
  match stripPrefix litLine s with
  | none => none
  | some s1 =>
    let d1 := s1.takeWhile Char.isDigit
    if d1 = [] then none
    else
      match stripPrefix litColumn (s1.dropWhile Char.isDigit) with
      | none => none
      | some s3 =>
        let d2 := s3.takeWhile Char.isDigit
        if d2 = [] then none
        else
          match stripPrefix litSep (s3.dropWhile Char.isDigit) with
          | none => none
          | some rest => some (hornerVal d1, hornerVal d2, rest)

end Calc
