/-
  Calc.Model.Env — the variable table (`HashMap<String, Variable>`, variable/mod.rs:35) as an
  association list with at most one entry per key.  Only `get / insert / remove / retain / clone`
  are used by the Rust, and only those are defined here.
-/
import Calc.Model.Basic
namespace Calc
namespace Env

variable {S : Type}

def get (env : Env S) (k : Str) : Option (Variable S) :=
  match env with
  | [] => none
  | (k', v) :: r => if k' = k then some v else get r k

def remove (env : Env S) (k : Str) : Env S :=
  env.filter (fun kv => kv.1 ≠ k)

/-- `HashMap::insert`: replaces an existing entry -/
def insert (env : Env S) (k : Str) (v : Variable S) : Env S :=
  (k, v) :: remove env k

/-- `variables.retain(|_, val| val.constant)` (stmt.rs:179) -/
def retainConstants (env : Env S) : Env S :=
  env.filter (fun kv => kv.2.constant)

end Env
end Calc
