/-
  Calc.Model.Print — model of the `Display` implementations: complex_to_string
  (value/mod.rs:63-88), Measurement (measurement.rs:14-23), Matrix / matrix_format
  (matrix.rs:343-416), functions (function.rs:94-98, 181-229), Expr (expr.rs:563-604).
  Unit symbols come from the generated table.
-/
import Calc.Model.Kernel
import Calc.Generated.UnitTable
namespace Calc

variable {S : Type} [Kernel S]

/-- `complex_to_string` (value/mod.rs:63-88) -/
def complexToString (z : S) : Str :=
  let hasRe := !Kernel.reIsZero z
  let hasIm := !Kernel.imIsZero z
  if hasRe && hasIm then
    if Kernel.imIsOne z then Kernel.fmtRe z ++ " + i".toList
    else if Kernel.imIsNegOne z then Kernel.fmtRe z ++ " - i".toList
    else if Kernel.imIsNeg z then Kernel.fmtRe z ++ " - ".toList ++ Kernel.fmtAbsIm z ++ ['i']
    else Kernel.fmtRe z ++ " + ".toList ++ Kernel.fmtIm z ++ ['i']
  else if hasRe then Kernel.fmtRe z
  else if Kernel.imIsOne z then ['i']
  else if Kernel.imIsNegOne z then ['-', 'i']
  else if Kernel.imIsZero z then ['0']
  else Kernel.fmtIm z ++ ['i']

def unitSymbol (u : Unit) : Str := (Gen.unitSymbol u).toList

/-- `Display for Measurement` (measurement.rs:14-23) -/
def showMeasurement (z : S) (u : Unit) : Str :=
  if !Kernel.reIsZero z && !Kernel.imIsZero z then
    ['('] ++ complexToString z ++ [')'] ++ unitSymbol u
  else complexToString z ++ unitSymbol u

/-- `String::len()`: UTF-8 byte length, which `matrix_format` uses as the column width -/
def utf8Len (s : Str) : Nat := (s.map (fun c => c.utf8Size)).sum

/-- `format!("{:>width$}", s)`: pad on the left to `width` *characters* -/
def padLeft (width : Nat) (s : Str) : Str := List.replicate (width - s.length) ' ' ++ s

def joinWith (sep : Str) : List Str → Str
  | [] => []
  | [x] => x
  | x :: xs => x ++ sep ++ joinWith sep xs

/-- `matrix_format` (matrix.rs:358-416) on already-rendered entries -/
def matrixFormat (m : List (List Str)) : Str :=
  if m.isEmpty then "[]".toList else
  let longest := (m.map List.length).foldl max 0
  let nrows := m.length
  let widths : List Nat := (List.range longest).map fun c =>
    (m.map fun row => match row[c]? with | some e => utf8Len e | none => 0).foldl max 0
  let renderRow (idx : Nat) (row : List Str) : Str :=
    if row.isEmpty then [] else
    let cells := (List.zip row widths).map fun (e, w) => padLeft w e
    (if idx = 0 then [] else [' ']) ++ joinWith ", ".toList cells ++
      (if idx ≠ nrows - 1 then ['\n'] else [])
  ['['] ++ ((List.zipIdx m).map fun (row, idx) => renderRow idx row).flatten ++ [']']

def showParam : Param S → Str
  | .ident n => n
  | .number z => complexToString z

mutual
/-- `Display for Expr` (expr.rs:563-604) -/
def showExpr : Expr S → Str
  | .as_ e _ u => showExpr e ++ " as ".toList ++ unitSymbol u
  | .binary l op r =>
    if op.tag = .dot || op.tag = .cross then showExpr l ++ [' '] ++ op.lexeme ++ [' '] ++ showExpr r
    else showExpr l ++ op.lexeme ++ showExpr r
  | .unary op x => if op.tag = .bang then showExpr x ++ op.lexeme else op.lexeme ++ showExpr x
  | .grouping _ k e =>
    match k with
    | .grouping => ['('] ++ showExpr e ++ [')']
    | .absolute => ['|'] ++ showExpr e ++ ['|']
    | .ceil => ['⌈'] ++ showExpr e ++ ['⌉']
    | .floor => ['⌊'] ++ showExpr e ++ ['⌋']
  | .number z => complexToString z
  | .measurement z u => showMeasurement z u
  | .matrix _ rows => matrixFormat (showRows rows)
  | .ident name => name.lexeme
  | .call callee _ args => showExpr callee ++ ['('] ++ joinWith ", ".toList (showArgs args) ++ [')']
def showArgs : List (Expr S) → List Str
  | [] => []
  | e :: es => showExpr e :: showArgs es
def showRows : List (List (Expr S)) → List (List Str)
  | [] => []
  | r :: rs => showArgs r :: showRows rs
end

/-- one listing entry `name(params) = body` (function.rs:198-229) -/
def showSigEntry (name : Str) (se : Sig S × Expr S) : Str :=
  name ++ ['('] ++ joinWith ", ".toList (se.1.params.map showParam) ++ ") = ".toList ++ showExpr se.2

def showUserFn (fn : UserFn S) : Str :=
  joinWith ['\n'] (fn.sigs.map (showSigEntry fn.name))

/-- `Display for Value` (value/mod.rs:22-31) -/
def showValue : Value S → Str
  | .number z => complexToString z
  | .measurement z u => showMeasurement z u
  | .matrix m => matrixFormat (m.map fun r => r.map complexToString)
  | .native name => name ++ " (built-in)".toList
  | .user fn => showUserFn fn

end Calc
