/-
  Calc.Model.TableTypes — the shapes of the generated tables (the data itself is regenerated
  from the compiled tree on every run into Calc/Generated/*.lean).
-/
import Calc.Model.Basic
namespace Calc.Gen

/-- `ValueConstraint` (constraint.rs:9-19) -/
inductive Constraint
  | function | number | real | natural | integer | positiveInteger | matrix | squareMatrix
  deriving DecidableEq, Repr, Inhabited

structure ParamSpec where
  name : String
  constraint : Constraint
  deriving DecidableEq, Repr, Inhabited

/-- one native function as the compiled code reports it: its own name (`stringify!` of the
    definition) and its parameters, in order, with their domains -/
structure BuiltinSpec where
  name : String
  params : List ParamSpec
  deriving DecidableEq, Repr, Inhabited

/-- what a word of the spelling table denotes -/
inductive KwKind
  | delete | cross | as_ | dot | clear
  | unit (u : Calc.Unit)
  /-- any other token kind the compiled scanner gives a word (by its protocol code): not used by the
      shipped table; present so that a changed table can always be translated and then judged by
      the theorems and streams instead of stopping the translator -/
  | other (code : Nat)
  deriving DecidableEq, Repr, Inhabited

/-- an entry of the initial variable table -/
inductive InitVal
  | number (re im : Nat)
  | native (name : String)
  deriving DecidableEq, Repr, Inhabited

structure InitEntry where
  key : String
  constant : Bool
  val : InitVal
  deriving DecidableEq, Repr, Inhabited

end Calc.Gen
