/-
  Calc.Model.RenderLine — rendering of the diagnostic `Line`s of the model with the located
  frame of `Calc.Model.Render`.  The wording of a message is not modelled: it is a parameter
  (`Msgs`), and may depend on everything the diagnostic carries (kind, position, details).

  Mirrors the `Display` impls of common/src/expr/error.rs, common/src/parser/error.rs,
  common/src/tokenizer/error.rs.  A parse error "found EOF" (`pos = none`) is printed by the
  Rust without a frame (`write!(f, "Expected expression next but found EOF")`): it renders as
  the bare message.
-/
import Calc.Model.Stmt
import Calc.Model.Render
namespace Calc

/-- the (unmodelled) wording of the three families of diagnostics -/
structure Msgs where
  eval : Diag → Str
  parse : PErr → Str
  scan : ScanErr → Str

/-- position stored in a diagnostic line of the model (`none`: not a located diagnostic) -/
def Line.pos? {S : Type} : Line S → Option (Nat × Nat)
  | .evalErr d => some (d.line, d.col)
  | .parseErr e => e.pos
  | .scanErr e => some (e.line, e.col)
  | _ => none

/-- message of a diagnostic line -/
def Line.msg? {S : Type} (M : Msgs) : Line S → Option Str
  | .evalErr d => some (M.eval d)
  | .parseErr e => some (M.parse e)
  | .scanErr e => some (M.scan e)
  | _ => none

/-- printed text of a diagnostic line (`none`: the line is not a diagnostic) -/
def Line.render? {S : Type} (M : Msgs) : Line S → Option Str
  | .evalErr d => some (renderDiag d.line d.col (M.eval d))
  | .parseErr e =>
    match e.pos with
    | some (l, c) => some (renderDiag l c (M.parse e))
    | none => some (M.parse e)
  | .scanErr e => some (renderDiag e.line e.col (M.scan e))
  | _ => none

end Calc
