/-
  Calc.Model.Heap — handle-level model of `Statement::interpret` (stmt.rs:40-183).

  In the Rust a function value is a shared mutable handle, `Value::Function(Rc<RefCell<Function>>)`
  (value/mod.rs).  `Calc.Model.Stmt` models function values by their *content* (value semantics).
  This file models the handles: the table binds a name to a plain value or to a handle, the
  objects the handles point to live in a heap, and a definition or a signature deletion on a name
  bound to a user function mutates the pointed-to object *in place*.  `Calc.Proofs.HeapRefine`
  proves that, as long as no two names are bound to the same handle (`NoAlias`), this model and
  the value model cannot be told apart, and that `NoAlias` holds along every history when an
  assignment stores a copy (`copyOnAssign = true`, stmt.rs:127-134, added by the `fix:` commit for
  C12).  With `copyOnAssign = false` (the code before the fix: `h = f` stores the handle that `f`
  is bound to) both fail; see `Calc.Props.C12Heap`.

  Expression evaluation is not modelled again.  A statement evaluates its expression with the
  existing `eval` on the abstraction `abs st` of the state (every handle dereferenced).  This
  relies on property C11 (`eval_env`, `Calc.Props.C11`): evaluation does not change the table, so
  nothing but the *result* of `eval` has to be carried back to the handle level.  The result is a
  function *content*: in the Rust `evaluate` returns a clone of the `Rc`, whose content is the
  dereferenced content (expr.rs `evaluate_identifier`, `evaluate_call`).

  Core Lean only; every definition is computable.
-/
import Calc.Model.Stmt
namespace Calc

/-! ## objects, handle-level values, tables, heaps -/

/-- the content of a function object: the Rust enum `Function` (function.rs:16-19).  These are
    exactly the two function cases of the model's `Value`. -/
inductive FnObj (S : Type)
  | native (name : Str)
  | user (f : UserFn S)

/-- the function content as a value of the value model -/
def FnObj.toValue {S : Type} : FnObj S → Value S
  | .native n => .native n
  | .user f => .user f

/-- `Value` at the handle level: the plain cases carry their data, a function is a handle
    (`Rc<RefCell<Function>>`, compared by `Rc::ptr_eq`) -/
inductive HVal (S : Type)
  | number (z : S)
  | measurement (z : S) (u : Unit)
  | matrix (rows : List (List S))
  | fn (h : Nat)

def HVal.handle? {S : Type} : HVal S → Option Nat
  | .fn h => some h
  | _ => none

/-- `Variable` (variable/mod.rs) at the handle level -/
structure HVar (S : Type) where
  value : HVal S
  constant : Bool

/-- `VariableMap` at the handle level: an association list looked up by first match, exactly as
    `Env` -/
abbrev HEnv (S : Type) := List (Str × HVar S)

/-- The heap: the object of handle `h` is `heap[h]`.  Allocation appends, so the fresh handle is
    `heap.length`; objects are never freed (in the Rust an object is dropped when its last `Rc`
    goes away, which nothing can observe). -/
abbrev Heap (S : Type) := List (FnObj S)

structure HState (S : Type) where
  env : HEnv S
  heap : Heap S

namespace HEnv
variable {S : Type}

def get (env : HEnv S) (k : Str) : Option (HVar S) :=
  match env with
  | [] => none
  | (k', v) :: r => if k' = k then some v else get r k

def remove (env : HEnv S) (k : Str) : HEnv S :=
  env.filter (fun kv => kv.1 ≠ k)

/-- `HashMap::insert`: replaces an existing entry -/
def insert (env : HEnv S) (k : Str) (v : HVar S) : HEnv S :=
  (k, v) :: remove env k

/-- `variables.retain(|_, val| val.constant)` (stmt.rs:179) -/
def retainConstants (env : HEnv S) : HEnv S :=
  env.filter (fun kv => kv.2.constant)

/-- the handles bound in the table, one per entry bound to a function, in list order -/
def handles (env : HEnv S) : List Nat := env.filterMap (fun kv => kv.2.value.handle?)

end HEnv

/-! ## abstraction: dereference every handle -/

section Abs
variable {S : Type}

/-- `func.borrow()`.  A dangling handle (never produced, see `NoAlias.allocated`) reads as a
    native function without a name. -/
def deref (heap : Heap S) : HVal S → Value S
  | .number z => .number z
  | .measurement z u => .measurement z u
  | .matrix m => .matrix m
  | .fn h =>
    match heap[h]? with
    | some o => o.toValue
    | none => .native []

def absVar (heap : Heap S) (v : HVar S) : Variable S := ⟨deref heap v.value, v.constant⟩

/-- the table of the value model that a handle-level state stands for -/
def abs (st : HState S) : Env S := st.env.map (fun kv => (kv.1, absVar st.heap kv.2))

/-- a value together with the heap it lives in -/
structure Stored (S : Type) where
  val : HVal S
  heap : Heap S

/-- `Value::from_function(content)` = `Rc::new(RefCell::new(content))` for a function content,
    nothing to allocate for the other values -/
def store (heap : Heap S) : Value S → Stored S
  | .number z => ⟨.number z, heap⟩
  | .measurement z u => ⟨.measurement z u, heap⟩
  | .matrix m => ⟨.matrix m, heap⟩
  | .native n => ⟨.fn heap.length, heap ++ [.native n]⟩
  | .user f => ⟨.fn heap.length, heap ++ [.user f]⟩

def Value.isFn : Value S → Bool
  | .native _ => true
  | .user _ => true
  | _ => false

/-- Only used with `copyOnAssign = false`: the handle an expression's function value comes from,
    when the expression is an identifier (possibly inside plain parentheses) bound to a function.
    In the Rust `evaluate_identifier` returns `variable.value.clone()`, a clone of the `Rc`, and a
    plain grouping hands its operand on.  (Other expressions can return an existing handle too,
    e.g. a call whose body is an identifier; these are not modelled, `store` is used for them.) -/
def aliasSource (env : HEnv S) : Expr S → Option Nat
  | .ident name =>
    match HEnv.get env name.lexeme with
    | some ⟨.fn h, _⟩ => some h
    | _ => none
  | .grouping _ .grouping e => aliasSource env e
  | _ => none

/-- what an assignment stores for the value `v` of the expression `e`
    (stmt.rs:127-134 with the copy, stmt.rs before the fix without) -/
def assignStore (copyOnAssign : Bool) (st : HState S) (e : Expr S) (v : Value S) : Stored S :=
  if copyOnAssign then store st.heap v
  else
    match Value.isFn v, aliasSource st.env e with
    | true, some h => ⟨.fn h, st.heap⟩
    | _, _ => store st.heap v

/-- the initial state for the initial table `init`: every function of the table gets an object
    and a handle of its own -/
def hinitFrom (heap : Heap S) : Env S → HState S
  | [] => ⟨[], heap⟩
  | (k, v) :: r =>
    let s := store heap v.value
    let st := hinitFrom s.heap r
    ⟨(k, ⟨s.val, v.constant⟩) :: st.env, st.heap⟩

def hinit (init : Env S) : HState S := hinitFrom [] init

end Abs

/-! ## statements -/

variable {S : Type} [Add S] [Sub S] [Mul S] [Div S] [Zero S] [One S] [Kernel S]

structure HStepOut (S : Type) where
  st : HState S
  out : List (Line S)

/-- a refused statement: the state is untouched, the line is the one `errOut` prints -/
def herrOut (st : HState S) (k : EvalErrKind) (t : Tok S) (info : Str := []) : HStepOut S :=
  ⟨st, (errOut (S := S) [] k t info).out⟩

/-- `Statement::interpret` (stmt.rs:40-183) on handles, arm by arm. -/
def hstep (fuel : Nat) (st : HState S) (s : Stmt S) (copyOnAssign : Bool := true) : HStepOut S :=
  match s with
  | .expr e =>
    -- stmt.rs:42-48; the table is not touched (C11)
    ⟨st, resLine (eval fuel e (abs st)).res⟩
  | .deleteVar name =>
    -- stmt.rs:49-63
    match HEnv.get st.env name.lexeme with
    | some v =>
      if v.constant then herrOut st .constantDeletion name name.lexeme
      else ⟨⟨HEnv.remove st.env name.lexeme, st.heap⟩, []⟩
    | none => herrOut st .unknownVariable name name.lexeme
  | .deleteSig name sig =>
    -- stmt.rs:64-117: `func.borrow_mut()`, `signatures.retain(..)` on the object itself
    match HEnv.get st.env name.lexeme with
    | some v =>
      if v.constant then herrOut st .constantDeletion name name.lexeme
      else
        match v.value with
        | .fn h =>
          match st.heap[h]? with
          | some (.native _) => herrOut st .cantDeleteSignature name name.lexeme
          | some (.user fn) =>
            let kept := fn.sigs.filter (fun se => !sigEq se.1.params sig.params)
            if kept.length = fn.sigs.length then herrOut st .noMatchingSignature name fn.name
            else if kept.isEmpty then
              ⟨⟨HEnv.remove st.env name.lexeme, st.heap.set h (.user { fn with sigs := kept })⟩, []⟩
            else ⟨⟨st.env, st.heap.set h (.user { fn with sigs := kept })⟩, []⟩
          | none => herrOut st .invalidCallable name   -- dangling handle: never happens
        | _ => herrOut st .invalidCallable name
    | none => herrOut st .unknownVariable name name.lexeme
  | .assign name e =>
    -- stmt.rs:118-138
    match HEnv.get st.env name.lexeme with
    | some ⟨_, true⟩ => herrOut st .constantAssignment name name.lexeme
    | _ =>
      match (eval fuel e (abs st)).res with
      | .ok v =>
        let s := assignStore copyOnAssign st e v
        ⟨⟨HEnv.insert st.env name.lexeme ⟨s.val, false⟩, s.heap⟩, []⟩
      | r => ⟨st, resLine r⟩
  | .define name sig body =>
    -- stmt.rs:139-176
    let fresh : HStepOut S :=
      ⟨⟨HEnv.insert st.env name.lexeme ⟨.fn st.heap.length, false⟩,
        st.heap ++ [.user ⟨name.lexeme, [(sig, body)]⟩]⟩, []⟩
    match HEnv.get st.env name.lexeme with
    | some v =>
      if v.constant then herrOut st .constantAssignment name name.lexeme
      else
        match v.value with
        | .fn h =>
          match st.heap[h]? with
          | some (.user fn) =>
            -- `func.borrow_mut()`, replace or push on the object itself; the table is not touched
            ⟨⟨st.env, st.heap.set h (.user { fn with sigs := defineSig fn.sigs sig body })⟩, []⟩
          | some (.native _) => herrOut st .cantAddSignature name name.lexeme
          | none => fresh   -- dangling handle: never happens
        | _ => fresh
    | none => fresh
  | .clear => ⟨⟨HEnv.retainConstants st.env, st.heap⟩, []⟩

/-- the statement loop of `process_text` (main.rs:80-84) on handles -/
def hrun (fuel : Nat) (copyOnAssign : Bool := true) : HState S → List (Stmt S) → HStepOut S
  | st, [] => ⟨st, []⟩
  | st, s :: ss =>
    let o1 := hstep fuel st s copyOnAssign
    let o2 := hrun fuel copyOnAssign o1.st ss
    ⟨o2.st, o1.out ++ o2.out⟩

/-! ## the aliasing invariant -/

/-- No two distinct names are bound to the same handle (`Rc::ptr_eq` is false between the
    function values of any two names), every bound handle points to an allocated object, and the
    table is a map (one entry per name, as a `HashMap` is). -/
structure NoAlias {S : Type} (st : HState S) : Prop where
  distinct : ∀ (k₁ k₂ : Str) (h : Nat) (c₁ c₂ : Bool),
    HEnv.get st.env k₁ = some ⟨.fn h, c₁⟩ → HEnv.get st.env k₂ = some ⟨.fn h, c₂⟩ → k₁ = k₂
  allocated : ∀ (k : Str) (h : Nat) (c : Bool),
    HEnv.get st.env k = some ⟨.fn h, c⟩ → h < st.heap.length
  keys : (st.env.map Prod.fst).Nodup

/-- the same invariant on the entries of the association list; equivalent to `NoAlias`
    (`noAlias_iff_entries`), computable -/
def noAliasB {S : Type} (st : HState S) : Bool :=
  decide (st.env.map Prod.fst).Nodup && decide (HEnv.handles st.env).Nodup &&
    (HEnv.handles st.env).all (fun h => decide (h < st.heap.length))

end Calc
