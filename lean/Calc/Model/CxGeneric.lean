/-
  Calc.Model.CxGeneric — the formulas of num-complex 0.4.6 (the crate pinned by /repo/Cargo.lock),
  written ONCE, over an abstract type `R` of "reals" with exactly the real operations the formulas
  use (`RealOps R`).

  Two instances exist:
    * `RealOps Float` (Calc/Exec/Cx.lean): IEEE doubles, libm — `CxOf Float` is the executable
      kernel `Calc.Exec.Cx` of the correspondence driver, compared bit for bit with the Rust;
    * `RealOps ℝ` (Calc/Proofs/CxReal.lean): Mathlib's reals — at this instance every formula below
      is PROVED equal to the mathematical function it is named after (`Complex.exp`, `Complex.log`,
      `Complex.sin`, …, `x ^ (1/2)`), which is what `Kernel ℂ` is built from.

  So the text that is executed against the Rust and the text the theorems are about is the same text.

  Core Lean only (no Mathlib): this file is linked into the executable.  The order of the
  floating-point operations is the order of num-complex's source (lib.rs; line numbers in the
  comments), because the `Float` instance must stay bit-identical to the Rust.
-/
namespace Calc

/-- the operations on the real type `T` that num-complex's `Complex<T>` formulas use -/
class RealOps (R : Type) extends Add R, Sub R, Mul R, Div R, Neg R where
  zero : R
  one : R
  /-- `one + one` (lib.rs:309,319,485,548,564) -/
  two : R
  /-- `T::infinity()` -/
  inf : R
  /-- `T::nan()` -/
  nan : R
  /-- `T::LN_2()` -/
  ln2 : R
  /-- `T::LN_10()` -/
  ln10 : R
  sqrt : R → R
  exp : R → R
  /-- natural logarithm, `f64::ln` -/
  log : R → R
  sin : R → R
  cos : R → R
  sinh : R → R
  cosh : R → R
  /-- `y.atan2(x)` -/
  atan2 : R → R → R
  hypot : R → R → R
  abs : R → R
  /-- `x % T::one()`: the fractional part with the sign of `x` (C `fmod(x, 1.0)`) -/
  fmod1 : R → R
  /-- `x.is_zero()`, i.e. `x == 0.0` (true of both zeros) -/
  isZero : R → Bool
  /-- `x.is_sign_positive()`: the sign bit is clear (true of `+0.0`, false of `-0.0`) -/
  signPos : R → Bool
  isInfinite : R → Bool
  isFinite : R → Bool
  isNaN : R → Bool
  /-- `x < y` -/
  lt : R → R → Bool
  /-- `x == y` (IEEE: false on NaN, true on `0.0 == -0.0`) -/
  beq : R → R → Bool

/-- `num_complex::Complex<T>` -/
structure CxOf (R : Type) where
  re : R
  im : R

namespace CxOf
variable {R : Type} [RealOps R]

instance [Inhabited R] : Inhabited (CxOf R) := ⟨⟨default, default⟩⟩

def zero : CxOf R := ⟨RealOps.zero, RealOps.zero⟩
def one : CxOf R := ⟨RealOps.one, RealOps.zero⟩
/-- `one + one` in `Complex<T>` -/
def two : CxOf R := ⟨RealOps.two, RealOps.zero⟩
/-- `Complex::i()` -/
def I : CxOf R := ⟨RealOps.zero, RealOps.one⟩

def add (a b : CxOf R) : CxOf R := ⟨a.re + b.re, a.im + b.im⟩
def sub (a b : CxOf R) : CxOf R := ⟨a.re - b.re, a.im - b.im⟩
/-- lib.rs:783 -/
def mul (a b : CxOf R) : CxOf R := ⟨a.re * b.re - a.im * b.im, a.re * b.im + a.im * b.re⟩
/-- lib.rs:818 -/
def div (a b : CxOf R) : CxOf R :=
  let ns := b.re * b.re + b.im * b.im
  ⟨(a.re * b.re + a.im * b.im) / ns, (a.im * b.re - a.re * b.im) / ns⟩
def neg (a : CxOf R) : CxOf R := ⟨-a.re, -a.im⟩
/-- lib.rs:161 -/
def unscale (a : CxOf R) (t : R) : CxOf R := ⟨a.re / t, a.im / t⟩
def conj (a : CxOf R) : CxOf R := ⟨a.re, -a.im⟩

instance : Add (CxOf R) := ⟨add⟩
instance : Sub (CxOf R) := ⟨sub⟩
instance : Mul (CxOf R) := ⟨mul⟩
instance : Div (CxOf R) := ⟨div⟩
instance : Neg (CxOf R) := ⟨neg⟩
instance : Zero (CxOf R) := ⟨zero⟩
instance : One (CxOf R) := ⟨one⟩

/-- `==` on `Complex<T>` (derived `PartialEq`) -/
def beq (a b : CxOf R) : Bool := RealOps.beq a.re b.re && RealOps.beq a.im b.im
/-- `Zero::is_zero` on `Complex<T>` -/
def isZero (a : CxOf R) : Bool := RealOps.isZero a.re && RealOps.isZero a.im
/-- lib.rs:217 -/
def norm (a : CxOf R) : R := RealOps.hypot a.re a.im
/-- lib.rs:222 -/
def arg (a : CxOf R) : R := RealOps.atan2 a.im a.re
/-- lib.rs:233 -/
def fromPolar (r t : R) : CxOf R := ⟨r * RealOps.cos t, r * RealOps.sin t⟩

/-- lib.rs:239 -/
def exp (z : CxOf R) : CxOf R :=
  let re := z.re
  let im := z.im
  if RealOps.isInfinite re then
    if RealOps.lt re RealOps.zero then
      if !RealOps.isFinite im then ⟨RealOps.zero, RealOps.zero⟩ else fromPolar (RealOps.exp re) im
    else if RealOps.isZero im || !RealOps.isFinite im then
      ⟨re, if RealOps.isInfinite im then RealOps.nan else im⟩
    else fromPolar (RealOps.exp re) im
  else if RealOps.isNaN re && RealOps.isZero im then z
  else fromPolar (RealOps.exp re) im

/-- lib.rs:270 -/
def ln (z : CxOf R) : CxOf R := ⟨RealOps.log (norm z), arg z⟩

/-- lib.rs:284 -/
def sqrt (z : CxOf R) : CxOf R :=
  if RealOps.isZero z.im then
    if RealOps.signPos z.re then ⟨RealOps.sqrt z.re, z.im⟩
    else
      let im := RealOps.sqrt (-z.re)
      if RealOps.signPos z.im then ⟨RealOps.zero, im⟩ else ⟨RealOps.zero, -im⟩
  else if RealOps.isZero z.re then
    let x := RealOps.sqrt (RealOps.abs z.im / RealOps.two)
    if RealOps.signPos z.im then ⟨x, x⟩ else ⟨x, -x⟩
  else fromPolar (RealOps.sqrt (norm z)) (arg z / RealOps.two)

/-- lib.rs:397 -/
def powc (z w : CxOf R) : CxOf R := if isZero w then one else exp (mul w (ln z))

/-- lib.rs:828-845 (`div_trunc`, `Rem`) -/
def rem (a m : CxOf R) : CxOf R :=
  let q := div a m
  let g : CxOf R := ⟨q.re - RealOps.fmod1 q.re, q.im - RealOps.fmod1 q.im⟩
  sub a (mul m g)

/-- lib.rs:415 -/
def sin (z : CxOf R) : CxOf R :=
  ⟨RealOps.sin z.re * RealOps.cosh z.im, RealOps.cos z.re * RealOps.sinh z.im⟩
/-- lib.rs:425 -/
def cos (z : CxOf R) : CxOf R :=
  ⟨RealOps.cos z.re * RealOps.cosh z.im, (-(RealOps.sin z.re)) * RealOps.sinh z.im⟩
/-- lib.rs:435 -/
def tan (z : CxOf R) : CxOf R :=
  let a := z.re + z.re
  let b := z.im + z.im
  unscale ⟨RealOps.sin a, RealOps.sinh b⟩ (RealOps.cos a + RealOps.cosh b)
/-- lib.rs:450 -/
def asin (z : CxOf R) : CxOf R := mul (neg I) (ln (add (sqrt (sub one (mul z z))) (mul I z)))
/-- lib.rs:465 -/
def acos (z : CxOf R) : CxOf R := mul (neg I) (ln (add (mul I (sqrt (sub one (mul z z)))) z))
/-- lib.rs:480 -/
def atan (z : CxOf R) : CxOf R :=
  if beq z I then ⟨RealOps.zero, RealOps.inf⟩
  else if beq z (neg I) then ⟨RealOps.zero, -RealOps.inf⟩
  else div (sub (ln (add one (mul I z))) (ln (sub one (mul I z)))) (mul two I)
/-- lib.rs:495 -/
def sinh (z : CxOf R) : CxOf R :=
  ⟨RealOps.sinh z.re * RealOps.cos z.im, RealOps.cosh z.re * RealOps.sin z.im⟩
/-- lib.rs:505 -/
def cosh (z : CxOf R) : CxOf R :=
  ⟨RealOps.cosh z.re * RealOps.cos z.im, RealOps.sinh z.re * RealOps.sin z.im⟩
/-- lib.rs:515 -/
def tanh (z : CxOf R) : CxOf R :=
  let a := z.re + z.re
  let b := z.im + z.im
  unscale ⟨RealOps.sinh a, RealOps.sin b⟩ (RealOps.cosh a + RealOps.cos b)
/-- lib.rs:530 -/
def asinh (z : CxOf R) : CxOf R := ln (add z (sqrt (add one (mul z z))))
/-- lib.rs:544 -/
def acosh (z : CxOf R) : CxOf R :=
  mul two (ln (add (sqrt (div (add z one) two)) (sqrt (div (sub z one) two))))
/-- lib.rs:560 -/
def atanh (z : CxOf R) : CxOf R :=
  if beq z one then ⟨RealOps.inf, RealOps.zero⟩
  else if beq z (neg one) then ⟨-RealOps.inf, RealOps.zero⟩
  else div (sub (ln (add one z)) (ln (sub one z))) two

/-- lib.rs:641 -/
def log2 (z : CxOf R) : CxOf R := unscale (ln z) RealOps.ln2
/-- lib.rs:647 -/
def log10 (z : CxOf R) : CxOf R := unscale (ln z) RealOps.ln10
/-- `v.log(b.re)` (lib.rs:387; `f64::log(self, base) = self.ln() / base.ln()`), arguments in the
    order of `Kernel.logBase` -/
def logBase (b v : CxOf R) : CxOf R :=
  ⟨RealOps.log (norm v) / RealOps.log b.re, arg v / RealOps.log b.re⟩

/-! the remaining `Complex64`-valued primitives of `Kernel` that are plain arithmetic on the parts -/

/-- `Complex64::from(z.re)` -/
def reS (z : CxOf R) : CxOf R := ⟨z.re, RealOps.zero⟩
/-- `Complex64::from(z.im)` -/
def imS (z : CxOf R) : CxOf R := ⟨z.im, RealOps.zero⟩
/-- `Complex64::from(z.arg())` -/
def argS (z : CxOf R) : CxOf R := ⟨arg z, RealOps.zero⟩
/-- `z.norm().into()` -/
def normS (z : CxOf R) : CxOf R := ⟨norm z, RealOps.zero⟩
/-- `Complex64::from(z.norm_sqr())` (lib.rs: `re * re + im * im`) -/
def normSqr (z : CxOf R) : CxOf R := ⟨z.re * z.re + z.im * z.im, RealOps.zero⟩
/-- `Complex64 * f64` with the real part of `w` (lib.rs `Mul<T>`: both parts times the scalar) -/
def mulRe (z w : CxOf R) : CxOf R := ⟨z.re * w.re, z.im * w.re⟩
/-- `z.norm() == 0.0` -/
def normIsZero (z : CxOf R) : Bool := RealOps.isZero (norm z)

end CxOf
end Calc
