/-
  Calc.Model.Basic — data types of the model (core Lean only, no imports).

  Mirrors: common/src/tokenizer/token.rs, common/src/expr/expr.rs (Expr, GroupingKind),
  common/src/variable/value/{mod,function,measurement}.rs, common/src/variable/mod.rs,
  common/src/variable/value/unit/*.rs, common/src/{expr,parser,tokenizer}/error.rs (kinds only).

  `S` is the scalar type (Rust: Complex64).  Text is `List Char` everywhere.
-/
namespace Calc

abbrev Str := List Char

/-! ## Units (unit/*.rs) -/

inductive DistanceUnit
  | nanometer | micrometer | millimeter | centimeter | meter | kilometer
  | inch | foot | yard | mile
  deriving DecidableEq, Repr, Inhabited

inductive MassUnit
  | nanogram | microgram | milligram | gram | kilogram | tonne | ounce | pound | stone
  deriving DecidableEq, Repr, Inhabited

inductive TemperatureUnit
  | kelvin | celsius | fahrenheit
  deriving DecidableEq, Repr, Inhabited

inductive StorageUnit
  | byte
  | kilobyte | megabyte | gigabyte | terabyte | petabyte | exabyte
  | kibibyte | mebibyte | gibibyte | tebibyte | petibyte | exbibyte
  | bit
  | kilobit | megabit | gigabit | terabit | petabit | exabit
  | kibibit | mebibit | gibibit | tebibit | petibit | exbibit
  deriving DecidableEq, Repr, Inhabited

inductive Unit
  | distance (u : DistanceUnit)
  | mass (u : MassUnit)
  | temperature (u : TemperatureUnit)
  | storage (u : StorageUnit)
  deriving DecidableEq, Repr, Inhabited

/-- `std::mem::discriminant(&unit)` -/
inductive UnitKind | distance | mass | temperature | storage
  deriving DecidableEq, Repr, Inhabited

def Unit.kind : Unit → UnitKind
  | .distance _ => .distance
  | .mass _ => .mass
  | .temperature _ => .temperature
  | .storage _ => .storage

def DistanceUnit.all : List DistanceUnit :=
  [.nanometer, .micrometer, .millimeter, .centimeter, .meter, .kilometer, .inch, .foot, .yard, .mile]
def MassUnit.all : List MassUnit :=
  [.nanogram, .microgram, .milligram, .gram, .kilogram, .tonne, .ounce, .pound, .stone]
def TemperatureUnit.all : List TemperatureUnit := [.kelvin, .celsius, .fahrenheit]
def StorageUnit.all : List StorageUnit :=
  [.byte, .kilobyte, .megabyte, .gigabyte, .terabyte, .petabyte, .exabyte,
   .kibibyte, .mebibyte, .gibibyte, .tebibyte, .petibyte, .exbibyte,
   .bit, .kilobit, .megabit, .gigabit, .terabit, .petabit, .exabit,
   .kibibit, .mebibit, .gibibit, .tebibit, .petibit, .exbibit]

/-- All 48 units in the fixed protocol order (index = position in this list). -/
def Unit.all : List Unit :=
  DistanceUnit.all.map .distance ++ MassUnit.all.map .mass ++
  TemperatureUnit.all.map .temperature ++ StorageUnit.all.map .storage

/-! ## Tokens (token.rs) -/

/-- Payload-free token kind: what `token.kind == expected_kind` can distinguish for the
    payload-free kinds the parser asks for. -/
inductive Tag
  | lparen | rparen | lbracket | rbracket | lceil | rceil | lfloor | rfloor
  | plus | minus | slash | star | caret | bang | pipe | percent | comma | equal | sqrt | dot | cross
  | newline | semicolon
  | delete | clear | as_
  | ident | number | unit
  deriving DecidableEq, Repr, Inhabited

inductive Kind (S : Type)
  | lparen | rparen | lbracket | rbracket | lceil | rceil | lfloor | rfloor
  | plus | minus | slash | star | caret | bang | pipe | percent | comma | equal | sqrt | dot | cross
  | newline | semicolon
  | delete | clear | as_
  | ident (name : Str)
  | number (z : S)
  | unit (u : Unit)
  deriving Inhabited

def Kind.tag {S} : Kind S → Tag
  | .lparen => .lparen | .rparen => .rparen | .lbracket => .lbracket | .rbracket => .rbracket
  | .lceil => .lceil | .rceil => .rceil | .lfloor => .lfloor | .rfloor => .rfloor
  | .plus => .plus | .minus => .minus | .slash => .slash | .star => .star | .caret => .caret
  | .bang => .bang | .pipe => .pipe | .percent => .percent | .comma => .comma | .equal => .equal
  | .sqrt => .sqrt | .dot => .dot | .cross => .cross | .newline => .newline
  | .semicolon => .semicolon | .delete => .delete | .clear => .clear | .as_ => .as_
  | .ident _ => .ident | .number _ => .number | .unit _ => .unit

structure Tok (S : Type) where
  kind : Kind S
  lexeme : Str
  line : Nat
  col : Nat
  deriving Inhabited

def Tok.tag {S} (t : Tok S) : Tag := t.kind.tag

/-! ## Expressions (expr.rs) -/

inductive GKind | grouping | absolute | ceil | floor
  deriving DecidableEq, Repr, Inhabited

inductive Expr (S : Type)
  | as_ (e : Expr S) (tok : Tok S) (u : Unit)
  | binary (l : Expr S) (op : Tok S) (r : Expr S)
  | unary (op : Tok S) (x : Expr S)
  | grouping (paren : Tok S) (k : GKind) (e : Expr S)
  | number (z : S)
  | measurement (z : S) (u : Unit)
  | matrix (bracket : Tok S) (rows : List (List (Expr S)))
  | ident (name : Tok S)
  | call (callee : Expr S) (paren : Tok S) (args : List (Expr S))

instance {S} [Inhabited S] : Inhabited (Expr S) := ⟨.number default⟩

/-! ## Signatures, functions, values (function.rs, value/mod.rs) -/

inductive Param (S : Type)
  | ident (name : Str)
  | number (z : S)

structure Sig (S : Type) where
  params : List (Param S)

structure UserFn (S : Type) where
  name : Str
  sigs : List (Sig S × Expr S)

inductive Value (S : Type)
  | number (z : S)
  | measurement (z : S) (u : Unit)
  | matrix (rows : List (List S))
  | native (name : Str)
  | user (f : UserFn S)

instance {S} [Inhabited S] : Inhabited (Value S) := ⟨.number default⟩

structure Variable (S : Type) where
  value : Value S
  constant : Bool

/-- `VariableMap`: a finite map; iteration order is never observable (C19). -/
abbrev Env (S : Type) := List (Str × Variable S)

/-! ## Statements (stmt.rs) -/

inductive Stmt (S : Type)
  | expr (e : Expr S)
  | deleteVar (name : Tok S)
  | deleteSig (name : Tok S) (sig : Sig S)
  | assign (name : Tok S) (e : Expr S)
  | define (name : Tok S) (sig : Sig S) (body : Expr S)
  | clear

/-! ## Diagnostics: kinds and positions only (wording is never modelled) -/

inductive EvalErrKind
  | incorrectParameterCount | incorrectParameterType | cantAddSignature | cantDeleteSignature
  | noMatchingSignature | divisionByZero | unsupportedBinaryOperator | unsupportedUnaryOperator
  | unaryOperatorValueConstraintNotMet | invalidGroupingOperand | groupingValueConstraintNotMet
  | invalidCallable | constantAssignment | constantDeletion | unknownVariable
  | invalidMatrixParameter | noInverseForMatrix | invalidMeasurementConversion
  deriving DecidableEq, Repr, Inhabited

/-- An evaluation diagnostic: kind, position, and the identifying details that the property
    texts speak about (function / argument index / constraint for the parameter errors,
    row and column for a bad matrix entry).  `info` is a canonical text, never wording. -/
structure Diag where
  kind : EvalErrKind
  line : Nat
  col : Nat
  info : Str := []
  deriving DecidableEq, Repr, Inhabited

inductive ParseErrKind
  | expectedExpression | expectedUnit | expectedDelimeter | expectedToken
  | invalidAssignmentTarget | cannotDelete | inconsistentMatrixRowLength
  deriving DecidableEq, Repr, Inhabited

/-- A parse error.  `pos = none` is "found EOF". -/
structure PErr where
  kind : ParseErrKind
  pos : Option (Nat × Nat)
  info : Str := []
  deriving DecidableEq, Repr, Inhabited

structure ScanErr where
  line : Nat
  col : Nat
  ch : Char
  deriving DecidableEq, Repr, Inhabited

/-! ## Outcomes: every `panic!`/`unwrap`/`assert!` of the Rust is an explicit branch -/

inductive Res (α : Type)
  | ok (a : α)
  | diag (d : Diag)
  | panic (site : Str)
  | fuel
  deriving Inhabited

def Res.bind {α β} (r : Res α) (f : α → Res β) : Res β :=
  match r with
  | .ok a => f a
  | .diag d => .diag d
  | .panic s => .panic s
  | .fuel => .fuel

end Calc
