/-
  Calc.Model.Scanner — model of common/src/tokenizer/tokenizer.rs.

  The Rust scanner walks a `Peekable<Chars>` with two cursors (`prev_pos` = start of the
  pending token, `current_pos`), saves and restores the cursor around an exponent or a
  fraction that turns out not to be one, and slices the lexeme `input[prev.idx..cur.idx]`.
  The model is the same machine in functional form: the remaining input is a `List Char`,
  the position is threaded explicitly (`adv`), "save / restore" is "do not consume", and the
  lexeme is the list of characters consumed since the token started.
-/
import Calc.Model.Kernel
namespace Calc

structure Pos where
  line : Nat
  col : Nat
  deriving DecidableEq, Repr, Inhabited

/-- What the scanner is parametrised by: the tab size (main.rs:19-20), the Unicode class used
    for identifier continuation (`char::is_alphanumeric`, tokenizer.rs:252), and the keyword /
    unit spelling table (tokenizer.rs:44-121, regenerated from the code on every run). -/
structure ScanCfg (S : Type) where
  tab : Nat
  isAlnum : Char → Bool
  keyword : Str → Option (Kind S)

/-- `Tokenizer::next` position update (tokenizer.rs:274-288). -/
def adv (tab : Nat) (p : Pos) (c : Char) : Pos :=
  if c = '\n' then ⟨p.line + 1, 1⟩
  else if c = '\t' then ⟨p.line, p.col + tab⟩
  else ⟨p.line, p.col + 1⟩

def advs (tab : Nat) (p : Pos) (cs : List Char) : Pos := cs.foldl (adv tab) p

def isBlank (c : Char) : Bool := c = ' ' || c = '\t' || c = '\r'

/-- `'0'..='9'` and `ch.is_digit(10)` -/
def isDigit (c : Char) : Bool := '0' ≤ c && c ≤ '9'

/-- the characters that start an identifier (tokenizer.rs:153) -/
def isIdentStart (c : Char) : Bool :=
  ('a' ≤ c && c ≤ 'z') || ('A' ≤ c && c ≤ 'Z') || c = '_' || c = 'π' || c = 'ϕ' || c = '°' || c = 'µ' || c = 'μ'

def isIdentCont {S} (cfg : ScanCfg S) (c : Char) : Bool :=
  cfg.isAlnum c || c = '_' || c = '°'

/-- the single-character tokens (tokenizer.rs:130-152) -/
def singleKind {S} (c : Char) : Option (Kind S) :=
  if c = '\n' then some .newline else if c = ';' then some .semicolon
  else if c = '(' then some .lparen else if c = ')' then some .rparen
  else if c = '[' then some .lbracket else if c = ']' then some .rbracket
  else if c = '⌈' then some .lceil else if c = '⌉' then some .rceil
  else if c = '⌊' then some .lfloor else if c = '⌋' then some .rfloor
  else if c = '+' then some .plus else if c = '-' then some .minus
  else if c = '/' then some .slash else if c = '*' then some .star
  else if c = '^' then some .caret else if c = '!' then some .bang
  else if c = '|' then some .pipe else if c = '%' then some .percent
  else if c = ',' then some .comma else if c = '=' then some .equal
  else if c = '√' then some .sqrt else if c = '•' then some .dot
  else if c = '×' then some .cross else none

/-- `add_token`'s lexeme: the newline token carries the two characters `\n` (tokenizer.rs:262-264). -/
def lexemeOf (cs : List Char) : Str := if cs = ['\n'] then ['\\', 'n'] else cs

/-- `consume_exponent_for_number` (tokenizer.rs:183-214): on success the characters of the
    exponent (`e`, optional `-`, at least one digit) and the rest; `none` = cursor restored. -/
def scanExponent (s : List Char) : Option (List Char × List Char) :=
  match s with
  | 'e' :: r =>
    let (minus, r') : List Char × List Char :=
      match r with
      | '-' :: t => (['-'], t)
      | _ => ([], r)
    let ds := r'.takeWhile isDigit
    if ds.isEmpty then none else some ('e' :: minus ++ ds, r'.dropWhile isDigit)
  | _ => none

/-- the fraction part (tokenizer.rs:205-219): `.` followed by at least one digit. -/
def scanFraction (s : List Char) : Option (List Char × List Char) :=
  match s with
  | '.' :: r =>
    let ds := r.takeWhile isDigit
    if ds.isEmpty then none else some ('.' :: ds, r.dropWhile isDigit)
  | _ => none

structure NumScan where
  text : List Char
  rest : List Char

/-- `tokenize_number` (tokenizer.rs:216-249): returns the literal's text and the rest. -/
def scanNumber (s : List Char) : NumScan :=
  let d := s.takeWhile isDigit
  let r := s.dropWhile isDigit
  match scanExponent r with
  | some (e, r') => ⟨d ++ e, r'⟩
  | none =>
    match scanFraction r with
    | some (f, r1) =>
      match scanExponent r1 with
      | some (e, r2) => ⟨d ++ f ++ e, r2⟩
      | none => ⟨d ++ f, r1⟩
    | none =>
      -- the second call of consume_exponent_for_number sees the same input as the first
      ⟨d, r⟩

/-! ### Reading a literal's text as an exact decimal `m · 10^e`
    (`f64::from_str` is then `Kernel.ofDecimal m e`; the `unwrap()` at tokenizer.rs:202,226 is the
    `none` branch here.) -/

def digitVal (c : Char) : Nat := c.toNat - '0'.toNat

def digitsVal (ds : List Char) : Nat := ds.foldl (fun acc c => acc * 10 + digitVal c) 0

structure Decimal where
  mant : Nat
  exp : Int
  deriving DecidableEq, Repr

/-- accepts exactly `D(.F)?(e-?E)?` with non-empty ASCII digit runs `D F E` -/
def parseDecimal (t : List Char) : Option Decimal :=
  let d := t.takeWhile isDigit
  let r := t.dropWhile isDigit
  if d.isEmpty then none else
  let (f, r1) : List Char × List Char :=
    match r with
    | '.' :: r' => (r'.takeWhile isDigit, r'.dropWhile isDigit)
    | _ => ([], r)
  -- a '.' must be followed by a digit
  if (match r with | '.' :: _ => f.isEmpty | _ => false) then none else
  match r1 with
  | [] => some ⟨digitsVal (d ++ f), - (f.length : Int)⟩
  | 'e' :: r2 =>
    let (neg, r3) : Bool × List Char :=
      match r2 with
      | '-' :: t => (true, t)
      | _ => (false, r2)
    if r3.isEmpty || !(r3.all isDigit) then none else
    let ex : Int := digitsVal r3
    some ⟨digitsVal (d ++ f), (if neg then -ex else ex) - (f.length : Int)⟩
  | _ => none

inductive ScanRes (S : Type)
  | ok (toks : List (Tok S))
  | bad (e : ScanErr)
  | panic (site : Str)
  | fuel

def ScanRes.cons {S} (t : Tok S) : ScanRes S → ScanRes S
  | .ok ts => .ok (t :: ts)
  | r => r

/-- `tokenize_internal` (tokenizer.rs:123-167).  One unit of fuel per loop iteration; every
    iteration consumes at least one character, so `fuel = length + 1` always suffices
    (theorem `scan_fuel_adequate`). -/
def scanLoop {S} [Kernel S] (cfg : ScanCfg S) : Nat → List Char → Pos → ScanRes S
  | 0, [], _ => .ok []
  | 0, _ :: _, _ => .fuel
  | _ + 1, [], _ => .ok []
  | f + 1, c :: cs, p =>
    if isBlank c then scanLoop cfg f cs (adv cfg.tab p c)
    else match singleKind (S := S) c with
    | some k => (scanLoop cfg f cs (adv cfg.tab p c)).cons ⟨k, lexemeOf [c], p.line, p.col⟩
    | none =>
      if isIdentStart c then
        let w := (c :: cs).takeWhile (isIdentCont cfg)
        let r := (c :: cs).dropWhile (isIdentCont cfg)
        -- `consume_while` may consume nothing when the start character is not a continue
        -- character (`µ`, `π`, `ϕ` are alphabetic, `°` and `_` are listed: never empty)
        if w.isEmpty then .panic "ident-empty".toList else
        let k : Kind S := match cfg.keyword w with
          | some k => k
          | none => .ident w
        (scanLoop cfg f r (advs cfg.tab p w)).cons ⟨k, w, p.line, p.col⟩
      else if isDigit c then
        let n := scanNumber (c :: cs)
        match parseDecimal n.text with
        | none => .panic "ParseFloatError".toList
        | some d =>
          (scanLoop cfg f n.rest (advs cfg.tab p n.text)).cons
            ⟨.number (Kernel.ofDecimal d.mant d.exp), n.text, p.line, p.col⟩
      else .bad ⟨p.line, p.col, c⟩

def scan {S} [Kernel S] (cfg : ScanCfg S) (input : List Char) : ScanRes S :=
  scanLoop cfg (input.length + 1) input ⟨1, 1⟩

end Calc
