/-
  Calc.Model.Front — model of calculator/src/main.rs: `ensure_trailing_newline`, `process_text`,
  the file / expression / prompt sequencing of `main`, and the prompt loop of `start_repl`.
  `clap` and `rustyline` are outside the model: the session is given as already-split inputs.
-/
import Calc.Model.Scanner
import Calc.Model.Parser
import Calc.Model.Stmt
import Calc.Generated.InitEnv
namespace Calc

variable {S : Type} [Add S] [Sub S] [Mul S] [Div S] [Zero S] [One S] [Kernel S]

/-- `ensure_trailing_newline` (main.rs:27-32) -/
def ensureTrailingNewline (s : Str) : Str :=
  if s.getLast? = some '\n' then s else s ++ ['\n']

/-- `process_text` (main.rs:63-85): scan everything, parse everything, then run -/
def processText (cfg : ScanCfg S) (fuel : Nat) (env : Env S) (text : Str) : StepOut S :=
  match scan cfg text with
  | .bad e => ⟨env, [.scanErr e]⟩
  | .panic s => ⟨env, [.panic s]⟩
  | .fuel => ⟨env, [.fuel]⟩
  | .ok toks =>
    match parse toks with
    | .err e => ⟨env, [.parseErr e]⟩
    | .fuel => ⟨env, [.fuel]⟩
    | .ok stmts => runStmts fuel env stmts

/-- Unicode `White_Space` (what `str::trim` strips) -/
def isWhite (c : Char) : Bool :=
  let n := c.toNat
  (9 ≤ n && n ≤ 13) || n = 32 || n = 0x85 || n = 0xA0 || n = 0x1680 ||
  (0x2000 ≤ n && n ≤ 0x200A) || n = 0x2028 || n = 0x2029 || n = 0x202F || n = 0x205F || n = 0x3000

def trim (s : Str) : Str := ((s.dropWhile isWhite).reverse.dropWhile isWhite).reverse

def asciiLower (c : Char) : Char := if 'A' ≤ c && c ≤ 'Z' then Char.ofNat (c.toNat + 32) else c

/-- `line.trim().eq_ignore_ascii_case("exit")` (main.rs:101) -/
def isExit (line : Str) : Bool := (trim line).map asciiLower = "exit".toList

/-- the prompt loop (main.rs:98-118): lines as the line editor returns them (no terminator) -/
def repl (cfg : ScanCfg S) (fuel : Nat) : Env S → List Str → StepOut S
  | env, [] => ⟨env, []⟩
  | env, l :: ls =>
    if isExit l then ⟨env, []⟩
    else
      let o1 := processText cfg fuel env (ensureTrailingNewline l)
      let o2 := repl cfg fuel o1.env ls
      ⟨o2.env, o1.out ++ o2.out⟩

/-- `main` (main.rs:34-61) for a readable file -/
def session (cfg : ScanCfg S) (fuel : Nat) (init : Env S)
    (file expr : Option Str) (stdin : List Str) : StepOut S :=
  let o1 : StepOut S :=
    match file with
    | some t => processText cfg fuel init (ensureTrailingNewline t)
    | none => ⟨init, []⟩
  match expr with
  | some t =>
    let o2 := processText cfg fuel o1.env (ensureTrailingNewline t)
    ⟨o2.env, o1.out ++ o2.out⟩
  | none =>
    let o2 := repl cfg fuel o1.env stdin
    ⟨o2.env, o1.out ++ [.banner] ++ o2.out ++ [.goodbye]⟩

end Calc
