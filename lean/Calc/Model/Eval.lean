/-
  Calc.Model.Eval — model of `Expr::evaluate` (expr.rs:88-514) and the user-function half of
  `Function::call` (function.rs:61-82, 133-155).

  `evaluate(&self, variables: &mut VariableMap)` becomes `eval : … → Env → EvalOut` which returns
  the table it was handed *through the same paths as the Rust*: that the table comes back
  unchanged is theorem C11, not an assumption.  Recursion is on fuel (one unit per nested
  `evaluate` call and per user-function call); the Rust recursion is unbounded.
-/
import Calc.Model.Env
import Calc.Model.Units
import Calc.Model.Builtins
namespace Calc

variable {S : Type} [Add S] [Sub S] [Mul S] [Div S] [Zero S] [One S] [Kernel S]

structure EvalOut (S : Type) where
  res : Res (Value S)
  env : Env S

abbrev Evaluator (S : Type) := Expr S → Env S → EvalOut S

/-- `factorial` (expr.rs:607-609) after the magnitude guard: `(2..=n).map(|x| x as f64).product()` -/
def factorial (n : Nat) : S :=
  if n > 170 then Kernel.inf
  else (List.range' 2 (n - 1)).foldl (fun acc k => acc * Kernel.ofNat k) 1

def diagAt (k : EvalErrKind) (t : Tok S) (info : Str := []) : Res (Value S) :=
  .diag ⟨k, t.line, t.col, info⟩

/-- `evaluate_binary` after both operands are values (expr.rs:177-345) -/
def binop (op : Tok S) (a b : Value S) : Res (Value S) :=
  let unsupported : Res (Value S) := diagAt .unsupportedBinaryOperator op
  let divZero : Res (Value S) := diagAt .divisionByZero op
  match op.tag with
  | .plus =>
    match a, b with
    | .number x, .number y => .ok (.number (x + y))
    | .measurement x u, .measurement y v =>
      if u.kind = v.kind then .ok (.measurement (toBase x u + toBase y v) (baseUnit u)) else unsupported
    | .matrix m, .matrix n =>
      if Mat.nrows m = Mat.nrows n ∧ Mat.ncols m = Mat.ncols n then (Mat.add m n).bind (fun r => .ok (.matrix r))
      else unsupported
    | _, _ => unsupported
  | .minus =>
    match a, b with
    | .number x, .number y => .ok (.number (x - y))
    | .measurement x u, .measurement y v =>
      if u.kind = v.kind then .ok (.measurement (toBase x u - toBase y v) (baseUnit u)) else unsupported
    | .matrix m, .matrix n =>
      if Mat.nrows m = Mat.nrows n ∧ Mat.ncols m = Mat.ncols n then (Mat.sub m n).bind (fun r => .ok (.matrix r))
      else unsupported
    | _, _ => unsupported
  | .star =>
    match a, b with
    | .number x, .number y => .ok (.number (x * y))
    | .number k, .matrix m => .ok (.matrix (Mat.scale m k))
    | .matrix m, .number k => .ok (.matrix (Mat.scale m k))
    | .matrix m, .matrix n =>
      if Mat.ncols m = Mat.nrows n then (Mat.mul m n).bind (fun r => .ok (.matrix r)) else unsupported
    | .number k, .measurement x u => .ok (.measurement (k * toBase x u) (baseUnit u))
    | .measurement x u, .number k => .ok (.measurement (k * toBase x u) (baseUnit u))
    | _, _ => unsupported
  | .slash =>
    match a, b with
    | .number x, .number y => if Kernel.normIsZero y then divZero else .ok (.number (x / y))
    | .matrix m, .number k => if Kernel.normIsZero k then divZero else .ok (.matrix (Mat.divScalar m k))
    | .measurement x u, .number k =>
      if Kernel.normIsZero k then divZero else .ok (.measurement (toBase x u / k) (baseUnit u))
    | _, _ => unsupported
  | .caret =>
    match a, b with
    | .number x, .number y => .ok (.number (Kernel.powc x y))
    | _, _ => unsupported
  | .percent =>
    match a, b with
    | .number x, .number y => if Kernel.normIsZero y then divZero else .ok (.number (Kernel.rem x y))
    | _, _ => unsupported
  | .dot =>
    match a, b with
    | .matrix m, .matrix n =>
      if Mat.nrows m = 1 ∧ Mat.nrows n = 1 ∧ Mat.ncols m = Mat.ncols n then
        (Mat.rowDot m n).bind (fun z => .ok (.number z))
      else if Mat.ncols m = 1 ∧ Mat.ncols n = 1 ∧ Mat.nrows m = Mat.nrows n then
        (Mat.colDot m n).bind (fun z => .ok (.number z))
      else unsupported
    | _, _ => unsupported
  | .cross =>
    match a, b with
    | .matrix m, .matrix n =>
      if Mat.nrows m = 1 ∧ Mat.nrows n = 1 ∧ Mat.ncols m = 3 ∧ Mat.ncols n = 3 then
        (Mat.rowCross m n).bind (fun r => .ok (.matrix r))
      else if Mat.ncols m = 1 ∧ Mat.ncols n = 1 ∧ Mat.nrows m = 3 ∧ Mat.nrows n = 3 then
        (Mat.colCross m n).bind (fun r => .ok (.matrix r))
      else unsupported
    | _, _ => unsupported
  | _ => .panic "Invalid token kind for binary operation".toList

/-- `evaluate_unary` after the operand is a value (expr.rs:353-398) -/
def unop (op : Tok S) (v : Value S) : Res (Value S) :=
  let unsupported : Res (Value S) := diagAt .unsupportedUnaryOperator op
  match op.tag with
  | .minus =>
    match v with
    | .number x => .ok (.number (x * Kernel.negOne))
    | .measurement x u => .ok (.measurement (toBase x u * Kernel.negOne) (baseUnit u))
    | .matrix m => .ok (.matrix (Mat.neg m))
    | _ => unsupported
  | .sqrt =>
    match v with
    | .number x => .ok (.number (Kernel.sqrt x))
    | _ => unsupported
  | .bang =>
    match v with
    | .number x =>
      if fits .natural v then .ok (.number (factorial (Kernel.reToNat x)))
      else diagAt .unaryOperatorValueConstraintNotMet op
    | _ => unsupported
  | _ => .panic "Invalid token kind for unary operation".toList

/-- Euclidean length of a list of entries after the fix: `sqrt(Σ |x|²)` (expr.rs:409-431) -/
def vecNorm (xs : List S) : S :=
  Kernel.sqrt ((xs.map Kernel.normSqr).foldl (· + ·) 0)

/-- `evaluate_grouping` after the operand is a value (expr.rs:406-475) -/
def groupop (paren : Tok S) (k : GKind) (v : Value S) : Res (Value S) :=
  let invalid : Res (Value S) := diagAt .invalidGroupingOperand paren
  match k with
  | .grouping => .ok v
  | .absolute =>
    match v with
    | .number z => .ok (.number (Kernel.norm z))
    | .matrix m =>
      if Mat.nrows m = 1 then .ok (.number (vecNorm (m.headD [])))
      else if Mat.ncols m = 1 then .ok (.number (vecNorm (m.map fun r => r.getD 0 0)))
      else invalid
    | _ => invalid
  | .ceil =>
    match v with
    | .number z => if fits .real v then .ok (.number (Kernel.ceilRe z)) else diagAt .groupingValueConstraintNotMet paren
    | _ => invalid
  | .floor =>
    match v with
    | .number z => if fits .real v then .ok (.number (Kernel.floorRe z)) else diagAt .groupingValueConstraintNotMet paren
    | _ => invalid

/-- the `As` arm (expr.rs:93-114) -/
def asop (tok : Tok S) (u : Unit) (v : Value S) : Res (Value S) :=
  match v with
  | .measurement z from_ =>
    match toOther z from_ u with
    | some z' => .ok (.measurement z' u)
    | none => diagAt .invalidMeasurementConversion tok
  | .number z => .ok (.measurement z u)
  | _ => diagAt .invalidMeasurementConversion tok

/-- `evaluate_identifier` (expr.rs:477-487) -/
def lookupIdent (name : Tok S) (env : Env S) : Res (Value S) :=
  match Env.get env name.lexeme with
  | some v => .ok v.value
  | none => diagAt .unknownVariable name name.lexeme

/-- arguments / entries left to right with early return (expr.rs:497-500, 135-157) -/
def evalList (ev : Evaluator S) : List (Expr S) → Env S → Res (List (Value S)) × Env S
  | [], env => (.ok [], env)
  | e :: es, env =>
    let o := ev e env
    match o.res with
    | .ok v =>
      let (r, env') := evalList ev es o.env
      match r with
      | .ok vs => (.ok (v :: vs), env')
      | other => (other, env')
    | .diag d => (.diag d, o.env)
    | .panic s => (.panic s, o.env)
    | .fuel => (.fuel, o.env)

/-- one row of a matrix literal: every entry must be a number (expr.rs:137-155) -/
def evalRow (ev : Evaluator S) (br : Tok S) (rowIdx : Nat) :
    Nat → List (Expr S) → Env S → Res (List S) × Env S
  | _, [], env => (.ok [], env)
  | colIdx, e :: es, env =>
    let o := ev e env
    match o.res with
    | .ok (.number z) =>
      let (r, env') := evalRow ev br rowIdx (colIdx + 1) es o.env
      match r with
      | .ok zs => (.ok (z :: zs), env')
      | other => (other, env')
    | .ok _ =>
      (.diag ⟨.invalidMatrixParameter, br.line, br.col,
              natStr (rowIdx + 1) ++ [':'] ++ natStr (colIdx + 1)⟩, o.env)
    | .diag d => (.diag d, o.env)
    | .panic s => (.panic s, o.env)
    | .fuel => (.fuel, o.env)

def evalRows (ev : Evaluator S) (br : Tok S) :
    Nat → List (List (Expr S)) → Env S → Res (List (List S)) × Env S
  | _, [], env => (.ok [], env)
  | rowIdx, row :: rows, env =>
    let (r, env1) := evalRow ev br rowIdx 0 row env
    match r with
    | .ok zs =>
      let (rs, env2) := evalRows ev br (rowIdx + 1) rows env1
      match rs with
      | .ok zss => (.ok (zs :: zss), env2)
      | other => (other, env2)
    | .diag d => (.diag d, env1)
    | .panic s => (.panic s, env1)
    | .fuel => (.fuel, env1)

/-- `Signature::matches_parameters` (function.rs:133-155) -/
def sigMatches : List (Param S) → List (Value S) → Bool
  | [], [] => true
  | .ident _ :: ps, _ :: as => sigMatches ps as
  | .number z :: ps, .number w :: as => Kernel.eq w z && sigMatches ps as
  | _, _ => false

/-- parameter binding (function.rs:64-71): named parameters only, later duplicates win -/
def bindParams : List (Param S) → List (Value S) → Env S → Env S
  | .ident n :: ps, v :: vs, env => bindParams ps vs (Env.insert env n ⟨v, false⟩)
  | .number _ :: ps, _ :: vs, env => bindParams ps vs env
  | _, _, env => env

/-- the user-function half of `Function::call` (function.rs:61-82) -/
def callUser (ev : Evaluator S) (fn : UserFn S) (line col : Nat) (args : List (Value S))
    (env : Env S) : Res (Value S) :=
  match fn.sigs.find? (fun se => sigMatches se.1.params args) with
  | some (sig, body) => (ev body (bindParams sig.params args env)).res
  | none => .diag ⟨.noMatchingSignature, line, col, fn.name⟩

/-- `Expr::evaluate` (expr.rs:88-167) -/
def eval : Nat → Expr S → Env S → EvalOut S
  | 0, _, env => ⟨.fuel, env⟩
  | f + 1, e, env =>
    match e with
    | .number z => ⟨.ok (.number z), env⟩
    | .measurement z u => ⟨.ok (.measurement z u), env⟩
    | .ident name => ⟨lookupIdent name env, env⟩
    | .as_ x tok u =>
      let o := eval f x env
      match o.res with
      | .ok v => ⟨asop tok u v, o.env⟩
      | _ => o
    | .binary l op r =>
      let o1 := eval f l env
      match o1.res with
      | .ok a =>
        let o2 := eval f r o1.env
        match o2.res with
        | .ok b => ⟨binop op a b, o2.env⟩
        | _ => o2
      | _ => o1
    | .unary op x =>
      let o := eval f x env
      match o.res with
      | .ok v => ⟨unop op v, o.env⟩
      | _ => o
    | .grouping paren k x =>
      let o := eval f x env
      match o.res with
      | .ok v => ⟨groupop paren k v, o.env⟩
      | _ => o
    | .matrix br rows =>
      match rows with
      | [] => ⟨.panic "parameters[0]".toList, env⟩
      | _ :: _ =>
        let (r, env') := evalRows (eval f) br 0 rows env
        match r with
        | .ok zss => ⟨(Mat.fromRows zss).bind (fun m => .ok (.matrix m)), env'⟩
        | .diag d => ⟨.diag d, env'⟩
        | .panic s => ⟨.panic s, env'⟩
        | .fuel => ⟨.fuel, env'⟩
    | .call callee paren args =>
      let o := eval f callee env
      match o.res with
      | .ok (.native name) =>
        let (r, env') := evalList (eval f) args o.env
        match r with
        | .ok vs => ⟨callNative name paren.line paren.col vs, env'⟩
        | .diag d => ⟨.diag d, env'⟩
        | .panic s => ⟨.panic s, env'⟩
        | .fuel => ⟨.fuel, env'⟩
      | .ok (.user fn) =>
        let (r, env') := evalList (eval f) args o.env
        match r with
        | .ok vs => ⟨callUser (eval f) fn paren.line paren.col vs env', env'⟩
        | .diag d => ⟨.diag d, env'⟩
        | .panic s => ⟨.panic s, env'⟩
        | .fuel => ⟨.fuel, env'⟩
      | .ok _ => ⟨.diag ⟨.invalidCallable, paren.line, paren.col, []⟩, o.env⟩
      | _ => o

end Calc
