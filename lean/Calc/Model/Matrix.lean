/-
  Calc.Model.Matrix — model of common/src/variable/value/matrix.rs (operations, not Display).

  A matrix is its list of rows.  Every `assert!`/`assert_eq!`/index of the Rust is a `.panic`
  branch here, placed where the Rust has it; the evaluator's guards are what keep them dead
  (theorem family C01 / C07_shapes).  Arithmetic uses only `+ - * /`, `0`, `1` and
  `Kernel.negOne`, so the same definitions run on floats and are reasoned about in a field.
-/
import Calc.Model.Kernel
namespace Calc

abbrev Mat (S : Type) := List (List S)

variable {S : Type} [Add S] [Sub S] [Mul S] [Div S] [Zero S] [One S] [Kernel S]

namespace Mat

def nrows (m : Mat S) : Nat := m.length
/-- `self.rows[0].len()` — meaningful only for a matrix with at least one row -/
def ncols (m : Mat S) : Nat := (m.headD []).length
def get (m : Mat S) (r c : Nat) : S := (m.getD r []).getD c 0

/-- the three assertions of `Matrix::from_rows` (matrix.rs:19-28) -/
def wellShaped (m : Mat S) : Bool :=
  !m.isEmpty && m.all (fun r => !r.isEmpty) && m.all (fun r => r.length == (m.headD []).length)

def fromRows (m : Mat S) : Res (Mat S) :=
  if wellShaped m then .ok m else .panic "Matrix::from_rows".toList

/-- `Matrix::identity` (matrix.rs:30-36); `from_rows` rejects size 0 -/
def identity (n : Nat) : Res (Mat S) :=
  fromRows ((List.range n).map fun i => (List.range n).map fun j => if i = j then (1 : S) else 0)

/-- `transpose` (matrix.rs:38-51) -/
def transposeRaw (m : Mat S) : Mat S :=
  (List.range (ncols m)).map fun c => m.map fun r => r.getD c 0

def transpose (m : Mat S) : Res (Mat S) := fromRows (transposeRaw m)

/-- `get_submatrix` without the `from_rows` assertion (matrix.rs:97-115) -/
def subMat (m : Mat S) (i j : Nat) : Mat S := (m.eraseIdx i).map fun r => r.eraseIdx j

def sign (k : Nat) : S := if k % 2 = 0 then 1 else Kernel.negOne

/-- `determinant` (matrix.rs:66-94) for a square matrix of the given size: the size is the
    recursion measure.  Size 1 and 2 are the closed forms, larger sizes expand along row 0. -/
def detN : Nat → Mat S → S
  | 0, _ => 0
  | 1, m => get m 0 0
  | 2, m => get m 0 0 * get m 1 1 - get m 0 1 * get m 1 0
  | n + 3, m =>
    (List.range (n + 3)).foldl
      (fun acc col => acc + get m 0 col * detN (n + 2) (subMat m 0 col) * sign col) 0

def det (m : Mat S) : Res S :=
  if nrows m ≠ ncols m then .panic "determinant: not square".toList
  else if nrows m = 0 then .panic "determinant: empty".toList
  else .ok (detN (nrows m) m)

def scale (m : Mat S) (k : S) : Mat S := m.map fun r => r.map fun v => v * k

def neg (m : Mat S) : Mat S := scale m Kernel.negOne

/-- `&Matrix / Complex64` (matrix.rs:321-327): multiply by `1 / k` -/
def divScalar (m : Mat S) (k : S) : Mat S := scale m (1 / k)

def add (a b : Mat S) : Res (Mat S) :=
  if nrows a ≠ nrows b ∨ ncols a ≠ ncols b then .panic "matrix add: dimensions".toList
  else .ok (List.zipWith (fun r1 r2 => List.zipWith (· + ·) r1 r2) a b)

/-- `Sub` (matrix.rs:264-271): `self + (-rhs)` -/
def sub (a b : Mat S) : Res (Mat S) :=
  if nrows a ≠ nrows b ∨ ncols a ≠ ncols b then .panic "matrix sub: dimensions".toList
  else add a (neg b)

def mulEntry (a b : Mat S) (i j : Nat) : S :=
  (List.range (ncols a)).foldl (fun acc k => acc + get a i k * get b k j) 0

def mulRaw (a b : Mat S) : Mat S :=
  (List.range (nrows a)).map fun i => (List.range (ncols b)).map fun j => mulEntry a b i j

def mul (a b : Mat S) : Res (Mat S) :=
  if ncols a ≠ nrows b then .panic "matrix mul: dimensions".toList
  else fromRows (mulRaw a b)

/-- the cofactor matrix of `inverse` (matrix.rs:139-156) -/
def cofactors (m : Mat S) : Mat S :=
  let n := nrows m
  (List.range n).map fun r => (List.range n).map fun c => detN (n - 1) (subMat m r c) * sign (r + c)

/-- `inverse` (matrix.rs:117-164): `none` = singular -/
def inverse (m : Mat S) : Res (Option (Mat S)) :=
  if nrows m ≠ ncols m then .panic "inverse: not square".toList
  else if nrows m = 0 then .panic "inverse: empty".toList
  else
    let d := detN (nrows m) m
    if Kernel.eq d 0 then .ok none
    else if nrows m = 1 then .ok (some [[1 / get m 0 0]])
    else
      match fromRows (cofactors m) with
      | .ok cof =>
        match transpose cof with
        | .ok adj => .ok (some (divScalar adj d))
        | .panic s => .panic s
        | .diag d => .diag d
        | .fuel => .fuel
      | .panic s => .panic s
      | .diag d => .diag d
      | .fuel => .fuel

def cross3 (a1 a2 a3 b1 b2 b3 : S) : List S :=
  [a2 * b3 - a3 * b2, a3 * b1 - a1 * b3, a1 * b2 - a2 * b1]

/-- `row_cross` (matrix.rs:166-190) -/
def rowCross (a b : Mat S) : Res (Mat S) :=
  if nrows a ≠ 1 ∨ ncols a ≠ 3 ∨ nrows b ≠ 1 ∨ ncols b ≠ 3 then .panic "row_cross: shape".toList
  else .ok [cross3 (get a 0 0) (get a 0 1) (get a 0 2) (get b 0 0) (get b 0 1) (get b 0 2)]

/-- `column_cross` (matrix.rs:192-214): note the result is a single *row* -/
def colCross (a b : Mat S) : Res (Mat S) :=
  if nrows a ≠ 3 ∨ ncols a ≠ 1 ∨ nrows b ≠ 3 ∨ ncols b ≠ 1 then .panic "column_cross: shape".toList
  else .ok [cross3 (get a 0 0) (get a 1 0) (get a 2 0) (get b 0 0) (get b 1 0) (get b 2 0)]

def dotList (xs ys : List S) : S :=
  (List.zipWith (· * ·) xs ys).foldl (· + ·) 0

/-- `row_dot` (matrix.rs:216-227) -/
def rowDot (a b : Mat S) : Res S :=
  if nrows a ≠ 1 ∨ nrows b ≠ 1 ∨ ncols a ≠ ncols b then .panic "row_dot: shape".toList
  else .ok (dotList (a.headD []) (b.headD []))

/-- `column_dot` (matrix.rs:229-241) -/
def colDot (a b : Mat S) : Res S :=
  if ncols a ≠ 1 ∨ ncols b ≠ 1 ∨ nrows a ≠ nrows b then .panic "column_dot: shape".toList
  else .ok (dotList (a.map fun r => r.getD 0 0) (b.map fun r => r.getD 0 0))

end Mat
end Calc
