/-
  Calc.Model.Parser — model of common/src/parser/parser.rs and Signature::from_call_expression
  (function.rs:112-131).

  One function per Rust function; the `Peekable<IntoIter<Token>>` is the remaining token list;
  `self.iter.next().unwrap()` after a successful `peek()` is a pattern match on `t :: r`.
  Every function takes fuel and passes `fuel - 1` to every call, so the family is structurally
  recursive on fuel; `parse_fuel_adequate` shows the fuel `parseFuel` never runs out.
-/
import Calc.Model.Kernel
namespace Calc

inductive PRes (S α : Type)
  | ok (a : α) (rest : List (Tok S))
  | err (e : PErr)
  | fuel

variable {S : Type}

def PErr.found (k : ParseErrKind) (t : Option (Tok S)) (info : Str := []) : PErr :=
  ⟨k, t.map (fun t => (t.line, t.col)), info⟩

/-- `check` / the test in `consume` (parser.rs:548-553, 510-527) — the expected kind is always
    payload-free, so `token.kind == expected_kind` is equality of tags. -/
def checkTag (tg : Tag) : List (Tok S) → Bool
  | t :: _ => t.tag = tg
  | [] => false

def tagName : Tag → Str
  | .rparen => "RightParen".toList | .rbracket => "RightBracket".toList
  | .rceil => "RightCeiling".toList | .rfloor => "RightFloor".toList | .pipe => "Pipe".toList
  | _ => "other".toList

def consume (tg : Tag) : List (Tok S) → PRes S (Tok S)
  | t :: r => if t.tag = tg then .ok t r else .err (PErr.found .expectedToken (some t) (tagName tg))
  | [] => .err (PErr.found (S := S) .expectedToken none (tagName tg))

def consumeDelim : List (Tok S) → PRes S (Tok S)
  | t :: r =>
    if t.tag = .newline || t.tag = .semicolon then .ok t r
    else .err (PErr.found .expectedDelimeter (some t))
  | [] => .err (PErr.found (S := S) .expectedDelimeter none)

/-- `Signature::from_call_expression` (function.rs:112-131) -/
def sigParams : List (Expr S) → Option (List (Param S))
  | [] => some []
  | .ident name :: r => (sigParams r).map (fun ps => .ident name.lexeme :: ps)
  | .number z :: r => (sigParams r).map (fun ps => .number z :: ps)
  | _ :: _ => none

def sigOfCall (callee : Expr S) (args : List (Expr S)) : Option (Tok S × Sig S) :=
  match callee with
  | .ident name => (sigParams args).map (fun ps => (name, ⟨ps⟩))
  | _ => none

def groupClose : GKind → Tag
  | .grouping => .rparen | .absolute => .pipe | .ceil => .rceil | .floor => .rfloor

def isAddOp (t : Tag) : Bool := t = .minus || t = .plus
def isMulOp (t : Tag) : Bool := t = .star || t = .slash || t = .percent

mutual
/-- `expression` (parser.rs:210-241) -/
def pExpression : Nat → List (Tok S) → PRes S (Expr S)
  | 0, _ => .fuel
  | f + 1, ts =>
    match pTerm f ts with
    | .ok e r =>
      match r with
      | t :: r' =>
        if t.tag = .as_ then
          match r' with
          | u :: r'' =>
            match u.kind with
            | .unit un => .ok (.as_ e t un) r''
            | _ => .err (PErr.found .expectedUnit (some u))
          | [] => .err (PErr.found (S := S) .expectedUnit none)
        else .ok e r
      | [] => .ok e r
    | .err e => .err e
    | .fuel => .fuel

/-- `term` (parser.rs:243-262) -/
def pTerm : Nat → List (Tok S) → PRes S (Expr S)
  | 0, _ => .fuel
  | f + 1, ts =>
    match pFactor f ts with
    | .ok e r => pTermLoop f e r
    | .err e => .err e
    | .fuel => .fuel

def pTermLoop : Nat → Expr S → List (Tok S) → PRes S (Expr S)
  | 0, _, _ => .fuel
  | f + 1, acc, ts =>
    match ts with
    | t :: r =>
      if isAddOp t.tag then
        match pFactor f r with
        | .ok right r' => pTermLoop f (.binary acc t right) r'
        | .err e => .err e
        | .fuel => .fuel
      else .ok acc ts
    | [] => .ok acc ts

/-- `factor` (parser.rs:264-281) -/
def pFactor : Nat → List (Tok S) → PRes S (Expr S)
  | 0, _ => .fuel
  | f + 1, ts =>
    match pDot f ts with
    | .ok e r => pFactorLoop f e r
    | .err e => .err e
    | .fuel => .fuel

def pFactorLoop : Nat → Expr S → List (Tok S) → PRes S (Expr S)
  | 0, _, _ => .fuel
  | f + 1, acc, ts =>
    match ts with
    | t :: r =>
      if isMulOp t.tag then
        match pDot f r with
        | .ok right r' => pFactorLoop f (.binary acc t right) r'
        | .err e => .err e
        | .fuel => .fuel
      else .ok acc ts
    | [] => .ok acc ts

/-- `dot` (parser.rs:283-300) -/
def pDot : Nat → List (Tok S) → PRes S (Expr S)
  | 0, _ => .fuel
  | f + 1, ts =>
    match pCross f ts with
    | .ok e r => pDotLoop f e r
    | .err e => .err e
    | .fuel => .fuel

def pDotLoop : Nat → Expr S → List (Tok S) → PRes S (Expr S)
  | 0, _, _ => .fuel
  | f + 1, acc, ts =>
    match ts with
    | t :: r =>
      if t.tag = .dot then
        match pCross f r with
        | .ok right r' => pDotLoop f (.binary acc t right) r'
        | .err e => .err e
        | .fuel => .fuel
      else .ok acc ts
    | [] => .ok acc ts

/-- `cross` (parser.rs:302-319) -/
def pCross : Nat → List (Tok S) → PRes S (Expr S)
  | 0, _ => .fuel
  | f + 1, ts =>
    match pExponent f ts with
    | .ok e r => pCrossLoop f e r
    | .err e => .err e
    | .fuel => .fuel

def pCrossLoop : Nat → Expr S → List (Tok S) → PRes S (Expr S)
  | 0, _, _ => .fuel
  | f + 1, acc, ts =>
    match ts with
    | t :: r =>
      if t.tag = .cross then
        match pExponent f r with
        | .ok right r' => pCrossLoop f (.binary acc t right) r'
        | .err e => .err e
        | .fuel => .fuel
      else .ok acc ts
    | [] => .ok acc ts

/-- `exponent` (parser.rs:321-337): the right operand is parsed by `exponent` itself, so `^`
    groups to the right; the `while` then runs at most once more per pending `^`. -/
def pExponent : Nat → List (Tok S) → PRes S (Expr S)
  | 0, _ => .fuel
  | f + 1, ts =>
    match pUnary f ts with
    | .ok e r => pExponentLoop f e r
    | .err e => .err e
    | .fuel => .fuel

def pExponentLoop : Nat → Expr S → List (Tok S) → PRes S (Expr S)
  | 0, _, _ => .fuel
  | f + 1, acc, ts =>
    match ts with
    | t :: r =>
      if t.tag = .caret then
        match pExponent f r with
        | .ok right r' => pExponentLoop f (.binary acc t right) r'
        | .err e => .err e
        | .fuel => .fuel
      else .ok acc ts
    | [] => .ok acc ts

/-- `unary` (parser.rs:339-355) -/
def pUnary : Nat → List (Tok S) → PRes S (Expr S)
  | 0, _ => .fuel
  | f + 1, ts =>
    match ts with
    | t :: r =>
      if t.tag = .minus || t.tag = .sqrt then
        match pUnary f r with
        | .ok x r' => .ok (.unary t x) r'
        | .err e => .err e
        | .fuel => .fuel
      else pFactorial f ts
    | [] => pFactorial f ts

/-- `factorial` (parser.rs:357-372) -/
def pFactorial : Nat → List (Tok S) → PRes S (Expr S)
  | 0, _ => .fuel
  | f + 1, ts =>
    match pCall f ts with
    | .ok e r => pFactorialLoop f e r
    | .err e => .err e
    | .fuel => .fuel

def pFactorialLoop : Nat → Expr S → List (Tok S) → PRes S (Expr S)
  | 0, _, _ => .fuel
  | f + 1, acc, ts =>
    match ts with
    | t :: r => if t.tag = .bang then pFactorialLoop f (.unary t acc) r else .ok acc ts
    | [] => .ok acc ts

/-- `call` (parser.rs:374-381) and `finish_call` (398-406) -/
def pCall : Nat → List (Tok S) → PRes S (Expr S)
  | 0, _ => .fuel
  | f + 1, ts =>
    match pPrimary f ts with
    | .ok e r => pCallLoop f e r
    | .err e => .err e
    | .fuel => .fuel

def pCallLoop : Nat → Expr S → List (Tok S) → PRes S (Expr S)
  | 0, _, _ => .fuel
  | f + 1, acc, ts =>
    match ts with
    | t :: r =>
      if t.tag = .lparen then
        match pArgs f r with
        | .ok args r' =>
          match consume .rparen r' with
          | .ok _ r'' => pCallLoop f (.call acc t args) r''
          | .err e => .err e
          | .fuel => .fuel
        | .err e => .err e
        | .fuel => .fuel
      else .ok acc ts
    | [] => .ok acc ts

/-- `consume_comma_seperated_arguments` (parser.rs:383-396): empty only when the next token is `)`. -/
def pArgs : Nat → List (Tok S) → PRes S (List (Expr S))
  | 0, _ => .fuel
  | f + 1, ts => if checkTag .rparen ts then .ok [] ts else pArgsLoop f ts

def pArgsLoop : Nat → List (Tok S) → PRes S (List (Expr S))
  | 0, _ => .fuel
  | f + 1, ts =>
    match pExpression f ts with
    | .ok e r =>
      match r with
      | t :: r' =>
        if t.tag = .comma then
          match pArgsLoop f r' with
          | .ok es r'' => .ok (e :: es) r''
          | .err e => .err e
          | .fuel => .fuel
        else .ok [e] r
      | [] => .ok [e] r
    | .err e => .err e
    | .fuel => .fuel

/-- the row loop of a matrix literal (parser.rs:461-488).  `prev` = the rows read so far (in
    order), `idx` = number of `;` consumed; `br` = the opening bracket (position of the
    row-length error). -/
def pRows : Nat → Tok S → List (List (Expr S)) → Nat → List (Tok S) → PRes S (List (List (Expr S)))
  | 0, _, _, _, _ => .fuel
  | f + 1, br, prev, idx, ts =>
    match pArgs f ts with
    | .ok row r =>
      match prev.getLast? with
      | some last =>
        if last.length ≠ row.length then
          .err ⟨.inconsistentMatrixRowLength, some (br.line, br.col),
                (toString (idx + 1) ++ ":" ++ toString last.length ++ ":" ++ toString row.length).toList⟩
        else pRowsNext f br (prev ++ [row]) idx r
      | none => pRowsNext f br (prev ++ [row]) idx r
    | .err e => .err e
    | .fuel => .fuel

def pRowsNext : Nat → Tok S → List (List (Expr S)) → Nat → List (Tok S) → PRes S (List (List (Expr S)))
  | 0, _, _, _, _ => .fuel
  | f + 1, br, rows, idx, ts =>
    match ts with
    | t :: r => if t.tag = .semicolon then pRows f br rows (idx + 1) r else .ok rows ts
    | [] => .ok rows ts

/-- `primary` (parser.rs:408-508) -/
def pPrimary : Nat → List (Tok S) → PRes S (Expr S)
  | 0, _ => .fuel
  | f + 1, ts =>
    match ts with
    | [] => .err (PErr.found (S := S) .expectedExpression none)
    | t :: r =>
      match t.kind with
      | .number z =>
        match r with
        | u :: r' =>
          match u.kind with
          | .unit un => .ok (.measurement z un) r'
          | _ => .ok (.number z) r
        | [] => .ok (.number z) r
      | .ident _ => .ok (.ident t) r
      | .lparen => pGroup f t .grouping r
      | .pipe => pGroup f t .absolute r
      | .lceil => pGroup f t .ceil r
      | .lfloor => pGroup f t .floor r
      | .lbracket =>
        match pRows f t [] 0 r with
        | .ok rows r' =>
          match consume .rbracket r' with
          | .ok close r'' => .ok (.matrix close rows) r''
          | .err e => .err e
          | .fuel => .fuel
        | .err e => .err e
        | .fuel => .fuel
      | _ => .err (PErr.found .expectedExpression (some t))

def pGroup : Nat → Tok S → GKind → List (Tok S) → PRes S (Expr S)
  | 0, _, _, _ => .fuel
  | f + 1, open_, k, ts =>
    match pExpression f ts with
    | .ok e r =>
      match consume (groupClose k) r with
      | .ok _ r' => .ok (.grouping open_ k e) r'
      | .err e => .err e
      | .fuel => .fuel
    | .err e => .err e
    | .fuel => .fuel
end

/-- the type string used by `CannotDelete` (expr.rs:516-560) — part of the diagnostic's identity -/
def exprTypeName : Expr S → Str
  | .as_ .. => "as expression".toList
  | .binary .. => "binary expression".toList
  | .unary .. => "unary expression".toList
  | .grouping .. => "grouping".toList
  | .number .. => "number".toList
  | .measurement .. => "measurement".toList
  | .matrix .. => "matrix".toList
  | .ident .. => "identifier".toList
  | .call .. => "function call expression".toList

/-- `delete_statement` (parser.rs:127-165) -/
def pDelete (fuel : Nat) (del : Tok S) (ts : List (Tok S)) : PRes S (Stmt S) :=
  match pExpression fuel ts with
  | .ok e r =>
    match e with
    | .ident name =>
      match consumeDelim r with
      | .ok _ r' => .ok (.deleteVar name) r'
      | .err e => .err e
      | .fuel => .fuel
    | .call callee _ args =>
      match consumeDelim r with
      | .ok _ r' =>
        match sigOfCall callee args with
        | some (name, sig) => .ok (.deleteSig name sig) r'
        | none => .err ⟨.cannotDelete, some (del.line, del.col), []⟩
      | .err e => .err e
      | .fuel => .fuel
    | _ => .err ⟨.cannotDelete, some (del.line, del.col), []⟩
  | .err e => .err e
  | .fuel => .fuel

/-- `statement` (parser.rs:91-120) with `assignment`, `function_declaration`,
    `expression_statement`, `clear_statement` inlined in source order. -/
def pStatement (fuel : Nat) (ts : List (Tok S)) : PRes S (Stmt S) :=
  match ts with
  | t :: r =>
    if t.tag = .delete then pDelete fuel t r
    else if t.tag = .clear then
      match consumeDelim r with
      | .ok _ r' => .ok .clear r'
      | .err e => .err e
      | .fuel => .fuel
    else pStatementExpr fuel ts
  | [] => pStatementExpr fuel ts
where
  pStatementExpr (fuel : Nat) (ts : List (Tok S)) : PRes S (Stmt S) :=
    match pExpression fuel ts with
    | .ok e r =>
      let exprStmt : PRes S (Stmt S) :=
        match consumeDelim r with
        | .ok _ r' => .ok (.expr e) r'
        | .err e => .err e
        | .fuel => .fuel
      match e with
      | .ident name =>
        match r with
        | eq :: r1 =>
          if eq.tag = .equal then
            match pExpression fuel r1 with
            | .ok right r2 =>
              match consumeDelim r2 with
              | .ok _ r3 => .ok (.assign name right) r3
              | .err e => .err e
              | .fuel => .fuel
            | .err e => .err e
            | .fuel => .fuel
          else exprStmt
        | [] => exprStmt
      | .call callee _ args =>
        match r with
        | eq :: r1 =>
          if eq.tag = .equal then
            match pExpression fuel r1 with
            | .ok body r2 =>
              match consumeDelim r2 with
              | .ok _ r3 =>
                match sigOfCall callee args with
                | some (name, sig) => .ok (.define name sig body) r3
                | none => .err ⟨.invalidAssignmentTarget, some (eq.line, eq.col), []⟩
              | .err e => .err e
              | .fuel => .fuel
            | .err e => .err e
            | .fuel => .fuel
          else exprStmt
        | [] => exprStmt
      | _ => exprStmt
    | .err e => .err e
    | .fuel => .fuel

inductive ParseRes (S : Type)
  | ok (stmts : List (Stmt S))
  | err (e : PErr)
  | fuel

/-- `Parser::parse` (parser.rs:75-89).  Outer fuel counts loop iterations (each consumes a token). -/
def parseLoop (inner : Nat) : Nat → List (Tok S) → ParseRes S
  | 0, [] => .ok []
  | 0, _ :: _ => .fuel
  | _ + 1, [] => .ok []
  | f + 1, t :: r =>
    if t.tag = .newline || t.tag = .semicolon then parseLoop inner f r
    else
      match pStatement inner (t :: r) with
      | .ok s rest =>
        match parseLoop inner f rest with
        | .ok ss => .ok (s :: ss)
        | other => other
      | .err e => .err e
      | .fuel => .fuel

/-- fuel that always suffices: 16 calls per token of nesting/looping, plus slack -/
def parseFuel (n : Nat) : Nat := 16 * (n + 2)

def parse (ts : List (Tok S)) : ParseRes S :=
  parseLoop (parseFuel ts.length) (ts.length + 1) ts

end Calc
