import Calc.Props.C08
#print axioms Calc.Props.C08.C08_table
#print axioms Calc.Props.C08.C08_init_names
#print axioms Calc.Props.C08.C08_constants
#print axioms Calc.Props.C08.C08_refuse_count
#print axioms Calc.Props.C08.C08_refuse_domain
#print axioms Calc.Props.C08.firstMisfit_spec
#print axioms Calc.Props.C08.C08_accept
#print axioms Calc.Props.C08.C08_domains
#print axioms Calc.Props.C08.C08_bodies
#print axioms Calc.Props.C08.C08_gcd_lcm
