import Calc.Props.C01Eval
#print axioms Calc.C01_matrix_ops_no_panic
#print axioms Calc.C01_binop_no_panic
#print axioms Calc.C01_unop_no_panic
#print axioms Calc.C01_groupop_no_panic
#print axioms Calc.C01_asop_no_panic
#print axioms Calc.C01_nativeName
#print axioms Calc.C01_native_no_panic
#print axioms Calc.C01_eval_no_panic
#print axioms Calc.C01_eval_never_panics
#print axioms Calc.C01_step_inv
#print axioms Calc.C01_runStmts_inv
#print axioms Calc.C01_magnitude_free
#print axioms Calc.C01_callFree_total
#print axioms Calc.C01_init_wf
