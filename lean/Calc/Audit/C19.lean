import Calc.Props.C19
#print axioms Calc.C19_perm_table
#print axioms Calc.C19_perm_ops
#print axioms Calc.C19_perm_eval
#print axioms Calc.C19_perm_step
#print axioms Calc.C19_perm_step_no_clear
#print axioms Calc.C19_perm_run
#print axioms Calc.C19_perm_text
#print axioms Calc.C19_perm_repl
#print axioms Calc.C19_perm
#print axioms Calc.C19_perm_session
