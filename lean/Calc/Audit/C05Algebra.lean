import Calc.Props.C05Algebra
#print axioms Calc.C05_roundtrip
#print axioms Calc.C05_path
#print axioms Calc.C05_cross_kind
#print axioms Calc.C05_same_kind
#print axioms Calc.C05_bare_number
#print axioms Calc.C05_as_other
#print axioms Calc.C05_ratio
#print axioms Calc.C05_temperature
