import Calc.Props.C17Meaning
#print axioms Calc.Props.C17Meaning.C17_eval_ignores_positions
#print axioms Calc.Props.C17Meaning.C17_step_ignores_positions
#print axioms Calc.Props.C17Meaning.C17_run_ignores_positions
#print axioms Calc.Props.C17Meaning.C17_print_ignores_positions
#print axioms Calc.Props.C17Meaning.C17_value_lines_equal
#print axioms Calc.Props.C17Meaning.C17_eqModPos_iff_noPos
