import Calc.Props.C13Shipped
#print axioms Calc.Props.C13Shipped.C13_shipped_keywords_no_number
#print axioms Calc.Props.C13Shipped.C13_session_shipped
