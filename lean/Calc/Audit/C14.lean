import Calc.Props.C14
#print axioms Calc.C14_op_positions
#print axioms Calc.C14_order
#print axioms Calc.C14_order_first_failure
#print axioms Calc.C14_eval_blame_step
#print axioms Calc.C14_eval_blame
#print axioms Calc.C14_eval_values_from_table
#print axioms Calc.C14_stmt_located
#print axioms Calc.C14_stmt_blame
#print axioms Calc.C14_one_line_and_continue
#print axioms Calc.C14_statements_in_order
