import Calc.Props.C13Per
#print axioms Calc.Props.C13Per.C13_sigEquiv_per
#print axioms Calc.Props.C13Per.C13_sigEquiv_is_per
#print axioms Calc.Props.C13Per.C13_distinct_per
#print axioms Calc.Props.C13Per.C13_distinct_session_per
#print axioms Calc.Props.C13Per.C13_define_at_most_one_per
#print axioms Calc.Props.C13Per.C13_delete_exactly_one_per
#print axioms Calc.Props.C13Per.C13_delete_at_most_one_per
#print axioms Calc.Props.C13Per.C13_per_generalises
#print axioms Calc.Props.C13Per.C13_f64_eq_is_per
#print axioms Calc.Props.C13Per.C13_f64_eq_is_not_eq
#print axioms Calc.Props.C13Per.C13_literal_not_nan
#print axioms Calc.Props.C13Per.C13_sig_literals_from_args
