import Calc.Props.C16Modes
#print axioms Calc.C16_lines_scan
#print axioms Calc.C16_scan_append
#print axioms Calc.C16_lines_parse
#print axioms Calc.C16_eval_positions
#print axioms Calc.C16_file_equals_lines
#print axioms Calc.C16_file_equals_lines_table
#print axioms Calc.C16_three_modes
