import Calc.Props.C02
#print axioms Calc.Props.C02.C02_kind_table
#print axioms Calc.Props.C02.C02_kind_table_supported
#print axioms Calc.Props.C02.C02_kind_table_functions
#print axioms Calc.Props.C02.C02_kind_table_pow_rem
#print axioms Calc.Props.C02.C02_kind_table_root_fact
#print axioms Calc.Props.C02.C02_factorial_product
#print axioms Calc.Props.C02.C02_factorial_loop
#print axioms Calc.Props.C02.C02_factorial_overflow
#print axioms Calc.Props.C02.C02_binop_numbers
#print axioms Calc.Props.C02.C02_unop_numbers
#print axioms Calc.Props.C02.C02_factorial_nat
#print axioms Calc.Props.C02.C02_groupop_numbers
#print axioms Calc.Props.C02.C02_eval_denote
#print axioms Calc.Props.C02.C02_overflow_only_factorial
#print axioms Calc.instLawfulKernelComplex
