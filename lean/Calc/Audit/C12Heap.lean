import Calc.Props.C12Heap
#print axioms Calc.C12_heap_init
#print axioms Calc.C12_heap_no_alias_step
#print axioms Calc.C12_heap_no_alias
#print axioms Calc.C12_heap_no_alias_iff
#print axioms Calc.C12_heap_refines_step
#print axioms Calc.C12_heap_refines_values
#print axioms Calc.C12_heap_refines_from
#print axioms Calc.C12_heap_frame
#print axioms Calc.C12_heap_clear_frame
#print axioms Calc.C12_heap_copy_independent
#print axioms Calc.C12_heap_alias_created
#print axioms Calc.C12_heap_alias_without_copy
