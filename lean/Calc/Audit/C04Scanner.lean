import Calc.Props.C04Scanner
#print axioms Calc.C04_number_text
#print axioms Calc.C04_number_value
#print axioms Calc.C04_number_wf
#print axioms Calc.C04_number_shape
#print axioms Calc.C04_longest_number
#print axioms Calc.C04_scanned
#print axioms Calc.C04_decomp
#print axioms Calc.C04_reconstruct
#print axioms Calc.C04_positions
#print axioms Calc.C04_badchar
#print axioms Calc.C04_number_start
#print axioms Calc.C04_number
#print axioms Calc.C04_keyword
#print axioms Calc.C04_keyword_maximal
#print axioms Calc.C04_longest_match
