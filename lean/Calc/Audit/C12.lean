import Calc.Props.C12
#print axioms Calc.C12_frame
#print axioms Calc.C12_clear_frame
#print axioms Calc.C12_clear_keeps_constants
#print axioms Calc.C12_clear_only_constants
#print axioms Calc.C12_keys_distinct
#print axioms Calc.C12_copy_independent
#print axioms Calc.C12_copy_made
