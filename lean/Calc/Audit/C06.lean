import Calc.Props.C06
#print axioms Calc.C06_add
#print axioms Calc.C06_sub
#print axioms Calc.C06_scale_left
#print axioms Calc.C06_scale_right
#print axioms Calc.C06_div
#print axioms Calc.C06_div_zero
#print axioms Calc.C06_div_mul_cancel
#print axioms Calc.C06_div_eq_mul_inv
#print axioms Calc.C06_neg
#print axioms Calc.C06_refuse_cross_kind
#print axioms Calc.C06_refuse_add_number
#print axioms Calc.C06_refuse_mul
#print axioms Calc.C06_refuse_div
#print axioms Calc.C06_refuse_rem_pow
#print axioms Calc.C06_refuse_unary
#print axioms Calc.C06_refuse_grouping
