import Calc.Props.C13PerSession
#print axioms Calc.Props.C13PerSession.C13_scanned_numbers_are_decimals
#print axioms Calc.Props.C13PerSession.C13_parsed_literals_from_tokens
#print axioms Calc.Props.C13PerSession.C13_parsed_program_lits_ok
#print axioms Calc.Props.C13PerSession.C13_session_self_equivalent
#print axioms Calc.Props.C13PerSession.C13_redefine_replaces_session
#print axioms Calc.Props.C13PerSession.C13_session_cx64
