import Calc.Props.C05
#print axioms Calc.Props.C05.C05_table_partial
#print axioms Calc.Props.C05.C05_bit_counterexample
#print axioms Calc.Props.C05.C05_factor_pos
#print axioms Calc.Props.C05.C05_base_factor_one
#print axioms Calc.Props.C05.C05_symbols
#print axioms Calc.Props.C05.C05_spellings_partial
#print axioms Calc.Props.C05.C05_no_undocumented_spelling
#print axioms Calc.Props.C05.C05_yard_counterexample
#print axioms Calc.Props.C05.C05_bit_family_exactly_as_known
#print axioms Calc.Props.C05.C05_yard_exactly_as_known
