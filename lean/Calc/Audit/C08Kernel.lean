import Calc.Props.C08Kernel
#print axioms Calc.Props.C08Kernel.C08_kernel_operators
#print axioms Calc.Props.C08Kernel.C08_kernel_formulas
#print axioms Calc.Props.C08Kernel.C08_kernel_agrees
#print axioms Calc.Props.C08Kernel.C08_kernel_ieee_branches
#print axioms Calc.Props.C08Kernel.C08_kernel_toC_onto
