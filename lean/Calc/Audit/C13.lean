import Calc.Props.C13
#print axioms Calc.C13_call_first
#print axioms Calc.C13_sigMatches_iff
#print axioms Calc.C13_bind_param
#print axioms Calc.C13_bind_other
#print axioms Calc.C13_call_eval
#print axioms Calc.C13_define
#print axioms Calc.C13_sigEquiv_iff
#print axioms Calc.C13_define_step
#print axioms Calc.C13_delete
#print axioms Calc.C13_delete_exactly_one
#print axioms Calc.C13_delete_at_most_one
#print axioms Calc.C13_distinct
#print axioms Calc.C13_distinct_session
#print axioms Calc.C13_eval_wellformed
#print axioms Calc.C13_listing_order
