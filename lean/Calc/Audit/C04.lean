import Calc.Props.C04
#print axioms Calc.Props.C04.Keywords_documented_partial
#print axioms Calc.Props.C04.Keywords_nothing_else
#print axioms Calc.Props.C04.Keywords_unambiguous
#print axioms Calc.Props.C04.Keywords_yard_counterexample
