import Calc.Props.C18Entry
#print axioms Calc.Props.C18Entry.C18_entry_text
#print axioms Calc.Props.C18Entry.C18_entry_scans
#print axioms Calc.Props.C18Entry.C18_entry_reparse_tokens
#print axioms Calc.Props.C18Entry.C18_entry_reparse_delim
#print axioms Calc.Props.C18Entry.C18_entry_reparse_cfg
#print axioms Calc.Props.C18Entry.C18_shipped_newline
#print axioms Calc.Props.C18Entry.C18_entry_reparse
#print axioms Calc.Props.C18Entry.C18_entry_reparse_program
#print axioms Calc.Props.C18Entry.C18_literal_kernel
#print axioms Calc.Props.C18Entry.C18_literals_ok_bits
#print axioms Calc.Props.C18Entry.C18_scanned_literals_ok_bits
#print axioms Calc.Props.C18Entry.C18_entry_reparse_bits
