import Calc.Props.C14Render
#print axioms Calc.Props.C14Render.C14_render_reads_back
#print axioms Calc.Props.C14Render.C14_render_injective
#print axioms Calc.Props.C14Render.C14_read_sound
#print axioms Calc.Props.C14Render.C14_natDigits_canonical
#print axioms Calc.Props.C14Render.C14_render_is_format
#print axioms Calc.Props.C14Render.C14_render_one_line
#print axioms Calc.Props.C14Render.C14_rendered_line_locates
#print axioms Calc.Props.C14Render.C14_processText_rendered_locates
#print axioms Calc.Props.C14Render.C14_failure_lines
#print axioms Calc.Props.C14Render.C14_rendered_op_locates
#print axioms Calc.Props.C14Render.C14_rendered_delete_locates
#print axioms Calc.Props.C14Render.C14_rendered_parse_locates
