import Calc.Props.C04Bytes
#print axioms Calc.Props.C04Bytes.idxAfter_eq
#print axioms Calc.Props.C04Bytes.C04_enc_injective
#print axioms Calc.Props.C04Bytes.C04_slice_segment
#print axioms Calc.Props.C04Bytes.C04_token_slices
