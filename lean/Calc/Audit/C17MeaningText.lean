import Calc.Props.C17MeaningText
#print axioms Calc.Props.C17MeaningText.C17_parse_ignores_positions
#print axioms Calc.Props.C17MeaningText.C17_parse_ignores_positions_noPos
#print axioms Calc.Props.C17MeaningText.C17_eqModPos_lists_iff_noPos
#print axioms Calc.Props.C17MeaningText.C17_processText_ignores_positions
#print axioms Calc.Props.C17MeaningText.C17_related_outputs_print_same
#print axioms Calc.Props.C17MeaningText.C17_blank_insert_meaning
#print axioms Calc.Props.C17MeaningText.C17_blank_insert_meaning_table
#print axioms Calc.Props.C17MeaningText.C17_blank_remove_meaning
#print axioms Calc.Props.C17MeaningText.C17_delims_meaning
