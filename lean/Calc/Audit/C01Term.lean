import Calc.Props.C01Term
#print axioms Calc.C01_native_calls_terminate
#print axioms Calc.C01_no_user_callee_terminates
#print axioms Calc.C01_native_calls_total
#print axioms Calc.C01_ranked_terminates
#print axioms Calc.C01_ranked_table_terminates
#print axioms Calc.C01_ranked_total
#print axioms Calc.C01_named_recursion_diverges
#print axioms Calc.C01_self_application_diverges
#print axioms Calc.C01_missed_base_case_diverges
#print axioms Calc.C01_fuel_needs_user_call
#print axioms Calc.C01_returns_or_user_call
#print axioms Calc.C01_named_recursion_diverges_text
#print axioms Calc.C01_self_application_diverges_text
#print axioms Calc.C01_noninteger_factorial_diverges
#print axioms Calc.sqHyp_ranked
