import Calc.Props.C16
#print axioms Calc.C16_trailing_newline
#print axioms Calc.C16_env_shared
#print axioms Calc.C16_modes_agree
#print axioms Calc.C16_file_binding_visible
#print axioms Calc.C16_exit
#print axioms Calc.C16_line_isolation
#print axioms Calc.C16_tabsize
#print axioms Calc.C16_parse_positions
#print axioms Calc.C16_tabsize_statements
#print axioms Calc.C16_tabsize_field
