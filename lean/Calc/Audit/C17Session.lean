import Calc.Props.C17Session
#print axioms Calc.Props.C17Session.C17_processText_scanSim
#print axioms Calc.Props.C17Session.C17_repl_ignores_positions
#print axioms Calc.Props.C17Session.C17_repl_ignores_positions_both_scan
#print axioms Calc.Props.C17Session.C17_session_ignores_positions
#print axioms Calc.Props.C17Session.C17_blankVariant_scanSim
#print axioms Calc.Props.C17Session.C17_session_blank_lines
