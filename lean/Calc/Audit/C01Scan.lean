import Calc.Props.C01Scan
#print axioms Calc.C01_scanLoop_fuel
#print axioms Calc.C01_scan_fuel
#print axioms Calc.C01_scan_no_panic
#print axioms Calc.C01_scan_returns
#print axioms Calc.C01_scan_returns_table
