import Calc.Props.C14Parse
#print axioms Calc.C14_errSpec_expected
#print axioms Calc.C14_errSpec_rowlen
#print axioms Calc.C14_parse_pos
#print axioms Calc.C14_parse_pos_all
#print axioms Calc.C14_parse_pos_rowlen
#print axioms Calc.C14_parse_pos_rowlen_own
#print axioms Calc.C14_parse_kinds
#print axioms Calc.C14_errSpec_kinds
#print axioms Calc.C14_parse_pos_statement
#print axioms Calc.C14_parse_pos_program
#print axioms Calc.C14_parse_pos_program_expected
#print axioms Calc.C14_stmtBoundary_iff
#print axioms Calc.C14_parse_pos_exact
#print axioms Calc.C14_parse_pos_exact_cases
#print axioms Calc.C14_parse_pos_exact_all
#print axioms Calc.C14_errLoc_iff
#print axioms Calc.C14_parse_pos_exact_statement
