import Calc.Props.C18ListingBits
#print axioms Calc.Props.C18ListingBits.C18_session_listing_reparse_bits
