import Calc.Props.C09
#print axioms Calc.C09_inv_init
#print axioms Calc.C09_inv_step
#print axioms Calc.C09_inv_run
#print axioms Calc.C09_reachable
#print axioms Calc.C09_inv_text
#print axioms Calc.C09_inv_repl
#print axioms Calc.C09_reachable_session
#print axioms Calc.C09_builtins_unchanged
#print axioms Calc.C09_refused
#print axioms Calc.C09_refused_native
#print axioms Calc.C09_clear
