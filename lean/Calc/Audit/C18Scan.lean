import Calc.Props.C18Scan
#print axioms Calc.Props.C18Scan.C18_scanned_tokens_wf
#print axioms Calc.Props.C18Scan.C18_scanned_tokens_wf_decl
#print axioms Calc.Props.C18Scan.C18_scanned_token_by_kind
#print axioms Calc.Props.C18Scan.C18_parsed_tree_ok
#print axioms Calc.Props.C18Scan.C18_parsed_tree_ok_tokens
#print axioms Calc.Props.C18Scan.C18_parsed_idents_named
#print axioms Calc.Props.C18Scan.C18_reparse_unconditional
#print axioms Calc.Props.C18Scan.C18_simLex_meaning
#print axioms Calc.Props.C18Scan.C18_reparse_lexemes
#print axioms Calc.Props.C18Scan.C18_reparse_defined_body_scanned
