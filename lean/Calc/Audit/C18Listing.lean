import Calc.Props.C18Listing
#print axioms Calc.Props.C18Listing.C18_define_rename
#print axioms Calc.Props.C18Listing.C18_entry_named
#print axioms Calc.Props.C18Listing.C18_parsed_definitions
#print axioms Calc.Props.C18Listing.C18_stored_from_definitions_step
#print axioms Calc.Props.C18Listing.C18_stored_from_definitions_text
#print axioms Calc.Props.C18Listing.C18_stored_from_definitions_session
#print axioms Calc.Props.C18Listing.C18_stored_from_scanned_definitions
#print axioms Calc.Props.C18Listing.C18_listing_entries_reparse
#print axioms Calc.Props.C18Listing.C18_session_listing_reparse
#print axioms Calc.Props.C18Listing.C18_listing_text_reparse
#print axioms Calc.Props.C18Listing.C18_simEntries_sigs
#print axioms Calc.Props.C18Listing.C18_listing_rebuild
#print axioms Calc.Props.C18Listing.C18_session_listing_rebuild
