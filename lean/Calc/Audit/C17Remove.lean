import Calc.Props.C17Remove
#print axioms Calc.C17_blank_remove
#print axioms Calc.C17_rule_reading
#print axioms Calc.C17_blank_remove_lexemes
#print axioms Calc.C17_token_remove
#print axioms Calc.C17_number_remove
