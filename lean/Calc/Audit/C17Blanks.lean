import Calc.Props.C17Blanks
#print axioms Calc.C17_blank_insert
#print axioms Calc.C17_blank_insert_decomp
#print axioms Calc.C17_boundary_in_gap
#print axioms Calc.C17_number_local
#print axioms Calc.C17_token_local
#print axioms Calc.C17_positions_only
#print axioms Calc.C17_blank_insert_table
