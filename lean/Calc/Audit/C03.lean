import Calc.Props.C03
#print axioms Calc.C03_sound
#print axioms Calc.C03_sound_expression
#print axioms Calc.C03_stmt_shapes
#print axioms Calc.C03_stmt_shapes_cases
#print axioms Calc.C03_delimiter_required
#print axioms Calc.C03_sound_program
#print axioms Calc.C03_complete
#print axioms Calc.C03_complete_expression
#print axioms Calc.C03_complete_lists
#print axioms Calc.C03_complete_statement
#print axioms Calc.C03_complete_program
#print axioms Calc.C03_exact
#print axioms Calc.C03_tokens_preserved_partial
#print axioms Calc.C03_signature_shape
#print axioms Calc.C03_unambiguous
#print axioms Calc.C03_complete_expression_fuel
#print axioms Calc.C03_complete_statement_fuel
