import Calc.Props.C11
#print axioms Calc.C11_pure
#print axioms Calc.C11_params_scoped
#print axioms Calc.C11_params_not_leaked
#print axioms Calc.C11_repeatable
#print axioms Calc.C11_expr_stmt
