import Calc.Props.C18Parse
#print axioms Calc.Props.C18Parse.C18_consumed_kinds
#print axioms Calc.Props.C18Parse.C18_consumed_kinds_parser
#print axioms Calc.Props.C18Parse.C18_consumed_kinds_args
#print axioms Calc.Props.C18Parse.C18_grammar_reads_kinds
#print axioms Calc.Props.C18Parse.C18_sim_equivalence
#print axioms Calc.Props.C18Parse.C18_sim_kinds
#print axioms Calc.Props.C18Parse.C18_sim_root
#print axioms Calc.Props.C18Parse.C18_reparse_kinds
#print axioms Calc.Props.C18Parse.C18_reparse
#print axioms Calc.Props.C18Parse.C18_reparse_unique
#print axioms Calc.Props.C18Parse.C18_reparse_parser
#print axioms Calc.Props.C18Parse.C18_reparse_parser_alone
#print axioms Calc.Props.C18Parse.C18_reparse_parser_unique
#print axioms Calc.Props.C18Parse.C18_reparse_defined_body
