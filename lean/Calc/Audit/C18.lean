import Calc.Props.C18
#print axioms Calc.Props.C18.C18_listing_shape
#print axioms Calc.Props.C18.C18_listing_value
#print axioms Calc.Props.C18.C18_param
#print axioms Calc.Props.C18.C18_printer_structure
#print axioms Calc.Props.C18.C18_grouping
#print axioms Calc.Props.C18.C18_operator_order
#print axioms Calc.Props.C18.C18_word_operators_spaced
#print axioms Calc.Props.C18.C18_call
#print axioms Calc.Props.C18.C18_adjacent_op
#print axioms Calc.Props.C18.C18_adjacent_safe
#print axioms Calc.Props.C18.C18_op_char_boundary
#print axioms Calc.Props.C18.C18_number_literal
#print axioms Calc.Props.C18.C18_measurement_literal
#print axioms Calc.Props.C18.C18_matrix_literal
