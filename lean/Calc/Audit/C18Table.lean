import Calc.Props.C18Table
#print axioms Calc.Props.C18Table.C18_shipped_cfg
#print axioms Calc.Props.C18Table.C18_shipped_rows
#print axioms Calc.Props.C18Table.C18_shipped_classes_ok
#print axioms Calc.Props.C18Table.C18_shipped_table_ok
#print axioms Calc.Props.C18Table.C18_reparse_shipped
#print axioms Calc.Props.C18Table.C18_reparse_lexemes_shipped
#print axioms Calc.Props.C18Table.C18_reparse_defined_body_shipped
#print axioms Calc.Props.C18Table.C18_shipped_keyword_exec
