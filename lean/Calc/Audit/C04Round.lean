import Calc.Props.C04Round
#print axioms Calc.C04_number_correctly_rounded
#print axioms Calc.C04_number_zero
#print axioms Calc.C04_pattern_value
#print axioms Calc.C04_printed_digits_read_back
#print axioms Calc.C04_printed_text_reads_back
#print axioms Calc.C04_float_kernel_uses_these
