import Calc.Props.C15
#print axioms Calc.Props.C15.C15_native
#print axioms Calc.Props.C15.C15_measurement
#print axioms Calc.Props.C15.C15_measurement_value
#print axioms Calc.Props.C15.C15_symbols_distinct
#print axioms Calc.Props.C15.C15_symbol_documented
#print axioms Calc.Props.C15.C15_complex
#print axioms Calc.Props.C15.C15_complex_exact
#print axioms Calc.Props.C15.C15_complex_determines
#print axioms Calc.Props.C15.C15_number_value
#print axioms Calc.Props.C15.C15_measurement_split
#print axioms Calc.Props.C15.C15_measurement_number_text
#print axioms Calc.Props.C15.C15_measurement_determines
#print axioms Calc.Props.C15.C15_matrix_lines
#print axioms Calc.Props.C15.C15_matrix_padding
#print axioms Calc.Props.C15.C15_matrix
#print axioms Calc.Props.C15.C15_matrix_empty
#print axioms Calc.Props.C15.C15_matrix_value
