import Calc.Props.C15Bits
#print axioms Calc.Props.C15Bits.C15_bits_real_text_reads_back
#print axioms Calc.Props.C15Bits.C15_bits_real_text_reads_back_raw
#print axioms Calc.Props.C15Bits.C15_bits_every_nan_prints_NaN
#print axioms Calc.Props.C15Bits.C15_bits_complex_reads_back
#print axioms Calc.Props.C15Bits.C15_bits_complex_exact
#print axioms Calc.Props.C15Bits.C15_bits_zero_test
#print axioms Calc.Props.C15Bits.C15_bits_complex_determines
#print axioms Calc.Props.C15Bits.C15_bits_kernel_methods
