import Calc.Props.C10
#print axioms Calc.C10_atomic
#print axioms Calc.C10_changed_silent
#print axioms Calc.C10_silent_or_one_line
#print axioms Calc.C10_text
#print axioms Calc.C10_text_line
