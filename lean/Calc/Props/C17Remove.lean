/-
  Calc.Props.C17Remove — C17, "removing blanks that are not needed to keep two tokens apart
  changes no result" (scanner half; the converse of Calc.Props.C17Blanks).

  The adjacency rule `needsSepAt cfg x y` (Calc/Proofs/AdjRemove.lean) decides from the last two
  characters of the text `x` before the gap and the first character of the text `y` after it
  whether the blanks between them must stay.  It asks for a separator exactly when
    (1) `x` ends with a word or number character (identifier-continue character or digit) and
        `y` begins with one, or with `.` or `e`      — `ab|c`, `2|3`, `x|2`, `2|.5`, `2|e1`;
    (2) `y` begins with a digit and `x` ends with `e`, `.` or `e-`   — `2e|5`, `2.|5`, `2e-|5`
        (an exponent or fraction begun before the gap would be completed);
    (3) `y` begins with `-` and `x` ends with `e`                     — `2e|-5`.
  Clause (1) is the rule of C18 (`needsSep`) with the digits and `e` made explicit so that it is
  sound for every configuration; clauses (2) and (3) are needed because the number rule of the
  scanner looks up to three characters ahead (`2`, `e`, `-`, `5` are four tokens in `2e- 5` and
  one token in `2e-5`).  The rule is conservative: it may ask for a separator that is not needed
  (`e -1`), never the reverse.

  Coverage: every class of left neighbour (single-character token, word, number — also a blank
  or the start of the text) and every right neighbour (any text `y`, whether or not it begins
  with a token).  No hypothesis on the configuration is needed.
-/
import Calc.Proofs.AdjRemove
namespace Calc
open List

variable {S : Type} [Kernel S]

/-- **C17, removing blanks.**  If `x ++ b ++ y` scans to `toks`, `b` is a run of blanks, the
    split before `b` is a token boundary of that scan (`x` consists of blanks and whole tokens),
    and the adjacency rule does not ask for a separator between `x` and `y`, then `x ++ y` scans
    too, to tokens with the same kinds (number values included) and the same texts: only
    positions change. -/
theorem C17_blank_remove (cfg : ScanCfg S) (x b y : List Char) (toks : List (Tok S))
    (h : scan cfg (x ++ b ++ y) = .ok toks) (hbd : Boundary cfg x (b ++ y))
    (hb : b.all isBlank = true) (hsep : needsSepAt cfg x y = false) :
    ∃ toks', scan cfg (x ++ y) = .ok toks' ∧
      toks'.map Tok.noPos = toks.map Tok.noPos := by
  rw [append_assoc] at h
  obtain ⟨toks', hs, he⟩ := Scanned.remove_blank hbd hb hsep (scan_ok_iff.1 h)
  exact ⟨toks', scan_ok_iff.2 hs, he⟩

omit [Kernel S] in
/-- **C17, the rule read out.**  `needsSepAt cfg x y = false` means: `y` is empty, or `x` is
    empty, or — with `c` the last character of `x`, `c'` the one before it, `d` the first of `y` —
    (1) if `c` is an identifier-continue character or a digit then `d` is neither, and is not `.`
    or `e`; (2) if `d` is a digit then `c` is not `e` or `.`, and `c' c` is not `e-`; (3) if `d`
    is `-` then `c` is not `e`. -/
theorem C17_rule_reading (cfg : ScanCfg S) (z y' : List Char) (c d : Char) :
    (needsSepAt cfg [] (d :: y') = false) ∧ (∀ x, needsSepAt cfg x [] = false) ∧
    (needsSepAt cfg (z ++ [c]) (d :: y') = false ↔
      ((isIdentCont cfg c = true ∨ isDigit c = true) →
        isIdentCont cfg d = false ∧ isDigit d = false ∧ d ≠ '.' ∧ d ≠ 'e') ∧
      (isDigit d = true → c ≠ 'e' ∧ c ≠ '.' ∧ ¬ (c = '-' ∧ z.getLast? = some 'e')) ∧
      (d = '-' → c ≠ 'e')) := by
  refine ⟨rfl, fun _ => rfl, ?_⟩
  simp only [needsSepAt, reverse_append, reverse_cons, reverse_nil, nil_append, cons_append,
    sepRule_false_iff, head?_reverse]

omit [Kernel S] in
/-- the rule only looks at the first character after the gap -/
theorem needsSepAt_right (cfg : ScanCfg S) (x ℓ₂ y₀ : List Char) (h : ℓ₂ ≠ []) :
    needsSepAt cfg x (ℓ₂ ++ y₀) = needsSepAt cfg x ℓ₂ := by
  rcases ℓ₂ with _ | ⟨d, t⟩
  · exact absurd rfl h
  · rfl

omit [Kernel S] in
/-- the rule only looks at the last lexeme before the gap, except that after the one-character
    lexeme `-` it also looks at the character before it -/
theorem needsSepAt_left (cfg : ScanCfg S) (x₀ ℓ₁ y : List Char) (h : ℓ₁ ≠ [])
    (hminus : ℓ₁ = ['-'] → x₀.getLast? ≠ some 'e') (hsep : needsSepAt cfg ℓ₁ y = false) :
    needsSepAt cfg (x₀ ++ ℓ₁) y = false := by
  rcases y with _ | ⟨d, y'⟩
  · rfl
  have hne := h
  rw [← dropLast_concat_getLast hne] at hsep hminus ⊢
  generalize ℓ₁.dropLast = z at hsep hminus ⊢
  generalize ℓ₁.getLast hne = c at hsep hminus ⊢
  rw [← append_assoc]
  rw [(C17_rule_reading cfg _ y' c d).2.2] at hsep ⊢
  refine ⟨hsep.1, fun hd => ?_, hsep.2.2⟩
  obtain ⟨a, b, c'⟩ := hsep.2.1 hd
  refine ⟨a, b, ?_⟩
  rintro ⟨hc, hr⟩
  rcases z with _ | ⟨z1, z⟩
  · subst hc
    rw [append_nil] at hr
    exact hminus rfl hr
  · apply c'
    refine ⟨hc, ?_⟩
    rw [getLast?_append] at hr
    have : (z1 :: z).getLast? = some ((z1 :: z).getLast (cons_ne_nil _ _)) :=
      getLast?_eq_some_getLast _
    rw [this] at hr ⊢
    exact hr

/-- **C17, removing blanks, in terms of the two neighbouring lexemes.**  `x = x₀ ++ ℓ₁` ends with
    the lexeme `ℓ₁`, `y = ℓ₂ ++ y₀` begins with the lexeme `ℓ₂`, and the rule applied to the two
    lexemes alone does not ask for a separator.  The only situation in which more than `ℓ₁` has
    to be looked at is `ℓ₁ = "-"` directly after an `e` (`2e- 5`), excluded by `hminus`.  (`ℓ₁`,
    `ℓ₂` need only be non-empty pieces of text; that they are lexemes is not used.) -/
theorem C17_blank_remove_lexemes (cfg : ScanCfg S) (x₀ ℓ₁ b ℓ₂ y₀ : List Char)
    (toks : List (Tok S)) (h : scan cfg (x₀ ++ ℓ₁ ++ b ++ (ℓ₂ ++ y₀)) = .ok toks)
    (hbd : Boundary cfg (x₀ ++ ℓ₁) (b ++ (ℓ₂ ++ y₀))) (hb : b.all isBlank = true)
    (h₁ : ℓ₁ ≠ []) (h₂ : ℓ₂ ≠ []) (hminus : ℓ₁ = ['-'] → x₀.getLast? ≠ some 'e')
    (hsep : needsSepAt cfg ℓ₁ ℓ₂ = false) :
    ∃ toks', scan cfg (x₀ ++ ℓ₁ ++ (ℓ₂ ++ y₀)) = .ok toks' ∧
      toks'.map Tok.noPos = toks.map Tok.noPos := by
  refine C17_blank_remove cfg (x₀ ++ ℓ₁) b (ℓ₂ ++ y₀) toks h hbd hb ?_
  rw [needsSepAt_right cfg _ ℓ₂ y₀ h₂]
  exact needsSepAt_left cfg x₀ ℓ₁ ℓ₂ h₁ hminus hsep

/-- **C17, the token-level lemma behind `C17_blank_remove`.**  A token `ℓ` that is followed by
    `x ++ b ++ y` is the same token when followed by `x ++ y`, if the rule does not ask for a
    separator between `ℓ ++ x` and `y`.  (Single-character tokens never extend; a word stops at
    the first non-continue character; a number stops where `C17_number_remove` says.) -/
theorem C17_token_remove (cfg : ScanCfg S) (ℓ x b y : List Char) (k : Kind S)
    (h : Lexeme cfg (ℓ ++ (x ++ (b ++ y))) k ℓ (x ++ (b ++ y)))
    (hsep : needsSepAt cfg (ℓ ++ x) y = false) :
    Lexeme cfg (ℓ ++ (x ++ y)) k ℓ (x ++ y) :=
  h.remove_blank hsep

omit [Kernel S] in
/-- **C17, numbers.**  A literal `ℓ` that the number rule reads from `ℓ ++ x ++ b ++ y` is read
    from `ℓ ++ x ++ y` as well, provided that directly after the literal (`x` empty) `y` does not
    begin with a digit, `.` or `e`, that after `e` it does not begin with a digit or `-`, and that
    after `e-` or `.` it does not begin with a digit. -/
theorem C17_number_remove (ℓ x b y : List Char) (dec : Decimal) (hv : NumberVal ℓ dec)
    (h : scanNumber (ℓ ++ (x ++ (b ++ y))) = ⟨ℓ, x ++ (b ++ y)⟩)
    (hA : x = [] → ∀ d y', y = d :: y' → isDigit d = false ∧ d ≠ '.' ∧ d ≠ 'e')
    (hB : x = ['e'] → ∀ d y', y = d :: y' → isDigit d = false ∧ d ≠ '-')
    (hC : x = ['e', '-'] → ∀ d y', y = d :: y' → isDigit d = false)
    (hD : x = ['.'] → ∀ d y', y = d :: y' → isDigit d = false) :
    scanNumber (ℓ ++ (x ++ y)) = ⟨ℓ, x ++ y⟩ :=
  scanNumber_remove hv h hA hB hC hD

/-! ## Satisfiability of the hypotheses, necessity of each clause, conservativeness -/

section Examples

/-- letters and digits continue a word, no keywords -/
def adjCfg : ScanCfg S := ⟨4, fun c => isIdentStart c || isDigit c, fun _ => none⟩

/-- the premises of `C17_blank_remove` are satisfiable: in `2 \t- 1` the split after `2` is a
    boundary, the rule allows `2` and `-` to touch, and `2-1` has the same three tokens. -/
example :
    (∃ toks, scan (adjCfg (S := S)) ("2".toList ++ " \t".toList ++ "- 1".toList) = .ok toks ∧
      toks.map (·.lexeme) = [['2'], ['-'], ['1']]) ∧
    needsSepAt (adjCfg (S := S)) "2".toList "- 1".toList = false ∧
    (∃ toks', scan (adjCfg (S := S)) ("2".toList ++ "- 1".toList) = .ok toks' ∧
      toks'.map (·.lexeme) = [['2'], ['-'], ['1']]) :=
  ⟨⟨_, rfl, rfl⟩, rfl, ⟨_, rfl, rfl⟩⟩

/-- the boundary hypothesis of that example, spelled out -/
theorem adjEx_boundary :
    Boundary (adjCfg (S := S)) "2".toList (" \t".toList ++ "- 1".toList) := by
  have hl : Lexeme (adjCfg (S := S)) ("2".toList ++ ([] ++ (" \t".toList ++ "- 1".toList)))
      (.number (Kernel.ofDecimal 2 0)) "2".toList ([] ++ (" \t".toList ++ "- 1".toList)) :=
    Lexeme.number (cfg := adjCfg) (c := '2') (cs := " \t- 1".toList) (d := ⟨2, 0⟩)
      (by decide) rfl (by decide) (by decide) (by decide)
  exact Boundary.tok (x := []) hl .nil

/-- and the theorem applied to it -/
example : ∃ toks', scan (adjCfg (S := S)) ("2".toList ++ "- 1".toList) = .ok toks' ∧
    toks'.map Tok.noPos =
      [(.number (Kernel.ofDecimal 2 0), ['2']), (.minus, ['-']),
       (.number (Kernel.ofDecimal 1 0), ['1'])] :=
  C17_blank_remove adjCfg "2".toList " \t".toList "- 1".toList _ rfl adjEx_boundary rfl rfl

/-- what the rule says on the standard cases -/
example :
    -- allowed to touch
    needsSepAt (adjCfg (S := S)) "2".toList "-1".toList = false ∧
    needsSepAt (adjCfg (S := S)) "f".toList "(x)".toList = false ∧
    needsSepAt (adjCfg (S := S)) "(".toList "x".toList = false ∧
    needsSepAt (adjCfg (S := S)) "2".toList ")".toList = false ∧
    needsSepAt (adjCfg (S := S)) "x=".toList "2".toList = false ∧
    -- clause (1)
    needsSepAt (adjCfg (S := S)) "a".toList "b".toList = true ∧
    needsSepAt (adjCfg (S := S)) "2".toList "3".toList = true ∧
    needsSepAt (adjCfg (S := S)) "x".toList "2".toList = true ∧
    needsSepAt (adjCfg (S := S)) "2".toList "m".toList = true ∧
    needsSepAt (adjCfg (S := S)) "2".toList ".5".toList = true ∧
    needsSepAt (adjCfg (S := S)) "2".toList "e1".toList = true ∧
    -- clause (2)
    needsSepAt (adjCfg (S := S)) "2e".toList "5".toList = true ∧
    needsSepAt (adjCfg (S := S)) "2e-".toList "5".toList = true ∧
    needsSepAt (adjCfg (S := S)) "2.".toList "5".toList = true ∧
    -- clause (3)
    needsSepAt (adjCfg (S := S)) "2e".toList "-5".toList = true :=
  ⟨rfl, rfl, rfl, rfl, rfl, rfl, rfl, rfl, rfl, rfl, rfl, rfl, rfl, rfl, rfl⟩

/-- clause (1) is needed: `a b` is two tokens, `ab` one; `2 e1` is two tokens, `2e1` one. -/
example :
    (∃ t, scan (adjCfg (S := S)) "a b".toList = .ok t ∧ t.length = 2) ∧
    (∃ t, scan (adjCfg (S := S)) "ab".toList = .ok t ∧ t.length = 1) ∧
    (∃ t, scan (adjCfg (S := S)) "2 e1".toList = .ok t ∧ t.length = 2) ∧
    (∃ t, scan (adjCfg (S := S)) "2e1".toList = .ok t ∧ t.length = 1) :=
  ⟨⟨_, rfl, rfl⟩, ⟨_, rfl, rfl⟩, ⟨_, rfl, rfl⟩, ⟨_, rfl, rfl⟩⟩

/-- clause (2) is needed although `-` and `5` are both fine next to each other in general:
    `2e- 5` is the four tokens `2`, `e`, `-`, `5`; `2e-5` is one number.  Likewise `2e 5`. -/
example :
    (∃ t, scan (adjCfg (S := S)) "2e- 5".toList = .ok t ∧ t.length = 4) ∧
    (∃ t, scan (adjCfg (S := S)) "2e-5".toList = .ok t ∧ t.length = 1) ∧
    (∃ t, scan (adjCfg (S := S)) "2e 5".toList = .ok t ∧ t.length = 3) ∧
    (∃ t, scan (adjCfg (S := S)) "2e5".toList = .ok t ∧ t.length = 1) :=
  ⟨⟨_, rfl, rfl⟩, ⟨_, rfl, rfl⟩, ⟨_, rfl, rfl⟩, ⟨_, rfl, rfl⟩⟩

/-- clause (3) is needed: `2e -5` is four tokens, `2e-5` one. -/
example :
    (∃ t, scan (adjCfg (S := S)) "2e -5".toList = .ok t ∧ t.length = 4) ∧
    (∃ t, scan (adjCfg (S := S)) "2e-5".toList = .ok t ∧ t.length = 1) :=
  ⟨⟨_, rfl, rfl⟩, ⟨_, rfl, rfl⟩⟩

/-- the rule is conservative, not exact: it asks for the blank in `e -1` (clause (3)) although
    `e-1` has the same three tokens. -/
example :
    needsSepAt (adjCfg (S := S)) "e".toList "-1".toList = true ∧
    (∃ t, scan (adjCfg (S := S)) "e -1".toList = .ok t ∧ t.map (·.lexeme) = [['e'], ['-'], ['1']]) ∧
    (∃ t, scan (adjCfg (S := S)) "e-1".toList = .ok t ∧ t.map (·.lexeme) = [['e'], ['-'], ['1']]) :=
  ⟨rfl, ⟨_, rfl, rfl⟩, ⟨_, rfl, rfl⟩⟩

/-- in `C17_blank_remove_lexemes` the side condition on `-` cannot be dropped: the rule applied
    to the lexemes `-` and `5` alone allows them to touch. -/
example : needsSepAt (adjCfg (S := S)) "-".toList "5".toList = false := rfl

end Examples

end Calc
