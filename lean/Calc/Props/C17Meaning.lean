/-
  Calc.Props.C17Meaning — C17, evaluation half: "blank space never changes MEANING".
  The scanner half (Props/C17Blanks.lean) shows that inserting blanks changes only the line and
  column of the tokens.  Here: evaluation, statement execution and value printing read a token
  only through its kind and its lexeme text; line and column reach nothing but the line and column
  of diagnostics.  Property theorems only.  Vocabulary and proofs: Calc/Proofs/EvalPos.lean
  (`Tok.EqModPos` = same kind and same lexeme; `Expr.SimP`, `Value.SimP`, `Env.SimP`, `Stmt.SimP`
  lift it; `Diag.SimPos` = same kind and info text; `Res.SimP`, `Line.SimP`, `StepOut.SimP`).
-/
import Calc.Proofs.EvalPos
import Calc.Spec.Lexeme
namespace Calc.Props.C17Meaning
open Calc

variable {S : Type} [Add S] [Sub S] [Mul S] [Div S] [Zero S] [One S] [Kernel S]

/-- C17, evaluation: two expressions that differ only in the positions of their tokens,
    evaluated with the same fuel in tables that differ only in the positions of the tokens stored
    in user-function bodies, give the same outcome: values equal up to those stored positions, or
    the same diagnostic (kind and info text) up to its line and column, or the same panic site, or
    both out of fuel; and the returned tables are related again. -/
theorem C17_eval_ignores_positions (fuel : Nat) (e e' : Expr S) (env env' : Env S)
    (he : Expr.SimP e e') (henv : Env.SimP env env') :
    Res.SimP Value.SimP (eval fuel e env).res (eval fuel e' env').res ∧
      Env.SimP (eval fuel e env).env (eval fuel e' env').env := by
  refine ⟨eval_simP fuel e e' env env' he henv, ?_⟩
  rw [eval_env, eval_env]
  exact henv

/-- C17, one statement: related statements run in related tables leave related tables and print
    related lines (values up to stored positions, diagnostics up to line and column). -/
theorem C17_step_ignores_positions (fuel : Nat) (env env' : Env S) (s s' : Stmt S)
    (hs : Stmt.SimP s s') (henv : Env.SimP env env') :
    StepOut.SimP (step fuel env s) (step fuel env' s') :=
  step_simP fuel henv hs

/-- C17, a whole program: pointwise related statement lists run from related tables leave related
    tables and print the same number of lines, pointwise related. -/
theorem C17_run_ignores_positions (fuel : Nat) (env env' : Env S) (ss ss' : List (Stmt S))
    (hs : All₂ Stmt.SimP ss ss') (henv : Env.SimP env env') :
    StepOut.SimP (runStmts fuel env ss) (runStmts fuel env' ss') :=
  runStmts_simP fuel hs henv

omit [Add S] [Sub S] [Mul S] [Div S] [Zero S] [One S] in
/-- C17, printing: related values print as the SAME text (function listings included: `showExpr`
    reads lexemes and tags only). -/
theorem C17_print_ignores_positions (v v' : Value S) (h : Value.SimP v v') :
    showValue v = showValue v' :=
  showValue_simP h

omit [Add S] [Sub S] [Mul S] [Div S] [Zero S] [One S] in
/-- C17: every value line printed by one run is printed as the same text by the other. -/
theorem C17_value_lines_equal (l l' : Line S) (h : Line.SimP l l') (v : Value S)
    (hl : l = .value v) : ∃ v', l' = .value v' ∧ showValue v = showValue v' := by
  subst hl
  cases h with
  | value hv => exact ⟨_, rfl, showValue_simP hv⟩

omit [Add S] [Sub S] [Mul S] [Div S] [Zero S] [One S] [Kernel S] in
/-- the relation on tokens is exactly "same `Tok.noPos`", which is what `C17_blank_insert` and
    `C17_positions_only` deliver for the two scans -/
theorem C17_eqModPos_iff_noPos (t t' : Tok S) : Tok.EqModPos t t' ↔ t.noPos = t'.noPos := by
  simp only [Tok.EqModPos, Tok.noPos, Prod.mk.injEq]

/-- the hypotheses are satisfiable and the relation is not equality: `x` read at 1:1 and `x` read
    at 3:7 are related trees, and different trees -/
example :
    let t : Tok S := ⟨.ident ['x'], ['x'], 1, 1⟩
    let t' : Tok S := ⟨.ident ['x'], ['x'], 3, 7⟩
    Expr.SimP (.ident t) (.ident t') ∧ Stmt.SimP (.expr (.ident t)) (.expr (.ident t')) ∧
      Expr.ident t ≠ Expr.ident t' := by
  refine ⟨.ident ⟨rfl, rfl⟩, .expr (.ident ⟨rfl, rfl⟩), ?_⟩
  intro h
  simp only [Expr.ident.injEq, Tok.mk.injEq] at h
  exact absurd h.2.2.1 (by decide)

end Calc.Props.C17Meaning
