/-
  Calc.Props.C11 — Evaluating an expression never changes the environment.

  `eval` is written state-passing (it returns the table through the same paths as the Rust
  `evaluate(&self, variables: &mut VariableMap)`), so "the table comes back unchanged" is a
  theorem about the model, not part of its type.
-/
import Calc.Model.Stmt
import Calc.Proofs.EnvLemmas
import Calc.Proofs.EvalPure
import Calc.Proofs.EnvStep
namespace Calc

variable {S : Type} [Add S] [Sub S] [Mul S] [Div S] [Zero S] [One S] [Kernel S]

/-- C11, main clause: for every expression tree, every environment and every amount of fuel,
    evaluation hands back exactly the environment it was given (whether it succeeds, reports a
    diagnostic, panics or runs out of fuel). -/
theorem C11_pure : ∀ (fuel : Nat) (e : Expr S) (env : Env S), (eval fuel e env).env = env :=
  eval_env

/-- C11, parameters are scoped to the call: after a call expression every name has the binding it
    had before the call (the parameter bindings made by `bindParams` are gone). -/
theorem C11_params_scoped (fuel : Nat) (callee : Expr S) (paren : Tok S) (args : List (Expr S))
    (env : Env S) (n : Str) :
    Env.get (eval fuel (.call callee paren args) env).env n = Env.get env n := by
  rw [C11_pure]

/-- C11, in particular: a parameter name that was not bound before the call is not bound after. -/
theorem C11_params_not_leaked (fuel : Nat) (callee : Expr S) (paren : Tok S)
    (args : List (Expr S)) (env : Env S) (n : Str) (h : Env.get env n = none) :
    Env.get (eval fuel (.call callee paren args) env).env n = none := by
  rw [C11_params_scoped, h]

/-- C11, repeatability: evaluating the same expression again in the environment returned by the
    first evaluation gives the same result. -/
theorem C11_repeatable (fuel : Nat) (e : Expr S) (env : Env S) :
    (eval fuel e (eval fuel e env).env).res = (eval fuel e env).res := by
  rw [C11_pure]

/-- C11, expression statements: running an expression statement leaves the environment as it was. -/
theorem C11_expr_stmt (fuel : Nat) (env : Env S) (e : Expr S) :
    (step fuel env (.expr e)).env = env :=
  step_expr_env fuel env e

/-! ### a concrete instance: `f(x) = x` called as `f(7)` while a global `x = 1` exists -/

section Example
variable (one seven : S)

private def tokX : Tok S := ⟨.ident "x".toList, "x".toList, 1, 3⟩
private def tokF : Tok S := ⟨.ident "f".toList, "f".toList, 1, 1⟩
private def tokP : Tok S := ⟨.lparen, "(".toList, 1, 2⟩

/-- globals: `x = one`, `f(x) = x` -/
private def exEnv : Env S :=
  [("x".toList, ⟨.number one, false⟩),
   ("f".toList, ⟨.user ⟨"f".toList, [(⟨[.ident "x".toList]⟩, .ident tokX)]⟩, false⟩)]

/-- the call `f(seven)` -/
private def exCall : Expr S := .call (.ident tokF) tokP [.number seven]

/-- The call returns the *argument* (so the parameter `x` really shadowed the global `x` inside
    the body) … -/
example : (eval 3 (exCall seven) (exEnv one)).res = .ok (.number seven) := by
  simp [eval, exCall, exEnv, tokX, tokF, tokP, lookupIdent, Env.get, evalList, callUser,
    sigMatches, bindParams, Env.insert, Env.remove]

/-- … and afterwards the global `x` is still bound to `one`. -/
example : Env.get (eval 3 (exCall seven) (exEnv one)).env "x".toList = some ⟨.number one, false⟩ := by
  rw [C11_pure]; rfl

end Example

end Calc
