/-
  Calc.Props.C17Blanks — C17, scanner half: "inserting spaces, tabs or carriage returns
  between any two tokens changes no token kind, lexeme or value, only positions".
  Property theorems only.  Vocabulary: Calc/Spec/Lexeme.lean (`Boundary`, `Tok.noPos`,
  `Decomp`); proofs: Calc/Proofs/ScanBlank.lean.
-/
import Calc.Proofs.ScanBlank
import Calc.Proofs.ScanTables
namespace Calc
open List

variable {S : Type} [Kernel S]

/-- C17, scanner half: if `x ++ y` scans to `toks` and the split point is a token boundary
    (`x` consists of blanks and whole tokens of that scan), then with any run `b` of spaces,
    tabs and carriage returns inserted there the text still scans, to tokens with the same
    kinds (number values included) and the same texts.  `hblank`: no blank is an
    identifier-continue character (true of `char::is_alphanumeric`, `_`, `°`). -/
theorem C17_blank_insert (cfg : ScanCfg S)
    (hblank : ∀ c, isBlank c = true → isIdentCont cfg c = false)
    (x y b : List Char) (toks : List (Tok S))
    (h : scan cfg (x ++ y) = .ok toks) (hbd : Boundary cfg x y) (hb : b.all isBlank = true) :
    ∃ toks', scan cfg (x ++ b ++ y) = .ok toks' ∧
      toks'.map Tok.noPos = toks.map Tok.noPos := by
  obtain ⟨toks', hs, he⟩ := Scanned.insert_blank hblank hbd hb (scan_ok_iff.1 h)
  rw [append_assoc]
  exact ⟨toks', scan_ok_iff.2 hs, he⟩

/-- C17, scanner half, for the shipped `char::is_alphanumeric` table (`tableCfg`): `hblank`
    holds, so the statement is unconditional in the configuration. -/
theorem C17_blank_insert_table (tab : Nat) (kw : Str → Option (Kind S))
    (x y b : List Char) (toks : List (Tok S))
    (h : scan (tableCfg tab kw) (x ++ y) = .ok toks) (hbd : Boundary (tableCfg tab kw) x y)
    (hb : b.all isBlank = true) :
    ∃ toks', scan (tableCfg tab kw) (x ++ b ++ y) = .ok toks' ∧
      toks'.map Tok.noPos = toks.map Tok.noPos :=
  C17_blank_insert _ (tableCfg_hblank tab kw) x y b toks h hbd hb

/-- C17 "between any two tokens", in terms of the decomposition `b₀ ℓ₁ b₁ … ℓₙ bₙ` of C04: blanks
    may be inserted after any `ℓᵢ` (and before `ℓ₁`, and at the very end). -/
theorem C17_blank_insert_decomp (cfg : ScanCfg S)
    (hblank : ∀ c, isBlank c = true → isIdentCont cfg c = false)
    (input : List Char) (toks : List (Tok S)) (segs : List (List Char × List Char))
    (bn : List Char) (hd : Decomp cfg Pos.start input toks segs bn)
    (h : scan cfg input = .ok toks)
    (pre post : List (List Char × List Char)) (hseg : segs = pre ++ post)
    (b : List Char) (hb : b.all isBlank = true) :
    ∃ toks', scan cfg (flat pre ++ b ++ (flat post ++ bn)) = .ok toks' ∧
      toks'.map Tok.noPos = toks.map Tok.noPos := by
  have e : input = flat pre ++ (flat post ++ bn) := by
    rw [hd.text, hseg, flat_append, append_assoc]
  rw [e] at h
  exact C17_blank_insert cfg hblank _ _ b toks h (hd.boundary pre post hseg) hb

/-- the boundary notion covers every point of a blank gap: a split inside the blank run that
    follows a boundary is again a boundary. -/
theorem C17_boundary_in_gap (cfg : ScanCfg S) (x b y : List Char)
    (h : Boundary cfg x (b ++ y)) (hb : b.all isBlank = true) : Boundary cfg (x ++ b) y :=
  h.append_blanks hb

/-- the locality behind C17, numbers: a literal that ends where the rest `u ++ v` begins is
    the same literal when blanks are inserted anywhere in the rest. -/
theorem C17_number_local (c : Char) (cs u b v : List Char) (hc : isDigit c = true)
    (hrest : (scanNumber (c :: cs)).rest = u ++ v) (hb : b.all isBlank = true) :
    scanNumber ((scanNumber (c :: cs)).text ++ (u ++ (b ++ v))) =
      ⟨(scanNumber (c :: cs)).text, u ++ (b ++ v)⟩ :=
  scanNumber_insert_blank hc hrest hb

/-- the locality behind C17, any token: it is unchanged when blanks are inserted anywhere in
    the text after it. -/
theorem C17_token_local (cfg : ScanCfg S)
    (hblank : ∀ c, isBlank c = true → isIdentCont cfg c = false)
    (ℓ u v b : List Char) (k : Kind S) (h : Lexeme cfg (ℓ ++ (u ++ v)) k ℓ (u ++ v))
    (hb : b.all isBlank = true) :
    Lexeme cfg (ℓ ++ (u ++ (b ++ v))) k ℓ (u ++ (b ++ v)) :=
  h.insert_blank hblank hb

/-- C17 "only positions": positions do not influence kinds, lexemes or values — scanning the
    same text from another start position gives the same tokens up to positions. -/
theorem C17_positions_only (cfg : ScanCfg S) (p p' : Pos) (s : List Char) (toks : List (Tok S))
    (h : Scanned cfg p s toks) :
    ∃ toks', Scanned cfg p' s toks' ∧ toks'.map Tok.noPos = toks.map Tok.noPos :=
  h.change_pos p'

/-! ## Satisfiability and necessity of the hypotheses -/

/-- `hblank` is satisfiable -/
example : ∀ c, isBlank c = true →
    isIdentCont (⟨4, fun c => isIdentStart c || isDigit c, fun _ => none⟩ : ScanCfg S) c = false := by
  intro c h
  simp only [isBlank, Bool.or_eq_true, decide_eq_true_eq] at h
  rcases h with (rfl | rfl) | rfl <;> rfl

/-- the premises are satisfiable: `10e` / `+1` is a boundary of `10e+1` (tokens `10`, `e`, `+`,
    `1`), and inserting a tab and a space there keeps the four tokens. -/
example :
    let cfg : ScanCfg S := ⟨4, fun c => isIdentStart c || isDigit c, fun _ => none⟩
    (∃ toks, scan cfg ("10e".toList ++ "+1".toList) = .ok toks ∧
      toks.map (·.lexeme) = ["10".toList, ['e'], ['+'], ['1']]) ∧
    (∃ toks', scan cfg ("10e".toList ++ "\t ".toList ++ "+1".toList) = .ok toks' ∧
      toks'.map (·.lexeme) = ["10".toList, ['e'], ['+'], ['1']]) :=
  ⟨⟨_, rfl, rfl⟩, ⟨_, rfl, rfl⟩⟩

/-- the boundary hypothesis cannot be dropped: inside `10e5` a blank changes the tokens. -/
example :
    let cfg : ScanCfg S := ⟨4, fun c => isIdentStart c || isDigit c, fun _ => none⟩
    (∃ toks, scan cfg "10e5".toList = .ok toks ∧ toks.length = 1) ∧
    (∃ toks', scan cfg "10 e5".toList = .ok toks' ∧ toks'.length = 2) :=
  ⟨⟨_, rfl, rfl⟩, ⟨_, rfl, rfl⟩⟩

end Calc
