/-
  Calc.Props.C04Scanner — C04 "Tokens carry exact text, value and position".
  Property theorems only.  Vocabulary: Calc/Spec/Lexeme.lean (`NumberVal`, `Lexeme`, `Scanned`,
  `Decomp`, `Boundary`, `CannotBegin`); proofs: Calc/Proofs/Scan*.lean.
-/
import Calc.Proofs.ScanDecomp
namespace Calc
open List

variable {S : Type}

/-! ## Number literals -/

/-- C04 "exact text", number step: the literal's text and the rest split the input exactly. -/
theorem C04_number_text (s : List Char) :
    (scanNumber s).text ++ (scanNumber s).rest = s :=
  scanNumber_text_rest s

/-- C04 "digits, optional fraction, optional `e` / `e-` exponent, nothing else": the float
    reader accepts a text exactly when it has that shape, and then returns the decimal the
    shape denotes (`NumberVal`: mantissa = the digits of `D` and `F` read in base ten,
    exponent = `±E − |F|`). -/
theorem C04_number_value (t : List Char) (d : Decimal) :
    parseDecimal t = some d ↔ NumberVal t d :=
  parseDecimal_iff

/-- C04, number step: the text scanned at a digit always has the literal shape, so the float
    reader accepts it (the `unwrap()` at tokenizer.rs:202,226 cannot fail). -/
theorem C04_number_wf (c : Char) (cs : List Char) (h : isDigit c = true) :
    ∃ d, parseDecimal (scanNumber (c :: cs)).text = some d :=
  parseDecimal_scanNumber cs h

/-- C04, number step, shape form of `C04_number_wf`, and the literal stops before a non-digit. -/
theorem C04_number_shape (c : Char) (cs : List Char) (h : isDigit c = true) :
    NumberText (scanNumber (c :: cs)).text ∧
      ∀ c' r', (scanNumber (c :: cs)).rest = c' :: r' → isDigit c' = false :=
  ⟨(scanNumber_spec h).1, (scanNumber_spec h).2.2⟩

/-- T2 for numbers, "longest match": no prefix of the text that the float reader accepts is
    longer than the literal the scanner takes. -/
theorem C04_longest_number (s t : List Char) (d : Decimal) (hp : t <+: s)
    (ht : parseDecimal t = some d) : t.length ≤ (scanNumber s).text.length :=
  scanNumber_longest hp (parseDecimal_iff.1 ht)

variable [Kernel S]

/-! ## The whole scan -/

/-- C04, master statement: the scanner succeeds with `toks` exactly when `toks` is the
    declarative scan of the text — blank run, token, blank run, …, each token being the
    `Lexeme` at its place with the position of its first character. -/
theorem C04_scanned (cfg : ScanCfg S) (input : List Char) (toks : List (Tok S)) :
    scan cfg input = .ok toks ↔ Scanned cfg Pos.start input toks :=
  scan_ok_iff

/-- C04, all clauses at once in explicit form: a successful scan has a decomposition
    `b₀ ℓ₁ b₁ … ℓₙ bₙ` as described by `Decomp`. -/
theorem C04_decomp (cfg : ScanCfg S) (input : List Char) (toks : List (Tok S))
    (h : scan cfg input = .ok toks) : ∃ segs bn, Decomp cfg Pos.start input toks segs bn :=
  (scan_ok_iff.1 h).decomp

/-- C04 "splits the whole text into tokens whose texts are exact consecutive source slices
    with only blanks skipped between them": `input = b₀ ℓ₁ b₁ … ℓₙ bₙ`, all `bᵢ` blank runs, all
    `ℓᵢ` non-empty, and the token texts are the `ℓᵢ` (the newline token's text being `\n`
    spelled with two characters). -/
theorem C04_reconstruct (cfg : ScanCfg S) (input : List Char) (toks : List (Tok S))
    (h : scan cfg input = .ok toks) :
    ∃ (segs : List (List Char × List Char)) (bn : List Char),
      input = flat segs ++ bn ∧
      bn.all isBlank = true ∧
      (∀ sg ∈ segs, sg.1.all isBlank = true ∧ sg.2 ≠ []) ∧
      toks.map (·.lexeme) = segs.map (fun sg => lexemeOf sg.2) := by
  obtain ⟨segs, bn, hd⟩ := C04_decomp cfg input toks h
  exact ⟨segs, bn, hd.text, hd.trailing, fun sg hsg => ⟨hd.blanks sg hsg, hd.nonempty sg hsg⟩,
    hd.lexemes⟩

/-- C04 "each token's line and column are the 1-based position of its first character with a
    tab counting as the configured tab size": in the decomposition of `C04_reconstruct`, the
    token with slice `ℓᵢ` sits at `advs cfg.tab ⟨1,1⟩ (b₀ ℓ₁ … bᵢ₋₁)`, where `advs` is the
    independent position fold (newline: next line, column 1; tab: `+ cfg.tab`; else `+ 1`). -/
theorem C04_positions (cfg : ScanCfg S) (input : List Char) (toks : List (Tok S))
    (h : scan cfg input = .ok toks) :
    ∃ (segs : List (List Char × List Char)) (bn : List Char),
      input = flat segs ++ bn ∧
      bn.all isBlank = true ∧
      (∀ sg ∈ segs, sg.1.all isBlank = true ∧ sg.2 ≠ []) ∧
      toks.map (·.lexeme) = segs.map (fun sg => lexemeOf sg.2) ∧
      ∀ pre sg post, segs = pre ++ sg :: post →
        ∃ t, toks[pre.length]? = some t ∧ t.lexeme = lexemeOf sg.2 ∧
          (⟨t.line, t.col⟩ : Pos) = advs cfg.tab ⟨1, 1⟩ (flat pre ++ sg.1) := by
  obtain ⟨segs, bn, hd⟩ := C04_decomp cfg input toks h
  refine ⟨segs, bn, hd.text, hd.trailing,
    fun sg hsg => ⟨hd.blanks sg hsg, hd.nonempty sg hsg⟩, hd.lexemes, ?_⟩
  intro pre sg post hseg
  obtain ⟨t, ht, _, hlex, hpos⟩ := hd.token pre sg post hseg
  exact ⟨t, ht, hlex, hpos⟩

/-- C04 "reports the first character that cannot begin a token, with its true line and
    column": a bad-character report splits the text as `pre ++ e.ch :: post` where `pre`
    consists of blanks and whole tokens (`Boundary`), the reported position is the position
    of `e.ch`, and `e.ch` is not a blank, not a single-character token, not an identifier
    start and not a digit. -/
theorem C04_badchar (cfg : ScanCfg S) (input : List Char) (e : ScanErr)
    (h : scan cfg input = .bad e) :
    ∃ pre post, input = pre ++ e.ch :: post ∧ Boundary cfg pre (e.ch :: post) ∧
      (⟨e.line, e.col⟩ : Pos) = advs cfg.tab ⟨1, 1⟩ pre ∧ CannotBegin S e.ch :=
  scanLoop_bad _ _ _ _ h

/-- C04 "each number token has the value of its text", keyed on the text: a token whose text
    starts with a digit is a number token, its text is accepted by the float reader, and its
    value is `f64::from_str` of the exact decimal read. -/
theorem C04_number_start (cfg : ScanCfg S) (input : List Char) (toks : List (Tok S))
    (h : scan cfg input = .ok toks) (t : Tok S) (ht : t ∈ toks)
    (c : Char) (r : List Char) (hlex : t.lexeme = c :: r) (hc : isDigit c = true) :
    ∃ d, parseDecimal t.lexeme = some d ∧ NumberVal t.lexeme d ∧
      t.kind = .number (Kernel.ofDecimal d.mant d.exp) := by
  obtain ⟨s', ℓ, r', hl, hlx⟩ := (scan_ok_iff.1 h).mem ht
  rw [hlx] at hlex
  obtain ⟨h1, cs, rfl⟩ := hl.lexeme_head hlex (.inl hc)
  obtain ⟨_, _, d, hp, hk⟩ := hl.number_of_digit hc
  rw [hlx, h1]
  exact ⟨d, hp, parseDecimal_iff.1 hp, hk⟩

/-- C04 "each number token has the value of its text", keyed on the kind: provided the
    keyword table never yields a number kind (`hkw`), every token of kind `.number z` has a
    text the float reader accepts and `z` is its value. -/
theorem C04_number (cfg : ScanCfg S)
    (hkw : ∀ w k, cfg.keyword w = some k → ∀ z, k ≠ .number z)
    (input : List Char) (toks : List (Tok S))
    (h : scan cfg input = .ok toks) (t : Tok S) (ht : t ∈ toks) (z : S)
    (hz : t.kind = .number z) :
    ∃ d, parseDecimal t.lexeme = some d ∧ NumberVal t.lexeme d ∧
      z = Kernel.ofDecimal d.mant d.exp := by
  obtain ⟨s', ℓ, r', hl, hlx⟩ := (scan_ok_iff.1 h).mem ht
  rw [hz] at hl
  obtain ⟨c, cs, rfl, hc⟩ := Lexeme.digit_of_number hkw hl
  obtain ⟨hℓ, _, d, hp, hk⟩ := hl.number_of_digit hc
  obtain ⟨_, c', ℓ', _, hℓ', hs⟩ := hl.split
  injection hs with hcc _
  subst hcc
  have hcn : c ≠ '\n' := fun e => by rw [e] at hc; exact absurd hc (by decide)
  rw [hlx, hℓ', lexemeOf_cons_ne _ hcn, ← hℓ']
  injection hk with hk
  exact ⟨d, hp, parseDecimal_iff.1 hp, hk⟩

/-- C04 "a word is a keyword or unit exactly when the whole word is in the table": a token
    whose text starts with an identifier-start character has the table's kind for its whole
    text when the table has one, and is otherwise the identifier named by its whole text. -/
theorem C04_keyword (cfg : ScanCfg S) (input : List Char) (toks : List (Tok S))
    (h : scan cfg input = .ok toks) (t : Tok S) (ht : t ∈ toks)
    (c : Char) (r : List Char) (hlex : t.lexeme = c :: r) (hc : isIdentStart c = true) :
    (∀ k, cfg.keyword t.lexeme = some k → t.kind = k) ∧
    (cfg.keyword t.lexeme = none → t.kind = .ident t.lexeme) ∧
    (∀ x ∈ t.lexeme, isIdentCont cfg x = true) := by
  obtain ⟨s', ℓ, r', hl, hlx⟩ := (scan_ok_iff.1 h).mem ht
  rw [hlx] at hlex
  obtain ⟨h1, cs, rfl⟩ := hl.lexeme_head hlex (.inr hc)
  obtain ⟨hℓ, _, hk⟩ := hl.word_of_start hc
  rw [hlx, h1, hk]
  refine ⟨fun k hk' => by simp [wordKind, hk'], fun hk' => by simp [wordKind, hk'], ?_⟩
  rw [hℓ]; exact all_takeWhile _ _

/-- C04 "the whole word": in the decomposition, the slice of a word token is the maximal run
    of identifier-continue characters at its place — `ℓᵢ = takeWhile cont (ℓᵢ bᵢ ℓᵢ₊₁ … bₙ)`. -/
theorem C04_keyword_maximal (cfg : ScanCfg S) (input : List Char) (toks : List (Tok S))
    (segs : List (List Char × List Char)) (bn : List Char)
    (hd : Decomp cfg Pos.start input toks segs bn)
    (pre post : List (List Char × List Char)) (sg : List Char × List Char)
    (hseg : segs = pre ++ sg :: post) (c : Char) (ℓ' : List Char) (hsg : sg.2 = c :: ℓ')
    (hc : isIdentStart c = true) :
    ∃ t, toks[pre.length]? = some t ∧ t.lexeme = sg.2 ∧ t.kind = wordKind cfg sg.2 ∧
      sg.2 = (sg.2 ++ (flat post ++ bn)).takeWhile (isIdentCont cfg) := by
  obtain ⟨t, ht, hl, hlex, _⟩ := hd.token pre sg post hseg
  rw [hsg, cons_append] at hl
  obtain ⟨hℓ, _, hk⟩ := hl.word_of_start hc
  obtain ⟨h1, _⟩ := hl.lexeme_head (c := c) (t := ℓ')
    (by rcases hl.lexemeOf with h | ⟨h, _⟩
        · exact h
        · injection h with h _; subst h; exact absurd hc (by decide)) (.inr hc)
  refine ⟨t, ht, ?_, ?_, ?_⟩
  · rw [hlex, hsg, h1]
  · rw [hsg]; exact hk
  · rw [hsg, cons_append]; exact hℓ

/-- T2 "longest match": the token at the head of a text is the longest prefix that is a
    lexeme of its class.  Words: every character of the slice is a continue character and no
    longer prefix consists of continue characters.  Numbers: the slice is an accepted literal
    and no longer prefix is one.  (Single-character tokens have no longer candidates.) -/
theorem C04_longest_match (cfg : ScanCfg S) (c : Char) (cs ℓ r : List Char) (k : Kind S)
    (h : Lexeme cfg (c :: cs) k ℓ r) :
    ℓ ++ r = c :: cs ∧
    (isIdentStart c = true →
      (∀ x ∈ ℓ, isIdentCont cfg x = true) ∧
      ∀ w, w <+: c :: cs → (∀ x ∈ w, isIdentCont cfg x = true) → w.length ≤ ℓ.length) ∧
    (isDigit c = true →
      (∃ d, parseDecimal ℓ = some d) ∧
      ∀ t d, t <+: c :: cs → parseDecimal t = some d → t.length ≤ ℓ.length) := by
  refine ⟨h.split.1, fun hc => ?_, fun hc => ?_⟩
  · obtain ⟨hℓ, _, _⟩ := h.word_of_start hc
    rw [hℓ]
    exact ⟨all_takeWhile _ _, fun w hw hall => (prefix_takeWhile hall hw).length_le⟩
  · obtain ⟨hℓ, _, d, hp, _⟩ := h.number_of_digit hc
    refine ⟨⟨d, hp⟩, fun t d' ht hp' => ?_⟩
    rw [hℓ]
    exact scanNumber_longest ht (parseDecimal_iff.1 hp')

/-! ## Satisfiability of the hypotheses -/

/-- `hkw` of `C04_number` holds for any table whose entries are keywords, operators and
    units, e.g. the empty table. -/
example : ∀ w k, (⟨4, fun _ => false, fun _ => none⟩ : ScanCfg S).keyword w = some k →
    ∀ z, k ≠ .number z := by
  intro w k h; cases h

/-- without `hkw` the statement of `C04_number` fails in the model: a table may map a word to
    a number kind, whose text is not a literal. -/
example (z : S) :
    scan (⟨4, fun c => isIdentStart c, fun _ => some (.number z)⟩ : ScanCfg S) ['a'] =
      .ok [⟨.number z, ['a'], 1, 1⟩] := by
  rfl

/-- the premises of the scan theorems are satisfiable: `1.5e-3 x` followed by a newline
    scans to three tokens. -/
example :
    ∃ toks, scan (⟨4, fun c => isIdentStart c || isDigit c, fun _ => none⟩ : ScanCfg S)
      "1.5e-3\tx\n".toList = .ok toks ∧ toks.map (fun t => (t.lexeme, t.line, t.col)) =
        [("1.5e-3".toList, 1, 1), (['x'], 1, 11), (['\\', 'n'], 1, 12)] :=
  ⟨_, rfl, rfl⟩

/-- a bad-character report is reachable -/
example :
    scan (⟨4, fun c => isIdentStart c || isDigit c, fun _ => none⟩ : ScanCfg S) "1 $".toList =
      .bad ⟨1, 3, '$'⟩ := by
  rfl

end Calc
