/-
  Calc.Props.C16 — File, argument and interactive modes run the same statements the same way
  (model half; the binary is checked by the streams).

  In the model all three modes go through `processText` on `ensureTrailingNewline text`: a file
  text, the expression argument, and every prompt line.  `session` threads one table through the
  file, then the expression or the prompt lines.
-/
import Calc.Model.Front
import Calc.Proofs.EnvLemmas
import Calc.Proofs.EvalPure
import Calc.Proofs.EnvStep
import Calc.Proofs.FrontLemmas
import Calc.Proofs.FrontScanTab
import Calc.Proofs.FrontParseTab
import Calc.Props.C10
import Calc.Props.C12
namespace Calc

variable {S : Type} [Add S] [Sub S] [Mul S] [Div S] [Zero S] [One S] [Kernel S]

/-! ## a missing final newline makes no difference -/

/-- C16, "a missing final newline makes no difference": normalisation is idempotent, leaves a
    text that ends in a newline alone, and therefore a file text, an expression text or a prompt
    line that does not end in a newline gives exactly the same session (table and output) as the
    same text with the newline added. -/
theorem C16_trailing_newline :
    (∀ t : Str, ensureTrailingNewline (ensureTrailingNewline t) = ensureTrailingNewline t) ∧
    (∀ t : Str, ensureTrailingNewline (t ++ ['\n']) = t ++ ['\n']) ∧
    (∀ (cfg : ScanCfg S) (fuel : Nat) (init : Env S) (t : Str) (e : Option Str) (l : List Str),
      t.getLast? ≠ some '\n' →
      session cfg fuel init (some t) e l = session cfg fuel init (some (t ++ ['\n'])) e l) ∧
    (∀ (cfg : ScanCfg S) (fuel : Nat) (init : Env S) (f : Option Str) (t : Str) (l : List Str),
      t.getLast? ≠ some '\n' →
      session cfg fuel init f (some t) l = session cfg fuel init f (some (t ++ ['\n'])) l) ∧
    (∀ (cfg : ScanCfg S) (fuel : Nat) (env : Env S) (t : Str) (ls : List Str),
      t.getLast? ≠ some '\n' → isExit t = false → isExit (t ++ ['\n']) = false →
      repl cfg fuel env (t :: ls) = repl cfg fuel env ((t ++ ['\n']) :: ls)) := by
  refine ⟨ensureTrailingNewline_idem, ensureTrailingNewline_append_newline, ?_, ?_, ?_⟩
  · intro cfg fuel init t e l h
    simp only [session, ensureTrailingNewline_missing h]
  · intro cfg fuel init f t l h
    simp only [session, ensureTrailingNewline_missing h]
  · intro cfg fuel env t ls h h1 h2
    rw [repl_cons_not_exit cfg fuel env t ls h1, repl_cons_not_exit cfg fuel env _ ls h2,
      ensureTrailingNewline_missing h]

/-! ## one table through the whole session -/

/-- C16, "the environment after the file is the one the expression / the prompt lines start
    from", by unfolding `session`: with a file and an expression the expression text is processed
    in the table the file text left, and the output is the file's output followed by the
    expression's; with a file and no expression the prompt loop starts from the table the file
    left (banner before, goodbye after); without a file both start from the initial table; and
    inside the prompt loop every line that is not an exit line is processed in the table the
    previous line left. -/
theorem C16_env_shared (cfg : ScanCfg S) (fuel : Nat) (init : Env S) (f e : Str)
    (l : List Str) :
    session cfg fuel init (some f) (some e) l =
      (let o1 := processText cfg fuel init (ensureTrailingNewline f)
       let o2 := processText cfg fuel o1.env (ensureTrailingNewline e)
       ⟨o2.env, o1.out ++ o2.out⟩) ∧
    session cfg fuel init (some f) none l =
      (let o1 := processText cfg fuel init (ensureTrailingNewline f)
       let o2 := repl cfg fuel o1.env l
       ⟨o2.env, o1.out ++ [.banner] ++ o2.out ++ [.goodbye]⟩) ∧
    session cfg fuel init none (some e) l = processText cfg fuel init (ensureTrailingNewline e) ∧
    session cfg fuel init none none l =
      ⟨(repl cfg fuel init l).env, [.banner] ++ (repl cfg fuel init l).out ++ [.goodbye]⟩ ∧
    (∀ (env : Env S) (x : Str) (xs : List Str), isExit x = false →
      repl cfg fuel env (x :: xs) =
        (let o1 := processText cfg fuel env (ensureTrailingNewline x)
         let o2 := repl cfg fuel o1.env xs
         ⟨o2.env, o1.out ++ o2.out⟩)) :=
  ⟨rfl, rfl, rfl, rfl, fun env x xs h => repl_cons_not_exit cfg fuel env x xs h⟩

/-- C16, the three modes agree on one text: given as the expression argument, as the file (with
    an empty prompt session after it), or as the only prompt line, a text `t` is run by the same
    `processText` call from the same table; the final table is the same, and the output is the
    same lines (the interactive modes add the banner and the goodbye line around them). -/
theorem C16_modes_agree (cfg : ScanCfg S) (fuel : Nat) (init : Env S) (t : Str)
    (hx : isExit t = false) :
    let o := processText cfg fuel init (ensureTrailingNewline t)
    session cfg fuel init none (some t) [] = o ∧
    session cfg fuel init (some t) none [] = ⟨o.env, o.out ++ [.banner] ++ [] ++ [.goodbye]⟩ ∧
    session cfg fuel init none none [t] = ⟨o.env, [.banner] ++ (o.out ++ []) ++ [.goodbye]⟩ := by
  refine ⟨rfl, rfl, ?_⟩
  simp only [session, repl_cons_not_exit cfg fuel init t [] hx, repl_nil]
  rfl

/-- a statement list that contains no `clear` and no statement targeting `k` leaves the binding
    of `k` as it was (`C12_frame` along a list) -/
theorem runStmts_frame (fuel : Nat) (k : Str) (ss : List (Stmt S))
    (h : ∀ s ∈ ss, s ≠ .clear ∧ some k ≠ s.target) :
    ∀ env : Env S, Env.get (runStmts fuel env ss).env k = Env.get env k := by
  induction ss with
  | nil => intro env; rfl
  | cons s ss ih =>
    intro env
    simp only [runStmts]
    rw [ih (fun x hx => h x (List.mem_cons_of_mem _ hx))]
    exact C12_frame fuel env s (h s List.mem_cons_self).1 k (h s List.mem_cons_self).2

/-- C16, corollary of the shared table: whatever the file text binds to `k` (or leaves unbound) is
    what `k` is bound to after the expression text, when the statements of the expression text
    contain no `clear` and none that assigns, defines or deletes `k`.  (If the expression text
    is malformed it runs nothing and the conclusion holds as well, by `C10_text`.) -/
theorem C16_file_binding_visible (cfg : ScanCfg S) (fuel : Nat) (init : Env S) (f e : Str)
    (l : List Str) (k : Str) (toks : List (Tok S)) (stmts : List (Stmt S))
    (hs : scan cfg (ensureTrailingNewline e) = .ok toks) (hp : parse toks = .ok stmts)
    (hno : ∀ s ∈ stmts, s ≠ .clear ∧ some k ≠ s.target) :
    Env.get (session cfg fuel init (some f) (some e) l).env k =
      Env.get (processText cfg fuel init (ensureTrailingNewline f)).env k := by
  simp only [session]
  generalize (processText cfg fuel init (ensureTrailingNewline f)).env = env1
  simp only [processText, hs, hp]
  exact runStmts_frame fuel k stmts hno env1

/-! ## the exit line -/

/-- C16, "`exit` in any letter case, surrounded by any white space, ends the prompt session":
    (1) what an exit line is; (2) an exit line ends the loop: the table is returned as it is,
    nothing is printed for it, and the remaining lines are ignored; (3) every line before the
    first exit line is processed, exactly as if the input had ended there. -/
theorem C16_exit (cfg : ScanCfg S) (fuel : Nat) :
    (∀ l : Str, isExit l = true ↔ (trim l).map asciiLower = "exit".toList) ∧
    (∀ (env : Env S) (l : Str) (ls : List Str), isExit l = true →
      repl cfg fuel env (l :: ls) = ⟨env, []⟩) ∧
    (∀ (env : Env S) (pre : List Str) (x : Str) (post : List Str), isExit x = true →
      (∀ l ∈ pre, isExit l = false) →
      repl cfg fuel env (pre ++ x :: post) = replRun cfg fuel env pre ∧
      repl cfg fuel env (pre ++ x :: post) = repl cfg fuel env pre) := by
  refine ⟨?_, ?_, ?_⟩
  · intro l
    simp [isExit]
  · intro env l ls h
    exact repl_cons_exit cfg fuel env l ls h
  · intro env pre x post hx hpre
    have h1 := repl_stop_at_exit cfg fuel pre x post hx hpre env
    exact ⟨h1, by rw [h1, repl_eq_replRun cfg fuel pre hpre env]⟩

/-! ## a malformed line is isolated -/

/-- C16, "a malformed interactive line affects only itself": if a prompt line (not an exit line)
    fails to scan, or scans and fails to parse, then it prints exactly one line, a failure line,
    leaves the table unchanged, and the remaining lines run exactly as they would have run
    without it. -/
theorem C16_line_isolation (cfg : ScanCfg S) (fuel : Nat) (env : Env S) (bad : Str)
    (ls : List Str) (hx : isExit bad = false)
    (hbad : (∀ toks, scan cfg (ensureTrailingNewline bad) ≠ .ok toks) ∨
      (∃ toks, scan cfg (ensureTrailingNewline bad) = .ok toks ∧
        ∀ stmts, parse toks ≠ .ok stmts)) :
    ∃ line : Line S, line.isFailure = true ∧
      processText cfg fuel env (ensureTrailingNewline bad) = ⟨env, [line]⟩ ∧
      repl cfg fuel env (bad :: ls) =
        ⟨(repl cfg fuel env ls).env, [line] ++ (repl cfg fuel env ls).out⟩ := by
  obtain ⟨he, hl⟩ := C10_text cfg fuel env (ensureTrailingNewline bad) hbad
  have hf := C10_text_line cfg fuel env (ensureTrailingNewline bad) hbad
  rw [repl_cons_not_exit cfg fuel env bad ls hx]
  generalize processText cfg fuel env (ensureTrailingNewline bad) = o at he hl hf
  obtain ⟨oenv, oout⟩ := o
  simp only at he hl hf
  subst he
  match oout, hl, hf with
  | [line], _, hf => exact ⟨line, hf line List.mem_cons_self, rfl, rfl⟩

/-! ## the tab size only moves positions -/

omit [Add S] [Sub S] [Mul S] [Div S] [Zero S] [One S] in
/-- C16, "the tab size affects reported columns only", scanner: two configurations that differ
    only in the tab size scan every text to the same result once positions are erased — the same
    token kinds and lexemes in the same order, or a failure on the same character, or the same
    panic. -/
theorem C16_tabsize (cfg₁ cfg₂ : ScanCfg S) (ha : cfg₁.isAlnum = cfg₂.isAlnum)
    (hk : cfg₁.keyword = cfg₂.keyword) (t : Str) :
    (scan cfg₁ t).erasePos = (scan cfg₂ t).erasePos :=
  scan_erasePos cfg₁ cfg₂ ha hk t

omit [Add S] [Sub S] [Mul S] [Div S] [Zero S] [One S] [Kernel S] in
/-- C16, "the tab size affects reported columns only", parser: parsing commutes with erasing
    positions — no decision of the parser depends on a line or a column. -/
theorem C16_parse_positions (toks : List (Tok S)) :
    parse (toks.map Tok.erasePos) = (parse toks).erasePos :=
  parse_erasePos toks

omit [Add S] [Sub S] [Mul S] [Div S] [Zero S] [One S] in
/-- C16, "the tab size affects reported columns only", scanner and parser together: if a text
    scans under one tab size it scans under the other, to the same tokens up to positions, and
    the two token lists parse to the same statements up to positions (or to the same parse error
    up to its position). -/
theorem C16_tabsize_statements (cfg₁ cfg₂ : ScanCfg S) (ha : cfg₁.isAlnum = cfg₂.isAlnum)
    (hk : cfg₁.keyword = cfg₂.keyword) (t : Str) (toks₁ : List (Tok S))
    (h1 : scan cfg₁ t = .ok toks₁) :
    ∃ toks₂, scan cfg₂ t = .ok toks₂ ∧
      toks₁.map Tok.erasePos = toks₂.map Tok.erasePos ∧
      (parse toks₁).erasePos = (parse toks₂).erasePos :=
  scan_parse_erasePos cfg₁ cfg₂ ha hk t toks₁ h1

omit [Add S] [Sub S] [Mul S] [Div S] [Zero S] [One S] in
/-- C16, `C16_tabsize` specialised: changing only the `tab` field. -/
theorem C16_tabsize_field (cfg : ScanCfg S) (tab : Nat) (t : Str) :
    (scan { cfg with tab := tab } t).erasePos = (scan cfg t).erasePos :=
  scan_erasePos { cfg with tab := tab } cfg rfl rfl t

/-! ## examples -/

example : isExit "exit".toList = true := by decide
example : isExit "  EXIT ".toList = true := by decide
example : isExit "eXiT".toList = true := by decide
example : isExit "\texit\r".toList = true := by decide
example : isExit "exits".toList = false := by decide
example : isExit "exit now".toList = false := by decide
example : isExit "".toList = false := by decide

/-- `C16_trailing_newline`: the side condition holds for a text such as `1+1`, and fails (as it
    should) for `1+1\n`. -/
example : "1+1".toList.getLast? ≠ some '\n' ∧ "1+1\n".toList.getLast? = some '\n' := by
  decide

/-- `C16_exit` (3): with the lines `a`, `exit`, `b` the loop processes exactly `a`. -/
example (cfg : ScanCfg S) (fuel : Nat) (env : Env S) :
    repl cfg fuel env ["a".toList, "exit".toList, "b".toList] =
      replRun cfg fuel env ["a".toList] :=
  ((C16_exit cfg fuel).2.2 env ["a".toList] "exit".toList ["b".toList] (by decide)
    (by decide)).1

/-- `C16_line_isolation`: the line `$` is not an exit line and does not scan, whatever the
    configuration. -/
example (cfg : ScanCfg S) :
    isExit "$".toList = false ∧
    ∀ toks, scan cfg (ensureTrailingNewline "$".toList) ≠ .ok toks := by
  refine ⟨by decide, ?_⟩
  intro toks h
  simp [ensureTrailingNewline, scan, scanLoop, isBlank, singleKind, isIdentStart, isDigit] at h

end Calc
