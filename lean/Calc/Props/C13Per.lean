/-
  Calc.Props.C13Per — the distinctness / deletion theorems of C13 under a hypothesis that IEEE
  binary64 SATISFIES.

  `Calc/Props/C13.lean` proves `C13_distinct`, `C13_sigEquiv_iff`, `C13_delete_exactly_one`,
  `C13_delete_at_most_one`, `C13_distinct_session` under
      `heq : ∀ a b, Kernel.eq a b = true ↔ a = b`,
  which holds for the exact scalar type (ℂ) but is false for the `Complex64` the Rust code
  computes with: `NaN == NaN` is false and `-0.0 == 0.0` is true (`C13_f64_eq_is_not_eq` below).
  Here `Kernel.eq` is only assumed to be a partial equivalence, reflexive on the scalars
  satisfying `ok` (`EqPer`; `ok` = "no part is a NaN"), which binary64 `==` is
  (`C13_f64_eq_is_per`).  Reflexivity — hence `ok` of the literals — is needed only for
  "a signature is equivalent to itself"; everything about `PairwiseInequiv` needs symmetry and
  transitivity only, so it holds with NO condition on the literals.

  Property theorems only; proofs are in Calc/Proofs/SigPer.lean (generic), SigPerBits.lean
  (binary64 patterns, core Lean only) and SigPerLits.lean (decimal literals are not NaN).
-/
import Calc.Props.C13
import Calc.Proofs.SigPer
import Calc.Proofs.SigPerBits
import Calc.Proofs.SigPerLits
namespace Calc.Props.C13Per
open Calc

/-! ## what `sigEquiv` means -/

section Equiv
variable {S : Type} [Kernel S]

/-- C13, "same count, same literals in the same positions, parameter names irrelevant", for an
    ARBITRARY `Kernel.eq`: two signatures are equivalent exactly when they have the same length
    and at every position either both hold a name (any names) or both hold a literal and the
    literals are `==`. -/
theorem C13_sigEquiv_per (ps qs : List (Param S)) :
    sigEquiv ps qs = true ↔
      ps.length = qs.length ∧
      ∀ (i : Nat) (p q : Param S), ps[i]? = some p → qs[i]? = some q →
        ((∃ a b, p = .ident a ∧ q = .ident b) ∨
         (∃ z w, p = .number z ∧ q = .number w ∧ Kernel.eq z w = true)) := by
  rw [sigEquiv_iff']
  constructor
  · rintro ⟨hl, h⟩
    exact ⟨hl, fun i p q hp hq => (paramEquiv_iff' p q).mp (h i p q hp hq)⟩
  · rintro ⟨hl, h⟩
    exact ⟨hl, fun i p q hp hq => (paramEquiv_iff' p q).mpr (h i p q hp hq)⟩

/-- C13, `sigEquiv` is a partial equivalence when `Kernel.eq` is: (1) reflexive on signatures
    whose literals are `ok`; (2) symmetric; (3) transitive; (4) a signature equivalent to anything
    is equivalent to itself; (5) conversely a signature is equivalent to itself only if each of
    its literals is `==` to itself (for binary64: is not NaN). -/
theorem C13_sigEquiv_is_per {ok : S → Prop} (hper : EqPer S ok) :
    (∀ ps : List (Param S), SigLitsOK ok ps → sigEquiv ps ps = true) ∧
    (∀ ps qs : List (Param S), sigEquiv ps qs = true → sigEquiv qs ps = true) ∧
    (∀ ps qs rs : List (Param S), sigEquiv ps qs = true → sigEquiv qs rs = true →
      sigEquiv ps rs = true) ∧
    (∀ ps qs : List (Param S), sigEquiv ps qs = true → sigEquiv ps ps = true) ∧
    (∀ ps : List (Param S), sigEquiv ps ps = true →
      ∀ z, Param.number z ∈ ps → Kernel.eq z z = true) := by
  refine ⟨fun _ => sigEquiv_refl_per hper, fun _ _ => sigEquiv_symm_per hper,
    fun _ _ _ => sigEquiv_trans_per hper, fun _ _ => sigEquiv_self_of_left hper, ?_⟩
  intro ps h z hz
  obtain ⟨i, hi⟩ := List.mem_iff_getElem?.mp hz
  rcases ((C13_sigEquiv_per ps ps).mp h).2 i _ _ hi hi with ⟨a, _, ha, _⟩ | ⟨z', w', h1, h2, h3⟩
  · cases ha
  · cases h1; cases h2; exact h3

end Equiv

/-! ## distinctness -/

section Stmts
variable {S : Type} [Add S] [Sub S] [Mul S] [Div S] [Zero S] [One S] [Kernel S]

/-- C13, the invariant "no two signatures of a function are equivalent, and no stored function has
    an empty list", when `Kernel.eq` is a PARTIAL EQUIVALENCE (true of binary64):
    (1) `defineSig` preserves `PairwiseInequiv`, never returns the empty list, and keeps all
        literal parameters `ok` if those of the new signature are;
    (2) filtering (signature deletion) preserves `PairwiseInequiv` and `ok` literals;
    (3) every statement preserves `FnInv` — no condition on any literal, NaN included;
    (4) every statement whose definition literals are `ok` preserves "`FnInv`, and every stored
        literal parameter is `ok`" (`EnvP (GoodLitFn ok)`);
    (5) in every table reachable by statements from a table that stores no user function, every
        visible user function has a non-empty, pairwise inequivalent signature list;
    (6) if moreover the literals of the definitions are `ok` (for binary64: not NaN — true of
        every decimal literal, `C13_literal_not_nan`), every signature of every visible function
        is equivalent to itself, so defining it again replaces it in place. -/
theorem C13_distinct_per {ok : S → Prop} (hper : EqPer S ok) :
    (∀ (sigs : List (Sig S × Expr S)) (sig : Sig S) (body : Expr S), PairwiseInequiv sigs →
      PairwiseInequiv (defineSig sigs sig body) ∧ defineSig sigs sig body ≠ [] ∧
      (SigsLitsOK ok sigs → SigLitsOK ok sig.params →
        SigsLitsOK ok (defineSig sigs sig body))) ∧
    (∀ (sigs : List (Sig S × Expr S)) (p : Sig S × Expr S → Bool), PairwiseInequiv sigs →
      PairwiseInequiv (sigs.filter p) ∧ (SigsLitsOK ok sigs → SigsLitsOK ok (sigs.filter p))) ∧
    (∀ (fuel : Nat) (env : Env S) (s : Stmt S), FnInv env → FnInv (step fuel env s).env) ∧
    (∀ (fuel : Nat) (env : Env S) (s : Stmt S), StmtLitsOK ok s →
      EnvP (GoodLitFn ok) env → EnvP (GoodLitFn ok) (step fuel env s).env) ∧
    (∀ (fuel : Nat) (init : Env S) (ss : List (Stmt S)),
      (∀ kv ∈ init, ∀ fn, kv.2.value ≠ .user fn) →
      ∀ k fn c, Env.get (runStmts fuel init ss).env k = some ⟨.user fn, c⟩ →
        fn.sigs ≠ [] ∧ PairwiseInequiv fn.sigs) ∧
    (∀ (fuel : Nat) (init : Env S) (ss : List (Stmt S)),
      (∀ kv ∈ init, ∀ fn, kv.2.value ≠ .user fn) → (∀ s ∈ ss, StmtLitsOK ok s) →
      ∀ k fn c, Env.get (runStmts fuel init ss).env k = some ⟨.user fn, c⟩ →
        ∀ e ∈ fn.sigs, SigLitsOK ok e.1.params ∧ sigEquiv e.1.params e.1.params = true) := by
  refine ⟨?_, ?_, ?_, ?_, ?_, ?_⟩
  · intro sigs sig body h
    exact ⟨h.defineSig_per hper sig body, defineSig_ne_nil sigs sig body,
      fun h1 h2 => h1.defineSig h2 body⟩
  · intro sigs p h
    exact ⟨h.filter p, fun h1 => h1.filter p⟩
  · intro fuel env s h
    exact fnInv_step_per hper fuel env s h
  · intro fuel env s hs h
    exact goodLit_step hper fuel env s hs h
  · intro fuel init ss hinit k fn c hg
    have := fnInv_runStmts_per hper fuel ss init (FnInv.of_no_user hinit)
    exact this.get hg fn rfl
  · intro fuel init ss hinit hss k fn c hg e he
    have := goodLit_runStmts hper fuel ss init hss (EnvP.of_no_user hinit)
    have hfn : GoodLitFn ok fn := this.get hg fn rfl
    exact ⟨hfn.2 e he, sigEquiv_refl_per hper (hfn.2 e he)⟩

/-- C13, the invariant along a whole session (file, then expression or prompt lines) started on a
    table that stores no user function, when `Kernel.eq` is a partial equivalence.  Nothing is
    assumed of the scanner configuration or of the literals in the text. -/
theorem C13_distinct_session_per {ok : S → Prop} (hper : EqPer S ok) (cfg : ScanCfg S)
    (fuel : Nat) (init : Env S) (file expr : Option Str) (stdin : List Str)
    (hinit : ∀ kv ∈ init, ∀ fn, kv.2.value ≠ .user fn) (k : Str) (fn : UserFn S) (c : Bool)
    (hg : Env.get (session cfg fuel init file expr stdin).env k = some ⟨.user fn, c⟩) :
    fn.sigs ≠ [] ∧ PairwiseInequiv fn.sigs :=
  (fnInv_session_per hper cfg fuel init file expr stdin (FnInv.of_no_user hinit)).get hg fn rfl

omit [Add S] [Sub S] [Mul S] [Div S] [Zero S] [One S] in
/-- C13, "defining a signature equivalent to an existing one replaces that one": under the
    invariant at most ONE stored entry is equivalent to any given signature, so the entry
    `defineSig` replaces is the only candidate. -/
theorem C13_define_at_most_one_per {ok : S → Prop} (hper : EqPer S ok)
    (sigs : List (Sig S × Expr S)) (sig : Sig S) (hinv : PairwiseInequiv sigs) :
    sigs.countP (fun se => sigEquiv se.1.params sig.params) ≤ 1 :=
  countP_sigEquiv_le_one_per hper hinv sig

/-! ## deletion

  `C13_delete_exactly_one` / `C13_delete_at_most_one` speak of entries that are `==` (`sigEq`, a
  `Bool`), never of entries that are `=`; `sigEq` implies `sigEquiv` for any `Kernel.eq`.  So they
  hold VERBATIM under the partial-equivalence hypothesis, and one more fact can be added. -/

omit [Add S] [Sub S] [Mul S] [Div S] [Zero S] [One S] in
/-- C13, "removes exactly that one", under the invariant and a partial equivalence: if the list is
    `pre ++ (s, b) :: post` with `s == sig`, then (1) the kept list is `pre ++ post`; (2) exactly
    one entry goes; (3) no kept entry is even EQUIVALENT to `sig`, so (4) defining `sig` afterwards
    appends it at the end (the deleted signature does not come back in its old place). -/
theorem C13_delete_exactly_one_per {ok : S → Prop} (hper : EqPer S ok)
    (pre post : List (Sig S × Expr S)) (s : Sig S) (b : Expr S) (sig : Sig S)
    (hinv : PairwiseInequiv (pre ++ (s, b) :: post)) (hs : sigEq s.params sig.params = true) :
    (pre ++ (s, b) :: post).filter (fun se => !sigEq se.1.params sig.params) = pre ++ post ∧
    ((pre ++ (s, b) :: post).filter (fun se => !sigEq se.1.params sig.params)).length + 1 =
      (pre ++ (s, b) :: post).length ∧
    (∀ e ∈ pre ++ post, sigEquiv e.1.params sig.params = false) ∧
    (∀ body, defineSig (pre ++ post) sig body = pre ++ post ++ [(sig, body)]) := by
  have h := filter_sigEq_remove_exactly_per hper pre post s b sig hinv hs
  have h3 := inequiv_after_delete_per hper pre post s b sig hinv hs
  rw [h]
  exact ⟨rfl, by simp; omega, h3, fun body => defineSig_append _ sig body h3⟩

omit [Add S] [Sub S] [Mul S] [Div S] [Zero S] [One S] in
/-- C13, the same without naming the entry: under the invariant and a partial equivalence, if
    anything is removed then exactly one entry is. -/
theorem C13_delete_at_most_one_per {ok : S → Prop} (hper : EqPer S ok)
    (sigs : List (Sig S × Expr S)) (sig : Sig S) (hinv : PairwiseInequiv sigs)
    (hex : ∃ se ∈ sigs, sigEq se.1.params sig.params = true) :
    (sigs.filter (fun se => !sigEq se.1.params sig.params)).length + 1 = sigs.length := by
  have h1 := length_filter_not_add_countP
    (fun se : Sig S × Expr S => sigEq se.1.params sig.params) sigs
  have h2 := countP_sigEq_le_one_per hper hinv sig
  have h3 : 0 < sigs.countP (fun se => sigEq se.1.params sig.params) := by
    rw [List.countP_pos_iff]
    exact hex
  omega

omit [Add S] [Sub S] [Mul S] [Div S] [Zero S] [One S] in
/-- The theorems of this file imply those of `Calc/Props/C13.lean`: the old hypothesis is the
    special case `ok := fun _ => True`. -/
theorem C13_per_generalises (heq : ∀ a b : S, Kernel.eq a b = true ↔ a = b) :
    EqPer S (fun _ => True) :=
  EqPer.of_eq heq

end Stmts

/-! ## binary64 -/

section Bits
open Calc.F64Eq

/-- **IEEE-754 `==` on binary64 patterns is a partial equivalence, reflexive exactly off NaN** —
    for one `f64` (`feq`: neither side NaN, and same pattern or both zeros) and for `Complex64`
    (`ceq`: `re == re && im == im`, the `Kernel.eq` of the pattern kernel `F64Eq.kernel`).  So the
    hypothesis `EqPer` of every theorem above is satisfied by the comparison the code uses, with
    `ok` = `NoNaN`. -/
theorem C13_f64_eq_is_per :
    (∀ p : UInt64, feq p p = true ↔ isNaN p = false) ∧
    (∀ p q : UInt64, feq p q = true → feq q p = true) ∧
    (∀ p q r : UInt64, feq p q = true → feq q r = true → feq p r = true) ∧
    (∀ a : Cx64, ceq a a = true ↔ NoNaN a) ∧
    EqPer Cx64 NoNaN :=
  ⟨feq_refl_iff, fun _ _ => feq_symm, fun _ _ _ => feq_trans, ceq_refl_iff, eqPer_cx64⟩

/-- **The hypothesis of `Calc/Props/C13.lean` is false for binary64**: `NaN == NaN` is false,
    `+0 == -0` is true although the patterns differ; hence `∀ a b, a == b ↔ a = b` fails for
    `f64` and for `Complex64`. -/
theorem C13_f64_eq_is_not_eq :
    feq qNaN qNaN = false ∧
    (feq posZero negZero = true ∧ posZero ≠ negZero) ∧
    (¬ ∀ p q : UInt64, feq p q = true ↔ p = q) ∧
    (¬ ∀ a b : Cx64, Kernel.eq a b = true ↔ a = b) :=
  ⟨nan_ne_self, ⟨zeros_eq, zeros_ne⟩, feq_is_not_eq, not_heq_cx64⟩

/-- Every number a decimal literal denotes (`Kernel.ofDecimal m e`, i.e. `f64::from_str` of
    `m · 10^e` as the real part and `+0` as the imaginary part) has no NaN part: the reader proved
    correctly rounded in C04 returns a non-negative finite pattern or `+inf`.  With
    `sigParams_litsOK` (literal parameters are the number-literal arguments left of `=`) this is
    what discharges `StmtLitsOK NoNaN` for definitions written with decimal literals. -/
theorem C13_literal_not_nan (m : Nat) (e : Int) :
    isNaN (Calc.Exec.decimalToBits m e) = false ∧ NoNaN (Kernel.ofDecimal m e : Cx64) :=
  ⟨decimalToBits_not_nan m e, ofDecimal_noNaN m e⟩

/-- Literal parameters are the number-literal arguments of the call expression left of `=`
    (`Signature::from_call_expression`): if those are `ok`, the signature built from them has
    `ok` literals. -/
theorem C13_sig_literals_from_args {S : Type} {ok : S → Prop} (args : List (Expr S))
    (ps : List (Param S)) (h : sigParams args = some ps)
    (hok : ∀ z, Expr.number z ∈ args → ok z) : SigLitsOK ok ps :=
  sigParams_litsOK args ps h hok

end Bits

/-! ## examples -/

section Example
open Calc.F64Eq

private def nm (s : String) : Tok Cx64 := ⟨.ident s.toList, s.toList, 1, 1⟩
private def litPos0 : Cx64 := ⟨posZero, posZero⟩
private def litNeg0 : Cx64 := ⟨negZero, posZero⟩
private def litNaN : Cx64 := ⟨qNaN, posZero⟩
private def lit1 : Cx64 := ⟨one, posZero⟩

/-- the program `f(0) = 1; f(n) = n; f(-0.0) = 0` over binary64 patterns (the third signature is
    written with the pattern of `-0` directly) -/
private def prog : List (Stmt Cx64) :=
  [.define (nm "f") ⟨[.number litPos0]⟩ (.number lit1),
   .define (nm "f") ⟨[.ident "n".toList]⟩ (.ident (nm "n")),
   .define (nm "f") ⟨[.number litNeg0]⟩ (.number litPos0)]

/-- (a) The hypotheses of `C13_distinct_per` are satisfiable for a concrete, non-trivial state:
    binary64 `==` is an `EqPer`, the three definitions have non-NaN literals, so after running
    them from the empty table `f` has a non-empty pairwise-inequivalent list and each of its
    signatures is equivalent to itself. -/
example (fuel : Nat) (fn : UserFn Cx64) (c : Bool)
    (hg : Env.get (runStmts fuel [] prog).env "f".toList = some ⟨.user fn, c⟩) :
    (fn.sigs ≠ [] ∧ PairwiseInequiv fn.sigs) ∧
    ∀ e ∈ fn.sigs, sigEquiv e.1.params e.1.params = true := by
  have h := C13_distinct_per eqPer_cx64
  refine ⟨h.2.2.2.2.1 fuel [] prog (fun _ hm => by cases hm) _ fn c hg, ?_⟩
  intro e he
  refine (h.2.2.2.2.2 fuel [] prog (fun _ hm => by cases hm) ?_ _ fn c hg e he).2
  intro s hs
  simp only [prog, List.mem_cons, List.not_mem_nil, or_false] at hs
  rcases hs with rfl | rfl | rfl
  · intro p hp
    simp only [List.mem_cons, List.not_mem_nil, or_false] at hp
    subst hp
    exact ⟨by decide, by decide⟩
  · intro p hp
    simp only [List.mem_cons, List.not_mem_nil, or_false] at hp
    subst hp
    trivial
  · intro p hp
    simp only [List.mem_cons, List.not_mem_nil, or_false] at hp
    subst hp
    exact ⟨by decide, by decide⟩

/-- … and that state is what one expects: because `-0.0 == 0.0`, the third definition REPLACES the
    first in place (two signatures, not three), which `heq` could never express. -/
example (b1 b2 b3 : Expr Cx64) :
    defineSig (defineSig (defineSig [] ⟨[.number litPos0]⟩ b1) ⟨[.ident "n".toList]⟩ b2)
        ⟨[.number litNeg0]⟩ b3 =
      [(⟨[.number litNeg0]⟩, b3), (⟨[.ident "n".toList]⟩, b2)] := by
  have h : ceq litPos0 litNeg0 = true := by decide
  simp [defineSig, sigEquiv, paramEquiv, kernel_eq, h]

/-- Why the `ok` literals matter for reflexivity: a NaN literal is not equivalent to itself, so
    "redefining" `f(NaN)` appends a second, unreachable entry instead of replacing — and the list
    is STILL pairwise inequivalent, as `C13_distinct_per` (3) says. -/
example (b1 b2 : Expr Cx64) :
    defineSig [(⟨[.number litNaN]⟩, b1)] ⟨[.number litNaN]⟩ b2 =
      [(⟨[.number litNaN]⟩, b1), (⟨[.number litNaN]⟩, b2)] ∧
    PairwiseInequiv [((⟨[.number litNaN]⟩ : Sig Cx64), b1), (⟨[.number litNaN]⟩, b2)] := by
  have h : ceq litNaN litNaN = false := by decide
  constructor
  · simp [defineSig, sigEquiv, paramEquiv, kernel_eq, h]
  · simp [PairwiseInequiv, sigEquiv, paramEquiv, kernel_eq, h]

/-- (b) The old hypothesis is false for binary64 patterns, so every theorem of
    `Calc/Props/C13.lean` that takes `heq` says nothing about the scalar type the code uses. -/
example : feq qNaN qNaN = false := by decide
example : feq posZero negZero = true ∧ posZero ≠ negZero := ⟨by decide, by decide⟩
example : ¬ ∀ a b : Cx64, Kernel.eq a b = true ↔ a = b := not_heq_cx64

end Example

end Calc.Props.C13Per
