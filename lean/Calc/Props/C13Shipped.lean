/-
  Calc.Props.C13Shipped — `C13_session_cx64` at the shipped scanner configuration (property theorems).

  `Props/C13PerSession.lean` leaves one hypothesis on the scanner configuration: `KeywordsNoNumber cfg`
  (no spelling of the keyword table denotes a number token).  For the shipped keyword table — `Gen.keywordTable`,
  rewritten from the compiled tree on every run — it follows from `shippedCfg_kwKinds` (Proofs/ReparseTable.lean:
  every row denotes `dot`, `cross`, `delete`, `clear`, `as` or a unit, decided by the kernel over the table).
-/
import Calc.Props.C13PerSession
import Calc.Proofs.ReparseTable
namespace Calc.Props.C13Shipped
open Calc Calc.F64Eq

/-- **C13 (the shipped table has no number spelling).** -/
theorem C13_shipped_keywords_no_number {S : Type} [Kernel S] (tab : Nat) :
    KeywordsNoNumber (shippedCfg (S := S) tab) := by
  intro w k h z hz
  rcases shippedCfg_kwKinds (S := S) tab w k h with h | h | h | h | h | ⟨u, h⟩ <;> rw [h] at hz <;> cases hz

/-- **C13 (sessions of the shipped scanner, binary64 equality, no hypothesis left but the initial table).**
    For every tab size, every fuel, every preload file / expression / prompt lines and every initial table that
    stores no user function: each user function visible at the end has a non-empty list of pairwise inequivalent
    signatures, no stored literal is NaN, every stored signature is equivalent to itself, and defining a stored
    signature again replaces its body in place. -/
theorem C13_session_shipped (tab fuel : Nat) (init : Env Cx64) (file expr : Option Str) (stdin : List Str)
    (hinit : ∀ kv ∈ init, ∀ fn, kv.2.value ≠ .user fn) (k : Str) (fn : UserFn Cx64) (c : Bool)
    (hg : Env.get (session (shippedCfg tab) fuel init file expr stdin).env k = some ⟨.user fn, c⟩) :
    fn.sigs ≠ [] ∧ PairwiseInequiv fn.sigs ∧
    (∀ e ∈ fn.sigs, ∀ z, Param.number z ∈ e.1.params → NoNaN z) ∧
    (∀ e ∈ fn.sigs, sigEquiv e.1.params e.1.params = true) ∧
    (∀ pre s b post body, fn.sigs = pre ++ (s, b) :: post →
      defineSig fn.sigs s body = pre ++ (s, body) :: post) :=
  C13PerSession.C13_session_cx64 (shippedCfg tab) (C13_shipped_keywords_no_number tab) fuel init file expr stdin
    hinit k fn c hg

end Calc.Props.C13Shipped
