/-
  Property C18 — A function listing shows each definition as it was written.
  EVERY entry of the listing of EVERY stored function.

  `C18Entry.C18_entry_reparse` reads one entry back, given the accepted definition it was stored
  from.  Here the hypothesis "was stored from an accepted definition" is discharged for every
  function value a session can hold:

    * `FromDefs Q fn` (Calc/Proofs/ReparseListing.lean): `fn.name` — the name the listing prints —
      is the lexeme of an identifier token satisfying `Q`, and every entry `(sig, body)` of `fn`
      was accepted by `statement` as `.define name sig body` from tokens satisfying `Q`.
      The name token of that definition need NOT read `fn.name`: `h = f` stores under `h` a copy
      that keeps `fn.name = "f"` (and is listed as `f(…) = …`), and a later `h(x) = …` adds to it an
      entry whose definition's name token reads `h`.  So "the entry's definition is named
      `fn.name`" is NOT an invariant.  `C18_define_rename` gives back what the listing needs:
      an accepted definition stays accepted, same signature, same body, under any other
      identifier token as its name — `C18_entry_named`.
    * `C18_stored_from_definitions_step / _text / _session`: `FromDefs Q` holds of every function
      value in the table (visible or not) after a statement read from `Q`-tokens, after a text whose
      scanned tokens satisfy `Q`, along a whole session started from a table without user functions.
      `C18_stored_from_scanned_definitions`: `Q = Tok.WF cfg` needs no hypothesis at all.
    * `C18_listing_entries_reparse`: shipped configuration; for a function with
      `FromDefs (LitTok cfg)` — tokens well formed, number tokens `LitOK` — every entry of its
      listing with a matrix-free body, followed by a line break, scans, and `statement` reads it
      as a definition whose name reads `fn.name`, with the SAME signature and a `SimLex` body.
    * `C18_session_listing_reparse`: the same for every function value in the table of a session,
      under the hypothesis that every number token the scanner makes is `LitOK`.

    * `C18_listing_text_reparse`: the whole text `showUserFn fn ++ "\n"` scans and `parse` returns
      one definition per entry, in listing order (`ReadBack`): named `fn.name`, the entry's
      signature, a `SimLex` body.
    * `C18_listing_rebuild`: running these statements from a table where `fn.name` is unbound
      binds `fn.name` to a function of recorded name `fn.name` whose entries have the same
      signatures in the same order and `SimLex` bodies (`SimEntries`); uses the C13 invariant
      `GoodFn` (pairwise inequivalent signatures: each definition appends).

  Hypotheses left: bodies matrix-free; number tokens `LitOK`; for the rebuild, `GoodFn fn`
  (an invariant of sessions, C13PerSession) is taken as a hypothesis.
-/
import Calc.Props.C18Entry
import Calc.Proofs.ReparseListing
import Calc.Proofs.ReparseListingText
import Calc.Proofs.ReparseListingRun
namespace Calc.Props.C18Listing
open Calc Calc.Props.C18Entry

section Tokens
variable {S : Type}

/-- **C18 (renaming a definition).** If `statement` accepted tokens satisfying `Q` as
    `.define name sig body`, then for any identifier token `nt` satisfying `Q` there are tokens
    satisfying `Q` (those of the definition, `nt` in place of `name`) that `statement` accepts as
    `.define nt sig body`. -/
theorem C18_define_rename (Q : Tok S → Prop) (f₀ : Nat) (ts₀ r₀ : List (Tok S)) (name : Tok S)
    (sig : Sig S) (body : Expr S) (hq : ∀ t ∈ ts₀, Q t)
    (hp : pStatement f₀ ts₀ = .ok (.define name sig body) r₀) (nt : Tok S) (hnt : Q nt)
    (hk : ∃ w, nt.kind = .ident w) :
    ∃ (f₁ : Nat) (ts₁ : List (Tok S)), (∀ t ∈ ts₁, Q t) ∧
      pStatement f₁ ts₁ = .ok (.define nt sig body) [] :=
  define_rename hq hp nt hnt hk

/-- **C18 (every entry is an accepted definition of the listed name).** For a function value
    that comes from definitions, every entry `(sig, body)` was accepted — up to the name token —
    as `.define name sig body` with `name.lexeme = fn.name`, from tokens satisfying `Q`. -/
theorem C18_entry_named (Q : Tok S → Prop) (fn : UserFn S) (h : FromDefs Q fn)
    (se : Sig S × Expr S) (hse : se ∈ fn.sigs) :
    ∃ (f₁ : Nat) (ts₁ : List (Tok S)) (name : Tok S), (∀ t ∈ ts₁, Q t) ∧
      name.lexeme = fn.name ∧ pStatement f₁ ts₁ = .ok (.define name se.1 se.2) [] :=
  h.entry_named hse

/-- **C18 (statements of a parsed program are accepted definitions).** Every definition in the
    statement list `parse` returns for tokens satisfying `Q` was accepted by `statement` from
    tokens satisfying `Q`, and its name token is an identifier token satisfying `Q`. -/
theorem C18_parsed_definitions (Q : Tok S → Prop) (ts : List (Tok S)) (ss : List (Stmt S))
    (hp : parse ts = .ok ss) (hq : ∀ t ∈ ts, Q t) : ∀ s ∈ ss, StmtFrom Q s :=
  (parse_sound hp).stmtFrom hq

end Tokens

section Inv
variable {S : Type} [Add S] [Sub S] [Mul S] [Div S] [Zero S] [One S] [Kernel S]

/-- **C18 (a statement keeps "comes from definitions").** If every function value in the table
    comes from definitions and the statement, when a definition, was accepted from tokens
    satisfying `Q`, every function value in the table after the statement comes from
    definitions.  (Assignment stores a value the evaluator returned: a stored function value,
    unchanged, with its recorded name; deletion of a signature keeps a sublist; a definition on
    an existing function keeps its recorded name and adds or replaces one entry.) -/
theorem C18_stored_from_definitions_step (Q : Tok S → Prop) (fuel : Nat) (env : Env S)
    (s : Stmt S) (hs : StmtFrom Q s) (hinv : EnvP (FromDefs Q) env) :
    EnvP (FromDefs Q) (step fuel env s).env :=
  fromDefs_step fuel env s hs hinv

/-- … a text whose scanned tokens satisfy `Q` keeps it -/
theorem C18_stored_from_definitions_text (Q : Tok S → Prop) (cfg : ScanCfg S) (fuel : Nat)
    (env : Env S) (text : Str) (hQ : ∀ ts, scan cfg text = .ok ts → ∀ t ∈ ts, Q t)
    (hinv : EnvP (FromDefs Q) env) : EnvP (FromDefs Q) (processText cfg fuel env text).env :=
  fromDefs_processText cfg fuel env text hQ hinv

/-- **C18 (every stored function comes from definitions), sessions.** If every token the scanner
    makes satisfies `Q`, then along a whole session (file, `-e` text, input lines) started from a
    table that holds no user function, every function value in the final table — under whatever
    name it is stored — comes from definitions accepted from tokens satisfying `Q`. -/
theorem C18_stored_from_definitions_session (Q : Tok S → Prop) (cfg : ScanCfg S) (fuel : Nat)
    (hQ : ∀ text ts, scan cfg text = .ok ts → ∀ t ∈ ts, Q t) (init : Env S)
    (hinit : ∀ kv ∈ init, ∀ fn, kv.2.value ≠ .user fn) (file expr : Option Str)
    (stdin : List Str) (k : Str) (v : Variable S) (fn : UserFn S)
    (hkv : (k, v) ∈ (session cfg fuel init file expr stdin).env) (hv : v.value = .user fn) :
    FromDefs Q fn :=
  fromDefs_session cfg fuel hQ init file expr stdin (EnvP.of_no_user hinit) (k, v) hkv fn hv

/-- … with `Q` = "a token as the scanner makes it": no hypothesis on the texts. -/
theorem C18_stored_from_scanned_definitions (cfg : ScanCfg S) (fuel : Nat) (init : Env S)
    (hinit : ∀ kv ∈ init, ∀ fn, kv.2.value ≠ .user fn) (file expr : Option Str)
    (stdin : List Str) (k : Str) (v : Variable S) (fn : UserFn S)
    (hkv : (k, v) ∈ (session cfg fuel init file expr stdin).env) (hv : v.value = .user fn) :
    FromDefs (Tok.WF cfg) fn :=
  C18_stored_from_definitions_session (Tok.WF cfg) cfg fuel (fun _ _ h => scan_all_wf h) init
    hinit file expr stdin k v fn hkv hv

end Inv

section Listing
variable {S : Type} [Kernel S]

/-- a token as the scanner makes it whose value, if it is a number token, prints as a literal of
    that value -/
def LitTok (cfg : ScanCfg S) (t : Tok S) : Prop :=
  Tok.WF cfg t ∧ ∀ z, t.kind = .number z → LitOK z

/-- **C18 (every entry of the listing reads back as the definition).** Shipped configuration, any
    tab size.  Let `fn` come from definitions accepted from well-formed tokens whose number
    tokens are `LitOK`.  The listing is the entries joined by line breaks (`C18_listing_shape`),
    and EVERY entry `showSigEntry fn.name (sig, body)` with a matrix-free body, followed by a line
    break, scans to tokens ending in a newline token which `statement` (fuel as `parse` gives, or
    more) reads, leaving nothing over, as `.define name' sig body'`: `name'` reads `fn.name`, the
    signature is the SAME, the body is `Expr.SimLex` to the stored body. -/
theorem C18_listing_entries_reparse (tab : Nat) (fn : UserFn S)
    (h : FromDefs (LitTok (shippedCfg tab)) fn) :
    showUserFn fn = joinWith ['\n'] (fn.sigs.map (showSigEntry fn.name)) ∧
    ∀ sig body, (sig, body) ∈ fn.sigs → body.NoMatrix →
      ∃ (toks : List (Tok S)) (nl name' : Tok S) (body' : Expr S),
        scan (shippedCfg tab) (showSigEntry fn.name (sig, body) ++ ['\n']) = .ok (toks ++ [nl]) ∧
        nl.kind = .newline ∧ name'.lexeme = fn.name ∧ Expr.SimLex body body' ∧
        ∀ f, 10 + 13 * (toks ++ [nl]).length ≤ f →
          pStatement f (toks ++ [nl]) = .ok (.define name' sig body') [] := by
  refine ⟨rfl, fun sig body hse hm => ?_⟩
  obtain ⟨f₁, ts₁, name, hq, hl, hp⟩ := h.entry_named hse
  obtain ⟨toks, nl, name', body', h1, h2, h3, -, h5, h6⟩ :=
    C18_entry_reparse_tokens (shippedCfg tab) (shippedCfg_hop tab) (shippedCfg_hblank tab)
      (C18_shipped_newline tab) (shippedCfg_tableOK tab) f₁ ts₁ [] (fun t ht => (hq t ht).1)
      name sig body hp hm (fun t ht => (hq t ht).2)
  rw [hl] at h1
  exact ⟨toks, nl, name', body', h1, h2, h3.trans hl, h5, h6⟩

/-- **C18 (the whole listing reads back as the list of its definitions).** Shipped configuration.
    Let `fn` come from definitions accepted from well-formed tokens whose number tokens are
    `LitOK`, have at least one entry, and only matrix-free bodies.  Then the listing followed by a
    line break, `showUserFn fn ++ "\n"`, scans, and `parse` reads the tokens as a statement list
    `ss` with `ReadBack fn.name fn.sigs ss`: one statement per entry, in listing order, the `i`-th
    being `.define name' sig body'` with `name'` reading `fn.name`, `sig` the `i`-th signature,
    `body'` `Expr.SimLex` to the `i`-th body. -/
theorem C18_listing_text_reparse (tab : Nat) (fn : UserFn S)
    (h : FromDefs (LitTok (shippedCfg tab)) fn) (hne : fn.sigs ≠ [])
    (hm : ∀ e ∈ fn.sigs, e.2.NoMatrix) :
    ∃ (toks : List (Tok S)) (ss : List (Stmt S)),
      scan (shippedCfg tab) (showUserFn fn ++ ['\n']) = .ok toks ∧ parse toks = .ok ss ∧
      ReadBack fn.name fn.sigs ss := by
  have hall : ∀ e ∈ fn.sigs, ∃ ks, EntryReads (shippedCfg tab) fn.name e ks := by
    intro e he
    obtain ⟨f₁, ts₁, name, hq, hl, hp⟩ := h.entry_named he
    have := entryReads_of_define (shippedCfg_hop tab) (shippedCfg_hblank tab)
      (C18_shipped_newline tab) (shippedCfg_tableOK tab) (fun t ht => (hq t ht).1) hp (hm e he)
      (fun t ht => (hq t ht).2)
    rw [hl] at this
    exact this
  obtain ⟨K, hS, hR⟩ := entries_read fn.name fn.sigs hall
  obtain ⟨toks, hscan, hk⟩ := hS.scan_ok_any
  obtain ⟨ss, hp, hrb⟩ := hR toks (scan_all_wf hscan) hk
  refine ⟨toks, ss, ?_, parse_complete hp, hrb⟩
  have htext : showUserFn fn ++ ['\n'] =
      (fn.sigs.map (fun e => showSigEntry fn.name e ++ ['\n'])).flatten := by
    have := joinWith_newline_flatten (fn.sigs.map (showSigEntry fn.name)) (by simpa using hne)
    rw [List.map_map] at this
    exact this
  rw [htext]
  exact hscan

end Listing

section Session
variable {S : Type} [Add S] [Sub S] [Mul S] [Div S] [Zero S] [One S] [Kernel S]

/-- **C18 (every listing entry of every stored function reads back), sessions.** Shipped
    configuration.  If every number token the scanner makes is `LitOK`, then for every function
    value `fn` in the table of a session started from a table without user functions — stored
    under any name `k`, possibly a copy — every entry of its listing with a matrix-free body,
    followed by a line break, scans and is read by `statement` as a definition named `fn.name`
    with the same signature and a `SimLex` body. -/
theorem C18_session_listing_reparse (tab : Nat) (fuel : Nat)
    (hlit : ∀ text ts, scan (shippedCfg (S := S) tab) text = .ok ts →
      ∀ t ∈ ts, ∀ z, t.kind = .number z → LitOK z)
    (init : Env S) (hinit : ∀ kv ∈ init, ∀ fn, kv.2.value ≠ .user fn) (file expr : Option Str)
    (stdin : List Str) (k : Str) (v : Variable S) (fn : UserFn S)
    (hkv : (k, v) ∈ (session (shippedCfg tab) fuel init file expr stdin).env)
    (hv : v.value = .user fn) :
    showUserFn fn = joinWith ['\n'] (fn.sigs.map (showSigEntry fn.name)) ∧
    ∀ sig body, (sig, body) ∈ fn.sigs → body.NoMatrix →
      ∃ (toks : List (Tok S)) (nl name' : Tok S) (body' : Expr S),
        scan (shippedCfg tab) (showSigEntry fn.name (sig, body) ++ ['\n']) = .ok (toks ++ [nl]) ∧
        nl.kind = .newline ∧ name'.lexeme = fn.name ∧ Expr.SimLex body body' ∧
        ∀ f, 10 + 13 * (toks ++ [nl]).length ≤ f →
          pStatement f (toks ++ [nl]) = .ok (.define name' sig body') [] :=
  C18_listing_entries_reparse tab fn
    (C18_stored_from_definitions_session (LitTok (shippedCfg tab)) (shippedCfg tab) fuel
      (fun text ts h t ht => ⟨scan_all_wf h t ht, hlit text ts h t ht⟩) init hinit file expr stdin
      k v fn hkv hv)

omit [Add S] [Sub S] [Mul S] [Div S] [Zero S] [One S] [Kernel S] in
/-- `SimEntries es es'`: the same signatures in the same order (and `SimLex` bodies, by
    definition of `SimEntries`) -/
theorem C18_simEntries_sigs (es es' : List (Sig S × Expr S)) (h : SimEntries es es') :
    es'.map (·.1) = es.map (·.1) ∧ es'.length = es.length := by
  induction h with
  | nil => exact ⟨rfl, rfl⟩
  | cons _ _ ih => exact ⟨by simp [ih.1], by simp [ih.2]⟩

/-- **C18 (running the listing rebuilds the function).** Shipped configuration.  Let `fn` come
    from definitions accepted from well-formed tokens whose number tokens are `LitOK`, satisfy
    the C13 invariant `GoodFn` (at least one entry, signatures pairwise inequivalent — every
    stored function does, `C13PerSession`), and have only matrix-free bodies.  Then
    `showUserFn fn ++ "\n"` scans, `parse` reads the tokens as statements `ss`, and running `ss`
    from any table in which `fn.name` is unbound leaves `fn.name` bound to a non-constant user
    function with recorded name `fn.name` and entries `es'` with `SimEntries fn.sigs es'`: the
    same signatures in the same order (each definition appends, none replaces), each body
    `Expr.SimLex` to the stored one. -/
theorem C18_listing_rebuild (tab : Nat) (fuel : Nat) (fn : UserFn S)
    (h : FromDefs (LitTok (shippedCfg tab)) fn) (hgood : GoodFn fn)
    (hm : ∀ e ∈ fn.sigs, e.2.NoMatrix) (env : Env S) (hfree : Env.get env fn.name = none) :
    ∃ (toks : List (Tok S)) (ss : List (Stmt S)) (es' : List (Sig S × Expr S)),
      scan (shippedCfg tab) (showUserFn fn ++ ['\n']) = .ok toks ∧ parse toks = .ok ss ∧
      ReadBack fn.name fn.sigs ss ∧ SimEntries fn.sigs es' ∧
      Env.get (runStmts fuel env ss).env fn.name = some ⟨.user ⟨fn.name, es'⟩, false⟩ := by
  obtain ⟨toks, ss, h1, h2, h3⟩ := C18_listing_text_reparse tab fn h hgood.1 hm
  obtain ⟨es', h4, h5⟩ := readBack_run fuel fn.name h3 hgood.1 env hfree hgood.2
  exact ⟨toks, ss, es', h1, h2, h3, h4, h5⟩

/-- **C18 (running the listing of any stored function rebuilds it), sessions.** Shipped
    configuration; `Kernel.eq` a partial equivalence in the sense of `EqPer` (the hypothesis of the
    C13 session invariant); every number token the scanner makes `LitOK`.  For every function
    value `fn` in the table of a session started from a table without user functions, with only
    matrix-free bodies: its listing followed by a line break scans and parses to statements
    which, run from any table where `fn.name` is unbound, bind `fn.name` to a function with the
    same recorded name, the same signatures in the same order, and `SimLex` bodies. -/
theorem C18_session_listing_rebuild {ok : S → Prop} (hper : EqPer S ok) (tab : Nat)
    (fuel fuel' : Nat)
    (hlit : ∀ text ts, scan (shippedCfg (S := S) tab) text = .ok ts →
      ∀ t ∈ ts, ∀ z, t.kind = .number z → LitOK z)
    (init : Env S) (hinit : ∀ kv ∈ init, ∀ fn, kv.2.value ≠ .user fn) (file expr : Option Str)
    (stdin : List Str) (k : Str) (v : Variable S) (fn : UserFn S)
    (hkv : (k, v) ∈ (session (shippedCfg tab) fuel init file expr stdin).env)
    (hv : v.value = .user fn) (hm : ∀ e ∈ fn.sigs, e.2.NoMatrix)
    (env : Env S) (hfree : Env.get env fn.name = none) :
    ∃ (toks : List (Tok S)) (ss : List (Stmt S)) (es' : List (Sig S × Expr S)),
      scan (shippedCfg tab) (showUserFn fn ++ ['\n']) = .ok toks ∧ parse toks = .ok ss ∧
      ReadBack fn.name fn.sigs ss ∧ SimEntries fn.sigs es' ∧
      Env.get (runStmts fuel' env ss).env fn.name = some ⟨.user ⟨fn.name, es'⟩, false⟩ :=
  C18_listing_rebuild tab fuel' fn
    (C18_stored_from_definitions_session (LitTok (shippedCfg tab)) (shippedCfg tab) fuel
      (fun text ts h t ht => ⟨scan_all_wf h t ht, hlit text ts h t ht⟩) init hinit file expr stdin
      k v fn hkv hv)
    (fnInv_session_per hper (shippedCfg tab) fuel init file expr stdin
      (fun kv hm fn e => absurd e (hinit kv hm fn)) (k, v) hkv fn hv)
    hm env hfree

/-! ### the hypotheses are satisfiable -/

/-- the single statement `.define name sig body`, accepted from tokens satisfying `Q` with an
    identifier name token, run from the empty table: the table then holds the function
    `⟨name.lexeme, [(sig, body)]⟩`, and it comes from definitions. -/
example (Q : Tok S → Prop) (fuel f₀ : Nat) (ts₀ r₀ : List (Tok S)) (name : Tok S) (sig : Sig S)
    (body : Expr S) (hq : ∀ t ∈ ts₀, Q t) (hn : Q name) (w : Str) (hk : name.kind = .ident w)
    (hp : pStatement f₀ ts₀ = .ok (.define name sig body) r₀) :
    (step fuel ([] : Env S) (.define name sig body)).env =
        [(name.lexeme, ⟨.user ⟨name.lexeme, [(sig, body)]⟩, false⟩)] ∧
      FromDefs Q (⟨name.lexeme, [(sig, body)]⟩ : UserFn S) := by
  have hs : StmtFrom Q (.define name sig body) := by
    intro n s b e
    cases e
    exact ⟨⟨name, hn, ⟨w, hk⟩, rfl⟩, f₀, ts₀, r₀, name, hq, hp⟩
  have henv : (step fuel ([] : Env S) (.define name sig body)).env =
      [(name.lexeme, ⟨.user ⟨name.lexeme, [(sig, body)]⟩, false⟩)] := rfl
  refine ⟨henv, ?_⟩
  have := C18_stored_from_definitions_step Q fuel ([] : Env S) _ hs (fun _ h => by cases h)
  rw [henv] at this
  exact this _ List.mem_cons_self _ rfl

end Session

end Calc.Props.C18Listing
