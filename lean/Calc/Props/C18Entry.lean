/-
  Property C18 — A function listing shows each definition as it was written.
  The whole listing ENTRY `name(params) = body`, not only its body.

  "Listing a user function prints one entry per signature, `name(params) = body` …"

  `showUserFn fn` is the entries `showSigEntry fn.name (sig, body)` joined by line breaks
  (`C18.C18_listing_shape`).  A definition `.define name sig body` is stored under `name.lexeme`
  with the entry `(sig, body)` (`step`, Calc/Model/Stmt.lean), so the entry printed for it is
  `showSigEntry name.lexeme (sig, body)`.  Here:

    * `C18_entry_text`   — that entry is the printed text of the call expression that stood on the
                           left of `=` in the definition, then ` = `, then the printed body;
    * `C18_entry_scans`  — its scan succeeds and yields the kinds of the call's tokens, `=`, and
                           the kinds of the body's tokens (identifier names, number values, units
                           included), alone and in front of a line break;
    * `C18_entry_reparse_tokens` / `C18_entry_reparse_cfg` / `C18_entry_reparse` — the entry
                           followed by a line break scans, and `statement` reads the tokens as
                           `.define name' sig body'`: the same name lexeme, the SAME signature
                           (parameter names and number values equal), a body `Expr.SimLex` to the
                           stored body, nothing left over;
    * `C18_entry_reparse_delim` — the same for the entry alone in front of any delimiter and rest.

  Hypotheses left (shipped configuration): the definition was accepted from tokens of a successful
  scan, the body is matrix-free (`Expr.NoMatrix`), every number token prints as a literal of its
  value (`LitOK`).  Helper lemmas: Calc/Proofs/ReparseEntry.lean.
-/
import Calc.Props.C18Table
import Calc.Proofs.ReparseEntry
import Calc.Proofs.ReparseLitBits
namespace Calc.Props.C18Entry
open Calc

variable {S : Type} [Kernel S]

/-- **C18 (the entry is the definition's left-hand side, ` = `, the body).** For an accepted
    definition, the listing entry printed for it is the printed text of the call expression
    `name(args)` the parser read on the left of `=`, then ` = `, then the printed body; the
    parameters of the signature are the arguments of that call (`DerivesParams`: an identifier
    argument gives the parameter named by its lexeme, a number argument the number). -/
theorem C18_entry_text (f₀ : Nat) (ts₀ r₀ : List (Tok S)) (name : Tok S) (sig : Sig S)
    (body : Expr S) (hp : pStatement f₀ ts₀ = .ok (.define name sig body) r₀) :
    ∃ (lp : Tok S) (args : List (Expr S)), DerivesParams args sig.params ∧
      showSigEntry name.lexeme (sig, body) =
        showExpr (.call (.ident name) lp args) ++ (" = ".toList ++ showExpr body) := by
  obtain ⟨c, d, _, _, ds⟩ := C03_stmt_shapes f₀ ts₀ _ r₀ hp
  cases ds with
  | @define _ lp _ _ _ args ps _ _ hps _ _ =>
    exact ⟨lp, args, hps, showSigEntry_eq name lp args ps body hps⟩

/-- **C18 (the entry scans).** Scanner half, any configuration whose alphanumeric class contains
    no operator character, not the blank, and whose keyword table satisfies `TableOK`: for a
    definition accepted from well-formed tokens (`Tok.WF`, the scanner invariant) whose number
    tokens satisfy `LitOK`, with a matrix-free body, the printed entry scans to tokens whose kinds
    are: the kinds of the tokens of the left-hand side `name ( params )`, `=`, the kinds of the
    tokens of the body — in the order of the definition (`c₁`, `c₂`: the phrases the definition was
    read from). -/
theorem C18_entry_scans (cfg : ScanCfg S) (hop : ∀ c ∈ opChars, cfg.isAlnum c = false)
    (hblank : cfg.isAlnum ' ' = false) (ht : TableOK cfg) (f₀ : Nat) (ts₀ r₀ : List (Tok S))
    (hwf : ∀ t ∈ ts₀, Tok.WF cfg t) (name : Tok S) (sig : Sig S) (body : Expr S)
    (hp : pStatement f₀ ts₀ = .ok (.define name sig body) r₀) (hm : body.NoMatrix)
    (hlit : ∀ t ∈ ts₀, ∀ z, t.kind = .number z → LitOK z) :
    ∃ (c₁ c₂ : List (Tok S)) (eq d : Tok S) (toks : List (Tok S)),
      ts₀ = c₁ ++ eq :: c₂ ++ d :: r₀ ∧ eq.kind = .equal ∧
      scan cfg (showSigEntry name.lexeme (sig, body)) = .ok toks ∧
      toks.map (·.kind) = (c₁ ++ eq :: c₂).map (·.kind) := by
  obtain ⟨c, d, hts, _, ds⟩ := C03_stmt_shapes f₀ ts₀ _ r₀ hp
  cases ds with
  | @define _ lp eq c₁ c₂ args ps _ hc hps heq hb =>
    have hmh : (Expr.call (.ident name) lp args).NoMatrix := by
      simp only [Expr.NoMatrix]; exact ⟨trivial, hps.noMatrixArgs⟩
    have hm1 : ∀ t ∈ c₁, t ∈ ts₀ := fun t h => by rw [hts]; simp [h]
    have hm2 : ∀ t ∈ c₂, t ∈ ts₀ := fun t h => by rw [hts]; simp [h]
    have hokh := hc.treeOK ht.kinds
      (fun t h => (hwf t (hm1 t h)).printOK ht (hlit t (hm1 t h))) hmh
    have hokb := hb.treeOK ht.kinds
      (fun t h => (hwf t (hm2 t h)).printOK ht (hlit t (hm2 t h))) hm
    obtain ⟨toks, h1, h2⟩ := (scansAs_entry cfg hop hblank _ body hokh hokb).scan_ok
    have heqk : eq.kind = .equal := by
      have := heq
      simp only [Tok.tag] at this
      cases hk : eq.kind <;> simp [hk, Kind.tag] at this ⊢
    refine ⟨c₁, c₂, eq, d, toks, hts, heqk, ?_, ?_⟩
    · rw [showSigEntry_eq name lp args ps body hps]; exact h1
    · rw [h2, List.map_append, List.map_cons, hc.map_kind hmh, hb.map_kind hm, heqk]; rfl

/-- **C18 (the entry reads back as the definition), on tokens.** Any configuration whose
    alphanumeric class contains no operator character, neither the blank nor the line break, and
    whose keyword table satisfies `TableOK`.  If `statement` accepted well-formed tokens
    (`Tok.WF`) whose number tokens satisfy `LitOK` as the definition `.define name sig body`, the
    body matrix-free, then scanning the printed entry followed by a line break succeeds, with a
    newline token last, and `statement` reads the tokens, leaving nothing over, as a definition
    with the same name lexeme (and kind), the SAME signature, and a body `Expr.SimLex` to `body`. -/
theorem C18_entry_reparse_tokens (cfg : ScanCfg S) (hop : ∀ c ∈ opChars, cfg.isAlnum c = false)
    (hblank : cfg.isAlnum ' ' = false) (hnl : cfg.isAlnum '\n' = false) (ht : TableOK cfg)
    (f₀ : Nat) (ts₀ r₀ : List (Tok S)) (hwf : ∀ t ∈ ts₀, Tok.WF cfg t) (name : Tok S)
    (sig : Sig S) (body : Expr S) (hp : pStatement f₀ ts₀ = .ok (.define name sig body) r₀)
    (hm : body.NoMatrix) (hlit : ∀ t ∈ ts₀, ∀ z, t.kind = .number z → LitOK z) :
    ∃ (toks : List (Tok S)) (nl name' : Tok S) (body' : Expr S),
      scan cfg (showSigEntry name.lexeme (sig, body) ++ ['\n']) = .ok (toks ++ [nl]) ∧
      nl.kind = .newline ∧ name'.lexeme = name.lexeme ∧ name'.kind = name.kind ∧
      Expr.SimLex body body' ∧
      ∀ f, 10 + 13 * (toks ++ [nl]).length ≤ f →
        pStatement f (toks ++ [nl]) = .ok (.define name' sig body') [] := by
  obtain ⟨lp, args, c₁, c₂, hc, hps, hb, hm1, hm2, hmh, H⟩ :=
    entry_tokens_reparse ht.kinds hwf hp hm
  have hokh := hc.treeOK ht.kinds
    (fun t h => (hwf t (hm1 t h)).printOK ht (hlit t (hm1 t h))) hmh
  have hokb := hb.treeOK ht.kinds
    (fun t h => (hwf t (hm2 t h)).printOK ht (hlit t (hm2 t h))) hm
  obtain ⟨toks, nl, h1, h2, h3⟩ :=
    (scansAs_entry cfg hop hblank _ body hokh hokb).scan_ok_newline hnl
  have hwf' : ∀ t ∈ toks, Tok.WF cfg t := fun t h => scan_all_wf h1 t (by simp [h])
  obtain ⟨name', body', hn, hkn, hs, hP⟩ := H toks hwf' h2
  refine ⟨toks, nl, name', body', ?_, h3, hn, hkn, hs, fun f hf => ?_⟩
  · rw [showSigEntry_eq name lp args sig.params body hps]; exact h1
  · exact hP f nl [] (Or.inl (by simp [Tok.tag, h3, Kind.tag])) hf

/-- … the entry alone: its scan succeeds, and in front of ANY delimiter (line break or `;`) and
    any rest, `statement` reads its tokens as that definition and stops after the delimiter. -/
theorem C18_entry_reparse_delim (cfg : ScanCfg S) (hop : ∀ c ∈ opChars, cfg.isAlnum c = false)
    (hblank : cfg.isAlnum ' ' = false) (ht : TableOK cfg)
    (f₀ : Nat) (ts₀ r₀ : List (Tok S)) (hwf : ∀ t ∈ ts₀, Tok.WF cfg t) (name : Tok S)
    (sig : Sig S) (body : Expr S) (hp : pStatement f₀ ts₀ = .ok (.define name sig body) r₀)
    (hm : body.NoMatrix) (hlit : ∀ t ∈ ts₀, ∀ z, t.kind = .number z → LitOK z) :
    ∃ (toks : List (Tok S)) (name' : Tok S) (body' : Expr S),
      scan cfg (showSigEntry name.lexeme (sig, body)) = .ok toks ∧
      name'.lexeme = name.lexeme ∧ name'.kind = name.kind ∧ Expr.SimLex body body' ∧
      ∀ f (d : Tok S) r, d.isDelim → 10 + 13 * (toks ++ d :: r).length ≤ f →
        pStatement f (toks ++ d :: r) = .ok (.define name' sig body') r := by
  obtain ⟨lp, args, c₁, c₂, hc, hps, hb, hm1, hm2, hmh, H⟩ :=
    entry_tokens_reparse ht.kinds hwf hp hm
  have hokh := hc.treeOK ht.kinds
    (fun t h => (hwf t (hm1 t h)).printOK ht (hlit t (hm1 t h))) hmh
  have hokb := hb.treeOK ht.kinds
    (fun t h => (hwf t (hm2 t h)).printOK ht (hlit t (hm2 t h))) hm
  obtain ⟨toks, h1, h2⟩ := (scansAs_entry cfg hop hblank _ body hokh hokb).scan_ok
  obtain ⟨name', body', hn, hkn, hs, hP⟩ := H toks (scan_all_wf h1) h2
  refine ⟨toks, name', body', ?_, hn, hkn, hs, hP⟩
  rw [showSigEntry_eq name lp args sig.params body hps]; exact h1

/-- **C18 (the entry reads back as the definition), from a scan.** `C18_entry_reparse_tokens`
    with "well-formed tokens" replaced by "tokens of a successful scan". -/
theorem C18_entry_reparse_cfg (cfg : ScanCfg S) (hop : ∀ c ∈ opChars, cfg.isAlnum c = false)
    (hblank : cfg.isAlnum ' ' = false) (hnl : cfg.isAlnum '\n' = false) (ht : TableOK cfg)
    (text : Str) (ts : List (Tok S)) (hs : scan cfg text = .ok ts)
    (f₀ : Nat) (ts₀ r₀ : List (Tok S)) (hsub : ∀ t ∈ ts₀, t ∈ ts) (name : Tok S)
    (sig : Sig S) (body : Expr S) (hp : pStatement f₀ ts₀ = .ok (.define name sig body) r₀)
    (hm : body.NoMatrix) (hlit : ∀ t ∈ ts₀, ∀ z, t.kind = .number z → LitOK z) :
    ∃ (toks : List (Tok S)) (nl name' : Tok S) (body' : Expr S),
      scan cfg (showSigEntry name.lexeme (sig, body) ++ ['\n']) = .ok (toks ++ [nl]) ∧
      nl.kind = .newline ∧ name'.lexeme = name.lexeme ∧ name'.kind = name.kind ∧
      Expr.SimLex body body' ∧
      ∀ f, 10 + 13 * (toks ++ [nl]).length ≤ f →
        pStatement f (toks ++ [nl]) = .ok (.define name' sig body') [] :=
  C18_entry_reparse_tokens cfg hop hblank hnl ht f₀ ts₀ r₀
    (fun t h => scan_all_wf hs t (hsub t h)) name sig body hp hm hlit

omit [Kernel S] in
/-- the shipped class table does not contain the line break -/
theorem C18_shipped_newline (tab : Nat) : (shippedCfg (S := S) tab).isAlnum '\n' = false := by
  have h : alnumTable '\n'.toNat = false := by decide +kernel
  simp only [shippedCfg, tableCfg]
  exact h

/-- **C18 (the listing entry reads back as the definition it was stored from; shipped tables).**
    Let `text` scan (shipped configuration, any tab size) to `ts`, and let `statement` accept
    tokens of `ts` as the function definition `.define name sig body` — which `step` stores under
    `name.lexeme` as the entry `(sig, body)`, listed as `showSigEntry name.lexeme (sig, body)`.
    If the body is matrix-free and every number token of the definition prints as a literal of its
    value, then the listed entry followed by a line break scans to tokens ending in a newline
    token, and `statement` (with the fuel `parse` gives it, or more) reads them, leaving nothing
    over, as `.define name' sig body'`: `name'` has the lexeme of `name`, the signature is the
    SAME (`sig`: equal parameter names and equal number values), and `body'` is `Expr.SimLex` to
    `body` (same shape, numbers, units, grouping kinds, tokens of equal kinds, identifiers of equal
    lexemes). -/
theorem C18_entry_reparse (tab : Nat) (text : Str) (ts : List (Tok S))
    (hs : scan (shippedCfg tab) text = .ok ts) (f₀ : Nat) (ts₀ r₀ : List (Tok S))
    (hsub : ∀ t ∈ ts₀, t ∈ ts) (name : Tok S) (sig : Sig S) (body : Expr S)
    (hp : pStatement f₀ ts₀ = .ok (.define name sig body) r₀)
    (hm : body.NoMatrix) (hlit : ∀ t ∈ ts₀, ∀ z, t.kind = .number z → LitOK z) :
    ∃ (toks : List (Tok S)) (nl name' : Tok S) (body' : Expr S),
      scan (shippedCfg tab) (showSigEntry name.lexeme (sig, body) ++ ['\n']) =
        .ok (toks ++ [nl]) ∧
      nl.kind = .newline ∧ name'.lexeme = name.lexeme ∧ name'.kind = name.kind ∧
      Expr.SimLex body body' ∧
      ∀ f, 10 + 13 * (toks ++ [nl]).length ≤ f →
        pStatement f (toks ++ [nl]) = .ok (.define name' sig body') [] :=
  C18_entry_reparse_cfg (shippedCfg tab) (shippedCfg_hop tab) (shippedCfg_hblank tab)
    (C18_shipped_newline tab) (shippedCfg_tableOK tab) text ts hs f₀ ts₀ r₀ hsub name sig body hp
    hm hlit

/-- … and as a one-statement program: `parse` reads the tokens of the listed entry and the line
    break as the single statement `.define name' sig body'`. -/
theorem C18_entry_reparse_program (tab : Nat) (text : Str) (ts : List (Tok S))
    (hs : scan (shippedCfg tab) text = .ok ts) (f₀ : Nat) (ts₀ r₀ : List (Tok S))
    (hsub : ∀ t ∈ ts₀, t ∈ ts) (name : Tok S) (sig : Sig S) (body : Expr S)
    (hp : pStatement f₀ ts₀ = .ok (.define name sig body) r₀)
    (hm : body.NoMatrix) (hlit : ∀ t ∈ ts₀, ∀ z, t.kind = .number z → LitOK z) :
    ∃ (toks : List (Tok S)) (name' : Tok S) (body' : Expr S),
      scan (shippedCfg tab) (showSigEntry name.lexeme (sig, body) ++ ['\n']) = .ok toks ∧
      parse toks = .ok [.define name' sig body'] ∧
      name'.lexeme = name.lexeme ∧ Expr.SimLex body body' := by
  obtain ⟨toks, nl, name', body', h1, h2, h3, -, h5, h6⟩ :=
    C18_entry_reparse tab text ts hs f₀ ts₀ r₀ hsub name sig body hp hm hlit
  refine ⟨toks ++ [nl], name', body', h1, ?_, h3, h5⟩
  have hstmt := h6 (10 + 13 * (toks ++ [nl]).length) (Nat.le_refl _)
  obtain ⟨c, d, hcd, hd, ds⟩ := C03_stmt_shapes _ _ _ _ hstmt
  rw [hcd]
  exact C03_complete_program _ _ (.stmt ds hd .nil)

/-! ### the hypotheses are satisfiable -/

/-- the hypotheses of `C18_entry_reparse_tokens` hold of the definition `f(x, 2) = -(x+2)!`
    (tokens as the scanner makes them) when `f` and `x` are alphanumeric, the table is empty and
    the literal `2` prints as `2` and is real; so its listing entry `f(x, 2) = -(x+2)!`, followed
    by a line break, reads back as a definition of `f` with the same signature `(x, 2)` and a body
    `SimLex` to `-(x+2)!` -/
example (cfg : ScanCfg S) (hop : ∀ c ∈ opChars, cfg.isAlnum c = false)
    (hblank : cfg.isAlnum ' ' = false) (hnl : cfg.isAlnum '\n' = false)
    (hf : cfg.isAlnum 'f' = true) (hx : cfg.isAlnum 'x' = true)
    (hkw : ∀ w, cfg.keyword w = none)
    (h2 : complexToString (Kernel.ofDecimal 2 0 : S) = ['2'])
    (h2i : Kernel.imIsZero (Kernel.ofDecimal 2 0 : S) = true) :
    ∃ (ts₀ : List (Tok S)) (name : Tok S) (sig : Sig S) (body : Expr S),
      pStatement 300 ts₀ = .ok (.define name sig body) [] ∧ (∀ t ∈ ts₀, Tok.WF cfg t) ∧
      body.NoMatrix ∧ (∀ t ∈ ts₀, ∀ z, t.kind = .number z → LitOK z) ∧ TableOK cfg ∧
      showSigEntry name.lexeme (sig, body) = "f(x, 2) = -(x+2)!".toList ∧
      ∃ (toks : List (Tok S)) (nl name' : Tok S) (body' : Expr S),
        scan cfg ("f(x, 2) = -(x+2)!".toList ++ ['\n']) = .ok (toks ++ [nl]) ∧
        name'.lexeme = ['f'] ∧ Expr.SimLex body body' ∧
        pStatement (10 + 13 * (toks ++ [nl]).length) (toks ++ [nl]) =
          .ok (.define name' ⟨[.ident ['x'], .number (Kernel.ofDecimal 2 0)]⟩ body') [] := by
  let two : S := Kernel.ofDecimal 2 0
  let f : Tok S := ⟨.ident ['f'], ['f'], 1, 1⟩
  let lp1 : Tok S := ⟨.lparen, ['('], 1, 2⟩
  let x1 : Tok S := ⟨.ident ['x'], ['x'], 1, 3⟩
  let cm : Tok S := ⟨.comma, [','], 1, 4⟩
  let n1 : Tok S := ⟨.number two, ['2'], 1, 6⟩
  let rp1 : Tok S := ⟨.rparen, [')'], 1, 7⟩
  let eq : Tok S := ⟨.equal, ['='], 1, 9⟩
  let minus : Tok S := ⟨.minus, ['-'], 1, 11⟩
  let lp2 : Tok S := ⟨.lparen, ['('], 1, 12⟩
  let x2 : Tok S := ⟨.ident ['x'], ['x'], 1, 13⟩
  let plus : Tok S := ⟨.plus, ['+'], 1, 14⟩
  let n2 : Tok S := ⟨.number two, ['2'], 1, 15⟩
  let rp2 : Tok S := ⟨.rparen, [')'], 1, 16⟩
  let bang : Tok S := ⟨.bang, ['!'], 1, 17⟩
  let nl : Tok S := ⟨.newline, ['\\', 'n'], 1, 18⟩
  let body : Expr S := .unary minus (.unary bang (.grouping lp2 .grouping
    (.binary (.ident x2) plus (.number two))))
  let ts₀ : List (Tok S) := [f, lp1, x1, cm, n1, rp1, eq, minus, lp2, x2, plus, n2, rp2, bang, nl]
  have hparse : pStatement 300 ts₀ =
      .ok (.define f ⟨[.ident ['x'], .number two]⟩ body) [] := rfl
  have hword : ∀ (c : Char) (ln col : Nat), isIdentStart c = true → cfg.isAlnum c = true →
      Tok.WF cfg (⟨.ident [c], [c], ln, col⟩ : Tok S) := by
    intro c ln col hs ha
    refine .word ⟨⟨c, [], rfl, hs⟩, ?_, ?_⟩
    · intro d hd; simp only [List.mem_singleton] at hd; subst hd; simp [isIdentCont, ha]
    · simp [wordKindOf, hkw]
  have hnum : ∀ (ln col : Nat), Tok.WF cfg (⟨.number two, ['2'], ln, col⟩ : Tok S) :=
    fun ln col => .number ⟨2, 0⟩ ⟨'2', [], rfl, by decide⟩
      (show parseDecimal ['2'] = some ⟨2, 0⟩ by rfl) rfl
  have hwf : ∀ t ∈ ts₀, Tok.WF cfg t := by
    intro t ht
    simp only [ts₀, List.mem_cons, List.not_mem_nil, or_false] at ht
    rcases ht with rfl | rfl | rfl | rfl | rfl | rfl | rfl | rfl | rfl | rfl | rfl | rfl | rfl |
      rfl | rfl
    · exact hword 'f' _ _ (by decide) hf
    · exact .single '(' (by simp [singleKind, lp1]) rfl
    · exact hword 'x' _ _ (by decide) hx
    · exact .single ',' (by simp [singleKind, cm]) rfl
    · exact hnum _ _
    · exact .single ')' (by simp [singleKind, rp1]) rfl
    · exact .single '=' (by simp [singleKind, eq]) rfl
    · exact .single '-' (by simp [singleKind, minus]) rfl
    · exact .single '(' (by simp [singleKind, lp2]) rfl
    · exact hword 'x' _ _ (by decide) hx
    · exact .single '+' (by simp [singleKind, plus]) rfl
    · exact hnum _ _
    · exact .single ')' (by simp [singleKind, rp2]) rfl
    · exact .single '!' (by simp [singleKind, bang]) rfl
    · exact .single '\n' (by simp [singleKind, nl]) rfl
  have hNM : body.NoMatrix := by simp [body, Expr.NoMatrix]
  have hlit2 : LitOK two :=
    ⟨by rw [h2]; exact numLit_digits ['2'] (by decide) (by decide), by simp [two, h2i]⟩
  have hlit : ∀ t ∈ ts₀, ∀ z, t.kind = .number z → LitOK z := by
    intro t ht z hz
    simp only [ts₀, List.mem_cons, List.not_mem_nil, or_false] at ht
    rcases ht with rfl | rfl | rfl | rfl | rfl | rfl | rfl | rfl | rfl | rfl | rfl | rfl | rfl |
      rfl | rfl <;> cases hz <;> exact hlit2
  have hT : TableOK cfg :=
    ⟨fun w k h => (by rw [hkw] at h; cases h), fun w u h => (by rw [hkw] at h; cases h),
      fun w h => (by rw [hkw] at h; cases h)⟩
  have hshow : showSigEntry f.lexeme ((⟨[.ident ['x'], .number two]⟩ : Sig S), body) =
      "f(x, 2) = -(x+2)!".toList := by
    simp [showSigEntry, showParam, joinWith, body, f, minus, plus, bang, x2, showExpr, Tok.tag,
      Kind.tag, two, h2]
  obtain ⟨toks, nl', name', body', a1, -, a3, -, a5, a6⟩ :=
    C18_entry_reparse_tokens cfg hop hblank hnl hT 300 ts₀ [] hwf f _ body hparse hNM hlit
  rw [hshow] at a1
  exact ⟨ts₀, f, _, body, hparse, hwf, hNM, hlit, hT, hshow, toks, nl', name', body', a1, a3, a5,
    a6 _ (Nat.le_refl _)⟩

/-! ### literals: `LitOK` discharged for the bit-pattern kernel with the real printer and reader -/

section Bits
open Calc.LitBits Calc.Exec

attribute [local instance] litKernel

/-- **C18 (the literal kernel).** What `litKernel` (Calc/Proofs/ReparseLitBits.lean) is, as far
    as literals and their printing are concerned: a scalar is the pair of the binary64 patterns of
    its parts; a literal `m · 10^e` is read as `⟨decimalToBits m e, +0⟩` (`f64::from_str`, C04);
    the parts are printed by `fmtBits` (Rust `Display`, C15); `re == 0.0` / `im == 0.0` hold when
    the pattern is `+0` or `-0`. -/
theorem C18_literal_kernel (m : Nat) (e : Int) (z : CxPat) :
    (Kernel.ofDecimal m e : CxPat) = ⟨decimalToBits m e, 0⟩ ∧
    Kernel.fmtRe z = (fmtBits z.re).toList ∧ Kernel.fmtIm z = (fmtBits z.im).toList ∧
    Kernel.reIsZero z = decide (z.re &&& 0x7FFFFFFFFFFFFFFF = 0) ∧
    Kernel.imIsZero z = decide (z.im &&& 0x7FFFFFFFFFFFFFFF = 0) :=
  ⟨rfl, rfl, rfl, rfl, rfl⟩

/-- **C18 (finite literals print as literals of their value).** For the bit-pattern kernel with
    the real printer `fmtBits` and the real reader `decimalToBits`: every literal `m · 10^e` that
    does not read as infinity satisfies `LitOK` — the text printed for the value read begins with
    a digit, is consumed whole by the scanner's number rule in front of anything that is no digit,
    `.` or `e`, reads back to the same bits, and the value is real. -/
theorem C18_literals_ok_bits (m : Nat) (e : Int)
    (hfin : decimalToBits m e < 0x7FF0000000000000) :
    LitOK (Kernel.ofDecimal m e : CxPat) :=
  litOK_bits m e hfin

/-- **C18 (every finite number token of a scan is `LitOK`).** Shipped configuration over the
    bit-pattern kernel: a number token of a successful scan whose value is not infinity prints as
    a literal of its value. -/
theorem C18_scanned_literals_ok_bits (tab : Nat) (text : Str) (ts : List (Tok CxPat))
    (hs : scan (shippedCfg tab) text = .ok ts) (t : Tok CxPat) (ht : t ∈ ts) (z : CxPat)
    (hz : t.kind = .number z) (hfin : z.re ≠ 0x7FF0000000000000) : LitOK z := by
  obtain ⟨d, _, rfl⟩ := (scan_all_wf hs t ht).number_value (shippedCfg_kwKinds tab) hz
  refine litOK_bits d.mant d.exp ?_
  have hle := Calc.Proofs.DecimalRound.decimalToBits_nonneg d.mant d.exp
  exact UInt64.lt_of_le_of_ne hle hfin

/-- **C18 (the listing entry reads back; all definitions whose numeric literals are finite).**
    `C18_entry_reparse` over the bit-pattern kernel with `LitOK` discharged: the only hypotheses
    left are that the definition was accepted from tokens of a successful scan, that its body is
    matrix-free, and that no number token of it is infinite. -/
theorem C18_entry_reparse_bits (tab : Nat) (text : Str) (ts : List (Tok CxPat))
    (hs : scan (shippedCfg tab) text = .ok ts) (f₀ : Nat) (ts₀ r₀ : List (Tok CxPat))
    (hsub : ∀ t ∈ ts₀, t ∈ ts) (name : Tok CxPat) (sig : Sig CxPat) (body : Expr CxPat)
    (hp : pStatement f₀ ts₀ = .ok (.define name sig body) r₀) (hm : body.NoMatrix)
    (hfin : ∀ t ∈ ts₀, ∀ z, t.kind = .number z → z.re ≠ 0x7FF0000000000000) :
    ∃ (toks : List (Tok CxPat)) (nl name' : Tok CxPat) (body' : Expr CxPat),
      scan (shippedCfg tab) (showSigEntry name.lexeme (sig, body) ++ ['\n']) =
        .ok (toks ++ [nl]) ∧
      nl.kind = .newline ∧ name'.lexeme = name.lexeme ∧ name'.kind = name.kind ∧
      Expr.SimLex body body' ∧
      ∀ f, 10 + 13 * (toks ++ [nl]).length ≤ f →
        pStatement f (toks ++ [nl]) = .ok (.define name' sig body') [] :=
  C18_entry_reparse tab text ts hs f₀ ts₀ r₀ hsub name sig body hp hm
    (fun t h z hz => C18_scanned_literals_ok_bits tab text ts hs t (hsub t h) z hz (hfin t h z hz))

end Bits

end Calc.Props.C18Entry
