/-
  Calc.Props.C09 — Built-ins are immutable; `clear` restores the initial state.

  Everything is relative to an arbitrary initial table `init` all of whose entries are constant
  and whose keys are distinct (the shipped table is one, see the example at the end).
-/
import Calc.Model.Front
import Calc.Generated.InitEnv
import Calc.Proofs.EnvLemmas
import Calc.Proofs.EvalPure
import Calc.Proofs.EnvStep
import Calc.Proofs.EnvInv
namespace Calc

variable {S : Type} [Add S] [Sub S] [Mul S] [Div S] [Zero S] [One S] [Kernel S]

/-- The invariant: (1) every constant binding of `env` is a binding of `init`, (2) every binding
    of `init` is still there, unchanged, (3) `env` has one entry per key.  (3) is needed because
    `clear` filters the association list while lookup is first-match: a table with a non-constant
    entry hiding a constant one under the same key would break (1) after `clear`. -/
def Inv (init env : Env S) : Prop :=
  (∀ k v, Env.get env k = some v → v.constant = true → Env.get init k = some v) ∧
  (∀ k v, Env.get init k = some v → Env.get env k = some v) ∧
  (env.map Prod.fst).Nodup

omit [Add S] [Sub S] [Mul S] [Div S] [Zero S] [One S] [Kernel S] in
/-- C09, the invariant holds initially. -/
theorem C09_inv_init (init : Env S) (hnd : (init.map Prod.fst).Nodup) : Inv init init :=
  ⟨fun _ _ h _ => h, fun _ _ h => h, hnd⟩

/-- C09, the invariant is preserved by every statement (of every kind, successful or not). -/
theorem C09_inv_step (init : Env S) (hc : ∀ kv ∈ init, kv.2.constant = true)
    (fuel : Nat) (env : Env S) (s : Stmt S) :
    Inv init env → Inv init (step fuel env s).env := by
  intro h
  have a := agrees_step hc ⟨h.1, h.2.1, h.2.2⟩ fuel s
  exact ⟨a.const_init, a.init_kept, a.nodup⟩

/-- C09, the invariant is preserved by a statement list of any length, from any table that
    satisfies it. -/
theorem C09_inv_run (init : Env S) (hc : ∀ kv ∈ init, kv.2.constant = true)
    (fuel : Nat) (env : Env S) (ss : List (Stmt S)) :
    Inv init env → Inv init (runStmts fuel env ss).env := by
  intro h
  have a := agrees_runStmts hc fuel ss env ⟨h.1, h.2.1, h.2.2⟩
  exact ⟨a.const_init, a.init_kept, a.nodup⟩

/-- C09, every table reachable from `init` by statements satisfies the invariant. -/
theorem C09_reachable (init : Env S) (hc : ∀ kv ∈ init, kv.2.constant = true)
    (hnd : (init.map Prod.fst).Nodup) (fuel : Nat) (ss : List (Stmt S)) :
    Inv init (runStmts fuel init ss).env :=
  C09_inv_run init hc fuel init ss (C09_inv_init init hnd)

/-- C09, the same for a text (scanned, parsed and run; or rejected). -/
theorem C09_inv_text (init : Env S) (hc : ∀ kv ∈ init, kv.2.constant = true)
    (cfg : ScanCfg S) (fuel : Nat) (env : Env S) (text : Str) :
    Inv init env → Inv init (processText cfg fuel env text).env := by
  intro h
  have a := agrees_processText hc ⟨h.1, h.2.1, h.2.2⟩ cfg fuel text
  exact ⟨a.const_init, a.init_kept, a.nodup⟩

/-- C09, the same for the prompt loop over any number of lines. -/
theorem C09_inv_repl (init : Env S) (hc : ∀ kv ∈ init, kv.2.constant = true)
    (cfg : ScanCfg S) (fuel : Nat) (env : Env S) (lines : List Str) :
    Inv init env → Inv init (repl cfg fuel env lines).env := by
  intro h
  have a := agrees_repl hc cfg fuel lines env ⟨h.1, h.2.1, h.2.2⟩
  exact ⟨a.const_init, a.init_kept, a.nodup⟩

/-- C09, the same for a whole session (file, then expression or prompt loop) started on `init`. -/
theorem C09_reachable_session (init : Env S) (hc : ∀ kv ∈ init, kv.2.constant = true)
    (hnd : (init.map Prod.fst).Nodup) (cfg : ScanCfg S) (fuel : Nat) (file expr : Option Str)
    (stdin : List Str) :
    Inv init (session cfg fuel init file expr stdin).env := by
  have a := agrees_session hc hnd cfg fuel file expr stdin
  exact ⟨a.const_init, a.init_kept, a.nodup⟩

/-- C09, built-ins are immutable, stated directly: after any statement list run from `init`,
    every name of `init` is bound to exactly what `init` binds it to. -/
theorem C09_builtins_unchanged (init : Env S) (hc : ∀ kv ∈ init, kv.2.constant = true)
    (hnd : (init.map Prod.fst).Nodup) (fuel : Nat) (ss : List (Stmt S)) (k : Str)
    (v : Variable S) (h : Env.get init k = some v) :
    Env.get (runStmts fuel init ss).env k = some v :=
  (C09_reachable init hc hnd fuel ss).2.1 k v h

/-- C09, refusal: an assignment, a definition, a deletion or a signature deletion whose target
    is bound to a constant prints exactly one diagnostic (`constantAssignment` for the first two,
    `constantDeletion` for the last two, at the position of the name) and leaves the table as
    it was. -/
theorem C09_refused (fuel : Nat) (env : Env S) (name : Tok S) (v : Variable S)
    (hg : Env.get env name.lexeme = some v) (hcv : v.constant = true) :
    (∀ e, step fuel env (.assign name e) =
      ⟨env, [.evalErr ⟨.constantAssignment, name.line, name.col, name.lexeme⟩]⟩) ∧
    (∀ sig body, step fuel env (.define name sig body) =
      ⟨env, [.evalErr ⟨.constantAssignment, name.line, name.col, name.lexeme⟩]⟩) ∧
    (step fuel env (.deleteVar name) =
      ⟨env, [.evalErr ⟨.constantDeletion, name.line, name.col, name.lexeme⟩]⟩) ∧
    (∀ sig, step fuel env (.deleteSig name sig) =
      ⟨env, [.evalErr ⟨.constantDeletion, name.line, name.col, name.lexeme⟩]⟩) :=
  ⟨fun e => step_assign_constant fuel env name e hg hcv,
   fun sig body => step_define_constant fuel env name sig body hg hcv,
   step_deleteVar_constant fuel env name hg hcv,
   fun sig => step_deleteSig_constant fuel env name sig hg hcv⟩

/-- C09, refusal for native functions that are not constant: adding a signature to, or deleting
    a signature from, a name bound to a native function prints exactly one diagnostic
    (`cantAddSignature` / `cantDeleteSignature`) and leaves the table as it was. -/
theorem C09_refused_native (fuel : Nat) (env : Env S) (name : Tok S) (n : Str)
    (hg : Env.get env name.lexeme = some ⟨.native n, false⟩) :
    (∀ sig body, step fuel env (.define name sig body) =
      ⟨env, [.evalErr ⟨.cantAddSignature, name.line, name.col, name.lexeme⟩]⟩) ∧
    (∀ sig, step fuel env (.deleteSig name sig) =
      ⟨env, [.evalErr ⟨.cantDeleteSignature, name.line, name.col, name.lexeme⟩]⟩) :=
  ⟨fun sig body => step_define_native fuel env name sig body hg,
   fun sig => step_deleteSig_native fuel env name sig hg⟩

/-- C09, `clear`: it is silent, keeps exactly the constant entries, and in a table satisfying the
    invariant what it keeps is `init` up to the order of entries; in particular every lookup
    afterwards is the lookup in `init`. -/
theorem C09_clear (init : Env S) (hc : ∀ kv ∈ init, kv.2.constant = true)
    (hnd : (init.map Prod.fst).Nodup) (fuel : Nat) (env : Env S) :
    (step fuel env .clear).out = [] ∧
    (step fuel env .clear).env = env.filter (fun kv => kv.2.constant) ∧
    (Inv init env →
      List.Perm (step fuel env .clear).env init ∧
      ∀ k, Env.get (step fuel env .clear).env k = Env.get init k) := by
  refine ⟨rfl, rfl, ?_⟩
  intro h
  have a : Env.Agrees init env := ⟨h.1, h.2.1, h.2.2⟩
  exact ⟨a.retainConstants_perm hc hnd, a.get_retainConstants hc⟩

/-! ### the hypotheses are satisfiable -/

section Example

/-- the shipped initial table over an arbitrary scalar type (same construction as
    `Exec.initEnv`) -/
private def shippedInit (S : Type) [Kernel S] : Env S :=
  Gen.initEntries.map fun e =>
    (e.key.toList,
     ⟨match e.val with
       | .number re im => .number (Kernel.ofBits re im)
       | .native n => .native n.toList,
      e.constant⟩)

/-- The shipped initial table satisfies both hypotheses on `init`: every entry is constant and
    the keys are distinct. -/
example : (∀ kv ∈ shippedInit S, kv.2.constant = true) ∧
    ((shippedInit S).map Prod.fst).Nodup := by
  constructor
  · intro kv hm
    obtain ⟨e, he, rfl⟩ := List.mem_map.mp hm
    exact (by decide : ∀ e ∈ Gen.initEntries, e.constant = true) e he
  · have : (shippedInit S).map Prod.fst = Gen.initEntries.map (fun e => e.key.toList) := by
      simp only [shippedInit, List.map_map]
      rfl
    rw [this]
    decide +kernel

/-- `C09_refused`: in the shipped table `pi` is bound to a constant. -/
example (t : Tok S) (ht : t.lexeme = "pi".toList) :
    ∃ v, Env.get (shippedInit S) t.lexeme = some v ∧ v.constant = true := by
  rw [ht]
  have hnd : ((shippedInit S).map Prod.fst).Nodup := by
    have : (shippedInit S).map Prod.fst = Gen.initEntries.map (fun e => e.key.toList) := by
      simp only [shippedInit, List.map_map]
      rfl
    rw [this]
    decide +kernel
  refine ⟨⟨.number (Kernel.ofBits 0x400921fb54442d18 0), true⟩, Env.get_of_mem hnd ?_, rfl⟩
  exact List.mem_map.mpr ⟨⟨"pi", true, .number 0x400921fb54442d18 0⟩, by decide, rfl⟩

/-- `C09_refused_native`: a non-constant binding to a native function arises from `g = sin`. -/
example (g : Tok S) : Env.get ([(g.lexeme, ⟨.native "sin".toList, false⟩)] : Env S) g.lexeme =
    some ⟨.native "sin".toList, false⟩ :=
  Env.get_cons_self _ _ _

end Example

end Calc
