/-
  Calc.Props.C12Heap — C12 ("bindings are independent of one another; copies are independent")
  one level further down: why value semantics is the right model of a program whose function
  values are shared mutable handles.

  `Calc.Model.Heap` models `Statement::interpret` with handles (`Rc<RefCell<Function>>` as an
  index into a heap of function objects; a definition or a signature deletion on a name bound to
  a user function mutates the object in place; an assignment allocates a copy).  The value model
  (`Calc.Model.Stmt`, on which `Calc.Props.C12` is proved) has no handles.  Here:

  * `C12_heap_no_alias` — along every history no two names are bound to the same handle (what
    the run-time monitor checks with `Rc::ptr_eq` after every statement is a theorem of the
    handle model);
  * `C12_heap_refines_values` — along every history the handle model prints the same lines as
    the value model and, with every handle dereferenced, has the same bindings; so every theorem
    of `Calc.Props.C12` about bindings holds of the handle model (`C12_heap_frame`,
    `C12_heap_clear_frame`);
  * `C12_heap_alias_without_copy` — without the copy on assignment (the code before the `fix:`
    commit) `f(x) = x; h = f; h(x) = x + 1` binds `f` and `h` to one handle and the last
    statement changes `f`: both theorems above fail.
-/
import Calc.Model.Heap
import Calc.Generated.InitEnv
import Calc.Proofs.HeapRefine
import Calc.Proofs.PrintExample
import Calc.Props.C12
namespace Calc

variable {S : Type} [Add S] [Sub S] [Mul S] [Div S] [Zero S] [One S] [Kernel S]

/-! ## no aliases -/

omit [Add S] [Sub S] [Mul S] [Div S] [Zero S] [One S] [Kernel S] in
/-- C12 on handles, the initial state: built from an initial table with distinct keys by giving
    every function of the table an object and a handle of its own, it has no aliases, every
    handle it binds is allocated, and with every handle dereferenced it is the initial table. -/
theorem C12_heap_init (init : Env S) (hnd : (init.map Prod.fst).Nodup) :
    NoAlias (hinit init) ∧ abs (hinit init) = init :=
  ⟨hinit_noAlias init hnd, abs_hinit init⟩

/-- C12 on handles, one statement: with the copy on assignment, a statement of any kind, run with
    any fuel in any state without aliases, leaves a state without aliases. -/
theorem C12_heap_no_alias_step (fuel : Nat) (st : HState S) (s : Stmt S) (h : NoAlias st) :
    NoAlias (hstep fuel st s true).st :=
  hstep_noAlias fuel st s h

/-- C12 on handles, all histories: after any statement list run from the initial state, no two
    distinct names are bound to the same handle, every bound handle points to an allocated
    object, and no name has two entries. -/
theorem C12_heap_no_alias (fuel : Nat) (init : Env S) (hnd : (init.map Prod.fst).Nodup)
    (ss : List (Stmt S)) : NoAlias (hrun fuel true (hinit init) ss).st :=
  hrun_noAlias fuel ss (hinit init) (hinit_noAlias init hnd)

omit [Add S] [Sub S] [Mul S] [Div S] [Zero S] [One S] [Kernel S] in
/-- `NoAlias` read on the entries of the table rather than through lookups (this is the form the
    computable check `noAliasB` decides): keys distinct, the list of bound handles without
    repetition, every one of them below the size of the heap. -/
theorem C12_heap_no_alias_iff (st : HState S) :
    NoAlias st ↔
      (st.env.map Prod.fst).Nodup ∧ (HEnv.handles st.env).Nodup ∧
        ∀ h ∈ HEnv.handles st.env, h < st.heap.length :=
  (noAlias_iff_entries st).trans ⟨fun h => ⟨h.keys, h.handles, h.bound⟩, fun h => ⟨h.1, h.2.1, h.2.2⟩⟩

/-! ## refinement -/

/-- C12 on handles, one statement: in a state without aliases the handle-level statement prints
    exactly the lines of the value-level statement run on the abstraction of the state, and the
    abstraction of the state it leaves has the same binding for every name as the table the
    value-level statement leaves.  (The tables are equal as maps, not as lists: an in-place
    mutation does not move the entry of the name, `Env.insert` moves it to the front.) -/
theorem C12_heap_refines_step (fuel : Nat) (st : HState S) (s : Stmt S) (h : NoAlias st) :
    (hstep fuel st s true).out = (step fuel (abs st) s).out ∧
    ∀ k, Env.get (abs (hstep fuel st s true).st) k = Env.get (step fuel (abs st) s).env k :=
  hstep_refines fuel st s h

/-- C12 on handles, all histories: run from the initial state, the handle model prints the same
    lines as the value model run from the initial table, and afterwards, with every handle
    dereferenced, it has the same binding for every name. -/
theorem C12_heap_refines_values (fuel : Nat) (init : Env S) (hnd : (init.map Prod.fst).Nodup)
    (ss : List (Stmt S)) :
    (hrun fuel true (hinit init) ss).out = (runStmts fuel init ss).out ∧
    ∀ k, Env.get (abs (hrun fuel true (hinit init) ss).st) k =
      Env.get (runStmts fuel init ss).env k :=
  hrun_refines_init fuel init hnd ss

/-- The same from any state without aliases and any table it stands for (same bindings, keys
    distinct), so that the theorem can be applied in the middle of a history. -/
theorem C12_heap_refines_from (fuel : Nat) (st : HState S) (env : Env S) (h : NoAlias st)
    (he : ∀ k, Env.get (abs st) k = Env.get env k) (nd : (env.map Prod.fst).Nodup)
    (ss : List (Stmt S)) :
    (hrun fuel true st ss).out = (runStmts fuel env ss).out ∧
    ∀ k, Env.get (abs (hrun fuel true st ss).st) k = Env.get (runStmts fuel env ss).env k :=
  hrun_refines fuel ss st env h he nd

/-- Corollary, the frame theorem of C12 (`C12_frame`) holds of the handle model: in a state
    without aliases a statement other than `clear` leaves the dereferenced binding (or absence of
    a binding) of every name other than its target as it was, although a definition or a
    signature deletion mutates a shared object rather than the table. -/
theorem C12_heap_frame (fuel : Nat) (st : HState S) (s : Stmt S) (h : NoAlias st)
    (hs : s ≠ .clear) (k : Str) (hk : some k ≠ s.target) :
    Env.get (abs (hstep fuel st s true).st) k = Env.get (abs st) k := by
  rw [(C12_heap_refines_step fuel st s h).2 k]
  exact C12_frame fuel (abs st) s hs k hk

/-- Corollary, `C12_clear_frame` holds of the handle model. -/
theorem C12_heap_clear_frame (fuel : Nat) (st : HState S) (h : NoAlias st) (k : Str) :
    Env.get (abs (hstep fuel st .clear true).st) k =
      (Env.get (abs st) k).filter (fun v => v.constant) := by
  rw [(C12_heap_refines_step fuel st .clear h).2 k]
  exact C12_clear_frame fuel (abs st) (by rw [abs_keys]; exact h.keys) k

/-- Corollary, copies are independent on handles: after `h = f`, defining or deleting a signature
    through `h` (which mutates the object `h` is bound to) leaves what `f` dereferences to as it
    was. -/
theorem C12_heap_copy_independent (fuel : Nat) (st : HState S) (hn : NoAlias st) (h f : Tok S)
    (sig : Sig S) (body : Expr S) (hne : h.lexeme ≠ f.lexeme) :
    Env.get (abs (hstep fuel (hstep fuel st (.assign h (.ident f)) true).st
        (.define h sig body) true).st) f.lexeme = Env.get (abs st) f.lexeme ∧
    Env.get (abs (hstep fuel (hstep fuel st (.assign h (.ident f)) true).st
        (.deleteSig h sig) true).st) f.lexeme = Env.get (abs st) f.lexeme := by
  have hk : ∀ s : Stmt S, s.target = some h.lexeme → some f.lexeme ≠ s.target := by
    intro s hs e
    rw [hs] at e
    exact hne (Option.some.inj e).symm
  have h1 := C12_heap_no_alias_step fuel st (.assign h (.ident f)) hn
  constructor
  · rw [C12_heap_frame fuel _ (.define h sig body) h1 (by intro e; cases e) f.lexeme (hk _ rfl),
      C12_heap_frame fuel _ (.assign h (.ident f)) hn (by intro e; cases e) f.lexeme (hk _ rfl)]
  · rw [C12_heap_frame fuel _ (.deleteSig h sig) h1 (by intro e; cases e) f.lexeme (hk _ rfl),
      C12_heap_frame fuel _ (.assign h (.ident f)) hn (by intro e; cases e) f.lexeme (hk _ rfl)]

/-- C12 on handles, why the copy is needed, for every scalar type and every state: without the
    copy on assignment (`copyOnAssign = false`), `h = f` with `f` bound to a function and `h` a
    different name not bound to a constant always leaves `h` and `f` bound to the same handle. -/
theorem C12_heap_alias_created (fuel : Nat) (st : HState S) (h f : Tok S) (x : Nat) (c : Bool)
    (hne : h.lexeme ≠ f.lexeme) (hf : HEnv.get st.env f.lexeme = some ⟨.fn x, c⟩)
    (hh : ∀ w, HEnv.get st.env h.lexeme = some w → w.constant = false) :
    (hstep (fuel + 1) st (.assign h (.ident f)) false).st =
      ⟨HEnv.insert st.env h.lexeme ⟨.fn x, false⟩, st.heap⟩ ∧
    ¬ NoAlias (hstep (fuel + 1) st (.assign h (.ident f)) false).st :=
  ⟨hstep_assign_ident_nocopy fuel st h f x c hf hh,
   hstep_assign_ident_alias fuel st h f x c hne hf hh⟩

/-! ## the hypotheses are satisfiable; what goes wrong without the copy -/

namespace C12HeapExample

/-- the shipped initial table over an arbitrary scalar type (same construction as
    `Exec.initEnv`) -/
def initTable (S : Type) [Kernel S] : Env S :=
  Gen.initEntries.map fun e =>
    (e.key.toList,
     ⟨match e.val with
       | .number re im => .number (Kernel.ofBits re im)
       | .native n => .native n.toList,
      e.constant⟩)

/-- the hypothesis on `init` of `C12_heap_no_alias` and `C12_heap_refines_values` holds of the
    shipped table -/
theorem initTable_keys (S : Type) [Kernel S] : ((initTable S).map Prod.fst).Nodup := by
  have : (initTable S).map Prod.fst = Gen.initEntries.map (fun e => e.key.toList) := by
    simp only [initTable, List.map_map]
    rfl
  rw [this]
  decide +kernel

/-- `C12_heap_init`, `C12_heap_no_alias`, `C12_heap_refines_values`: their only hypothesis (the
    keys of the initial table are distinct) holds of the shipped table, over every scalar type;
    so along every history from the shipped table there are no aliases and the handle model
    agrees with the value model. -/
example (S : Type) [Add S] [Sub S] [Mul S] [Div S] [Zero S] [One S] [Kernel S] (fuel : Nat)
    (ss : List (Stmt S)) :
    NoAlias (hrun fuel true (hinit (initTable S)) ss).st ∧
    (hrun fuel true (hinit (initTable S)) ss).out = (runStmts fuel (initTable S) ss).out ∧
    ∀ k, Env.get (abs (hrun fuel true (hinit (initTable S)) ss).st) k =
      Env.get (runStmts fuel (initTable S) ss).env k :=
  ⟨C12_heap_no_alias fuel _ (initTable_keys S) ss,
   C12_heap_refines_values fuel _ (initTable_keys S) ss⟩

/-- the concrete scalar type of the examples: the Gaussian integers of `Calc.PrintExample`, with
    the arithmetic that instance leaves out (none of it is used by the history below) -/
abbrev G := PrintExample.G
@[reducible] def addG : Add G := ⟨fun a b => (a.1 + b.1, a.2 + b.2)⟩
@[reducible] def subG : Sub G := ⟨fun a b => (a.1 - b.1, a.2 - b.2)⟩
@[reducible] def mulG : Mul G := ⟨fun a b => (a.1 * b.1 - a.2 * b.2, a.1 * b.2 + a.2 * b.1)⟩
@[reducible] def divG : Div G := ⟨fun a _ => a⟩
@[reducible] def zeroG : Zero G := ⟨(0, 0)⟩
@[reducible] def oneG : One G := ⟨(1, 0)⟩
attribute [local instance] addG subG mulG divG zeroG oneG

def tokF : Tok G := ⟨.ident "f".toList, "f".toList, 1, 1⟩
def tokH : Tok G := ⟨.ident "h".toList, "h".toList, 1, 1⟩
def tokX : Tok G := ⟨.ident "x".toList, "x".toList, 1, 3⟩
def tokPlus : Tok G := ⟨.plus, "+".toList, 1, 10⟩
/-- the signature `(x)` -/
def sigX : Sig G := ⟨[.ident "x".toList]⟩
/-- the body `x` -/
def bodyX : Expr G := .ident tokX
/-- the body `x + 1` -/
def bodyX1 : Expr G := .binary (.ident tokX) tokPlus (.number (1, 0))
/-- `f(x) = x` -/
def defF : Stmt G := .define tokF sigX bodyX
/-- `h = f` -/
def asgH : Stmt G := .assign tokH (.ident tokF)
/-- `h(x) = x + 1` -/
def defH : Stmt G := .define tokH sigX bodyX1
/-- `f(x) = x; h = f; h(x) = x + 1` -/
def history : List (Stmt G) := [defF, asgH, defH]
/-- the state in which the last statement of the history runs when assignments do not copy -/
def shared : HState G := (hrun 5 false (hinit (initTable G)) [defF, asgH]).st

/-- `C12_heap_no_alias_step`, `C12_heap_refines_step`, `C12_heap_frame`: a state without
    aliases, a statement that is not `clear`, a name that is not its target. -/
example : NoAlias (hinit (initTable G)) ∧ defF ≠ .clear ∧ some "pi".toList ≠ defF.target := by
  refine ⟨hinit_noAlias _ (initTable_keys G), (by intro e; cases e), by decide⟩

/-- `C12_heap_alias_created`: a state in which `f` is bound to a handle and `h` is unbound. -/
example (h f : Tok G) (hh : h.lexeme = "h".toList) (hf : f.lexeme = "f".toList) :
    let st : HState G := ⟨[("f".toList, ⟨.fn 0, false⟩)], [.user ⟨"f".toList, [(sigX, bodyX)]⟩]⟩
    h.lexeme ≠ f.lexeme ∧ HEnv.get st.env f.lexeme = some ⟨.fn 0, false⟩ ∧
      ∀ w, HEnv.get st.env h.lexeme = some w → w.constant = false := by
  rw [hh, hf]
  refine ⟨by decide, rfl, ?_⟩
  intro w hw
  simp [HEnv.get] at hw

/-- with the copy, the history leaves `f` and `h` bound to different handles … -/
example : NoAlias (hrun 5 true (hinit (initTable G)) history).st := by decide +kernel

/-- … and `f` is still `f(x) = x` while `h` is `h(x) = x + 1`. -/
example :
    Env.get (abs (hrun 5 true (hinit (initTable G)) history).st) "f".toList =
      some ⟨.user ⟨"f".toList, [(sigX, bodyX)]⟩, false⟩ ∧
    Env.get (abs (hrun 5 true (hinit (initTable G)) history).st) "h".toList =
      some ⟨.user ⟨"f".toList, [(sigX, bodyX1)]⟩, false⟩ :=
  ⟨rfl, rfl⟩

end C12HeapExample

section WithoutCopy
open C12HeapExample
attribute [local instance] addG subG mulG divG zeroG oneG

/-- C12 on handles, the defect that the copy repaired.  With `copyOnAssign = false` (an
    assignment of an identifier bound to a function stores the handle itself, as the code did
    before the fix), on the shipped initial table, over the Gaussian integers:
    (1) after `f(x) = x; h = f` the names `f` and `h` are bound to the same handle, so `NoAlias`
        fails, and it still fails after `h(x) = x + 1`;
    (2) the last statement `h(x) = x + 1`, whose target is `h`, changes what `f` stands for, from
        `f(x) = x` to `f(x) = x + 1`: the frame theorem fails for the handle model;
    (3) the value model leaves `f(x) = x`, so after the history the handle model and the value
        model disagree on `f`: the refinement fails;
    (4) the lines printed are nevertheless the same (none), so the defect is silent until `f`
        is used. -/
theorem C12_heap_alias_without_copy :
    (¬ NoAlias shared ∧ ¬ NoAlias (hrun 5 false (hinit (initTable G)) history).st) ∧
    (defH.target = some "h".toList ∧
      Env.get (abs shared) "f".toList = some ⟨.user ⟨"f".toList, [(sigX, bodyX)]⟩, false⟩ ∧
      Env.get (abs (hstep 5 shared defH false).st) "f".toList =
        some ⟨.user ⟨"f".toList, [(sigX, bodyX1)]⟩, false⟩ ∧
      Env.get (abs (hstep 5 shared defH false).st) "f".toList ≠ Env.get (abs shared) "f".toList) ∧
    (Env.get (runStmts 5 (initTable G) history).env "f".toList =
        some ⟨.user ⟨"f".toList, [(sigX, bodyX)]⟩, false⟩ ∧
      Env.get (abs (hrun 5 false (hinit (initTable G)) history).st) "f".toList ≠
        Env.get (runStmts 5 (initTable G) history).env "f".toList) ∧
    (hrun 5 false (hinit (initTable G)) history).out = [] ∧
      (runStmts 5 (initTable G) history).out = [] := by
  have hne : (some ⟨.user ⟨"f".toList, [(sigX, bodyX1)]⟩, false⟩ : Option (Variable G)) ≠
      some ⟨.user ⟨"f".toList, [(sigX, bodyX)]⟩, false⟩ := by
    intro h
    simp [bodyX, bodyX1] at h
  have h1 : Env.get (abs shared) "f".toList =
      some ⟨.user ⟨"f".toList, [(sigX, bodyX)]⟩, false⟩ := rfl
  have h2 : Env.get (abs (hstep 5 shared defH false).st) "f".toList =
      some ⟨.user ⟨"f".toList, [(sigX, bodyX1)]⟩, false⟩ := rfl
  have h3 : Env.get (runStmts 5 (initTable G) history).env "f".toList =
      some ⟨.user ⟨"f".toList, [(sigX, bodyX)]⟩, false⟩ := rfl
  have h4 : Env.get (abs (hrun 5 false (hinit (initTable G)) history).st) "f".toList =
      some ⟨.user ⟨"f".toList, [(sigX, bodyX1)]⟩, false⟩ := rfl
  refine ⟨⟨by decide +kernel, by decide +kernel⟩, ⟨rfl, h1, h2, ?_⟩, ⟨h3, ?_⟩, rfl, rfl⟩
  · rw [h1, h2]; exact hne
  · rw [h3, h4]; exact hne

end WithoutCopy

end Calc
