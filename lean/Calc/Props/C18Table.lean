/-
  Property C18 — A function listing shows each definition as it was written.
  The round trip of Calc/Props/C18Scan.lean for the SHIPPED tables: no hypothesis on the scanner
  configuration is left.

  `shippedCfg tab` (Calc/Proofs/ReparseTable.lean) is the scanner configuration of the current
  tree: the keyword of a word is its whole-word lookup in `Gen.keywordTable`
  (Calc/Generated/Keywords.lean — the same lookup as `C05.lookup` of C04/C05), its
  `char::is_alphanumeric` class is read off `Gen.alnumRanges` (Calc/Generated/UnicodeClasses.lean,
  `tableCfg` of C01/C17), its tab size is `tab`.  Both tables are regenerated from the compiled
  code on every run, and the facts used about them are decided by the kernel row by row
  (`∀ p ∈ Gen.keywordTable, …`: no row order, no row count):
    * every row denotes `delete`, `cross`, `as`, `dot`, `clear` or a unit;
    * the printed symbol of every unit that SOME ROW denotes is a word over the class table that
      the table reads as that very unit (the yard and the mile, which no row denotes — known
      finding K2, `C18.C18_yard_mile_counterexample` — are not concerned, and cannot occur in a
      tree read from a scan);
    * if some row denotes `as`, the row of the word `as` does, and `as` is a word;
    * no operator character and no blank is in the class table.
  A regenerated table violating one of these makes this file fail to compile.

  Remaining hypotheses of the round-trip theorems, none on the configuration: the body is
  matrix-free (`Expr.NoMatrix`, C15) and every number token of the phrase prints as a literal of
  its value (`LitOK`, C15).
-/
import Calc.Props.C18Scan
import Calc.Props.C05
import Calc.Proofs.ReparseTable
import Calc.Exec.Canon
namespace Calc.Props.C18Table
open Calc

variable {S : Type} [Kernel S]

omit [Kernel S] in
/-- **C18 (the shipped configuration).** What `shippedCfg tab` is: tab size `tab`; a character is
    alphanumeric when a range of the generated class table contains its code point; the keyword of
    a word is the kind of what the generated spelling table denotes by the whole word —
    `C05.lookup`, the lookup of C04/C05 — and a word the table does not hold is no keyword. -/
theorem C18_shipped_cfg (tab : Nat) :
    (shippedCfg (S := S) tab).tab = tab ∧
    (∀ c, (shippedCfg (S := S) tab).isAlnum c =
      Gen.alnumRanges.toList.any fun r => r.1 ≤ c.toNat && c.toNat ≤ r.2) ∧
    (∀ w, (shippedCfg (S := S) tab).keyword w = (C05.lookup (String.ofList w)).map kwKind) ∧
    (∀ s : String, (shippedCfg (S := S) tab).keyword s.toList = (C05.lookup s).map kwKind) ∧
    (kwKind (S := S) .delete = .delete ∧ kwKind (S := S) .cross = .cross ∧
      kwKind (S := S) .as_ = .as_ ∧ kwKind (S := S) .dot = .dot ∧
      kwKind (S := S) .clear = .clear ∧ ∀ u, kwKind (S := S) (.unit u) = .unit u) :=
  ⟨rfl, fun _ => rfl, fun _ => rfl, fun s => shippedKeyword_toList s,
    rfl, rfl, rfl, rfl, rfl, fun _ => rfl⟩

/-- **C18 (the shipped spelling table, row by row).** Every row of the shipped table denotes
    `delete`, `cross`, `as`, `dot`, `clear` or a unit; the printed symbol of every unit a row
    denotes is a word over the shipped class table (`wordOK`: first character an identifier-start
    character, all characters alphanumeric, `_` or `°`) that the table reads as that very unit; if
    a row denotes `as`, the word `as` does, and `as` is such a word.  Decided by the kernel on the
    generated data. -/
theorem C18_shipped_rows :
    (∀ p ∈ Gen.keywordTable, p.2.isKeyword = true) ∧
    (∀ p ∈ Gen.keywordTable, ∀ u : Unit, p.2 = .unit u →
      wordOK (Gen.unitSymbol u).toList = true ∧ C05.lookup (Gen.unitSymbol u) = some (.unit u)) ∧
    wordOK "as".toList = true ∧
    (∀ p ∈ Gen.keywordTable, p.2 = .as_ → C05.lookup "as" = some .as_) :=
  ⟨keywordTable_kinds, fun p hp u => keywordTable_units p hp u (unit_mem_all u),
    keywordTable_as.1, keywordTable_as.2⟩

omit [Kernel S] in
/-- **C18 (the shipped class table).** No operator character (`+ - * / % ^ ! √ ( ) | ⌈ ⌉ ⌊ ⌋ [ ] ,
    • ×`) and no blank is alphanumeric in the shipped configuration: the hypotheses `hop` and
    `hblank` of C18. -/
theorem C18_shipped_classes_ok (tab : Nat) :
    (∀ c ∈ opChars, (shippedCfg (S := S) tab).isAlnum c = false) ∧
    (shippedCfg (S := S) tab).isAlnum ' ' = false :=
  ⟨shippedCfg_hop tab, shippedCfg_hblank tab⟩

/-- **C18 (the shipped keyword table is fit for the round trip).** `TableOK` holds of the shipped
    configuration, for any tab size: the table yields keyword kinds only; every unit it can yield
    prints a symbol that the scanner reads, as one word, as that unit; `as` is read as `as`. -/
theorem C18_shipped_table_ok (tab : Nat) : TableOK (shippedCfg (S := S) tab) :=
  shippedCfg_tableOK tab

/-- **C18 (round trip, parse level, shipped tables).** `C18_reparse_unconditional` at the shipped
    configuration, any tab size: if the body `e`, matrix-free, was read by the grammar from a
    phrase `c` of tokens of a successful scan, and every number token of `c` prints as a literal
    of its value, then scanning the printed body succeeds and the grammar reads the resulting
    tokens, as an expression, as a tree similar to `e`. -/
theorem C18_reparse_shipped (tab : Nat) (text : Str) (ts : List (Tok S))
    (hs : scan (shippedCfg tab) text = .ok ts) (c : List (Tok S)) (e : Expr S)
    (hd : Derives .expr c e) (hsub : ∀ t ∈ c, t ∈ ts) (hm : e.NoMatrix)
    (hlit : ∀ t ∈ c, ∀ z, t.kind = .number z → LitOK z) :
    ∃ toks e', scan (shippedCfg tab) (showExpr e) = .ok toks ∧ Derives .expr toks e' ∧
      Expr.Sim e e' :=
  C18Scan.C18_reparse_unconditional (shippedCfg tab) (shippedCfg_hop tab) (shippedCfg_hblank tab)
    (shippedCfg_tableOK tab) text ts hs c e hd hsub hm hlit

/-- **C18 (round trip, lexemes of identifiers, shipped tables).** `C18_reparse_lexemes` at the
    shipped configuration: the tree read from the tokens of the printed body is `Expr.SimLex` to
    the body — same shape, numbers, units, grouping kinds, stored tokens of equal kinds, identifier
    tokens of equal lexemes — and so is every tree the grammar reads from these tokens. -/
theorem C18_reparse_lexemes_shipped (tab : Nat) (text : Str) (ts : List (Tok S))
    (hs : scan (shippedCfg tab) text = .ok ts) (c : List (Tok S)) (e : Expr S)
    (hd : Derives .expr c e) (hsub : ∀ t ∈ c, t ∈ ts) (hm : e.NoMatrix)
    (hlit : ∀ t ∈ c, ∀ z, t.kind = .number z → LitOK z) :
    ∃ toks e', scan (shippedCfg tab) (showExpr e) = .ok toks ∧ Derives .expr toks e' ∧
      Expr.SimLex e e' ∧ ∀ e'', Derives .expr toks e'' → Expr.SimLex e e'' :=
  C18Scan.C18_reparse_lexemes (shippedCfg tab) (shippedCfg_hop tab) (shippedCfg_hblank tab)
    (shippedCfg_tableOK tab) text ts hs c e hd hsub hm hlit

/-- **C18 (the body of a defined function, shipped tables).**
    `C18_reparse_defined_body_scanned` at the shipped configuration: if `text` scans to `ts` and
    `statement` accepts tokens of `ts` as a definition `name(params) = body` with a matrix-free
    body whose number literals print as literals of their values, then scanning the printed body
    succeeds; in front of a statement delimiter `expression` reads the resulting tokens as a tree
    `Expr.SimLex` to the body that was defined; and every tree the grammar reads from them is. -/
theorem C18_reparse_defined_body_shipped (tab : Nat) (text : Str) (ts : List (Tok S))
    (hs : scan (shippedCfg tab) text = .ok ts) (f₀ : Nat) (ts₀ r₀ : List (Tok S))
    (hsub : ∀ t ∈ ts₀, t ∈ ts) (name : Tok S) (sig : Sig S) (body : Expr S)
    (hp : pStatement f₀ ts₀ = .ok (.define name sig body) r₀)
    (hm : body.NoMatrix) (hlit : ∀ t ∈ ts₀, ∀ z, t.kind = .number z → LitOK z) :
    ∃ toks body', scan (shippedCfg tab) (showExpr body) = .ok toks ∧ Expr.SimLex body body' ∧
      (∀ f (d : Tok S) r, d.isDelim → 10 + 13 * (toks ++ d :: r).length ≤ f →
        pExpression f (toks ++ d :: r) = .ok body' (d :: r)) ∧
      (∀ e'', Derives .expr toks e'' → Expr.SimLex body e'') :=
  C18Scan.C18_reparse_defined_body_scanned (shippedCfg tab) (shippedCfg_hop tab)
    (shippedCfg_hblank tab) (shippedCfg_tableOK tab) text ts hs f₀ ts₀ r₀ hsub name sig body hp
    hm hlit

omit [Kernel S] in
/-- **C18 (the shipped configuration is the executable one's keyword lookup).** The keyword lookup
    of the executable instance of the model (`Exec.keywordLookup`, Calc/Exec/Canon.lean — the one
    whose scans the harness compares with the binary's) is the keyword lookup of `shippedCfg`.
    (Its class lookup reads the same `Gen.alnumRanges` by binary search and occurs in no theorem.) -/
theorem C18_shipped_keyword_exec (tab : Nat) (w : Str) :
    Exec.keywordLookup w = (shippedCfg (S := Exec.Cx) tab).keyword w := by
  show (Gen.keywordTable.find? (·.1 == String.ofList w)).map (fun e => Exec.kwKind e.2) =
    ((Gen.keywordTable.find? (·.1 == String.ofList w)).map (·.2)).map kwKind
  cases hf : Gen.keywordTable.find? (·.1 == String.ofList w) with
  | none => rfl
  | some p =>
    have hk := keywordTable_kinds p (List.mem_of_find?_eq_some hf)
    simp only [Option.map_some]
    cases hpk : p.2 with
    | other c => rw [hpk] at hk; cases hk
    | _ => rfl

/-! ### the statements are not vacuous -/

omit [Kernel S] in
/-- the shipped configuration reads `as`, `dot`, `cross`, `delete`, `clear` and `ft` as the
    keyword kinds, and `yd` as the foot (known finding K2) -/
example (tab : Nat) :
    (shippedCfg (S := S) tab).keyword "as".toList = some .as_ ∧
    (shippedCfg (S := S) tab).keyword "ft".toList = some (.unit (.distance .foot)) ∧
    (shippedCfg (S := S) tab).keyword "yd".toList = some (.unit (.distance .foot)) := by
  have h : C05.lookup "as" = some .as_ ∧ C05.lookup "ft" = some (.unit (.distance .foot)) ∧
      C05.lookup "yd" = some (.unit (.distance .foot)) := by decide +kernel
  have hk := (C18_shipped_cfg (S := S) tab).2.2.2.1
  refine ⟨?_, ?_, ?_⟩
  · rw [hk, h.1]; rfl
  · rw [hk, h.2.1]; rfl
  · rw [hk, h.2.2]; rfl

end Calc.Props.C18Table
