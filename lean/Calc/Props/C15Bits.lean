/-
  Property C15, binary64 — "printed results denote the computed values", for the formatter of
  reals that the executable model runs.

  Calc/Props/C15.lean states the number theorems under the hypothesis `Spec.FmtSpec` on the
  printer of reals.  Here that hypothesis is discharged for `Calc.Exec.fmtBits`, the model of
  Rust's `Display for f64` on a bit pattern — the very function the executable `Float` kernel
  prints with (`Exec.Cx.fmtF x = (fmtBits x.toBits).toList`, Calc/Exec/Cx.lean) and that the `fmt`
  correspondence stream compares byte for byte with Rust.  Lean's `Float` is opaque to the kernel,
  so the statements are about BIT PATTERNS: `PrintBits.B64` is the type of canonical binary64
  patterns (every non-NaN pattern, and one NaN — Rust prints every NaN as `NaN`, so neither the
  payload nor the sign of a NaN is in the text), and the tests `== 0.0`, `== 1.0`, `== -1.0`,
  `< 0.0`, `abs` that `complex_to_string` performs are given their IEEE-754 meaning on patterns
  (`PrintBits.kernel`).  That kernel instance has placeholder arithmetic: it exists only to state
  these printing theorems, and no arithmetic fact is claimed of it.

  Proofs: Calc/Proofs/PrintBits.lean, on top of Calc/Proofs/FmtText.lean (C04Round) and
  Calc/Proofs/PrintComplex.lean.  The reader `PrintBits.readBits` is: an optional `-`, then `NaN`,
  `inf`, or a decimal literal read by `parseDecimal` and rounded by `decimalToBits` (the reader
  proved correctly rounded in C04).
-/
import Calc.Proofs.PrintBits
import Calc.Exec.Cx
namespace Calc.Props.C15Bits
open Calc Calc.Spec Calc.Exec Calc.PrintBits

/-! ### one real -/

/-- **C15 (binary64, one real).** For EVERY canonical binary64 pattern `x` — positive or negative,
    normal or subnormal, `+0`, `-0` (printed `-0`), `+inf`, `-inf`, the NaN — the text that
    `fmtBits` prints reads back as exactly that pattern; the text contains no blank; and it ends
    with a digit, `inf` or `NaN` (`Spec.realTextEnd`, the lexical class the measurement and matrix
    theorems of C15 rely on). -/
theorem C15_bits_real_text_reads_back (x : B64) :
    readBits (fmtBits x.bits).toList = some x ∧
    ' ' ∉ (fmtBits x.bits).toList ∧
    realTextEnd (fmtBits x.bits).toList = true :=
  ⟨readBits_fmt x, fmt_noblank x, fmt_end x⟩

/-- … stated on raw patterns: every `UInt64` that is not a NaN is canonical, and its text reads
    back as itself. -/
theorem C15_bits_real_text_reads_back_raw (b : UInt64)
    (h : b &&& 0x7FFFFFFFFFFFFFFF ≤ 0x7FF0000000000000) :
    (readBits (fmtBits b).toList).map B64.bits = some b := by
  have := readBits_fmt ⟨b, Or.inl h⟩
  unfold B64.fmt at this
  rw [this]; rfl

/-- Why only one NaN: every NaN pattern (magnitude bits above those of `inf`), whatever its sign
    and payload, prints as `NaN`. -/
theorem C15_bits_every_nan_prints_NaN (b : UInt64)
    (h : b &&& 0x7FFFFFFFFFFFFFFF > 0x7FF0000000000000) : fmtBits b = "NaN" := by
  unfold fmtBits
  simp only [h, if_true]

/-! ### complex numbers -/

/-- **C15 (binary64, number).** For all pairs `z` of canonical patterns, the text that
    `complexToString` prints — with `fmtBits` as the printer of the parts and the IEEE-754 tests
    on patterns — reads back with the independent reader `Spec.readComplex` (over `readBits`) as
    the real and the imaginary part of `z`, in all nine forms `<re>`, `<im>i`, `<re> + <im>i`,
    `<re> - <|im|>i`, `<re> + i`, `<re> - i`, `i`, `-i`, `0`; each part exactly (same bit
    pattern, sign included), or — for a part that is `+0` or `-0`, which `complex_to_string` does
    not print or prints as `0` — as a zero.  This is `C15_complex` with its hypothesis `FmtSpec`
    proved (`PrintBits.fmtSpecBits`). -/
theorem C15_bits_complex_reads_back (z : CxBits) :
    ∃ a b, readComplex readBits (complexToString z) = some (a, b) ∧
      (a = z.re ∨ (a.isZero = true ∧ z.re.isZero = true)) ∧
      (b = z.im ∨ (b.isZero = true ∧ z.im.isZero = true)) :=
  readComplex_complexToString fmtSpecBits z

/-- **C15 (binary64, number, exact).** The only loss is the sign of a zero part: what is read
    for each part is that part's pattern, or the pattern of `+0` when the part is `+0` or `-0`.
    So when neither part of `z` is the pattern of `-0`, the printed text reads back as exactly
    the two bit patterns of `z`. -/
theorem C15_bits_complex_exact (z : CxBits) :
    (∃ a b, readComplex readBits (complexToString z) = some (a, b) ∧
      (a = z.re ∨ (a = 0 ∧ z.re.isZero = true)) ∧
      (b = z.im ∨ (b = 0 ∧ z.im.isZero = true))) ∧
    (z.re.bits ≠ 0x8000000000000000 → z.im.bits ≠ 0x8000000000000000 →
      readComplex readBits (complexToString z) = some (z.re, z.im)) :=
  ⟨readComplex_complexToString_zero fmtSpecBits z, readComplex_bits_exact z⟩

/-- … where the zero test holds of exactly the two zero patterns. -/
theorem C15_bits_zero_test (x : B64) :
    x.isZero = true ↔ x.bits = 0 ∨ x.bits = 0x8000000000000000 :=
  isZero_iff x

/-- **C15 (binary64, the text determines the number).** Two pairs of canonical patterns with the
    same printed text have the same real parts and the same imaginary parts, bit for bit, except
    that `+0` and `-0` parts are not told apart. -/
theorem C15_bits_complex_determines (z w : CxBits) (h : complexToString z = complexToString w) :
    (z.re = w.re ∨ (z.re.isZero = true ∧ w.re.isZero = true)) ∧
    (z.im = w.im ∨ (z.im.isZero = true ∧ w.im.isZero = true)) := by
  obtain ⟨a, b, hz, ha, hb⟩ := C15_bits_complex_reads_back z
  obtain ⟨a', b', hw, ha', hb'⟩ := C15_bits_complex_reads_back w
  rw [h, hw] at hz
  injection hz with hz; injection hz with e1 e2
  subst e1 e2
  have tr : ∀ {x y y' : B64}, (x = y ∨ (x.isZero = true ∧ y.isZero = true)) →
      (x = y' ∨ (x.isZero = true ∧ y'.isZero = true)) →
      (y = y' ∨ (y.isZero = true ∧ y'.isZero = true)) := by
    rintro x y y' (h | ⟨h1, h2⟩) (h' | ⟨h1', h2'⟩)
    · exact Or.inl (h ▸ h')
    · exact Or.inr ⟨h ▸ h1', h2'⟩
    · exact Or.inr ⟨h2, h' ▸ h1⟩
    · exact Or.inr ⟨h2, h2'⟩
  exact ⟨tr ha ha', tr hb hb'⟩

/-- **C15 (binary64, the instance is the executable one).** The printing-related methods of the
    pattern kernel are, by definition, `fmtBits` on the patterns of the parts and the IEEE-754
    tests on patterns; and the executable `Float` kernel prints a part with the same `fmtBits`
    applied to the part's bit pattern. -/
theorem C15_bits_kernel_methods (z : CxBits) (x : Float) :
    Kernel.fmtRe z = (fmtBits z.re.bits).toList ∧
    Kernel.fmtIm z = (fmtBits z.im.bits).toList ∧
    Kernel.fmtAbsIm z = (fmtBits (z.im.bits &&& 0x7FFFFFFFFFFFFFFF)).toList ∧
    Kernel.reIsZero z = decide (z.re.bits &&& 0x7FFFFFFFFFFFFFFF = 0) ∧
    Kernel.imIsZero z = decide (z.im.bits &&& 0x7FFFFFFFFFFFFFFF = 0) ∧
    (Kernel.imIsOne z = true ↔ z.im.bits = 0x3FF0000000000000) ∧
    (Kernel.imIsNegOne z = true ↔ z.im.bits = 0xBFF0000000000000) ∧
    Kernel.imIsNeg z = (decide (z.im.bits >>> 63 = 1) &&
      decide (z.im.bits &&& 0x7FFFFFFFFFFFFFFF ≠ 0) &&
      decide (z.im.bits &&& 0x7FFFFFFFFFFFFFFF ≤ 0x7FF0000000000000)) ∧
    Exec.Cx.fmtF x = (fmtBits x.toBits).toList := by
  refine ⟨rfl, rfl, rfl, rfl, rfl, ?_, ?_, rfl, rfl⟩
  · show decide (z.im = 1) = true ↔ _
    rw [decide_eq_true_eq]
    exact ⟨fun h => h ▸ rfl, fun h => B64.ext h⟩
  · show decide (z.im = -1) = true ↔ _
    rw [decide_eq_true_eq]
    exact ⟨fun h => h ▸ rfl, fun h => B64.ext h⟩

/-! ### concrete values (checked by the kernel) -/

/-- `1.5 − 2i`, parts `0x3FF8000000000000` and `0xC000000000000000`, prints as `1.5 - 2i` … -/
example : complexToString (⟨⟨0x3FF8000000000000, by decide⟩, ⟨0xC000000000000000, by decide⟩⟩ : CxBits)
    = "1.5 - 2i".toList := by decide +kernel
/-- … and `1.5 - 2i` reads back as those two patterns. -/
example : (readComplex readBits "1.5 - 2i".toList).map (fun p => (p.1.bits, p.2.bits))
    = some (0x3FF8000000000000, 0xC000000000000000) := by decide +kernel

/-- `0.1 + 0.2i` (patterns of `0.1` and `0.2`), the shortest digits that read back -/
example : complexToString (⟨⟨0x3FB999999999999A, by decide⟩, ⟨0x3FC999999999999A, by decide⟩⟩ : CxBits)
    = "0.1 + 0.2i".toList := by decide +kernel
example : (readComplex readBits "0.1 + 0.2i".toList).map (fun p => (p.1.bits, p.2.bits))
    = some (0x3FB999999999999A, 0x3FC999999999999A) := by decide +kernel

/-- the special forms: `i`, `-i`, `0` (also for `-0 - 0i`), `-2 + i`, `3 - i` -/
example : complexToString (⟨0, 1⟩ : CxBits) = "i".toList := by decide +kernel
example : complexToString (⟨-0, -1⟩ : CxBits) = "-i".toList := by decide +kernel
example : complexToString (⟨0, 0⟩ : CxBits) = "0".toList := by decide +kernel
example : complexToString (⟨-0, -0⟩ : CxBits) = "0".toList := by decide +kernel
example : complexToString (⟨⟨0xC000000000000000, by decide⟩, 1⟩ : CxBits) = "-2 + i".toList := by
  decide +kernel
example : complexToString (⟨⟨0x4008000000000000, by decide⟩, -1⟩ : CxBits) = "3 - i".toList := by
  decide +kernel

/-- infinities and the NaN as parts: `-inf + NaNi`, `NaN - infi` (a NaN is not `< 0.0`) -/
example : complexToString (⟨-B64.inf, B64.nan⟩ : CxBits) = "-inf + NaNi".toList := by decide +kernel
example : complexToString (⟨B64.nan, -B64.inf⟩ : CxBits) = "NaN - infi".toList := by decide +kernel
example : (readComplex readBits "NaN - infi".toList).map (fun p => (p.1.bits, p.2.bits))
    = some (0x7FF8000000000000, 0xFFF0000000000000) := by decide +kernel

/-- one real: `-0` prints as `-0` and reads as the pattern of `-0`; `0` reads as `+0` -/
example : fmtBits 0x8000000000000000 = "-0" := by decide +kernel
example : (readBits "-0".toList).map B64.bits = some 0x8000000000000000 ∧
    (readBits "0".toList).map B64.bits = some 0 := by decide +kernel
/-- the smallest subnormal, negated: `-0.000…005` (324 digits after the point) reads back -/
example : (readBits (fmtBits 0x8000000000000001).toList).map B64.bits = some 0x8000000000000001 := by
  decide +kernel
/-- the largest finite double prints its 309 digits and reads back -/
example : (readBits (fmtBits 0x7FEFFFFFFFFFFFFF).toList).map B64.bits = some 0x7FEFFFFFFFFFFFFF := by
  decide +kernel
/-- a NaN with a payload and a sign prints as `NaN`, which reads as the canonical NaN -/
example : fmtBits 0xFFF0000000000001 = "NaN" ∧
    (readBits "NaN".toList).map B64.bits = some 0x7FF8000000000000 := by decide +kernel

end Calc.Props.C15Bits
