/-
  Calc.Props.C19 — Output is a function of the input alone.

  The variable table of the Rust is a `HashMap`, whose iteration order differs from run to run.
  In the model the table is an association list; "iteration order" is the order of its entries.
  The theorems here say that this order is never observable: tables with the same bindings
  (`EnvEquiv`; in particular any two permutations of a table with distinct keys) give the same
  printed lines and the same bindings afterwards, for an expression, a statement, a statement
  list, a text, the prompt loop and a whole session.

  "No ambient input" (`C19_no_ambient`): `session cfg fuel init file expr stdin`, like every
  function of the model, is a total function of exactly the arguments written — the
  configuration, the fuel, the initial table, the file text, the expression text and the prompt
  lines.  There is no clock, no random source, no environment variable and no file system in its
  signature, and Lean functions have no other inputs.  A theorem of the form
  `session … = session …` would be vacuous, so none is stated.
-/
import Calc.Model.Front
import Calc.Proofs.EnvLemmas
import Calc.Proofs.EvalPure
import Calc.Proofs.EnvStep
import Calc.Proofs.PermLemmas
namespace Calc

variable {S : Type} [Add S] [Sub S] [Mul S] [Div S] [Zero S] [One S] [Kernel S]

omit [Add S] [Sub S] [Mul S] [Div S] [Zero S] [One S] [Kernel S] in
/-- C19, tables: reordering the entries of a table with distinct keys changes no lookup (and
    keeps the keys distinct). -/
theorem C19_perm_table (e₁ e₂ : Env S) (hp : e₁.Perm e₂) (nd : (e₁.map Prod.fst).Nodup) :
    EnvEquiv e₁ e₂ ∧ (e₂.map Prod.fst).Nodup :=
  ⟨perm_nodup_envEquiv hp nd, perm_keys_nodup hp nd⟩

omit [Add S] [Sub S] [Mul S] [Div S] [Zero S] [One S] [Kernel S] in
/-- C19, tables: the table operations respect "same bindings" — insertion and removal always,
    `clear` on tables with distinct keys; and two insertions under different names commute. -/
theorem C19_perm_ops (e₁ e₂ : Env S) (h : EnvEquiv e₁ e₂) :
    (∀ k v, EnvEquiv (Env.insert e₁ k v) (Env.insert e₂ k v)) ∧
    (∀ k, EnvEquiv (Env.remove e₁ k) (Env.remove e₂ k)) ∧
    ((e₁.map Prod.fst).Nodup → (e₂.map Prod.fst).Nodup →
      EnvEquiv (Env.retainConstants e₁) (Env.retainConstants e₂)) ∧
    (∀ a b va vb, a ≠ b →
      EnvEquiv (Env.insert (Env.insert e₁ a va) b vb) (Env.insert (Env.insert e₂ b vb) a va)) := by
  refine ⟨fun k v => h.insert k v, fun k => h.remove k, fun n1 n2 => h.retainConstants n1 n2, ?_⟩
  intro a b va vb hab k
  by_cases hb : k = b
  · subst hb
    rw [Env.get_insert_self, Env.get_insert_ne _ _ (fun e => hab e.symm), Env.get_insert_self]
  · rw [Env.get_insert_ne _ _ hb]
    by_cases ha : k = a
    · subst ha
      rw [Env.get_insert_self, Env.get_insert_self]
    · rw [Env.get_insert_ne _ _ ha, Env.get_insert_ne _ _ ha, Env.get_insert_ne _ _ hb]
      exact h k

/-- C19, expressions: the value (or diagnostic, panic, out-of-fuel) of an expression is the same
    in any two tables with the same bindings — including calls of user functions, whose
    parameter bindings are added to the table. -/
theorem C19_perm_eval (fuel : Nat) (e : Expr S) (e₁ e₂ : Env S) (h : EnvEquiv e₁ e₂) :
    (eval fuel e e₁).res = (eval fuel e e₂).res :=
  eval_equiv fuel e e₁ e₂ h

/-- C19, statements: in two tables with the same bindings and distinct keys (an invariant of
    every run, `C12_keys_distinct`), a statement prints the same lines and leaves tables with the
    same bindings.  (Distinct keys are only needed for `clear`.) -/
theorem C19_perm_step (fuel : Nat) (e₁ e₂ : Env S) (h : EnvEquiv e₁ e₂)
    (nd₁ : (e₁.map Prod.fst).Nodup) (nd₂ : (e₂.map Prod.fst).Nodup) (s : Stmt S) :
    (step fuel e₁ s).out = (step fuel e₂ s).out ∧
    EnvEquiv (step fuel e₁ s).env (step fuel e₂ s).env :=
  step_equiv fuel h nd₁ nd₂ s

/-- C19, statements other than `clear`: the same with no assumption on the keys. -/
theorem C19_perm_step_no_clear (fuel : Nat) (e₁ e₂ : Env S) (h : EnvEquiv e₁ e₂) (s : Stmt S)
    (hs : s ≠ .clear) :
    (step fuel e₁ s).out = (step fuel e₂ s).out ∧
    EnvEquiv (step fuel e₁ s).env (step fuel e₂ s).env :=
  step_equiv_of_ne_clear fuel h s hs

/-- C19, statement lists. -/
theorem C19_perm_run (fuel : Nat) (e₁ e₂ : Env S) (h : EnvEquiv e₁ e₂)
    (nd₁ : (e₁.map Prod.fst).Nodup) (nd₂ : (e₂.map Prod.fst).Nodup) (ss : List (Stmt S)) :
    (runStmts fuel e₁ ss).out = (runStmts fuel e₂ ss).out ∧
    EnvEquiv (runStmts fuel e₁ ss).env (runStmts fuel e₂ ss).env :=
  runStmts_equiv fuel ss h nd₁ nd₂

/-- C19, a text (scanned, parsed and run, or rejected). -/
theorem C19_perm_text (cfg : ScanCfg S) (fuel : Nat) (e₁ e₂ : Env S) (h : EnvEquiv e₁ e₂)
    (nd₁ : (e₁.map Prod.fst).Nodup) (nd₂ : (e₂.map Prod.fst).Nodup) (text : Str) :
    (processText cfg fuel e₁ text).out = (processText cfg fuel e₂ text).out ∧
    EnvEquiv (processText cfg fuel e₁ text).env (processText cfg fuel e₂ text).env :=
  processText_equiv cfg fuel text h nd₁ nd₂

/-- C19, the prompt loop. -/
theorem C19_perm_repl (cfg : ScanCfg S) (fuel : Nat) (e₁ e₂ : Env S) (h : EnvEquiv e₁ e₂)
    (nd₁ : (e₁.map Prod.fst).Nodup) (nd₂ : (e₂.map Prod.fst).Nodup) (lines : List Str) :
    (repl cfg fuel e₁ lines).out = (repl cfg fuel e₂ lines).out ∧
    EnvEquiv (repl cfg fuel e₁ lines).env (repl cfg fuel e₂ lines).env :=
  repl_equiv cfg fuel lines h nd₁ nd₂

/-- C19, "nothing the calculator prints or binds depends on the iteration order of its internal
    tables": two sessions on the same inputs whose initial tables are permutations of one another
    (with distinct keys) print exactly the same lines — equal as lists of `Line S`, values
    included — and end with the same bindings. -/
theorem C19_perm (cfg : ScanCfg S) (fuel : Nat) (init₁ init₂ : Env S)
    (hp : init₁.Perm init₂) (nd : (init₁.map Prod.fst).Nodup) (file expr : Option Str)
    (stdin : List Str) :
    (session cfg fuel init₁ file expr stdin).out = (session cfg fuel init₂ file expr stdin).out ∧
    EnvEquiv (session cfg fuel init₁ file expr stdin).env
      (session cfg fuel init₂ file expr stdin).env :=
  session_equiv cfg fuel file expr stdin (perm_nodup_envEquiv hp nd) nd (perm_keys_nodup hp nd)

/-- C19, the same for any two initial tables with the same bindings and distinct keys. -/
theorem C19_perm_session (cfg : ScanCfg S) (fuel : Nat) (init₁ init₂ : Env S)
    (h : EnvEquiv init₁ init₂) (nd₁ : (init₁.map Prod.fst).Nodup)
    (nd₂ : (init₂.map Prod.fst).Nodup) (file expr : Option Str) (stdin : List Str) :
    (session cfg fuel init₁ file expr stdin).out = (session cfg fuel init₂ file expr stdin).out ∧
    EnvEquiv (session cfg fuel init₁ file expr stdin).env
      (session cfg fuel init₂ file expr stdin).env :=
  session_equiv cfg fuel file expr stdin h nd₁ nd₂

/-! ### the hypotheses are satisfiable; distinct keys are needed for `clear` -/

section Example
variable (a b : S)

/-- two orders of the same two bindings: permutations of one another, with distinct keys -/
example :
    let e₁ : Env S := [("x".toList, ⟨.number a, false⟩), ("y".toList, ⟨.number b, true⟩)]
    let e₂ : Env S := [("y".toList, ⟨.number b, true⟩), ("x".toList, ⟨.number a, false⟩)]
    e₁.Perm e₂ ∧ (e₁.map Prod.fst).Nodup := by
  refine ⟨List.Perm.swap _ _ _, ?_⟩
  show ["x".toList, "y".toList].Nodup
  decide

/-- Without distinct keys `clear` does not respect `EnvEquiv`: the (unreachable) table
    `[x ↦ a, x ↦ b (constant)]` has the same bindings as `[x ↦ a]`, but `clear` uncovers the
    hidden constant entry in the first and leaves nothing in the second. -/
example :
    let e₁ : Env S := [("x".toList, ⟨.number a, false⟩), ("x".toList, ⟨.number b, true⟩)]
    let e₂ : Env S := [("x".toList, ⟨.number a, false⟩)]
    EnvEquiv e₁ e₂ ∧
    Env.get (step 0 e₁ .clear).env "x".toList = some ⟨.number b, true⟩ ∧
    Env.get (step 0 e₂ .clear).env "x".toList = none := by
  refine ⟨?_, rfl, rfl⟩
  intro k
  simp only [Env.get]
  split <;> rfl

end Example

end Calc
