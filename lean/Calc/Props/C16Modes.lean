/-
  Calc.Props.C16Modes — C16, "the same sequence of well-formed statements produces the same
  output lines (evaluation diagnostics included) and the same final bindings whether it arrives
  in a preload file, as the command-line expression, or line by line at the interactive prompt,
  where only the reported line numbers differ".

  Setting.  `ls` are the lines as the line editor returns them (no terminator inside a line, no
  exit line).  Every line is well-formed ON ITS OWN: `l ++ "\n"` scans to `tk l` and `tk l`
  parses to `st l`.  `joinLines ls = l₁ "\n" l₂ "\n" … lₙ "\n"` is the same input as one text (a
  preload file, or the expression argument).

    * `C16_lines_scan`   — the joined text scans, to the tokens of the lines one after the other,
                           the tokens of line `i` moved down by `i − 1` lines and otherwise
                           unchanged (kind, value, text, column);
    * `C16_lines_parse`  — those tokens parse, to the statements of the lines one after the
                           other, up to positions;
    * `C16_eval_positions` — evaluation, one statement, a statement list: all commute with
                           erasing positions (a position is only ever copied into a diagnostic);
    * `C16_file_equals_lines` — `processText` on the joined text and the prompt loop on the
                           lines print the same lines and leave the same table, up to positions
                           (the line/column of a diagnostic, and the positions inside the
                           stored body of a user function);
    * `C16_three_modes`  — the same for `session`: file, expression, prompt.

  Only hypothesis on the configuration: the newline is no identifier-continue character
  (`cfg.isAlnum '\n' = false`; true of `char::is_alphanumeric`, `C16_file_equals_lines_table`).
  Proofs: Calc/Proofs/ModesScan.lean, ModesParse.lean, ModesErase.lean.
-/
import Calc.Proofs.ModesScan
import Calc.Proofs.ModesParse
import Calc.Proofs.ModesErase
import Calc.Proofs.FrontLemmas
import Calc.Proofs.ScanTables
namespace Calc
open List

variable {S : Type} [Add S] [Sub S] [Mul S] [Div S] [Zero S] [One S] [Kernel S]

/-! ## auxiliary facts -/

omit [Add S] [Sub S] [Mul S] [Div S] [Zero S] [One S] [Kernel S] in
theorem isIdentCont_newline (cfg : ScanCfg S) (hnl : cfg.isAlnum '\n' = false) :
    isIdentCont cfg '\n' = false := by
  simp only [isIdentCont, hnl, Bool.false_or]
  decide

theorem ensureTrailingNewline_line {l : Str} (h : '\n' ∉ l) :
    ensureTrailingNewline l = l ++ ['\n'] := by
  apply ensureTrailingNewline_of_not_ends
  intro hl
  exact h (mem_of_getLast? hl)

theorem joinLines_ends {ls : List Str} (h : ls ≠ []) : (joinLines ls).getLast? = some '\n' := by
  induction ls with
  | nil => exact absurd rfl h
  | cons l ls ih =>
    rw [joinLines_cons]
    by_cases hl : ls = []
    · subst hl; simp [joinLines_nil]
    · rw [getLast?_append, ih hl]; rfl

omit [Add S] [Sub S] [Mul S] [Div S] [Zero S] [One S] [Kernel S] in
/-- `shiftedToks` spelled with indices: line number `i` (counted from `n`) is moved down `i`
    lines -/
theorem shiftedToks_eq_zipIdx (tk : Str → List (Tok S)) (n : Nat) (ls : List Str) :
    shiftedToks tk n ls =
      (ls.zipIdx n).flatMap (fun li => (tk li.1).map (Tok.shiftLine li.2)) := by
  induction ls generalizing n with
  | nil => rfl
  | cons l ls ih => simp only [shiftedToks, zipIdx_cons, flatMap_cons, ih]

/-- the prompt loop on well-formed lines runs their statements, one list after the other -/
theorem repl_wellformed (cfg : ScanCfg S) (fuel : Nat) (ls : List Str)
    (tk : Str → List (Tok S)) (st : Str → List (Stmt S))
    (hno : ∀ l ∈ ls, '\n' ∉ l) (hex : ∀ l ∈ ls, isExit l = false)
    (hsc : ∀ l ∈ ls, scan cfg (l ++ ['\n']) = .ok (tk l))
    (hpa : ∀ l ∈ ls, parse (tk l) = .ok (st l)) :
    ∀ env : Env S, repl cfg fuel env ls = runStmts fuel env (ls.flatMap st) := by
  induction ls with
  | nil => intro env; rfl
  | cons l ls ih =>
    intro env
    have hp : processText cfg fuel env (ensureTrailingNewline l) = runStmts fuel env (st l) := by
      rw [ensureTrailingNewline_line (hno l mem_cons_self)]
      simp only [processText, hsc l mem_cons_self, hpa l mem_cons_self]
    rw [repl_cons_not_exit cfg fuel env l ls (hex l mem_cons_self), hp,
      ih (fun x hx => hno x (mem_cons_of_mem _ hx)) (fun x hx => hex x (mem_cons_of_mem _ hx))
        (fun x hx => hsc x (mem_cons_of_mem _ hx)) (fun x hx => hpa x (mem_cons_of_mem _ hx)),
      flatMap_cons, runStmts_append_full]

/-! ## (a) the scanner -/

omit [Add S] [Sub S] [Mul S] [Div S] [Zero S] [One S] in
/-- **C16, file against prompt, scanner.**  If every line `l` of `ls` (no newline inside) scans
    on its own, as `l ++ "\n"`, to `tk l`, then the joined text scans to `shiftedToks tk 0 ls`:
    the token lists of the lines one after the other, every token of the `i`-th line (counted
    from 0) with its line increased by `i` and its kind, number value, text and column unchanged
    (`Tok.shiftLine`).  In particular the joined scan and the concatenation of the single scans
    differ in positions only — in fact in line numbers only. -/
theorem C16_lines_scan (cfg : ScanCfg S) (hnl : cfg.isAlnum '\n' = false) (ls : List Str)
    (tk : Str → List (Tok S)) (hno : ∀ l ∈ ls, '\n' ∉ l)
    (hsc : ∀ l ∈ ls, scan cfg (l ++ ['\n']) = .ok (tk l)) :
    scan cfg (joinLines ls) = .ok (shiftedToks tk 0 ls) ∧
    shiftedToks tk 0 ls =
      (ls.zipIdx 0).flatMap (fun li => (tk li.1).map (Tok.shiftLine li.2)) ∧
    (∀ (n : Nat) (t : Tok S), (t.shiftLine n).kind = t.kind ∧ (t.shiftLine n).lexeme = t.lexeme ∧
      (t.shiftLine n).col = t.col ∧ (t.shiftLine n).line = t.line + n) ∧
    (shiftedToks tk 0 ls).map Tok.erasePos = (ls.flatMap tk).map Tok.erasePos :=
  ⟨scan_joinLines (isIdentCont_newline cfg hnl) tk ls hno hsc, shiftedToks_eq_zipIdx tk 0 ls,
    fun _ _ => ⟨rfl, rfl, rfl, rfl⟩, shiftedToks_erasePos tk 0 ls⟩

omit [Add S] [Sub S] [Mul S] [Div S] [Zero S] [One S] in
/-- **C16, scanner, two texts.**  The general fact behind `C16_lines_scan`: if `s` ends with a
    newline (or is empty), the scan of `s ++ z` is the scan of `s` followed by the scan of `z`
    started at the position where `s` ends. -/
theorem C16_scan_append (cfg : ScanCfg S) (hnl : cfg.isAlnum '\n' = false) (p : Pos)
    (s z : List Char) (t1 t2 : List (Tok S)) (h1 : Scanned cfg p s t1)
    (hs : ∀ c, s.getLast? = some c → c = '\n') (h2 : Scanned cfg (advs cfg.tab p s) z t2) :
    Scanned cfg p (s ++ z) (t1 ++ t2) :=
  Scanned.append (isIdentCont_newline cfg hnl) h1 hs h2

/-! ## (b) the parser -/

omit [Add S] [Sub S] [Mul S] [Div S] [Zero S] [One S] [Kernel S] in
/-- **C16, file against prompt, parser.**  If the token list `tk l` of every line parses to the
    statements `st l`, then (1) the token lists one after the other parse to the statement lists
    one after the other, and (2) so does every token list that differs from that concatenation in
    positions only — such as the scan of the joined text — up to positions. -/
theorem C16_lines_parse (ls : List Str) (tk : Str → List (Tok S)) (st : Str → List (Stmt S))
    (hpa : ∀ l ∈ ls, parse (tk l) = .ok (st l)) :
    parse (ls.flatMap tk) = .ok (ls.flatMap st) ∧
    ∀ toks : List (Tok S), toks.map Tok.erasePos = (ls.flatMap tk).map Tok.erasePos →
      ∃ stmts, parse toks = .ok stmts ∧
        stmts.map Stmt.erasePos = (ls.flatMap st).map Stmt.erasePos :=
  ⟨parse_flatMap tk st ls hpa, fun _ he => parse_of_erasePos_eq (parse_flatMap tk st ls hpa) he⟩

/-! ## (c) evaluation -/

/-- **C16, "only the reported positions differ", evaluation.**  Evaluating an expression, running
    one statement and running a statement list commute with erasing positions: from the erased
    tree / statement(s) in the erased table one gets the erased result — the same value (stored
    function bodies erased), or the diagnostic of the same kind with the same identifying details
    and no position — the erased output lines and the erased table.  No decision of the evaluator
    depends on a line or a column. -/
theorem C16_eval_positions (fuel : Nat) (env : Env S) :
    (∀ e : Expr S, eval fuel e.erasePos (Env.erasePos env) = (eval fuel e env).erasePos) ∧
    (∀ s : Stmt S, step fuel (Env.erasePos env) s.erasePos = (step fuel env s).erasePos) ∧
    (∀ ss : List (Stmt S), runStmts fuel (Env.erasePos env) (ss.map Stmt.erasePos) =
      (runStmts fuel env ss).erasePos) :=
  ⟨fun e => eval_erasePos fuel e env, step_erasePos fuel env,
    fun ss => runStmts_erasePos fuel ss env⟩

/-- two statement lists equal up to positions run to the same output lines and the same table,
    up to positions -/
theorem runStmts_congr_erasePos (fuel : Nat) (env : Env S) (ss ss' : List (Stmt S))
    (h : ss'.map Stmt.erasePos = ss.map Stmt.erasePos) :
    (runStmts fuel env ss').erasePos = (runStmts fuel env ss).erasePos := by
  rw [← runStmts_erasePos, ← runStmts_erasePos, h]

/-! ## the modes agree -/

/-- **C16, file against prompt.**  Let `ls` be lines without a newline inside, none of them an
    exit line, each well-formed on its own (`l ++ "\n"` scans to `tk l`, which parses to `st l`).
    Then processing the joined text `l₁\n…lₙ\n` in one go (a preload file, or the expression
    argument) and feeding the lines one by one to the prompt loop, from the same table,
      * print the same output lines — values and evaluation diagnostics in the same order, each
        diagnostic of the same kind and with the same identifying details — up to positions, and
      * leave the same table, up to the positions recorded inside stored function bodies.
    In both runs all statements are executed: a statement whose evaluation fails prints its
    diagnostic and the run goes on (that is part of `runStmts`, both sides). -/
theorem C16_file_equals_lines (cfg : ScanCfg S) (hnl : cfg.isAlnum '\n' = false) (fuel : Nat)
    (env : Env S) (ls : List Str) (tk : Str → List (Tok S)) (st : Str → List (Stmt S))
    (hno : ∀ l ∈ ls, '\n' ∉ l) (hex : ∀ l ∈ ls, isExit l = false)
    (hsc : ∀ l ∈ ls, scan cfg (l ++ ['\n']) = .ok (tk l))
    (hpa : ∀ l ∈ ls, parse (tk l) = .ok (st l)) :
    (processText cfg fuel env (joinLines ls)).out.map Line.erasePos =
      (repl cfg fuel env ls).out.map Line.erasePos ∧
    Env.erasePos (processText cfg fuel env (joinLines ls)).env =
      Env.erasePos (repl cfg fuel env ls).env := by
  have h1 := scan_joinLines (isIdentCont_newline cfg hnl) tk ls hno hsc
  obtain ⟨stmts, h2, h3⟩ :=
    parse_of_erasePos_eq (parse_flatMap tk st ls hpa) (shiftedToks_erasePos tk 0 ls)
  have hfile : processText cfg fuel env (joinLines ls) = runStmts fuel env stmts := by
    simp only [processText, h1, h2]
  rw [hfile, repl_wellformed cfg fuel ls tk st hno hex hsc hpa env]
  have key := runStmts_congr_erasePos fuel env (ls.flatMap st) stmts h3
  exact ⟨congrArg StepOut.out key, congrArg StepOut.env key⟩

theorem alnumTable_newline : alnumTable '\n'.toNat = false := by decide +kernel

omit [Add S] [Sub S] [Mul S] [Div S] [Zero S] [One S] [Kernel S] in
theorem tableCfg_newline (tab : Nat) (kw : Str → Option (Kind S)) :
    (tableCfg tab kw).isAlnum '\n' = false := by
  simp only [tableCfg]
  exact alnumTable_newline

/-- `C16_file_equals_lines` for the shipped `char::is_alphanumeric` table: the hypothesis on the
    configuration holds. -/
theorem C16_file_equals_lines_table (tab : Nat) (kw : Str → Option (Kind S)) (fuel : Nat)
    (env : Env S) (ls : List Str) (tk : Str → List (Tok S)) (st : Str → List (Stmt S))
    (hno : ∀ l ∈ ls, '\n' ∉ l) (hex : ∀ l ∈ ls, isExit l = false)
    (hsc : ∀ l ∈ ls, scan (tableCfg tab kw) (l ++ ['\n']) = .ok (tk l))
    (hpa : ∀ l ∈ ls, parse (tk l) = .ok (st l)) :
    (processText (tableCfg tab kw) fuel env (joinLines ls)).out.map Line.erasePos =
      (repl (tableCfg tab kw) fuel env ls).out.map Line.erasePos ∧
    Env.erasePos (processText (tableCfg tab kw) fuel env (joinLines ls)).env =
      Env.erasePos (repl (tableCfg tab kw) fuel env ls).env :=
  C16_file_equals_lines _ (tableCfg_newline tab kw) fuel env ls tk st
    hno hex hsc hpa

/-- **C16, the three modes.**  With at least one line: the session that gets the text as the
    preload file (and an empty prompt session), the session that gets it as the expression
    argument, and the session that gets the lines at the prompt print — around the banner and
    the goodbye line of the two interactive sessions — the same lines up to positions, and end
    with the same table up to positions. -/
theorem C16_three_modes (cfg : ScanCfg S) (hnl : cfg.isAlnum '\n' = false) (fuel : Nat)
    (init : Env S) (ls : List Str) (hne : ls ≠ []) (tk : Str → List (Tok S))
    (st : Str → List (Stmt S))
    (hno : ∀ l ∈ ls, '\n' ∉ l) (hex : ∀ l ∈ ls, isExit l = false)
    (hsc : ∀ l ∈ ls, scan cfg (l ++ ['\n']) = .ok (tk l))
    (hpa : ∀ l ∈ ls, parse (tk l) = .ok (st l)) :
    let F := session cfg fuel init (some (joinLines ls)) none []
    let E := session cfg fuel init none (some (joinLines ls)) []
    let P := session cfg fuel init none none ls
    ∃ out : List (Line S),
      E.out.map Line.erasePos = out ∧
      F.out.map Line.erasePos = out ++ [.banner, .goodbye] ∧
      P.out.map Line.erasePos = [.banner] ++ out ++ [.goodbye] ∧
      Env.erasePos F.env = Env.erasePos E.env ∧ Env.erasePos P.env = Env.erasePos E.env := by
  obtain ⟨ho, he⟩ := C16_file_equals_lines cfg hnl fuel init ls tk st hno hex hsc hpa
  have hE : ensureTrailingNewline (joinLines ls) = joinLines ls :=
    ensureTrailingNewline_of_ends (joinLines_ends hne)
  refine ⟨(processText cfg fuel init (joinLines ls)).out.map Line.erasePos, ?_, ?_, ?_, ?_, ?_⟩
  · simp only [session, hE, nil_append]
  · simp only [session, hE, repl_nil, map_append, append_nil, append_assoc]
    rfl
  · simp only [session, map_append, ← ho]
    rfl
  · simp only [session, hE, repl_nil]
  · simp only [session, hE]
    exact he.symm

/-! ## examples: the hypotheses are satisfiable -/

section Examples

/-- a configuration in the style of the shipped one: letters and digits continue a word, no
    keywords -/
def exCfg : ScanCfg S := ⟨4, fun c => isIdentStart c || isDigit c, fun _ => none⟩

omit [Add S] [Sub S] [Mul S] [Div S] [Zero S] [One S] [Kernel S] in
theorem exCfg_newline : (exCfg (S := S)).isAlnum '\n' = false := by
  show (isIdentStart '\n' || isDigit '\n') = false
  decide

/-- the scan of a line on its own (empty if it does not scan) -/
def exTk (l : Str) : List (Tok S) :=
  match scan (exCfg (S := S)) (l ++ ['\n']) with
  | .ok ts => ts
  | _ => []

/-- the statements of a line on its own (empty if it does not parse) -/
def exSt (l : Str) : List (Stmt S) :=
  match parse (exTk (S := S) l) with
  | .ok ss => ss
  | _ => []

def exLines : List Str := ["x=1".toList, "x+y".toList]

/-- the two lines `x=1` and `x+y` satisfy every hypothesis of `C16_file_equals_lines`: no newline
    inside, no exit line, each scans and parses on its own — the second one is well-formed and
    fails at evaluation (`y` is unknown), which is the "evaluation diagnostics included" case. -/
example :
    (exCfg (S := S)).isAlnum '\n' = false ∧
    (∀ l ∈ exLines, '\n' ∉ l) ∧ (∀ l ∈ exLines, isExit l = false) ∧
    (∀ l ∈ exLines, scan (exCfg (S := S)) (l ++ ['\n']) = .ok (exTk l)) ∧
    (∀ l ∈ exLines, parse (exTk (S := S) l) = .ok (exSt l)) ∧
    (exTk (S := S) "x=1".toList).length = 4 ∧ (exSt (S := S) "x+y".toList).length = 1 := by
  refine ⟨exCfg_newline, by decide, by decide, ?_, ?_, rfl, rfl⟩
  · intro l hl
    simp only [exLines, mem_cons, not_mem_nil, or_false] at hl
    rcases hl with rfl | rfl <;> rfl
  · intro l hl
    simp only [exLines, mem_cons, not_mem_nil, or_false] at hl
    rcases hl with rfl | rfl <;> rfl

/-- and the conclusion for them -/
example (fuel : Nat) (env : Env S) :
    (processText exCfg fuel env (joinLines exLines)).out.map Line.erasePos =
      (repl exCfg fuel env exLines).out.map Line.erasePos ∧
    Env.erasePos (processText exCfg fuel env (joinLines exLines)).env =
      Env.erasePos (repl exCfg fuel env exLines).env := by
  refine C16_file_equals_lines exCfg exCfg_newline fuel env exLines exTk exSt (by decide)
    (by decide) ?_ ?_
  · intro l hl
    simp only [exLines, mem_cons, not_mem_nil, or_false] at hl
    rcases hl with rfl | rfl <;> rfl
  · intro l hl
    simp only [exLines, mem_cons, not_mem_nil, or_false] at hl
    rcases hl with rfl | rfl <;> rfl

/-- the line numbers do differ: in the joined text the tokens of the second line are on line 2,
    on their own they are on line 1 -/
example :
    (shiftedToks (exTk (S := S)) 0 exLines).map (·.line) = [1, 1, 1, 1, 2, 2, 2, 2] ∧
    (exLines.flatMap (exTk (S := S))).map (·.line) = [1, 1, 1, 1, 1, 1, 1, 1] :=
  ⟨rfl, rfl⟩

/-- the newline hypothesis cannot be dropped: if the newline continued a word, the line `a`
    followed by the line `b` would be the single word `a\nb\n` -/
example :
    let cfg : ScanCfg S := ⟨4, fun c => isIdentStart c || c = '\n', fun _ => none⟩
    (∃ toks, scan cfg "a\nb\n".toList = .ok toks ∧ toks.length = 1) :=
  ⟨_, rfl, rfl⟩

end Examples

end Calc
