/-
  Calc.Props.C05Algebra — the algebra of unit conversion (`as`), over any field `K` with a lawful
  kernel.  `FactorsNonzero K` (every non-temperature factor of the shipped table is non-zero) is a
  fact about the generated table; `Calc.factorsNonzero` proves it for the table as shipped.
-/
import Calc.Proofs.UnitAlgebra
import Calc.Proofs.UnitTableFacts

namespace Calc

set_option linter.unusedSectionVars false

variable {K : Type} [Field K] [CharZero K] [Kernel K] [LawfulKernel K]

/-- the table hypothesis of the theorems below holds for the shipped table -/
example : FactorsNonzero K := factorsNonzero

/-- C05, round trip: converting `x` from `u` to a unit `v` of the same kind succeeds, and
    converting the result back gives `x` exactly (temperature's affine cases included). -/
theorem C05_roundtrip (hpos : FactorsNonzero K) (x : K) (u v : Unit) (hk : u.kind = v.kind) :
    ∃ y, toOther x u v = some y ∧ toOther y v u = some x := by
  refine ⟨_, toOther_same_kind x hk, ?_⟩
  rw [toOther_same_kind _ hk.symm, toBase_fromBase hpos, fromBase_toBase hpos]

/-- C05, path independence: converting through any intermediate unit `w` of the same kind gives
    the same magnitude as converting directly. -/
theorem C05_path (hpos : FactorsNonzero K) (z : K) (u w v : Unit)
    (h1 : u.kind = w.kind) (h2 : w.kind = v.kind) :
    (toOther z u w).bind (fun y => toOther y w v) = toOther z u v := by
  rw [toOther_same_kind z h1, toOther_same_kind z (h1.trans h2)]
  simp only [Option.bind_some]
  rw [toOther_same_kind _ h2, toBase_fromBase hpos]

/-- C05, kinds do not mix: conversion between different kinds is refused, and `as` reports
    `invalidMeasurementConversion` at the `as` token. -/
theorem C05_cross_kind (tok : Tok K) (z : K) (u v : Unit) (hk : u.kind ≠ v.kind) :
    toOther z u v = none
      ∧ asop tok v (.measurement z u)
          = .diag ⟨.invalidMeasurementConversion, tok.line, tok.col, []⟩ := by
  have h := toOther_diff_kind z hk
  refine ⟨h, ?_⟩
  unfold asop; simp only [h]; rfl

/-- C05, same kind: `as` succeeds and yields the converted magnitude in the target unit. -/
theorem C05_same_kind (tok : Tok K) (z : K) (u v : Unit) (hk : u.kind = v.kind) :
    asop tok v (.measurement z u) = .ok (.measurement (fromBase (toBase z u) v) v) := by
  unfold asop; simp only [toOther_same_kind z hk]

/-- C05, a bare number takes the unit as written, unconverted. -/
theorem C05_bare_number (tok : Tok K) (z : K) (u : Unit) :
    asop tok u (.number z) = .ok (.measurement z u) := rfl

/-- C05, values that are neither numbers nor measurements are refused by `as`. -/
theorem C05_as_other (tok : Tok K) (u : Unit) (v : Value K)
    (h1 : ∀ z, v ≠ .number z) (h2 : ∀ z w, v ≠ .measurement z w) :
    asop tok u v = .diag ⟨.invalidMeasurementConversion, tok.line, tok.col, []⟩ := by
  cases v with
  | number z => exact absurd rfl (h1 z)
  | measurement z w => exact absurd rfl (h2 z w)
  | _ => rfl

/-- C05, ratio form: between non-temperature units of one kind, conversion divides by the source
    factor and multiplies by the target factor. -/
theorem C05_ratio (z : K) (u v : Unit) (hk : u.kind = v.kind) (ht : u.kind ≠ .temperature) :
    toOther z u v = some (z / perBase u * perBase v) := by
  rw [toOther_same_kind z hk, toBase_of_ne_temp z ht, fromBase_of_ne_temp _ (hk ▸ ht)]

/-- C05, temperature: the six affine conversions, in closed form. -/
theorem C05_temperature (z : K) :
    toOther z (.temperature .celsius) (.temperature .kelvin) = some (z + c273)
    ∧ toOther z (.temperature .kelvin) (.temperature .celsius) = some (z - c273)
    ∧ toOther z (.temperature .fahrenheit) (.temperature .kelvin)
        = some ((z + c459) * Kernel.ofRatio 5 9)
    ∧ toOther z (.temperature .kelvin) (.temperature .fahrenheit)
        = some (z * Kernel.ofRatio 9 5 - c459)
    ∧ toOther z (.temperature .celsius) (.temperature .fahrenheit)
        = some ((z + c273) * Kernel.ofRatio 9 5 - c459)
    ∧ toOther z (.temperature .fahrenheit) (.temperature .celsius)
        = some ((z + c459) * Kernel.ofRatio 5 9 - c273) :=
  ⟨rfl, rfl, rfl, rfl, rfl, rfl⟩

end Calc
