/-
  Property C14 (rendering half) — Each failing statement yields ONE LOCATED diagnostic.

  The Rust prints a diagnostic as `Line <l>, Column <c> :: <message>`
  (`write!(f, "Line {}, Column {} :: {}", line, col, kind)` in common/src/expr/error.rs, and the
  same frame in common/src/parser/error.rs and common/src/tokenizer/error.rs).  The other C14
  files (Props/C14.lean, Props/C14Parse.lean) are about the positions *stored* in the model's
  diagnostics.  Here the frame itself is in the model (Calc/Model/Render.lean: `natDigits`,
  `renderPos`, `renderDiag`, reader `readPos`; Calc/Model/RenderLine.lean: `Line.render?`) and
  the theorems say that the printed line LOCATES the failure: the position is read back from
  the text without ambiguity, whatever the message is — the message is a parameter (`Msgs`) and
  may begin with digits or contain ` :: `.

  Property theorems only; proofs are in Calc/Proofs/RenderPos.lean.
-/
import Calc.Props.C14
import Calc.Props.C14Parse
import Calc.Model.RenderLine
import Calc.Proofs.RenderPos
namespace Calc.Props.C14Render
open Calc

variable {S : Type} [Add S] [Sub S] [Mul S] [Div S] [Zero S] [One S] [Kernel S]

/-! ## the frame -/

/-- **C14 (the printed line reads back).**  For every line number, column number and message,
    reading the rendered line returns exactly that line, that column and that message.  No bound
    on the numbers, no condition on the message. -/
theorem C14_render_reads_back (l c : Nat) (msg : List Char) :
    readPos (renderDiag l c msg) = some (l, c, msg) :=
  readPos_renderDiag l c msg

/-- **C14 (no two diagnostics print alike).**  Two rendered lines are the same text only if
    they have the same line, the same column and the same message. -/
theorem C14_render_injective {l c l' c' : Nat} {msg msg' : List Char}
    (h : renderDiag l c msg = renderDiag l' c' msg') : l = l' ∧ c = c' ∧ msg = msg' :=
  renderDiag_injective h

/-- **C14 (the reader accepts nothing but the frame).**  A text from which `readPos` reads
    `(l, c, msg)` is `Line `, a non-empty run of ASCII digits of value `l`, `, Column `, a
    non-empty run of ASCII digits of value `c`, ` :: `, `msg`. -/
theorem C14_read_sound {s msg : List Char} {l c : Nat} (h : readPos s = some (l, c, msg)) :
    ∃ d1 d2, s = litLine ++ (d1 ++ (litColumn ++ (d2 ++ (litSep ++ msg)))) ∧
      d1 ≠ [] ∧ d2 ≠ [] ∧ (∀ x ∈ d1, x.isDigit = true) ∧ (∀ x ∈ d2, x.isDigit = true) ∧
      hornerVal d1 = l ∧ hornerVal d2 = c :=
  readPos_sound h

/-- **C14 (decimal numerals are canonical).**  `natDigits n` is not empty, consists of ASCII
    digits only, begins with `0` only for `n = 0` (whose numeral is `0`), has Horner value `n`,
    hence is injective; it is what `toString` prints; and conversely every non-empty string of
    ASCII digits without a leading zero (or equal to `0`) is the numeral of its Horner value. -/
theorem C14_natDigits_canonical :
    (∀ n, natDigits n ≠ []) ∧
    (∀ n, ∀ ch ∈ natDigits n, ch.isDigit = true) ∧
    (∀ n, (natDigits n).head? = some '0' → n = 0) ∧
    natDigits 0 = ['0'] ∧
    (∀ n, hornerVal (natDigits n) = n) ∧
    (∀ m n, natDigits m = natDigits n → m = n) ∧
    (∀ n, natDigits n = (toString n).toList) ∧
    (∀ n, String.ofList (natDigits n) = toString n) ∧
    (∀ ds : List Char, ds ≠ [] → (∀ ch ∈ ds, ch.isDigit = true) →
      (ds.head? = some '0' → ds = ['0']) → natDigits (hornerVal ds) = ds) :=
  ⟨natDigits_ne_nil, natDigits_all_digit, natDigits_head_zero, by decide, hornerVal_natDigits,
   fun _ _ h => natDigits_injective h, natDigits_eq_toString, ofList_natDigits,
   natDigits_hornerVal⟩

/-- **C14 (the frame is the Rust format string).**  `renderDiag l c msg` is the text of
    `"Line " ++ toString l ++ ", Column " ++ toString c ++ " :: "` followed by the message. -/
theorem C14_render_is_format (l c : Nat) (msg : List Char) :
    renderDiag l c msg =
      ("Line " ++ toString l ++ ", Column " ++ toString c ++ " :: ").toList ++ msg := by
  simp only [String.toList_append, ← natDigits_eq_toString]
  rfl

/-- **C14 (one line).**  The frame contains no newline; so a diagnostic whose message contains
    none is exactly one line of output. -/
theorem C14_render_one_line (l c : Nat) :
    '\n' ∉ renderPos l c ∧
    (∀ msg : List Char, '\n' ∉ msg → '\n' ∉ renderDiag l c msg) := by
  refine ⟨newline_not_mem_renderPos l c, fun msg hm h => ?_⟩
  rcases List.mem_append.mp h with h | h
  · exact newline_not_mem_renderPos l c h
  · exact hm h

/-! ## the model's diagnostics -/

omit [Add S] [Sub S] [Mul S] [Div S] [Zero S] [One S] [Kernel S] in
/-- **C14 (the rendered line locates the model's diagnostic).**  Every output line of the model
    that stores a position — an evaluation error, a parse error at a token, a scan error — has a
    printed text, and reading that text back gives exactly the stored line and column, and the
    message, whatever the wording `M` is.  (A parse error "found EOF" stores no position and is
    printed without a frame.) -/
theorem C14_rendered_line_locates (M : Msgs) (ln : Line S) (l c : Nat)
    (h : ln.pos? = some (l, c)) :
    ∃ txt msg, ln.render? M = some txt ∧ ln.msg? M = some msg ∧
      txt = renderDiag l c msg ∧ readPos txt = some (l, c, msg) := by
  cases ln with
  | evalErr d =>
    cases h
    exact ⟨_, _, rfl, rfl, rfl, readPos_renderDiag _ _ _⟩
  | parseErr e =>
    simp only [Line.pos?] at h
    refine ⟨renderDiag l c (M.parse e), M.parse e, ?_, rfl, rfl, readPos_renderDiag _ _ _⟩
    simp only [Line.render?, h]
  | scanErr e =>
    cases h
    exact ⟨_, _, rfl, rfl, rfl, readPos_renderDiag _ _ _⟩
  | value v => cases h
  | banner => cases h
  | goodbye => cases h
  | panic s => cases h
  | fuel => cases h

/-- **C14 (every located line of a run).**  The same for every line that `processText` emits:
    scan error, parse error or evaluation error of any statement of the text. -/
theorem C14_processText_rendered_locates (M : Msgs) (cfg : ScanCfg S) (fuel : Nat) (env : Env S)
    (text : Str) (ln : Line S) (_hmem : ln ∈ (processText cfg fuel env text).out) (l c : Nat)
    (h : ln.pos? = some (l, c)) :
    ∃ txt msg, ln.render? M = some txt ∧ ln.msg? M = some msg ∧
      readPos txt = some (l, c, msg) := by
  obtain ⟨txt, msg, h1, h2, -, h3⟩ := C14_rendered_line_locates M ln l c h
  exact ⟨txt, msg, h1, h2, h3⟩

omit [Add S] [Sub S] [Mul S] [Div S] [Zero S] [One S] [Kernel S] in
/-- **C14 (every failure line is rendered or is not a diagnostic).**  A failure line of the
    model is a located diagnostic (its text reads back as its stored position), or a parse error
    "found EOF" (printed as the bare message), or one of the model's own `panic` / `fuel`
    outcomes, which are not diagnostics of the program. -/
theorem C14_failure_lines (M : Msgs) (ln : Line S) (h : ln.isFailure = true) :
    (∃ l c msg, ln.pos? = some (l, c) ∧ ln.render? M = some (renderDiag l c msg) ∧
        readPos (renderDiag l c msg) = some (l, c, msg)) ∨
    (∃ e, ln = .parseErr e ∧ e.pos = none ∧ ln.render? M = some (M.parse e)) ∨
    (∃ s, ln = .panic s) ∨ ln = .fuel := by
  cases ln with
  | evalErr d => exact .inl ⟨d.line, d.col, M.eval d, rfl, rfl, readPos_renderDiag _ _ _⟩
  | parseErr e =>
    cases hp : e.pos with
    | none => exact .inr (.inl ⟨e, rfl, hp, by simp only [Line.render?, hp]⟩)
    | some p =>
      obtain ⟨l, c⟩ := p
      exact .inl ⟨l, c, M.parse e, hp, by simp only [Line.render?, hp], readPos_renderDiag _ _ _⟩
  | scanErr e => exact .inl ⟨e.line, e.col, M.scan e, rfl, rfl, readPos_renderDiag _ _ _⟩
  | value v => cases h
  | banner => cases h
  | goodbye => cases h
  | panic s => exact .inr (.inr (.inl ⟨s, rfl⟩))
  | fuel => exact .inr (.inr (.inr rfl))

/-! ## corollaries with the position theorems -/

/-- **C14 (a failing operator prints its own position).**  With `C14_op_positions`: the line
    printed for a diagnostic of a binary operator (division by zero, unsupported operands, ...)
    reads back as the operator token's line and column; the line printed for an unknown
    identifier reads back as the identifier token's line and column. -/
theorem C14_rendered_op_locates (M : Msgs) :
    (∀ (op : Tok S) (a b : Value S) (d : Diag), binop op a b = .diag d →
        ∃ txt, (Line.evalErr d : Line S).render? M = some txt ∧
          readPos txt = some (op.line, op.col, M.eval d)) ∧
    (∀ (name : Tok S) (env : Env S) (d : Diag), lookupIdent name env = .diag d →
        d.kind = .unknownVariable ∧
        ∃ txt, (Line.evalErr d : Line S).render? M = some txt ∧
          readPos txt = some (name.line, name.col, M.eval d)) := by
  obtain ⟨hb, -, -, -, hl, -⟩ := C14_op_positions (S := S)
  constructor
  · intro op a b d h
    obtain ⟨h1, h2⟩ := hb op a b d h
    exact ⟨_, rfl, by rw [h1, h2]; exact readPos_renderDiag _ _ _⟩
  · intro name env d h
    obtain ⟨hp, hk⟩ := hl name env d h
    obtain ⟨h1, h2⟩ := Prod.mk.inj hp
    exact ⟨hk, _, rfl, by rw [h1, h2]; exact readPos_renderDiag _ _ _⟩

/-- **C14 (a failing statement prints its name token's position).**  With `C14_stmt_blame`:
    the line printed by a failing `delete` reads back as the position of the deleted name. -/
theorem C14_rendered_delete_locates (M : Msgs) (fuel : Nat) (env : Env S) (name : Tok S)
    (d : Diag) (h : Line.evalErr d ∈ (step fuel env (.deleteVar name)).out) :
    ∃ txt, (Line.evalErr d : Line S).render? M = some txt ∧
      readPos txt = some (name.line, name.col, M.eval d) := by
  obtain ⟨h1, h2⟩ := Prod.mk.inj ((C14_stmt_blame fuel env name d).1 h)
  exact ⟨_, rfl, by rw [h1, h2]; exact readPos_renderDiag _ _ _⟩

omit [Add S] [Sub S] [Mul S] [Div S] [Zero S] [One S] [Kernel S] in
/-- **C14 (a rejected `delete` / assignment target prints its token's position).**  With
    `C14_parse_pos_program` and `C14_errSpec_kinds`: the line printed for `cannotDelete` reads back as the position of a
    `delete` token of the text, the one for `invalidAssignmentTarget` as that of an `=` token. -/
theorem C14_rendered_parse_locates (M : Msgs) (ts : List (Tok S)) (e : PErr)
    (h : parse ts = .err e) (hk : e.kind = .cannotDelete ∨ e.kind = .invalidAssignmentTarget) :
    ∃ t ∈ ts, (t.tag = .delete ∨ t.tag = .equal) ∧
      ∃ txt, (Line.parseErr e : Line S).render? M = some txt ∧
        readPos txt = some (t.line, t.col, M.parse e) := by
  have hnot : ¬ ErrSpec ts e := fun hs =>
    hk.elim (C14_errSpec_kinds hs).1 (C14_errSpec_kinds hs).2
  rcases C14_parse_pos_program ts e h with hs | ⟨-, c, d, r, hts, -, hd, hp⟩ |
      ⟨-, c0, c, eq, r, lhs, hts, -, -, heq, hp⟩
  · exact absurd hs hnot
  · refine ⟨d, by rw [hts]; simp, .inl hd, renderDiag d.line d.col (M.parse e), ?_,
      readPos_renderDiag _ _ _⟩
    simp only [Line.render?, hp]
  · refine ⟨eq, by rw [hts]; simp, .inr heq, renderDiag eq.line eq.col (M.parse e), ?_,
      readPos_renderDiag _ _ _⟩
    simp only [Line.render?, hp]

/-! ## tests -/

/-- test: the shipped wording of a division by zero at 3:8 -/
example : renderDiag 3 8 "Divison by zero".toList = "Line 3, Column 8 :: Divison by zero".toList := by
  decide

/-- test: multi-digit positions -/
example : renderDiag 120 4007 "x".toList = "Line 120, Column 4007 :: x".toList := by decide

/-- test: a message that begins with digits and contains the separator is read back whole -/
example : readPos "Line 12, Column 7 :: 34 :: Line 5, Column 6 :: y".toList =
    some (12, 7, "34 :: Line 5, Column 6 :: y".toList) := by decide

/-- test: the reader rejects a missing column number and a missing separator -/
example : readPos "Line 12, Column  :: y".toList = none := by decide
example : readPos "Line 12, Column 7: y".toList = none := by decide

/-- test: `natDigits` against `toString` on a few values -/
example : [0, 7, 10, 99, 100, 4096, 1000000].map natDigits =
    [0, 7, 10, 99, 100, 4096, 1000000].map (fun n => (toString n).toList) := by decide

end Calc.Props.C14Render
