/-
  Calc.Props.C06 — arithmetic on measurements is dimensionally sound.

  Over any field `K` with a lawful kernel.  `size z u` is the magnitude of the measurement `z u`
  in the base unit of its kind.  `BaseFactorsOne K` (the factor of meter / kilogram / byte is 1)
  is a fact about the shipped table, discharged by the table theorem.
-/
import Calc.Proofs.UnitAlgebra
import Calc.Proofs.UnitTableFacts

namespace Calc

set_option linter.unusedSectionVars false

variable {K : Type} [Field K] [CharZero K] [Kernel K] [LawfulKernel K]

/-- the table hypothesis of the theorems below holds for the shipped table -/
example : BaseFactorsOne K := baseFactorsOne

/-- operator tokens with each tag exist (the position is arbitrary) -/
example : (⟨.plus, ['+'], 3, 7⟩ : Tok K).tag = .plus := rfl

/-- C06, addition: two measurements of the same kind add to a measurement in the base unit of
    that kind whose size is the sum of the sizes. -/
theorem C06_add (hbase : BaseFactorsOne K) (op : Tok K) (hop : op.tag = .plus)
    (x y : K) (u v : Unit) (hk : u.kind = v.kind) :
    binop op (.measurement x u) (.measurement y v)
        = .ok (.measurement (size x u + size y v) (baseUnit u))
      ∧ size (size x u + size y v) (baseUnit u) = size x u + size y v := by
  refine ⟨?_, size_baseUnit hbase _ _⟩
  unfold binop; simp only [hop, hk, if_true]; rfl

/-- C06, subtraction: same, with the difference of the sizes. -/
theorem C06_sub (hbase : BaseFactorsOne K) (op : Tok K) (hop : op.tag = .minus)
    (x y : K) (u v : Unit) (hk : u.kind = v.kind) :
    binop op (.measurement x u) (.measurement y v)
        = .ok (.measurement (size x u - size y v) (baseUnit u))
      ∧ size (size x u - size y v) (baseUnit u) = size x u - size y v := by
  refine ⟨?_, size_baseUnit hbase _ _⟩
  unfold binop; simp only [hop, hk, if_true]; rfl

/-- C06, scaling on the left: `k * q` is a measurement of `q`'s kind with `k` times its size. -/
theorem C06_scale_left (hbase : BaseFactorsOne K) (op : Tok K) (hop : op.tag = .star)
    (k x : K) (u : Unit) :
    binop op (.number k) (.measurement x u) = .ok (.measurement (k * size x u) (baseUnit u))
      ∧ size (k * size x u) (baseUnit u) = k * size x u := by
  refine ⟨?_, size_baseUnit hbase _ _⟩
  unfold binop; simp only [hop]; rfl

/-- C06, scaling on the right: `q * k` likewise. -/
theorem C06_scale_right (hbase : BaseFactorsOne K) (op : Tok K) (hop : op.tag = .star)
    (k x : K) (u : Unit) :
    binop op (.measurement x u) (.number k) = .ok (.measurement (k * size x u) (baseUnit u))
      ∧ size (k * size x u) (baseUnit u) = k * size x u := by
  refine ⟨?_, size_baseUnit hbase _ _⟩
  unfold binop; simp only [hop]; rfl

/-- C06, division by a non-zero number divides the size. -/
theorem C06_div (hbase : BaseFactorsOne K) (op : Tok K) (hop : op.tag = .slash)
    (k x : K) (u : Unit) (hk : k ≠ 0) :
    binop op (.measurement x u) (.number k) = .ok (.measurement (size x u / k) (baseUnit u))
      ∧ size (size x u / k) (baseUnit u) = size x u / k := by
  refine ⟨?_, size_baseUnit hbase _ _⟩
  have hz : Kernel.normIsZero k = false := by
    cases h : Kernel.normIsZero k
    · rfl
    · exact absurd ((LawfulKernel.normIsZero_iff k).mp h) hk
  unfold binop; simp only [hop, hz]; rfl

/-- C06, division of a measurement by zero is the division-by-zero diagnostic at the operator. -/
theorem C06_div_zero (op : Tok K) (hop : op.tag = .slash) (x : K) (u : Unit) :
    binop op (.measurement x u) (.number 0) = .diag ⟨.divisionByZero, op.line, op.col, []⟩ := by
  have hz : Kernel.normIsZero (0 : K) = true := (LawfulKernel.normIsZero_iff 0).mpr rfl
  unfold binop; simp only [hop, hz]; rfl

/-- C06: `(q / k) * k` has the size of `q` (both steps succeed). -/
theorem C06_div_mul_cancel (hbase : BaseFactorsOne K) (sl st : Tok K) (hsl : sl.tag = .slash)
    (hst : st.tag = .star) (k x : K) (u : Unit) (hk : k ≠ 0) :
    ∃ z w, binop sl (.measurement x u) (.number k) = .ok (.measurement z w)
      ∧ ∃ z' w', binop st (.measurement z w) (.number k) = .ok (.measurement z' w')
        ∧ size z' w' = size x u ∧ w'.kind = u.kind := by
  refine ⟨_, _, (C06_div hbase sl hsl k x u hk).1, _, _,
    (C06_scale_right hbase st hst k _ (baseUnit u)).1, ?_, ?_⟩
  · rw [size_baseUnit hbase, size_baseUnit hbase]; field_simp
  · rw [baseUnit_kind, baseUnit_kind]

/-- C06: `q / k` and `q * (1 / k)` are measurements of the same unit and equal size. -/
theorem C06_div_eq_mul_inv (sl st : Tok K) (hsl : sl.tag = .slash)
    (hst : st.tag = .star) (k x : K) (u : Unit) (hk : k ≠ 0) :
    ∃ z z' w, binop sl (.measurement x u) (.number k) = .ok (.measurement z w)
      ∧ binop st (.measurement x u) (.number (1 / k)) = .ok (.measurement z' w)
      ∧ z = z' := by
  have hz : Kernel.normIsZero k = false := by
    cases h : Kernel.normIsZero k
    · rfl
    · exact absurd ((LawfulKernel.normIsZero_iff k).mp h) hk
  refine ⟨toBase x u / k, 1 / k * toBase x u, baseUnit u, ?_, ?_, ?_⟩
  · unfold binop; simp only [hsl, hz]; rfl
  · unfold binop; simp only [hst]
  · field_simp

/-- C06: unary minus scales the size by `-1`. -/
theorem C06_neg (hbase : BaseFactorsOne K) (op : Tok K) (hop : op.tag = .minus)
    (x : K) (u : Unit) :
    unop op (.measurement x u) = .ok (.measurement (-(size x u)) (baseUnit u))
      ∧ size (-(size x u)) (baseUnit u) = -(size x u) := by
  refine ⟨?_, size_baseUnit hbase _ _⟩
  unfold unop; simp only [hop, LawfulKernel.negOne_eq, mul_neg, mul_one]; rfl

/-- C06, refusal: adding or subtracting measurements of different kinds. -/
theorem C06_refuse_cross_kind (op : Tok K) (hop : op.tag = .plus ∨ op.tag = .minus)
    (x y : K) (u v : Unit) (hk : u.kind ≠ v.kind) :
    binop op (.measurement x u) (.measurement y v) = unsupportedBin op := by
  rcases hop with hop | hop <;> (unfold binop; simp only [hop, hk, if_false]; rfl)

/-- C06, refusal: a measurement plus or minus a bare number (either order). -/
theorem C06_refuse_add_number (op : Tok K) (hop : op.tag = .plus ∨ op.tag = .minus)
    (x k : K) (u : Unit) :
    binop op (.measurement x u) (.number k) = unsupportedBin op
      ∧ binop op (.number k) (.measurement x u) = unsupportedBin op := by
  rcases hop with hop | hop <;> (constructor <;> (unfold binop; simp only [hop]; rfl))

/-- C06, refusal: measurement times measurement (same or different kinds). -/
theorem C06_refuse_mul (op : Tok K) (hop : op.tag = .star) (x y : K) (u v : Unit) :
    binop op (.measurement x u) (.measurement y v) = unsupportedBin op := by
  unfold binop; simp only [hop]; rfl

/-- C06, refusal: measurement divided by measurement, and number divided by measurement. -/
theorem C06_refuse_div (op : Tok K) (hop : op.tag = .slash) (x y k : K) (u v : Unit) :
    binop op (.measurement x u) (.measurement y v) = unsupportedBin op
      ∧ binop op (.number k) (.measurement x u) = unsupportedBin op := by
  constructor <;> (unfold binop; simp only [hop]; rfl)

/-- C06, refusal: a measurement on either side of `%` or `^`, whatever the other operand. -/
theorem C06_refuse_rem_pow (op : Tok K) (hop : op.tag = .percent ∨ op.tag = .caret)
    (x : K) (u : Unit) (b : Value K) :
    binop op (.measurement x u) b = unsupportedBin op
      ∧ binop op b (.measurement x u) = unsupportedBin op := by
  rcases hop with hop | hop <;>
    (constructor <;> (cases b <;> (unfold binop; simp only [hop]; rfl)))

/-- C06, refusal: square root and factorial of a measurement. -/
theorem C06_refuse_unary (op : Tok K) (hop : op.tag = .sqrt ∨ op.tag = .bang) (x : K) (u : Unit) :
    unop op (.measurement x u) = .diag ⟨.unsupportedUnaryOperator, op.line, op.col, []⟩ := by
  rcases hop with hop | hop <;> (unfold unop; simp only [hop]; rfl)

/-- C06, refusal: a measurement under `| |`, `⌈ ⌉`, `⌊ ⌋`; plain parentheses pass it through. -/
theorem C06_refuse_grouping (paren : Tok K) (k : GKind) (x : K) (u : Unit) :
    (k ≠ .grouping →
      groupop paren k (.measurement x u) = .diag ⟨.invalidGroupingOperand, paren.line, paren.col, []⟩)
    ∧ groupop paren .grouping (.measurement x u) = .ok (.measurement x u) := by
  refine ⟨fun hk => ?_, rfl⟩
  cases k <;> first | exact absurd rfl hk | rfl

end Calc
