/-
  Calc.Props.C17Session — C17 lifted to the whole front end: the prompt loop `repl` and `session`
  (file / `-e` expression / prompt sequencing of `main`, Calc/Model/Front.lean) ignore the line
  and column of tokens, hence inserting blanks at token boundaries in any of the session's texts
  leaves the printed value texts unchanged.  Property theorems only; proofs and vocabulary
  (`ScanSim`, `TextSim`, `PromptSim`, `OptTextSim`) in Calc/Proofs/SessionPos.lean, which rests
  on `processText_simP` (Calc/Proofs/ParsePos.lean).
-/
import Calc.Proofs.SessionPos
import Calc.Props.C17MeaningText
namespace Calc.Props.C17Session
open Calc

variable {S : Type} [Add S] [Sub S] [Mul S] [Div S] [Zero S] [One S] [Kernel S]

/-- C17, one text with scan failures included: two texts whose scans are related (`ScanSim`: both
    token lists, pointwise `EqModPos`; or the same `ScanErr`; or the same panic site; or both out
    of fuel), processed from related tables, print pointwise related lines and leave related
    tables. -/
theorem C17_processText_scanSim (cfg : ScanCfg S) (fuel : Nat) (env env' : Env S)
    (text text' : Str) (h : ScanSim (scan cfg text) (scan cfg text')) (henv : Env.SimP env env') :
    StepOut.SimP (processText cfg fuel env text) (processText cfg fuel env' text') :=
  processText_scanSim h fuel henv

/-- **C17, the prompt loop.**  Two lists of prompt lines of the same length, pairwise `PromptSim`
    (the `exit` test `isExit` agrees; for a line that is not `exit`, the two newline-terminated
    texts have related scans: token lists pointwise `EqModPos`, or the same scan failure), run by
    `repl cfg fuel` from tables related by `Env.SimP`, print the same number of lines, pointwise
    `Line.SimP`, and leave related tables. -/
theorem C17_repl_ignores_positions (cfg : ScanCfg S) (fuel : Nat) (env env' : Env S)
    (ls ls' : List Str) (hls : All₂ (PromptSim cfg) ls ls') (henv : Env.SimP env env') :
    StepOut.SimP (repl cfg fuel env ls) (repl cfg fuel env' ls') :=
  repl_simP cfg fuel hls henv

/-- the same with the hypothesis spelled out in the "both scans succeed" form: pairwise, the
    `exit` test agrees and, for a line that is not `exit`, both newline-terminated texts scan, to
    token lists pointwise `EqModPos` -/
theorem C17_repl_ignores_positions_both_scan (cfg : ScanCfg S) (fuel : Nat) (env env' : Env S)
    (ls ls' : List Str)
    (hls : All₂ (fun l l' => isExit l = isExit l' ∧ (isExit l = false →
      ∃ toks toks', scan cfg (ensureTrailingNewline l) = .ok toks ∧
        scan cfg (ensureTrailingNewline l') = .ok toks' ∧ All₂ Tok.EqModPos toks toks')) ls ls')
    (henv : Env.SimP env env') :
    StepOut.SimP (repl cfg fuel env ls) (repl cfg fuel env' ls') := by
  refine repl_simP cfg fuel ?_ henv
  induction hls with
  | nil => exact .nil
  | cons h _ ih =>
    refine .cons ⟨h.1, fun hx => ?_⟩ ih
    obtain ⟨toks, toks', h1, h2, ht⟩ := h.2 hx
    show ScanSim _ _
    rw [h1, h2]
    exact .ok ht

/-- **C17, the whole session.**  `session cfg fuel` run from related initial tables, on related
    optional file texts and `-e` expression texts (`OptTextSim`: both absent, or both present with
    related scans of the newline-terminated texts) and pairwise related prompt lines, prints the
    same number of lines (banner and goodbye included), pointwise `Line.SimP`, and leaves related
    tables. -/
theorem C17_session_ignores_positions (cfg : ScanCfg S) (fuel : Nat) (init init' : Env S)
    (file file' expr expr' : Option Str) (stdin stdin' : List Str)
    (hi : Env.SimP init init') (hf : OptTextSim cfg file file') (hx : OptTextSim cfg expr expr')
    (hs : All₂ (PromptSim cfg) stdin stdin') :
    StepOut.SimP (session cfg fuel init file expr stdin)
      (session cfg fuel init' file' expr' stdin') :=
  session_simP cfg fuel hi hf hx hs

/-! ## Blank insertion -/

/-- `t'` is `t` with a run of blanks inserted at a token boundary, under the hypotheses of
    `C17_blank_insert`: `t = x ++ y` scans, the split is a token boundary, `b` is a run of spaces,
    tabs and carriage returns, and no blank continues an identifier. -/
def BlankVariant (cfg : ScanCfg S) (t t' : Str) : Prop :=
  ∃ (x y b : List Char) (toks : List (Tok S)), t = x ++ y ∧ t' = x ++ b ++ y ∧
    (∀ c, isBlank c = true → isIdentCont cfg c = false) ∧ scan cfg (x ++ y) = .ok toks ∧
    Boundary cfg x y ∧ b.all isBlank = true

/-- a text of the session and its variant: unchanged, or (after the newline termination that
    `session` applies) a `BlankVariant` -/
def TextBlank (cfg : ScanCfg S) (t t' : Str) : Prop :=
  t = t' ∨ BlankVariant cfg (ensureTrailingNewline t) (ensureTrailingNewline t')

/-- a prompt line and its variant: unchanged, or the `exit` test agrees and, when not `exit`,
    the newline-terminated lines are a `BlankVariant` -/
def PromptBlank (cfg : ScanCfg S) (l l' : Str) : Prop :=
  l = l' ∨ (isExit l = isExit l' ∧
    (isExit l = false → BlankVariant cfg (ensureTrailingNewline l) (ensureTrailingNewline l')))

/-- optional texts: both absent, or both present and `TextBlank` -/
inductive OptTextBlank (cfg : ScanCfg S) : Option Str → Option Str → Prop
  | none : OptTextBlank cfg none none
  | some {t t' : Str} : TextBlank cfg t t' → OptTextBlank cfg (some t) (some t')

omit [Add S] [Sub S] [Mul S] [Div S] [Zero S] [One S] [Kernel S] in
theorem scanSim_refl (r : ScanRes S) : ScanSim r r := by
  cases r with
  | ok ts => exact .ok (All₂.refl' (fun _ => ⟨rfl, rfl⟩) ts)
  | bad e => exact .bad e
  | panic s => exact .panic s
  | fuel => exact .fuel

omit [Add S] [Sub S] [Mul S] [Div S] [Zero S] [One S] in
/-- a `BlankVariant` pair scans to token lists equal up to line/col (`C17_blank_insert`) -/
theorem C17_blankVariant_scanSim (cfg : ScanCfg S) (t t' : Str) (h : BlankVariant cfg t t') :
    ScanSim (scan cfg t) (scan cfg t') := by
  obtain ⟨x, y, b, toks, rfl, rfl, hblank, hs, hbd, hb⟩ := h
  obtain ⟨toks', h', e⟩ := C17_blank_insert cfg hblank x y b toks hs hbd hb
  rw [hs, h']
  exact .ok (all₂_eqModPos_iff_noPos.2 e.symm)

omit [Add S] [Sub S] [Mul S] [Div S] [Zero S] [One S] in
theorem textBlank_textSim {cfg : ScanCfg S} {t t' : Str} (h : TextBlank cfg t t') :
    TextSim cfg t t' := by
  rcases h with rfl | h
  · exact scanSim_refl _
  · exact C17_blankVariant_scanSim cfg _ _ h

omit [Add S] [Sub S] [Mul S] [Div S] [Zero S] [One S] in
theorem promptBlank_promptSim {cfg : ScanCfg S} {l l' : Str} (h : PromptBlank cfg l l') :
    PromptSim cfg l l' := by
  rcases h with rfl | ⟨h1, h2⟩
  · exact ⟨rfl, fun _ => scanSim_refl _⟩
  · exact ⟨h1, fun hx => C17_blankVariant_scanSim cfg _ _ (h2 hx)⟩

/-- **C17, blanks in a session.**  A session whose file text, `-e` expression text and prompt
    lines are each either unchanged or changed by inserting a run of blanks at a token boundary
    (`BlankVariant` of the newline-terminated texts; prompt lines keep their `exit` test), run from
    related tables, prints the same number of lines, pointwise related, the same value texts line
    by line (`Line.valueText`), and leaves related tables. -/
theorem C17_session_blank_lines (cfg : ScanCfg S) (fuel : Nat) (init init' : Env S)
    (file file' expr expr' : Option Str) (stdin stdin' : List Str)
    (hi : Env.SimP init init') (hf : OptTextBlank cfg file file')
    (hx : OptTextBlank cfg expr expr') (hs : All₂ (PromptBlank cfg) stdin stdin') :
    StepOut.SimP (session cfg fuel init file expr stdin)
      (session cfg fuel init' file' expr' stdin') ∧
    (session cfg fuel init file expr stdin).out.length =
      (session cfg fuel init' file' expr' stdin').out.length ∧
    (session cfg fuel init file expr stdin).out.map Line.valueText =
      (session cfg fuel init' file' expr' stdin').out.map Line.valueText := by
  have hf' : OptTextSim cfg file file' := by
    cases hf with
    | none => exact .none
    | some h => exact .some (textBlank_textSim h)
  have hx' : OptTextSim cfg expr expr' := by
    cases hx with
    | none => exact .none
    | some h => exact .some (textBlank_textSim h)
  have hs' : All₂ (PromptSim cfg) stdin stdin' := by
    induction hs with
    | nil => exact .nil
    | cons h _ ih => exact .cons (promptBlank_promptSim h) ih
  have h := session_simP cfg fuel hi hf' hx' hs'
  exact ⟨h, h.out.length_eq, valueTexts_simP h.out⟩

/-! ## Satisfiability of the hypotheses -/

/-- the hypotheses of `C17_session_blank_lines` are satisfiable by different texts: no file,
    the expression `2-1` against `\t 2-1`, and a prompt list `exit` -/
example (fuel : Nat) (env : Env S) :
    let cfg : ScanCfg S := ⟨4, fun c => isIdentStart c || isDigit c, fun _ => none⟩
    (session cfg fuel env none (some "2-1".toList) ["exit".toList]).out.map Line.valueText =
      (session cfg fuel env none (some "\t 2-1".toList) ["exit".toList]).out.map
        Line.valueText := by
  intro cfg
  refine (C17_session_blank_lines cfg fuel env env none none _ _ _ _ (Env.SimP.refl env) .none
    (.some (.inr ⟨[], "2-1\n".toList, "\t ".toList, _, by decide, by decide, ?_, rfl, .nil, rfl⟩))
    (.cons (.inl rfl) .nil)).2.2
  intro c h
  simp only [isBlank, Bool.or_eq_true, decide_eq_true_eq] at h
  rcases h with (rfl | rfl) | rfl <;> rfl

end Calc.Props.C17Session
