/-
  Property C18, lifted from the token level to the PARSE level.

  "… the body, when read again by the calculator, is the body that was defined."

  `C18_roundtrip` (Calc/Props/C18.lean) stops at the kinds of the tokens: scanning the printed
  body gives tokens whose kinds are `Expr.kinds e`, a list defined by traversal of the tree.  Here
  that list is tied to the parser, on both sides:

    * `C18_consumed_kinds` — for every tree the grammar (hence the parser, `C03_sound`) produces
      from a phrase `c`, and which contains no matrix literal, `Expr.kinds e` IS the list of kinds
      of `c`.  No rule of the grammar makes this false (in particular a grouping is opened and
      closed by tokens of exactly the kinds the printer emits for its `GKind`).
    * `C18_grammar_reads_kinds` — the grammar looks at tokens through their kinds only: a phrase
      with the same kinds is a phrase, read as a SIMILAR tree (`Expr.Sim`: same shape, same
      numbers, units, grouping kinds, identifier names; the stored tokens have equal kinds; their
      lexeme texts and positions are not compared).
    * `C18_reparse` — hence scanning the listing of a parser-produced, matrix-free tree `e` gives
      tokens that the grammar reads (and the parser accepts, `C18_reparse_parser`) as a tree
      similar to `e`; and this is the only reading (`C18_reparse_unique`,
      `C18_reparse_parser_unique`); `C18_reparse_defined_body` states it of the body of an
      accepted `name(params) = body` statement.

  Vocabulary: `Expr.NoMatrix`, `Derives.map_kind` in Calc/Proofs/ReparseKinds.lean; `Expr.Sim`,
  `Derives.of_kinds` in Calc/Proofs/ReparseSim.lean.  Property theorems only.
-/
import Calc.Props.C18
import Calc.Props.C03
import Calc.Proofs.ReparseKinds
import Calc.Proofs.ReparseSim
namespace Calc.Props.C18Parse
open Calc

variable {S : Type}

/-! ### what the parser consumed is what the tree lists -/

/-- **C18 (the tree lists what was consumed).** If the grammar reads the phrase `c`, at any level,
    as the tree `e`, and `e` contains no matrix literal, then the kinds of the tokens of `c` —
    number values, units and identifier names included — are exactly `Expr.kinds e`, the kinds of
    the tree in source order. -/
theorem C18_consumed_kinds (l : Level) (c : List (Tok S)) (e : Expr S) (h : Derives l c e)
    (hm : e.NoMatrix) : c.map (·.kind) = e.kinds :=
  h.map_kind hm

/-- … for the parser: whenever `expression` accepts, returning a matrix-free tree `e`, the kinds
    of the consumed prefix are `Expr.kinds e`. -/
theorem C18_consumed_kinds_parser (f : Nat) (ts : List (Tok S)) (e : Expr S) (r : List (Tok S))
    (h : pExpression f ts = .ok e r) (hm : e.NoMatrix) :
    ∃ c, ts = c ++ r ∧ c.map (·.kind) = e.kinds :=
  let ⟨c, hc, d⟩ := C03_sound_expression f ts e r h
  ⟨c, hc, d.map_kind hm⟩

/-- … and for argument lists: the kinds of a comma-separated phrase are the kinds of the
    arguments with a comma kind between neighbours. -/
theorem C18_consumed_kinds_args (c : List (Tok S)) (es : List (Expr S)) (h : DerivesArgs c es)
    (hm : Expr.NoMatrixArgs es) : c.map (·.kind) = joinL [.comma] (Expr.argKinds es) :=
  h.map_kind hm

/-! ### the grammar reads kinds -/

/-- **C18 (the grammar reads kinds).** If `c` is a phrase of level `l` read as `e`, and `c'` has
    the same kinds as `c`, token by token, then `c'` is a phrase of level `l`, read as a tree
    similar to `e` (`Expr.Sim`).  Matrix literals included. -/
theorem C18_grammar_reads_kinds (l : Level) (c c' : List (Tok S)) (e : Expr S)
    (h : Derives l c e) (hc : c.map (·.kind) = c'.map (·.kind)) :
    ∃ e', Derives l c' e' ∧ Expr.Sim e e' :=
  h.of_kinds hc

/-- `Expr.Sim` is an equivalence relation. -/
theorem C18_sim_equivalence :
    (∀ e : Expr S, Expr.Sim e e) ∧ (∀ e e' : Expr S, Expr.Sim e e' → Expr.Sim e' e) ∧
    (∀ a b c : Expr S, Expr.Sim a b → Expr.Sim b c → Expr.Sim a c) :=
  ⟨Expr.Sim.refl, fun _ _ h => h.symm, fun _ _ _ h h' => h.trans h'⟩

/-- Similar trees list the same kinds, and a tree similar to a matrix-free tree is matrix-free. -/
theorem C18_sim_kinds (e e' : Expr S) (h : Expr.Sim e e') :
    e.kinds = e'.kinds ∧ (e.NoMatrix → e'.NoMatrix) :=
  ⟨h.kinds_eq, h.noMatrix⟩

/-- What `Expr.Sim` says at the root, node by node: the same constructor; equal numbers, units,
    grouping kinds; stored tokens of equal kind (so identifiers have the same name); similar
    subtrees; argument lists of equal length. -/
theorem C18_sim_root (e e' : Expr S) (h : Expr.Sim e e') :
    (∀ x t u, e = .as_ x t u → ∃ x' t', e' = .as_ x' t' u ∧ Expr.Sim x x' ∧ t.kind = t'.kind) ∧
    (∀ l op r, e = .binary l op r →
      ∃ l' op' r', e' = .binary l' op' r' ∧ Expr.Sim l l' ∧ op.kind = op'.kind ∧ Expr.Sim r r') ∧
    (∀ op x, e = .unary op x → ∃ op' x', e' = .unary op' x' ∧ op.kind = op'.kind ∧ Expr.Sim x x') ∧
    (∀ o k x, e = .grouping o k x →
      ∃ o' x', e' = .grouping o' k x' ∧ o.kind = o'.kind ∧ Expr.Sim x x') ∧
    (∀ z, e = .number z → e' = .number z) ∧
    (∀ z u, e = .measurement z u → e' = .measurement z u) ∧
    (∀ t, e = .ident t → ∃ t', e' = .ident t' ∧ t.kind = t'.kind) ∧
    (∀ fn lp args, e = .call fn lp args →
      ∃ fn' lp' args', e' = .call fn' lp' args' ∧ Expr.Sim fn fn' ∧ lp.kind = lp'.kind ∧
        Expr.SimArgs args args' ∧ args.length = args'.length) := by
  cases h with
  | as_ h ht =>
    refine ⟨?_, ?_, ?_, ?_, ?_, ?_, ?_, ?_⟩ <;> intros <;> rename_i he <;> cases he
    exact ⟨_, _, rfl, h, ht⟩
  | binary h1 ht h2 =>
    refine ⟨?_, ?_, ?_, ?_, ?_, ?_, ?_, ?_⟩ <;> intros <;> rename_i he <;> cases he
    exact ⟨_, _, _, rfl, h1, ht, h2⟩
  | unary ht h =>
    refine ⟨?_, ?_, ?_, ?_, ?_, ?_, ?_, ?_⟩ <;> intros <;> rename_i he <;> cases he
    exact ⟨_, _, rfl, ht, h⟩
  | grouping ht h =>
    refine ⟨?_, ?_, ?_, ?_, ?_, ?_, ?_, ?_⟩ <;> intros <;> rename_i he <;> cases he
    exact ⟨_, _, rfl, ht, h⟩
  | number =>
    refine ⟨?_, ?_, ?_, ?_, ?_, ?_, ?_, ?_⟩ <;> intros <;> rename_i he <;> cases he
    rfl
  | measurement =>
    refine ⟨?_, ?_, ?_, ?_, ?_, ?_, ?_, ?_⟩ <;> intros <;> rename_i he <;> cases he
    rfl
  | matrix ht h =>
    refine ⟨?_, ?_, ?_, ?_, ?_, ?_, ?_, ?_⟩ <;> intros <;> rename_i he <;> cases he
  | ident ht =>
    refine ⟨?_, ?_, ?_, ?_, ?_, ?_, ?_, ?_⟩ <;> intros <;> rename_i he <;> cases he
    exact ⟨_, rfl, ht⟩
  | call h ht ha =>
    refine ⟨?_, ?_, ?_, ?_, ?_, ?_, ?_, ?_⟩ <;> intros <;> rename_i he <;> cases he
    exact ⟨_, _, _, rfl, h, ht, ha, ha.length_eq⟩

/-! ### the round trip, at the parse level -/

variable [Kernel S]

/-- **C18 (round trip, tokens of the definition).** Weak form, literally the property's sentence:
    for a body `e` that the grammar read from the phrase `c` (any tree the parser produces),
    without matrix literal and with lexemes as the scanner makes them (`Expr.TreeOK`), scanning
    the printed body succeeds and yields a token list with the same kinds, token by token, as the
    phrase `c` the body was defined from. -/
theorem C18_reparse_kinds (cfg : ScanCfg S) (hop : ∀ c ∈ opChars, cfg.isAlnum c = false)
    (hblank : cfg.isAlnum ' ' = false) (c : List (Tok S)) (e : Expr S) (hd : Derives .expr c e)
    (hm : e.NoMatrix) (he : e.TreeOK cfg) :
    ∃ toks, scan cfg (showExpr e) = .ok toks ∧ toks.map (·.kind) = c.map (·.kind) :=
  let ⟨toks, h1, h2⟩ := C18.C18_roundtrip cfg hop hblank e he
  ⟨toks, h1, h2.trans (hd.map_kind hm).symm⟩

/-- **C18 (round trip, parse level).** For a scanner whose alphanumeric class contains neither an
    operator character nor the blank, and a body `e` that the grammar read from some phrase `c`
    (any tree the parser produces), without matrix literal and with lexemes as the scanner makes
    them (`Expr.TreeOK`): scanning the printed body succeeds, and the grammar reads the resulting
    tokens, as an expression, as a tree `e'` similar to `e`. -/
theorem C18_reparse (cfg : ScanCfg S) (hop : ∀ c ∈ opChars, cfg.isAlnum c = false)
    (hblank : cfg.isAlnum ' ' = false) (c : List (Tok S)) (e : Expr S) (hd : Derives .expr c e)
    (hm : e.NoMatrix) (he : e.TreeOK cfg) :
    ∃ toks e', scan cfg (showExpr e) = .ok toks ∧ Derives .expr toks e' ∧ Expr.Sim e e' :=
  let ⟨toks, h1, h2⟩ := C18_reparse_kinds cfg hop hblank c e hd hm he
  let ⟨e', d, s⟩ := hd.of_kinds h2.symm
  ⟨toks, e', h1, d, s⟩

/-- **C18 (round trip, one reading).** … and that is the only reading: ANY tree the grammar
    reads from the tokens of the printed body is similar to `e`. -/
theorem C18_reparse_unique (cfg : ScanCfg S) (hop : ∀ c ∈ opChars, cfg.isAlnum c = false)
    (hblank : cfg.isAlnum ' ' = false) (c : List (Tok S)) (e : Expr S) (hd : Derives .expr c e)
    (hm : e.NoMatrix) (he : e.TreeOK cfg) (toks : List (Tok S))
    (hs : scan cfg (showExpr e) = .ok toks) (e'' : Expr S) (hd'' : Derives .expr toks e'') :
    Expr.Sim e e'' := by
  obtain ⟨toks', e', h1, d, s⟩ := C18_reparse cfg hop hblank c e hd hm he
  rw [hs] at h1
  cases h1
  exact (C03_unambiguous.1 .expr toks e' e'' d hd'') ▸ s

/-- **C18 (round trip, through the parser).** If `expression` accepted some input and returned
    the body `e` (matrix-free, lexemes as the scanner makes them), then scanning the printed body
    succeeds, and `expression` accepts the resulting tokens `toks` — followed by any rest `r` that
    does not continue an expression (`Stop .expr r`: `r` is empty or begins with no operator, `as`
    or `(`) and does not begin with a unit glued to a final number (`NoGlue`), with any fuel of
    at least `10 + 13 · length` — consuming exactly `toks` and returning a tree similar to `e`. -/
theorem C18_reparse_parser (cfg : ScanCfg S) (hop : ∀ c ∈ opChars, cfg.isAlnum c = false)
    (hblank : cfg.isAlnum ' ' = false) (f₀ : Nat) (ts₀ r₀ : List (Tok S)) (e : Expr S)
    (hp : pExpression f₀ ts₀ = .ok e r₀) (hm : e.NoMatrix) (he : e.TreeOK cfg) :
    ∃ toks e', scan cfg (showExpr e) = .ok toks ∧ Expr.Sim e e' ∧
      ∀ (f : Nat) (r : List (Tok S)), Stop .expr r → NoGlue toks r →
        10 + 13 * (toks ++ r).length ≤ f → pExpression f (toks ++ r) = .ok e' r :=
  let ⟨c, _, hd⟩ := C03_sound_expression f₀ ts₀ e r₀ hp
  let ⟨toks, e', h1, d, s⟩ := C18_reparse cfg hop hblank c e hd hm he
  ⟨toks, e', h1, s, fun f r hs hg hf => C03_complete_expression_fuel toks e' d f r hs hg hf⟩

/-- … in particular on the tokens of the printed body alone, and in front of a statement
    delimiter (newline or `;`). -/
theorem C18_reparse_parser_alone (cfg : ScanCfg S) (hop : ∀ c ∈ opChars, cfg.isAlnum c = false)
    (hblank : cfg.isAlnum ' ' = false) (f₀ : Nat) (ts₀ r₀ : List (Tok S)) (e : Expr S)
    (hp : pExpression f₀ ts₀ = .ok e r₀) (hm : e.NoMatrix) (he : e.TreeOK cfg) :
    ∃ toks e', scan cfg (showExpr e) = .ok toks ∧ Expr.Sim e e' ∧
      (∀ f, 10 + 13 * toks.length ≤ f → pExpression f toks = .ok e' []) ∧
      (∀ f (d : Tok S) r, d.isDelim → 10 + 13 * (toks ++ d :: r).length ≤ f →
        pExpression f (toks ++ d :: r) = .ok e' (d :: r)) := by
  obtain ⟨toks, e', h1, s, h⟩ := C18_reparse_parser cfg hop hblank f₀ ts₀ r₀ e hp hm he
  refine ⟨toks, e', h1, s, ?_, ?_⟩
  · intro f hf
    have := h f [] (Stop_nil _) (NoGlue_nil _) (by simpa using hf)
    simpa using this
  · intro f d r hd hf
    refine h f (d :: r) (Stop_cons.mpr ?_) (NoGlue_cons ?_) hf
    · rcases hd with hd | hd <;> simp [hd, stopSet]
    · rcases hd with hd | hd <;> simp [hd]

/-- **C18 (round trip through the parser, one reading).** Whatever `expression` returns when it
    consumes exactly the tokens of the printed body (leaving any rest `r`) is similar to the body
    that was defined. -/
theorem C18_reparse_parser_unique (cfg : ScanCfg S) (hop : ∀ c ∈ opChars, cfg.isAlnum c = false)
    (hblank : cfg.isAlnum ' ' = false) (f₀ : Nat) (ts₀ r₀ : List (Tok S)) (e : Expr S)
    (hp : pExpression f₀ ts₀ = .ok e r₀) (hm : e.NoMatrix) (he : e.TreeOK cfg)
    (toks : List (Tok S)) (hs : scan cfg (showExpr e) = .ok toks)
    (f : Nat) (r : List (Tok S)) (e'' : Expr S) (hp'' : pExpression f (toks ++ r) = .ok e'' r) :
    Expr.Sim e e'' := by
  obtain ⟨c, _, hd⟩ := C03_sound_expression f₀ ts₀ e r₀ hp
  obtain ⟨c'', hc'', hd''⟩ := C03_sound_expression f (toks ++ r) e'' r hp''
  have : toks = c'' := List.append_cancel_right hc''
  subst this
  exact C18_reparse_unique cfg hop hblank c e hd hm he toks hs e'' hd''

/-- **C18 (the body of a defined function).** If `statement` accepted a function definition
    `name(params) = body` (terminated by a delimiter), and the body is matrix-free with lexemes as
    the scanner makes them, then scanning the printed body — the part of the listing entry after
    `= ` (`C18_listing_shape`) — succeeds; in front of a statement delimiter `expression` reads
    the resulting tokens as a tree similar to the body that was defined; and every tree the
    grammar reads from these tokens is similar to it. -/
theorem C18_reparse_defined_body (cfg : ScanCfg S) (hop : ∀ c ∈ opChars, cfg.isAlnum c = false)
    (hblank : cfg.isAlnum ' ' = false) (f₀ : Nat) (ts₀ r₀ : List (Tok S)) (name : Tok S)
    (sig : Sig S) (body : Expr S) (hp : pStatement f₀ ts₀ = .ok (.define name sig body) r₀)
    (hm : body.NoMatrix) (he : body.TreeOK cfg) :
    ∃ toks body', scan cfg (showExpr body) = .ok toks ∧ Expr.Sim body body' ∧
      (∀ f (d : Tok S) r, d.isDelim → 10 + 13 * (toks ++ d :: r).length ≤ f →
        pExpression f (toks ++ d :: r) = .ok body' (d :: r)) ∧
      (∀ e'', Derives .expr toks e'' → Expr.Sim body e'') := by
  obtain ⟨c, d, _, _, ds⟩ := C03_stmt_shapes f₀ ts₀ _ r₀ hp
  cases ds with
  | define _ _ _ hb =>
    obtain ⟨toks, body', h1, db, s⟩ := C18_reparse cfg hop hblank _ body hb hm he
    refine ⟨toks, body', h1, s, ?_, ?_⟩
    · intro f d r hd hf
      refine C03_complete_expression_fuel toks body' db f (d :: r) (Stop_cons.mpr ?_)
        (NoGlue_cons ?_) hf
      · rcases hd with hd | hd <;> simp [hd, stopSet]
      · rcases hd with hd | hd <;> simp [hd]
    · intro e'' hd''
      exact C18_reparse_unique cfg hop hblank _ body hb hm he toks h1 e'' hd''

/-! ### the hypotheses are satisfiable -/

/-- the hypotheses of `C18_reparse_parser_alone` hold of the tree of `-(a+2)!` as the parser
    builds it from seven tokens, when `a` is alphanumeric and no keyword and the literal prints
    as `2`; so the printed text `-(a+2)!` scans to tokens that `expression` reads as a tree of
    the same shape, with an identifier of the same name and the same number -/
example (cfg : ScanCfg S) (hop : ∀ c ∈ opChars, cfg.isAlnum c = false)
    (hblank : cfg.isAlnum ' ' = false) (ha : cfg.isAlnum 'a' = true) (hk : cfg.keyword ['a'] = none)
    (h2 : complexToString (Kernel.ofDecimal 2 0 : S) = ['2']) :
    ∃ toks minus' bang' lp' a' plus',
      scan cfg "-(a+2)!".toList = .ok toks ∧
      (∀ f, 10 + 13 * toks.length ≤ f → pExpression f toks =
        .ok (.unary minus' (.unary bang' (.grouping lp' .grouping
          (.binary (.ident a') plus' (.number (Kernel.ofDecimal 2 0)))))) []) ∧
      minus'.kind = .minus ∧ bang'.kind = .bang ∧ lp'.kind = .lparen ∧ a'.kind = .ident ['a'] ∧
      plus'.kind = .plus := by
  let minus : Tok S := ⟨.minus, ['-'], 1, 1⟩
  let plus : Tok S := ⟨.plus, ['+'], 1, 4⟩
  let bang : Tok S := ⟨.bang, ['!'], 1, 7⟩
  let lp : Tok S := ⟨.lparen, ['('], 1, 2⟩
  let rp : Tok S := ⟨.rparen, [')'], 1, 6⟩
  let a : Tok S := ⟨.ident ['a'], ['a'], 1, 3⟩
  let two : Tok S := ⟨.number (Kernel.ofDecimal 2 0), ['2'], 1, 5⟩
  let e : Expr S := .unary minus (.unary bang (.grouping lp .grouping
    (.binary (.ident a) plus (.number (Kernel.ofDecimal 2 0)))))
  have hparse : pExpression 40 [minus, lp, a, plus, two, rp, bang] = .ok e [] := rfl
  have hNM : e.NoMatrix := by simp [e, Expr.NoMatrix]
  have hOK : e.TreeOK cfg := by
    simp only [e, Expr.TreeOK]
    refine ⟨⟨'-', rfl, by decide, by simp [singleKind, minus]⟩,
      ⟨'!', rfl, by decide, by simp [singleKind, bang]⟩, ?_, ?_, ?_⟩
    · show OpTok plus
      exact ⟨'+', rfl, by decide, by simp [singleKind, plus]⟩
    · refine ⟨⟨'a', [], rfl, by decide⟩, ?_, ?_⟩
      · intro d hd; simp only [a, List.mem_singleton] at hd; subst hd; simp [isIdentCont, ha]
      · simp [wordKindOf, a, hk]
    · rw [h2]
      exact numLit_digits ['2'] (by decide) (by decide)
  have hshow : showExpr e = "-(a+2)!".toList := by
    simp [e, minus, plus, bang, a, showExpr, Tok.tag, Kind.tag, h2]
  obtain ⟨toks, e', h1, s, hp, -⟩ :=
    C18_reparse_parser_alone cfg hop hblank 40 _ [] e hparse hNM hOK
  rw [hshow] at h1
  obtain ⟨minus', x1, rfl, hk1, s1⟩ := (C18_sim_root _ _ s).2.2.1 _ _ rfl
  obtain ⟨bang', x2, rfl, hk2, s2⟩ := (C18_sim_root _ _ s1).2.2.1 _ _ rfl
  obtain ⟨lp', x3, rfl, hk3, s3⟩ := (C18_sim_root _ _ s2).2.2.2.1 _ _ _ rfl
  obtain ⟨l', plus', r', rfl, s4, hk4, s5⟩ := (C18_sim_root _ _ s3).2.1 _ _ _ rfl
  obtain ⟨a', rfl, hk5⟩ := (C18_sim_root _ _ s4).2.2.2.2.2.2.1 _ rfl
  have h6 := (C18_sim_root _ _ s5).2.2.2.2.1 _ rfl
  subst h6
  exact ⟨toks, minus', bang', lp', a', plus', h1, hp, hk1.symm, hk2.symm, hk3.symm, hk5.symm,
    hk4.symm⟩

end Calc.Props.C18Parse
