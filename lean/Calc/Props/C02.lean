/-
  Property C02 — Number arithmetic yields the mathematically defined value.

  Every expression built from real and complex literals, the built-in constants, variables,
  `+ - * / % ^ ! √`, unary minus and the groupings `( ) | | ⌈ ⌉ ⌊ ⌋` evaluates to the value
  mathematics assigns it — complex field operations, principal-branch power and root, truncated
  remainder, `n!` on naturals, modulus, ceiling, floor — up to floating-point rounding.  Division
  or remainder by zero, factorial of a non-natural, ceiling or floor of a non-real, and any
  operator applied to operand kinds it is not defined for produce a diagnostic, never a value.

  The theorems are exact: they are stated at the exact numeric kernel `ℂ`
  (Calc/Proofs/ComplexKernel.lean, a lawful kernel built from Mathlib), against the independent
  specification `Calc.Spec.denote` (Calc/Spec/Denote.lean).  The rounding gap between `ℂ` and
  `Complex64` is carried by the correspondence streams, not by these theorems.

  * `C02_kind_table*`            — which operand kinds each operator accepts (any scalar type)
  * `C02_factorial_loop`         — the product loop of `n!` (any lawful kernel)
  * `C02_binop_numbers`, `C02_unop_numbers`, `C02_groupop_numbers` — one operator on numbers
  * `C02_eval_denote`            — whole expressions of any depth
-/
import Calc.Proofs.NumKinds
import Calc.Proofs.NumOps
import Calc.Proofs.NumEval
namespace Calc.Props.C02
open Calc Calc.Spec Complex

set_option linter.unusedSectionVars false

/-! ## The kind table (generic in the scalar type) -/

section KindTable
variable {S : Type} [Add S] [Sub S] [Mul S] [Div S] [Zero S] [One S] [Kernel S]

/-- **C02 (kind table).** An operator applied to operand kinds it is not defined for produces a
    diagnostic at the operator, never a value: a binary operator outside `binSupported`
    → `unsupportedBinaryOperator`; a unary operator outside `unSupported`
    → `unsupportedUnaryOperator`; a bracket pair outside `grpSupported` → `invalidGroupingOperand`. -/
theorem C02_kind_table (op : Tok S) (a b : Value S) (k : GKind) :
    (op.tag ∈ binaryTags → binSupported op.tag a.vkind b.vkind = false →
      binop op a b = .diag ⟨.unsupportedBinaryOperator, op.line, op.col, []⟩) ∧
    (op.tag ∈ unaryTags → unSupported op.tag a.vkind = false →
      unop op a = .diag ⟨.unsupportedUnaryOperator, op.line, op.col, []⟩) ∧
    (grpSupported k a.vkind = false →
      groupop op k a = .diag ⟨.invalidGroupingOperand, op.line, op.col, []⟩) :=
  ⟨binop_unsupported op a b, unop_unsupported op a, groupop_unsupported op k a⟩

/-- **C02 (kind table, the supported pairs spelled out).** `binSupported` is exactly the operator
    table of the manual: `+ -` on two numbers, two measurements or two matrices; `*` on two
    numbers, number and matrix (either order), two matrices, number and measurement (either
    order); `/` of a number, matrix or measurement by a number; `^ %` on two numbers; `· ×` on two
    matrices.  Nothing else — in particular nothing with a function operand. -/
theorem C02_kind_table_supported :
    ∀ t ∈ binaryTags, ∀ ka kb, binSupported t ka kb = true ↔
      (t, ka, kb) ∈
        [(Tag.plus, VKind.number, VKind.number), (.plus, .measurement, .measurement), (.plus, .matrix, .matrix),
         (.minus, .number, .number), (.minus, .measurement, .measurement), (.minus, .matrix, .matrix),
         (.star, .number, .number), (.star, .number, .matrix), (.star, .matrix, .number),
         (.star, .matrix, .matrix), (.star, .number, .measurement), (.star, .measurement, .number),
         (.slash, .number, .number), (.slash, .matrix, .number), (.slash, .measurement, .number),
         (.caret, .number, .number), (.percent, .number, .number),
         (.dot, .matrix, .matrix), (.cross, .matrix, .matrix)] := by
  intro t ht ka kb
  simp only [binaryTags, List.mem_cons, List.not_mem_nil, or_false] at ht
  rcases ht with rfl | rfl | rfl | rfl | rfl | rfl | rfl | rfl <;> cases ka <;> cases kb <;> decide

/-- **C02 (functions are not operands).** If either operand is a function value, every binary
    operator is refused with `unsupportedBinaryOperator` at the operator; every unary operator with
    `unsupportedUnaryOperator`; `| |`, `⌈ ⌉`, `⌊ ⌋` with `invalidGroupingOperand` at the bracket. -/
theorem C02_kind_table_functions (op : Tok S) (a b : Value S) (k : GKind) :
    (op.tag ∈ binaryTags → (a.vkind = .function ∨ b.vkind = .function) →
      binop op a b = .diag ⟨.unsupportedBinaryOperator, op.line, op.col, []⟩) ∧
    (op.tag ∈ unaryTags → a.vkind = .function →
      unop op a = .diag ⟨.unsupportedUnaryOperator, op.line, op.col, []⟩) ∧
    (k ≠ .grouping → a.vkind = .function →
      groupop op k a = .diag ⟨.invalidGroupingOperand, op.line, op.col, []⟩) := by
  refine ⟨fun hop h => binop_unsupported op a b hop ?_, fun hop h => unop_unsupported op a hop ?_,
    fun hk h => groupop_unsupported op k a ?_⟩
  · simp only [binaryTags, List.mem_cons, List.not_mem_nil, or_false] at hop
    rcases h with h | h <;> rw [h] <;>
      rcases hop with ht | ht | ht | ht | ht | ht | ht | ht <;> rw [ht] <;>
      cases a.vkind <;> cases b.vkind <;> rfl
  · simp only [unaryTags, List.mem_cons, List.not_mem_nil, or_false] at hop
    rw [h]; rcases hop with ht | ht | ht <;> rw [ht] <;> rfl
  · rw [h]; cases k <;> first | rfl | exact absurd rfl hk

/-- **C02 (`^` and `%` are for numbers only).** Power and remainder of anything but two numbers
    are refused. -/
theorem C02_kind_table_pow_rem (op : Tok S) (a b : Value S)
    (hop : op.tag = .caret ∨ op.tag = .percent)
    (hab : ¬ (a.vkind = .number ∧ b.vkind = .number)) :
    binop op a b = .diag ⟨.unsupportedBinaryOperator, op.line, op.col, []⟩ := by
  apply binop_unsupported op a b
  · rcases hop with h | h <;> rw [h] <;> simp [binaryTags]
  · rcases hop with h | h <;> rw [h] <;> revert hab <;>
      cases a.vkind <;> cases b.vkind <;> simp [binSupported]

/-- **C02 (`√` and `!` are for numbers only; so are `⌈ ⌉` and `⌊ ⌋`).** -/
theorem C02_kind_table_root_fact (op : Tok S) (a : Value S) (ha : a.vkind ≠ .number) :
    ((op.tag = .sqrt ∨ op.tag = .bang) →
      unop op a = .diag ⟨.unsupportedUnaryOperator, op.line, op.col, []⟩) ∧
    groupop op .ceil a = .diag ⟨.invalidGroupingOperand, op.line, op.col, []⟩ ∧
    groupop op .floor a = .diag ⟨.invalidGroupingOperand, op.line, op.col, []⟩ := by
  refine ⟨fun hop => unop_unsupported op a ?_ ?_, groupop_unsupported op _ a ?_,
    groupop_unsupported op _ a ?_⟩
  · rcases hop with h | h <;> rw [h] <;> simp [unaryTags]
  · rcases hop with h | h <;> rw [h] <;> revert ha <;> cases a.vkind <;> simp [unSupported]
  · revert ha; cases a.vkind <;> simp [grpSupported]
  · revert ha; cases a.vkind <;> simp [grpSupported]

end KindTable

/-! ## Factorial -/

section Factorial
variable {K : Type} [Field K] [CharZero K] [Kernel K] [LawfulKernel K]

/-- **C02 (factorial, the loop).** The product the code forms over `2..n` is `n!`, for every `n`
    (over any lawful kernel). -/
theorem C02_factorial_product (n : Nat) :
    (List.range' 2 (n - 1)).foldl (fun (acc : K) k => acc * Kernel.ofNat k) 1 = ((Nat.factorial n : ℕ) : K) :=
  factorial_loop n

/-- **C02 (factorial).** For `n ≤ 170` the model's `factorial n` is `n!`.  (Above 170 the code
    answers with its infinity, which no field has.) -/
theorem C02_factorial_loop : ∀ n ≤ 170, (factorial n : K) = ((Nat.factorial n : ℕ) : K) :=
  fun n hn => factorial_eq n hn

end Factorial

/-- **C02 (factorial beyond the range of `f64`).** Above 170 the model answers with the kernel's
    infinity without running the loop (any scalar type) — the case `C02_eval_denote` leaves out. -/
theorem C02_factorial_overflow {S : Type} [Mul S] [One S] [Kernel S] (n : Nat) (hn : 170 < n) :
    (factorial n : S) = Kernel.inf := by
  unfold factorial; rw [if_pos hn]

/-- `C02_factorial_loop` at the exact kernel -/
example : ∀ n ≤ 170, (factorial n : ℂ) = ((Nat.factorial n : ℕ) : ℂ) := C02_factorial_loop

/-! ## One operator on numbers (exact kernel) -/

/-- the specification's truncation is the kernel's: both are "each part rounded toward zero" -/
example (z : ℂ) : truncC z = Spec.trunc z := rfl

open Classical in
/-- **C02 (binary operators on numbers).** `x op y` is the sum, difference, product, quotient,
    truncated remainder, principal-branch power of `x` and `y` *in this order*; quotient and
    remainder by zero are refused with `divisionByZero` at the operator. -/
theorem C02_binop_numbers (op : Tok ℂ) (x y : ℂ) :
    (op.tag = .plus → binop op (.number x) (.number y) = .ok (.number (x + y))) ∧
    (op.tag = .minus → binop op (.number x) (.number y) = .ok (.number (x - y))) ∧
    (op.tag = .star → binop op (.number x) (.number y) = .ok (.number (x * y))) ∧
    (op.tag = .slash → binop op (.number x) (.number y) =
      if y = 0 then .diag ⟨.divisionByZero, op.line, op.col, []⟩ else .ok (.number (x / y))) ∧
    (op.tag = .percent → binop op (.number x) (.number y) =
      if y = 0 then .diag ⟨.divisionByZero, op.line, op.col, []⟩
      else .ok (.number (x - y * Spec.trunc (x / y)))) ∧
    (op.tag = .caret → binop op (.number x) (.number y) = .ok (.number (x ^ y))) :=
  ⟨binop_plus op x y, binop_minus op x y, binop_star op x y, binop_slash op x y,
   binop_percent op x y, binop_caret op x y⟩

/-- **C02 (unary operators on numbers).** `-x` is the negation; `√x` the principal square root
    `x ^ (1/2)`; `x!` is `n!` when `x` is the natural number `n ≤ 170`, and is refused with
    `unaryOperatorValueConstraintNotMet` at the `!` when `x` is not a natural number. -/
theorem C02_unop_numbers (op : Tok ℂ) (x : ℂ) :
    (op.tag = .minus → unop op (.number x) = .ok (.number (-x))) ∧
    (op.tag = .sqrt → unop op (.number x) = .ok (.number (x ^ ((1 : ℂ) / 2)))) ∧
    (op.tag = .bang → IsNatural x → ⌊x.re⌋₊ ≤ 170 →
      unop op (.number x) = .ok (.number ((Nat.factorial ⌊x.re⌋₊ : ℕ) : ℂ))) ∧
    (op.tag = .bang → ¬ IsNatural x →
      unop op (.number x) = .diag ⟨.unaryOperatorValueConstraintNotMet, op.line, op.col, []⟩) :=
  ⟨unop_minus op x, unop_sqrt op x, unop_bang_ok op x, unop_bang_refuse op x⟩

/-- **C02 (factorial of a natural number).** `n!` for the literal natural `n ≤ 170`. -/
theorem C02_factorial_nat (op : Tok ℂ) (h : op.tag = .bang) (n : Nat) (hn : n ≤ 170) :
    unop op (.number (n : ℂ)) = .ok (.number ((Nat.factorial n : ℕ) : ℂ)) := by
  have hnat : IsNatural (n : ℂ) := by simp [IsNatural]
  have hfl : ⌊((n : ℂ)).re⌋₊ = n := by simp
  have := unop_bang_ok op (n : ℂ) h hnat (by rw [hfl]; exact hn)
  rwa [hfl] at this

open Classical in
/-- **C02 (groupings on numbers).** `(z)` is `z`; `|z|` the modulus; `⌈z⌉`, `⌊z⌋` the ceiling and
    floor of a real `z`, refused with `groupingValueConstraintNotMet` at the bracket when `z` is
    not real. -/
theorem C02_groupop_numbers (p : Tok ℂ) (z : ℂ) :
    groupop p .grouping (.number z) = .ok (.number z) ∧
    groupop p .absolute (.number z) = .ok (.number ((‖z‖ : ℝ) : ℂ)) ∧
    groupop p .ceil (.number z) =
      (if z.im = 0 then .ok (.number ((⌈z.re⌉ : ℤ) : ℂ))
       else .diag ⟨.groupingValueConstraintNotMet, p.line, p.col, []⟩) ∧
    groupop p .floor (.number z) =
      (if z.im = 0 then .ok (.number ((⌊z.re⌋ : ℤ) : ℂ))
       else .diag ⟨.groupingValueConstraintNotMet, p.line, p.col, []⟩) :=
  ⟨groupop_paren p _, groupop_abs p z, groupop_ceil p z, groupop_floor p z⟩

/-! ## Whole expressions -/

/-- **C02 (expressions of any depth).** For every number expression `e`, every environment in
    which the variables of `e` are numbers or unbound, and every sufficient fuel: if `e` denotes
    the complex number `z`, the evaluator returns the number `z`; if the denotation refuses
    (division by zero, factorial of a non-natural, ceiling/floor of a non-real, unknown variable)
    the evaluator returns the diagnostic of that kind at that token.  (Not covered: expressions in
    which a factorial of more than 170 is taken — `denote` answers `overflow` there.) -/
theorem C02_eval_denote (e : NExpr) (env : Env ℂ) (fuel : Nat) (hf : e.depth < fuel)
    (hv : VarsNumeric e env) :
    (∀ z, denote e (lookupNum env) = .ok z →
      (eval fuel e.toExpr env).res = .ok (.number z)) ∧
    (∀ r, denote e (lookupNum env) = .error (.refused r) →
      (eval fuel e.toExpr env).res = .diag ⟨r.kind.toEvalErrKind, r.line, r.col, r.name⟩) := by
  have h := eval_agrees e env hv fuel hf
  constructor
  · intro z hz; rw [hz] at h; exact h
  · intro r hr; rw [hr] at h; exact h

/-- **C02 (the uncovered case is narrow).** An expression without `!` never denotes `overflow`:
    it has a value or a refusal, and `C02_eval_denote` decides what the evaluator returns. -/
theorem C02_overflow_only_factorial (e : NExpr) (ρ : Str → Option ℂ) (h : FactFree e) :
    denote e ρ ≠ .error .overflow :=
  denote_ne_overflow e ρ h

/-! ## Examples: the hypotheses are satisfiable, the specification says what one expects -/

section Examples
variable (plus star slash bang : Tok ℂ) (ρ : Str → Option ℂ)

/-- `2 + 3 * 4` denotes 14 -/
example (hp : plus.tag = .plus) (hs : star.tag = .star) :
    denote (.bin .add (.lit 2) plus hp (.bin .mul (.lit 3) star hs (.lit 4))) ρ = .ok 14 := by
  simp only [denote, denoteBin]; norm_num

/-- … and so the evaluator returns 14, in any environment -/
example (hp : plus.tag = .plus) (hs : star.tag = .star) (env : Env ℂ) :
    (eval 3 (.binary (.number 2) plus (.binary (.number 3) star (.number 4))) env).res
      = .ok (.number 14) := by
  refine (C02_eval_denote (.bin .add (.lit 2) plus hp (.bin .mul (.lit 3) star hs (.lit 4))) env 3
    (by simp [NExpr.depth]) (by intro t ht; simp [NExpr.vars] at ht)).1 14 ?_
  simp only [denote, denoteBin]; norm_num

/-- `1 / 0` is refused with `divisionByZero` at the slash -/
example (hs : slash.tag = .slash) :
    denote (.bin .div (.lit 1) slash hs (.lit 0)) ρ
      = .error (.refused ⟨.divisionByZero, slash.line, slash.col, []⟩) := by
  simp [denote, denoteBin, refuseAt]

/-- `5!` denotes 120 -/
example (hb : bang.tag = .bang) : denote (.un .fact bang hb (.lit 5)) ρ = .ok 120 := by
  have h5 : (5 : ℂ) = ((5 : ℕ) : ℂ) := by norm_num
  have hnat : IsNatural ((5 : ℕ) : ℂ) := by simp [IsNatural]
  have hfl : ⌊(((5 : ℕ) : ℂ)).re⌋₊ = 5 := by simp
  simp only [denote, denoteUn, h5]
  rw [if_pos hnat, hfl, if_pos (by norm_num)]
  norm_num [Nat.factorial]

/-- tokens with the required tags exist -/
example : ∃ t : Tok ℂ, t.tag = .plus := ⟨⟨.plus, ['+'], 1, 3⟩, rfl⟩

/-- `VarsNumeric` holds for a variable bound to a number, and for an unbound one -/
example (t : Tok ℂ) (z : ℂ) : VarsNumeric (.var t) [(t.lexeme, ⟨.number z, true⟩)] := by
  intro u hu v hv
  simp only [NExpr.vars, List.mem_singleton] at hu
  subst hu
  simp only [Env.get, if_true, Option.some.injEq] at hv
  exact ⟨z, by rw [← hv]⟩

example (t : Tok ℂ) : VarsNumeric (.var t) [] := by
  intro u _ v hv; simp [Env.get] at hv

end Examples

end Calc.Props.C02
