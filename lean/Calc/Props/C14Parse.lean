/-
  Property C14 (parser half) — a diagnostic points at the place it is about.

  * an "expected … but found …" parse error (`expectedExpression`, `expectedUnit`,
    `expectedDelimeter`, `expectedToken`) carries the position of the first token of an
    unconsumed suffix of the input, and "end of input" (`pos = none`) exactly when that suffix is
    empty;
  * `inconsistentMatrixRowLength` carries the position of an opening `[` token of the input;
  * `cannotDelete` carries the position of the `delete` token that starts the statement;
  * `invalidAssignmentTarget` carries the position of the `=` token that directly follows the
    parsed left-hand side;
  * the expression-level functions return no other kind of error.

  * exactness (`C14_parse_pos_exact…`): the reported token is precisely the first token the
    parser did not consume — the error is a function of the consumed prefix and the tag of the
    next token only, and its position is that of whatever token stands there.

  Proofs: Calc/Proofs/ParseErr.lean, Calc/Proofs/ParseErrLocal.lean (one mutual induction on fuel
  over the 22 parser functions each; the second uses the ok-locality of Calc/Proofs/ParseLocality).
-/
import Calc.Proofs.ParseErr
import Calc.Proofs.ParseErrLocal
namespace Calc
variable {S : Type}

/-- **C14 (meaning of `ErrSpec`, "expected" kinds).**  An error admitted by `ErrSpec ts` whose
    kind is one of the four "expected … but found" kinds has the position of the first token of
    some suffix `rest` of `ts` — `none` (end of input) exactly when `rest = []`. -/
theorem C14_errSpec_expected {ts : List (Tok S)} {e : PErr} (h : ErrSpec ts e)
    (hk : e.kind = .expectedExpression ∨ e.kind = .expectedUnit ∨ e.kind = .expectedDelimeter ∨
      e.kind = .expectedToken) :
    ∃ c rest, ts = c ++ rest ∧ e.pos = rest.head?.map (fun t => (t.line, t.col)) := by
  apply h.expected_pos
  rcases hk with hk | hk | hk | hk <;> rw [hk] <;> rfl

/-- **C14 (meaning of `ErrSpec`, row length).**  An `inconsistentMatrixRowLength` error admitted
    by `ErrSpec ts` has the position of a `[` token of `ts`. -/
theorem C14_errSpec_rowlen {ts : List (Tok S)} {e : PErr} (h : ErrSpec ts e)
    (hk : e.kind = .inconsistentMatrixRowLength) :
    ∃ c t r, ts = c ++ t :: r ∧ t.tag = .lbracket ∧ e.pos = some (t.line, t.col) :=
  h.rowlen_pos hk

/-- **C14 (expected … but found).**  If `expression` fails with an "expected … but found" error,
    the input splits as `c ++ rest` and the error carries the position of the first token of
    `rest`, or end of input when `rest` is empty. -/
theorem C14_parse_pos (f : Nat) (ts : List (Tok S)) (e : PErr) (h : pExpression f ts = .err e)
    (hk : e.kind = .expectedExpression ∨ e.kind = .expectedUnit ∨ e.kind = .expectedDelimeter ∨
      e.kind = .expectedToken) :
    ∃ c rest, ts = c ++ rest ∧ e.pos = rest.head?.map (fun t => (t.line, t.col)) :=
  C14_errSpec_expected ((errAt f).expression ts e h) hk

/-- **C14 (every level).**  The same for every one of the 22 parser functions (`ErrAt` has one
    field per function; for the two matrix-row functions, which receive the opening bracket as an
    argument, the alternative is the row-length error at that bracket). -/
theorem C14_parse_pos_all : ∀ f, ErrAt S f := errAt

/-- **C14 (row length).**  If `expression` fails with `inconsistentMatrixRowLength`, the error
    carries the position of an opening `[` token of the input. -/
theorem C14_parse_pos_rowlen (f : Nat) (ts : List (Tok S)) (e : PErr)
    (h : pExpression f ts = .err e) (hk : e.kind = .inconsistentMatrixRowLength) :
    ∃ c t r, ts = c ++ t :: r ∧ t.tag = .lbracket ∧ e.pos = some (t.line, t.col) :=
  C14_errSpec_rowlen ((errAt f).expression ts e h) hk

/-- **C14 (row length, at the literal).**  A matrix literal — `primary` on input `[ …` — that
    fails with a row-length error of its own rows carries the position of its own opening
    bracket: the row functions report either an error of the tokens after the bracket or the
    row-length error at the bracket they were given. -/
theorem C14_parse_pos_rowlen_own (f : Nat) (br : Tok S) (prev : List (List (Expr S))) (idx : Nat)
    (ts : List (Tok S)) (e : PErr) (h : pRows f br prev idx ts = .err e) :
    ErrSpec ts e ∨ (e.kind = .inconsistentMatrixRowLength ∧ e.pos = some (br.line, br.col)) :=
  (errAt f).rows br prev idx ts e h

/-- **C14 (kinds).**  The expression-level functions never return `cannotDelete` or
    `invalidAssignmentTarget`: every error they return is one of the four "expected" kinds or the
    row-length kind. -/
theorem C14_parse_kinds (f : Nat) (ts : List (Tok S)) (e : PErr) (h : pExpression f ts = .err e) :
    (e.kind = .expectedExpression ∨ e.kind = .expectedUnit ∨ e.kind = .expectedDelimeter ∨
      e.kind = .expectedToken ∨ e.kind = .inconsistentMatrixRowLength) ∧
    e.kind ≠ .cannotDelete ∧ e.kind ≠ .invalidAssignmentTarget := by
  have hs := (errAt f).expression ts e h
  refine ⟨?_, hs.kind_ne⟩
  rcases hs.kind_cases with hk | hk
  · revert hk
    cases e.kind <;> simp [ParseErrKind.isExpected]
  · simp [hk]

/-- **C14 (kinds, every level).**  No error admitted by `ErrSpec` is `cannotDelete` or
    `invalidAssignmentTarget`. -/
theorem C14_errSpec_kinds {ts : List (Tok S)} {e : PErr} (h : ErrSpec ts e) :
    e.kind ≠ .cannotDelete ∧ e.kind ≠ .invalidAssignmentTarget := h.kind_ne

/-- **C14 (statement).**  A failing `statement` returns: an "expected"/row-length error placed as
    above; or `cannotDelete` at the `delete` token that is the statement's first token; or
    `invalidAssignmentTarget` at the `=` token that directly follows the parsed left side. -/
theorem C14_parse_pos_statement (f : Nat) (ts : List (Tok S)) (e : PErr)
    (h : pStatement f ts = .err e) :
    ErrSpec ts e ∨
    (e.kind = .cannotDelete ∧ ∃ d r, ts = d :: r ∧ d.tag = .delete ∧
      e.pos = some (d.line, d.col)) ∨
    (e.kind = .invalidAssignmentTarget ∧ ∃ c eq r lhs, ts = c ++ eq :: r ∧
      pExpression f ts = .ok lhs (eq :: r) ∧ eq.tag = .equal ∧
      e.pos = some (eq.line, eq.col)) :=
  pStatement_err h

/-- **C14 (program).**  A failing `parse` returns, relative to the whole token list: an
    "expected"/row-length error placed as above; or `cannotDelete` at a `delete` token that starts
    a statement (it is the first token of the program or follows a newline / `;`); or
    `invalidAssignmentTarget` at the `=` token directly following the left side `c` that
    `expression` parsed from a statement start. -/
theorem C14_parse_pos_program (ts : List (Tok S)) (e : PErr) (h : parse ts = .err e) :
    ErrSpec ts e ∨
    (e.kind = .cannotDelete ∧ ∃ c d r, ts = c ++ d :: r ∧ StmtBoundary c ∧ d.tag = .delete ∧
      e.pos = some (d.line, d.col)) ∨
    (e.kind = .invalidAssignmentTarget ∧ ∃ c0 c eq r lhs, ts = c0 ++ (c ++ eq :: r) ∧
      StmtBoundary c0 ∧ pExpression (parseFuel ts.length) (c ++ eq :: r) = .ok lhs (eq :: r) ∧
      eq.tag = .equal ∧ e.pos = some (eq.line, eq.col)) :=
  parse_err h

/-- **C14 (meaning of `StmtBoundary`).**  A prefix is a statement boundary when it is empty or its
    last token is a newline or `;`. -/
theorem C14_stmtBoundary_iff (c : List (Tok S)) :
    StmtBoundary c ↔ (c = [] ∨ ∃ c' d, c = c' ++ [d] ∧ (d.tag = .newline ∨ d.tag = .semicolon)) :=
  Iff.rfl

/-- **C14 (program, expected … but found).**  Spelled out for the whole program: an "expected …
    but found" error of `parse` carries the position of the first token of an unconsumed suffix
    of the program, or end of input when that suffix is empty. -/
theorem C14_parse_pos_program_expected (ts : List (Tok S)) (e : PErr) (h : parse ts = .err e)
    (hk : e.kind = .expectedExpression ∨ e.kind = .expectedUnit ∨ e.kind = .expectedDelimeter ∨
      e.kind = .expectedToken) :
    ∃ c rest, ts = c ++ rest ∧ e.pos = rest.head?.map (fun t => (t.line, t.col)) := by
  rcases parse_err h with h' | ⟨hk', _⟩ | ⟨hk', _⟩
  · exact C14_errSpec_expected h' hk
  · rw [hk'] at hk; simp at hk
  · rw [hk'] at hk; simp at hk

/-! ## Exactness: the reported token is the first unconsumed one -/

/-- **C14 (expected … but found, exact).**  If `expression` fails with an "expected … but found"
    error `e`, the input splits as `c ++ rest` such that
    * `e` carries the position of the first token of `rest` (end of input iff `rest = []`), and
    * `c` is exactly what the parser consumed and the first token of `rest` exactly what it
      rejected: on `c ++ rest'`, for *any* `rest'` whose first token has the same tag as that of
      `rest` (so `rest' = []` iff `rest = []`), `expression` fails with the same kind and info,
      at the position of the first token of `rest'`.
    So the error depends on nothing after the offending token, and moving the offending token
    (changing its line/column) moves the reported position with it: the reported token is the
    one at index `c.length`, not an earlier, already consumed one and not a later one. -/
theorem C14_parse_pos_exact (f : Nat) (ts : List (Tok S)) (e : PErr)
    (h : pExpression f ts = .err e)
    (hk : e.kind = .expectedExpression ∨ e.kind = .expectedUnit ∨ e.kind = .expectedDelimeter ∨
      e.kind = .expectedToken) :
    ∃ c rest, ts = c ++ rest ∧
      e.pos = rest.head?.map (fun t => (t.line, t.col)) ∧
      ∀ rest', rest'.head?.map Tok.tag = rest.head?.map Tok.tag →
        pExpression f (c ++ rest') =
          .err ⟨e.kind, rest'.head?.map (fun t => (t.line, t.col)), e.info⟩ :=
  (errLocalAt f).expression ts e h (by rcases hk with hk | hk | hk | hk <;> rw [hk] <;> rfl)

/-- **C14 (exact, the two cases).**  The same, read by cases: either the error says "end of
    input"; or it names a token `t` of the input, `ts = c ++ t :: r`, and with `t` replaced by any
    token `t'` of the same tag and `r` by any `r'` the error is the same but at `t'`. -/
theorem C14_parse_pos_exact_cases (f : Nat) (ts : List (Tok S)) (e : PErr)
    (h : pExpression f ts = .err e)
    (hk : e.kind = .expectedExpression ∨ e.kind = .expectedUnit ∨ e.kind = .expectedDelimeter ∨
      e.kind = .expectedToken) :
    e.pos = none ∨
    (∃ c t r, ts = c ++ t :: r ∧ e.pos = some (t.line, t.col) ∧
      ∀ t' r', t'.tag = t.tag →
        pExpression f (c ++ t' :: r') = .err ⟨e.kind, some (t'.line, t'.col), e.info⟩) := by
  have hl := (errLocalAt f).expression ts e h
    (by rcases hk with hk | hk | hk | hk <;> rw [hk] <;> rfl)
  rcases hl.cases with ⟨h0, _⟩ | h1
  · exact .inl h0
  · exact .inr h1

/-- **C14 (exact, every level).**  The same for every one of the 22 parser functions
    (`ErrLocalAt` has one field per function, each concluding `ErrLoc (p f …) ts e`). -/
theorem C14_parse_pos_exact_all : ∀ f, ErrLocalAt S f := errLocalAt

/-- **C14 (meaning of `ErrLoc`).** -/
theorem C14_errLoc_iff {α : Type} (p : List (Tok S) → PRes S α) (ts : List (Tok S)) (e : PErr) :
    ErrLoc p ts e ↔ ∃ c rest, ts = c ++ rest ∧
      e.pos = rest.head?.map (fun t => (t.line, t.col)) ∧
      ∀ rest', rest'.head?.map Tok.tag = rest.head?.map Tok.tag →
        p (c ++ rest') = .err ⟨e.kind, rest'.head?.map (fun t => (t.line, t.col)), e.info⟩ :=
  ErrLoc.iff p ts e

/-- **C14 (statement, exact).**  An "expected … but found" error of `statement` likewise points
    exactly at the first token `statement` did not consume. -/
theorem C14_parse_pos_exact_statement (f : Nat) (ts : List (Tok S)) (e : PErr)
    (h : pStatement f ts = .err e)
    (hk : e.kind = .expectedExpression ∨ e.kind = .expectedUnit ∨ e.kind = .expectedDelimeter ∨
      e.kind = .expectedToken) :
    ∃ c rest, ts = c ++ rest ∧
      e.pos = rest.head?.map (fun t => (t.line, t.col)) ∧
      ∀ rest', rest'.head?.map Tok.tag = rest.head?.map Tok.tag →
        pStatement f (c ++ rest') =
          .err ⟨e.kind, rest'.head?.map (fun t => (t.line, t.col)), e.info⟩ :=
  pStatement_errLoc h (by rcases hk with hk | hk | hk | hk <;> rw [hk] <;> rfl)

/-! ## The hypotheses are satisfiable -/

section Examples

private def tk (k : Kind Nat) (col : Nat) : Tok Nat := ⟨k, [], 1, col⟩

/-- `1 + )` — expected expression, found `)` at column 3 -/
example : pExpression 20 [tk (.number 1) 1, tk .plus 2, tk .rparen 3]
    = .err ⟨.expectedExpression, some (1, 3), []⟩ := by rfl

/-- `1 +` — expected expression, found end of input -/
example : pExpression 20 [tk (.number 1) 1, tk .plus 2]
    = .err ⟨.expectedExpression, none, []⟩ := by rfl

/-- `( 1 ;` — expected `)`, found `;` at column 3 -/
example : pExpression 40 [tk .lparen 1, tk (.number 1) 2, tk .semicolon 3]
    = .err ⟨.expectedToken, some (1, 3), tagName .rparen⟩ := by rfl

/-- `1 as 2` — expected unit, found `2` at column 3 -/
example : pExpression 20 [tk (.number 1) 1, tk .as_ 2, tk (.number 2) 3]
    = .err ⟨.expectedUnit, some (1, 3), []⟩ := by rfl

/-- `2 * [ 1 , 2 ; 3 ]` — row-length error at the `[` of column 3 -/
example : ∃ info, pExpression 30 [tk (.number 2) 1, tk .star 2, tk .lbracket 3, tk (.number 1) 4,
      tk .comma 5, tk (.number 2) 6, tk .semicolon 7, tk (.number 3) 8, tk .rbracket 9]
    = .err ⟨.inconsistentMatrixRowLength, some (1, 3), info⟩ := ⟨_, rfl⟩

/-- `delete 1 \n` — cannot delete, at the `delete` token -/
example : pStatement 20 [tk .delete 1, tk (.number 1) 2, tk .newline 3]
    = .err ⟨.cannotDelete, some (1, 1), []⟩ := by rfl

/-- `f ( 1 + 1 ) = 2 \n` — invalid assignment target, at the `=` of column 7 -/
example : pStatement 30 [tk (.ident "f".toList) 1, tk .lparen 2, tk (.number 1) 3, tk .plus 4,
      tk (.number 1) 5, tk .rparen 6, tk .equal 7, tk (.number 2) 8, tk .newline 9]
    = .err ⟨.invalidAssignmentTarget, some (1, 7), []⟩ := by rfl

/-- `1 1` — a whole program: expected a delimiter, found `1` at column 2 -/
example : parse [tk (.number 1) 1, tk (.number 1) 2]
    = .err ⟨.expectedDelimeter, some (1, 2), []⟩ := by rfl

/-- `1 \n delete 1 \n` — a whole program: cannot delete, at the `delete` of column 3 -/
example : parse [tk (.number 1) 1, tk .newline 2, tk .delete 3, tk (.number 1) 4, tk .newline 5]
    = .err ⟨.cannotDelete, some (1, 3), []⟩ := by rfl

/-- the hypotheses of `C14_parse_pos_exact` hold on `1 + )`, and its conclusion there: with
    `c = [1, +]`, moving `)` to line 7 column 9 moves the reported position -/
example : pExpression 20 [tk (.number 1) 1, tk .plus 2, tk .rparen 3]
      = .err ⟨.expectedExpression, some (1, 3), []⟩ ∧
    (⟨.expectedExpression, some (1, 3), []⟩ : PErr).kind = .expectedExpression ∧
    pExpression 20 ([tk (.number 1) 1, tk .plus 2] ++ [⟨.rparen, [], 7, 9⟩, tk .star 4])
      = .err ⟨.expectedExpression, some (7, 9), []⟩ := ⟨rfl, rfl, rfl⟩

end Examples

end Calc
