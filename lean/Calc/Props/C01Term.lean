/-
  Property C01 (termination half) — "… always returns within a time bounded by the size of the
  input", and the known finding that it does not: `f(x) = f(x); f(1)` recurses until the native
  stack overflows.  In the model, time is fuel: one unit per nested `evaluate` call and per
  user-function call; "does not return" is "the result is `.fuel` for every amount of fuel".

  What is proved here separates the two:

  * `C01_native_calls_terminate` — trees whose calls are calls of native functions return with
    fuel above their depth (extends `C01_callFree_total`, which has no calls at all);
  * `C01_ranked_terminates` — ranked (non-recursive, first-order) user functions: fuel above
    `depth e + K * (D + 1)` suffices, `K` the number of rank levels, `D` the largest body depth;
  * `C01_named_recursion_diverges`, `C01_self_application_diverges`,
    `C01_missed_base_case_diverges` — the witnesses really never return, whatever the fuel;
  * `C01_fuel_needs_user_call` — the application of a user function is the ONLY way to run out
    of fuel: with fuel above the depth of the tree, a `.fuel` result implies that a call node was
    reached whose callee was a user function, and that this very application did not return.

  Scoping rule of the model that the hypotheses mind (function.rs:61-82): the body of a user
  function is evaluated in the CALLER's table extended by the parameter bindings, and function
  values can be passed as arguments.  So a parameter in callee position, or a parameter that
  shadows the name of a function that is called, is the way to build recursion without naming
  it — witness `w(hh) = hh(hh); w(w)` — and is what `Ranked` excludes.

  Sections 1–4: property theorems only; proofs are in Calc/Proofs/Termination.lean.
  Section 5 restates the witnesses as TEXTS run through the model's own scanner, parser and
  statement loop from the shipped initial table (`C01_named_recursion_diverges_text`,
  `C01_self_application_diverges_text`, `C01_noninteger_factorial_diverges` — the last over any
  exact kernel, `LawfulKernel K`, of which `ℂ` is an instance: Calc/Proofs/ComplexKernel.lean), and
  shows that the hypotheses of `C01_ranked_terminates` hold on
  `sq(x) = x*x; hyp(a, k) = sqrt(sq(a) + sq(k)); hyp(3, 4)` (`sqHyp_ranked` and the `example`).
-/
import Calc.Props.C01Eval
import Calc.Proofs.Termination
import Calc.Proofs.Lawful
import Calc.Model.Front
namespace Calc

variable {S : Type} [Add S] [Sub S] [Mul S] [Div S] [Zero S] [One S] [Kernel S]
set_option linter.unusedSectionVars false

/-! ## 1. calls of native functions -/

/-- **C01 (native calls terminate).**  If every call node of the tree is `name(args…)` where
    `name` is an identifier bound *in the given table* to a native function, the evaluation
    never runs out of fuel once the fuel exceeds the nesting depth of the tree — whatever the
    arguments are.  (`e.callees` lists the callee expressions of all call nodes of `e`, at any
    depth.  No user function is entered, so the table never changes and nothing is shadowed.) -/
theorem C01_native_calls_terminate (fuel : Nat) (e : Expr S) (env : Env S)
    (hcalls : ∀ c ∈ e.callees, ∃ t : Tok S, c = .ident t ∧
      ∃ nm cst, Env.get env t.lexeme = some ⟨.native nm, cst⟩)
    (hd : e.depth < fuel) : (eval fuel e env).res ≠ .fuel :=
  eval_nativeCalls_ne_fuel fuel e env hcalls hd

/-- **C01 (no user function in callee position).**  More generally: if no callee expression of
    the tree ever evaluates to a user function (natives, numbers, unbound names, … — anything
    else), fuel above the depth suffices. -/
theorem C01_no_user_callee_terminates (fuel : Nat) (e : Expr S) (env : Env S)
    (hno : ∀ c ∈ e.callees, ∀ f', f' < fuel → ∀ fn, (eval f' c env).res ≠ .ok (.user fn))
    (hd : e.depth < fuel) : (eval fuel e env).res ≠ .fuel :=
  eval_noUser_ne_fuel fuel e env hno hd

/-- **C01 (native calls end normally).**  Combined with `C01_eval_no_panic`: a well-formed tree
    whose calls are native calls, in a well-formed table, with fuel above its depth, returns a
    well-formed value or a diagnostic. -/
theorem C01_native_calls_total (hpos : PosToNat S) (fuel : Nat) (e : Expr S) (env : Env S)
    (hwf : e.EvalWF) (henv : EnvWF env)
    (hcalls : ∀ c ∈ e.callees, ∃ t : Tok S, c = .ident t ∧
      ∃ nm cst, Env.get env t.lexeme = some ⟨.native nm, cst⟩)
    (hd : e.depth < fuel) :
    (∃ v, (eval fuel e env).res = .ok v ∧ v.WF) ∨ (∃ d, (eval fuel e env).res = .diag d) := by
  rcases C01_eval_no_panic hpos fuel e env hwf henv with h | h | h
  · exact .inl h
  · exact .inr h
  · exact absurd h (C01_native_calls_terminate fuel e env hcalls hd)

/-! ## 2. ranked user functions -/

/-- **C01 (ranked user functions terminate).**

    Hypotheses (all checkable by inspection of the table and of the tree):
    * `hR : Ranked env scope rank D` — `scope` is a set of names (the names used in callee
      position); each is bound in `env` to a native function, or to a user function such that,
      for every signature of it: no named parameter belongs to `scope`; the body has depth
      `≤ D`; every call node of the body is `name(args…)` with `name` an identifier of `scope`
      that is native or of strictly smaller `rank` than the function itself;
    * `hcalls` — every call node of `e` is `name(args…)` with `name` an identifier of `scope`,
      native or of rank `< K`.

    Conclusion: an explicit bound, linear in the depth of `e`, in the largest body depth `D`
    and in the number `K` of rank levels: fuel above `depth e + K * (D + 1)` never runs out.

    Excluded, on purpose (each builds unbounded recursion, see section 3): a callee that is not
    an identifier (`g(1)(2)`), a parameter used in callee position, a parameter named like a
    function that is called (the body is evaluated in the caller's table plus the parameters,
    so the parameter would shadow the function in every function called from there), and
    call cycles.  Function values may still be passed and returned as *data*. -/
theorem C01_ranked_terminates {env : Env S} {scope : Str → Prop} {rank : Str → Nat} {D : Nat}
    (hR : Ranked env scope rank D) (K : Nat) (e : Expr S)
    (hcalls : e.CallsOnly (fun m => scope m ∧ (IsNativeIn env m ∨ rank m < K))) :
    ∀ fuel, e.depth + K * (D + 1) < fuel → (eval fuel e env).res ≠ .fuel :=
  fun fuel hd => eval_ranked_ne_fuel hR K e hcalls fuel hd

/-- **C01 (ranked table).**  The same with `scope` = all function names of the table:
    `RankedTable env rank D` says that for every user function bound in `env` under a name `n`
    and each of its signatures, no named parameter is the name of a function of the table, the
    body has depth `≤ D`, and every call node of the body is `name(args…)` with `name` bound in
    `env` to a native function or to a user function of rank `< rank n`. -/
theorem C01_ranked_table_terminates {env : Env S} {rank : Str → Nat} {D : Nat}
    (hR : RankedTable env rank D) (K : Nat) (e : Expr S)
    (hcalls : e.CallsOnly
      (fun m => IsNativeIn env m ∨ ((∃ fn, IsUserIn env m fn) ∧ rank m < K))) :
    ∀ fuel, e.depth + K * (D + 1) < fuel → (eval fuel e env).res ≠ .fuel :=
  fun fuel hd => eval_rankedTable_ne_fuel hR K e hcalls fuel hd

/-- **C01 (ranked calls end normally).**  Combined with `C01_eval_no_panic`. -/
theorem C01_ranked_total (hpos : PosToNat S) {env : Env S} {scope : Str → Prop}
    {rank : Str → Nat} {D : Nat} (hR : Ranked env scope rank D) (K : Nat) (e : Expr S)
    (hcalls : e.CallsOnly (fun m => scope m ∧ (IsNativeIn env m ∨ rank m < K)))
    (hwf : e.EvalWF) (henv : EnvWF env) (fuel : Nat) (hd : e.depth + K * (D + 1) < fuel) :
    (∃ v, (eval fuel e env).res = .ok v ∧ v.WF) ∨ (∃ d, (eval fuel e env).res = .diag d) := by
  rcases C01_eval_no_panic hpos fuel e env hwf henv with h | h | h
  · exact .inl h
  · exact .inr h
  · exact absurd h (C01_ranked_terminates hR K e hcalls fuel hd)

/-! ## 3. the witnesses never return -/

/-- **C01 (named recursion diverges).**  `f(x) = f(x)` then `f(z)`: run as two statements from
    any table in which `f` is unbound, the definition prints nothing and the call prints the
    fuel line — for EVERY amount of fuel.  The statements are given with arbitrary tokens:
    `td`, `tf`, `tc` are the three occurrences of the name `f`, `tx` the occurrence of `x` in the
    body, `p`, `p'` the two opening parentheses; any scalar `z`, any scalar type. -/
theorem C01_named_recursion_diverges (f x : Str) (td tf tx p tc p' : Tok S)
    (htd : td.lexeme = f) (htf : tf.lexeme = f) (htx : tx.lexeme = x) (htc : tc.lexeme = f)
    (hne : f ≠ x) (z : S) (env : Env S) (hfree : Env.get env f = none) :
    ∀ fuel, (runStmts fuel env
      [.define td ⟨[.ident x]⟩ (.call (.ident tf) p [.ident tx]),
       .expr (.call (.ident tc) p' [.number z])]).out = [.fuel] :=
  named_recursion_diverges f x td tf tx p tc p' htd htf htx htc hne z env hfree

/-- **C01 (self-application diverges).**  `w(hh) = hh(hh)` then `w(w)`: no function calls
    itself by name, every definition is "non-recursive" — and the call never returns, for EVERY
    amount of fuel.  The recursion is built by passing the function to itself and calling the
    parameter: this is why `Ranked` forbids parameters in callee position. -/
theorem C01_self_application_diverges (w hh : Str) (td th1 th2 p tc1 tc2 p' : Tok S)
    (htd : td.lexeme = w) (h1 : th1.lexeme = hh) (h2 : th2.lexeme = hh)
    (hc1 : tc1.lexeme = w) (hc2 : tc2.lexeme = w) (env : Env S)
    (hfree : Env.get env w = none) :
    ∀ fuel, (runStmts fuel env
      [.define td ⟨[.ident hh]⟩ (.call (.ident th1) p [.ident th2]),
       .expr (.call (.ident tc1) p' [.ident tc2])]).out = [.fuel] :=
  self_application_diverges w hh td th1 th2 p tc1 tc2 p' htd h1 h2 hc1 hc2 env hfree

/-- **C01 (a literal base case that is never hit).**  `r(zero) = b0; r(n) = n * r(n - one)`
    then `r(a)`: if none of `a, a - one, a - one - one, …` equals `zero` (for the calculator's
    `==`, `Kernel.eq`), the call never returns, for EVERY amount of fuel.  Generic in the scalar
    type; `C01_noninteger_factorial_diverges` discharges the hypothesis for `r(2.5)` over any
    exact kernel. -/
theorem C01_missed_base_case_diverges (r n : Str)
    (td1 td2 tn1 star tr tn2 minus p tc p' : Tok S) (zero one a : S) (b0 : Expr S)
    (htd1 : td1.lexeme = r) (htd2 : td2.lexeme = r) (htr : tr.lexeme = r)
    (htc : tc.lexeme = r) (htn1 : tn1.lexeme = n) (htn2 : tn2.lexeme = n)
    (hne : r ≠ n) (hminus : minus.tag = .minus)
    (hz : ∀ k, Kernel.eq (descend one a k) zero = false)
    (env : Env S) (hfree : Env.get env r = none) :
    ∀ fuel, (runStmts fuel env
      [.define td1 ⟨[.number zero]⟩ b0,
       .define td2 ⟨[.ident n]⟩
         (.binary (.ident tn1) star
           (.call (.ident tr) p [.binary (.ident tn2) minus (.number one)])),
       .expr (.call (.ident tc) p' [.number a])]).out = [.fuel] :=
  missed_base_case_diverges r n td1 td2 tn1 star tr tn2 minus p tc p' zero one a b0
    htd1 htd2 htr htc htn1 htn2 hne hminus hz env hfree

/-! ## 4. running out of fuel requires a user-function call -/

/-- **C01 (fuel exhaustion needs a user call).**  If an evaluation with fuel above the depth of
    the tree runs out of fuel, then a user function was applied, and it is that application that
    did not return: some call node `c(args…)` of the tree was reached in the same table with
    `f' < fuel` units, its callee `c` evaluated to a user function `fn`, its arguments evaluated
    to values `vs`, and `fn(vs)` ran out of fuel.  Operators, look-ups, matrix literals, unit
    conversions and native functions never do: unbounded recursion through user functions is
    the only way the evaluator fails to return. -/
theorem C01_fuel_needs_user_call (fuel : Nat) (e : Expr S) (env : Env S)
    (hd : e.depth < fuel) (h : (eval fuel e env).res = .fuel) :
    ∃ (f' : Nat) (c : Expr S) (p : Tok S) (args : List (Expr S)) (fn : UserFn S)
      (vs : List (Value S)),
      f' < fuel ∧ Expr.SubTree (.call c p args) e ∧ c ∈ e.callees ∧
      (eval f' c env).res = .ok (.user fn) ∧ (evalList (eval f') args env).1 = .ok vs ∧
      callUser (eval f') fn p.line p.col vs env = .fuel := by
  obtain ⟨f', c, p, args, fn, vs, h1, h2, h3, h4, h5⟩ := fuel_reaches_user_call fuel e env hd h
  exact ⟨f', c, p, args, fn, vs, h1, h2, h2.callee_mem, h3, h4, h5⟩

/-- **C01 (dichotomy).**  With fuel above its depth a tree returns (a value, a diagnostic — a
    panic is excluded by `C01_eval_no_panic`), or a user-function application inside it did not
    return.  Sections 1–2 give classes where the second case is impossible (with the larger
    bound of section 2 when user functions are entered); section 3 gives inputs where it
    happens for every fuel — the known finding of unbounded recursion. -/
theorem C01_returns_or_user_call (fuel : Nat) (e : Expr S) (env : Env S) (hd : e.depth < fuel) :
    (eval fuel e env).res ≠ .fuel ∨
    ∃ (f' : Nat) (c : Expr S) (p : Tok S) (args : List (Expr S)) (fn : UserFn S)
      (vs : List (Value S)),
      f' < fuel ∧ Expr.SubTree (.call c p args) e ∧
      (eval f' c env).res = .ok (.user fn) ∧ (evalList (eval f') args env).1 = .ok vs ∧
      callUser (eval f') fn p.line p.col vs env = .fuel := by
  by_cases h : (eval fuel e env).res = .fuel
  · exact .inr (fuel_reaches_user_call fuel e env hd h)
  · exact .inl h

/-! ## 5. the witnesses as texts, from the shipped initial table -/

section Witnesses

/-- scanner configuration of the witnesses: tab width 4, ASCII letters and digits continue an
    identifier, no keywords (none of the names below is a keyword or a unit) -/
def witCfg : ScanCfg S := ⟨4, fun c => isIdentStart c || isDigit c, fun _ => none⟩

/-- an identifier token -/
def idt (name : Str) (line col : Nat) : Tok S := ⟨.ident name, name, line, col⟩
/-- a one-character token -/
def sym (k : Kind S) (c : Char) (line col : Nat) : Tok S := ⟨k, [c], line, col⟩
/-- a number token: the scanner reads the literal `m · 10^e` as `Kernel.ofDecimal m e` -/
def numt (m : Nat) (e : Int) (text : Str) (line col : Nat) : Tok S :=
  ⟨.number (Kernel.ofDecimal m e), text, line, col⟩
def nlt (line col : Nat) : Tok S := ⟨.newline, ['\\', 'n'], line, col⟩

/-- a look-up in the shipped initial table is a look-up in the generated list of entries -/
theorem shippedInitEnv_get (k : Str) :
    Env.get (shippedInitEnv S) k =
      (Gen.initEntries.find? (fun e => e.key.toList = k)).map fun e =>
        ⟨match e.val with
          | .number re im => .number (Kernel.ofBits re im)
          | .native n => .native n.toList,
         e.constant⟩ := by
  unfold shippedInitEnv
  induction Gen.initEntries with
  | nil => rfl
  | cons e es ih =>
    simp only [List.map_cons, Env.get, List.find?_cons]
    by_cases h : e.key.toList = k
    · simp [h]; cases e.val <;> rfl
    · simp [h, ih]

/-- the names used by the witnesses are unbound in the shipped initial table, and `sqrt` is
    the native function `sqrt` -/
theorem shippedInitEnv_facts :
    Env.get (shippedInitEnv S) ['f'] = none ∧ Env.get (shippedInitEnv S) ['w'] = none ∧
    Env.get (shippedInitEnv S) ['r'] = none ∧ Env.get (shippedInitEnv S) ['s', 'q'] = none ∧
    Env.get (shippedInitEnv S) ['h', 'y', 'p'] = none ∧
    Env.get (shippedInitEnv S) ['s', 'q', 'r', 't'] = some ⟨.native "sqrt".toList, true⟩ := by
  have key : Gen.initEntries.find? (fun e => e.key.toList = ['f']) = none ∧
      Gen.initEntries.find? (fun e => e.key.toList = ['w']) = none ∧
      Gen.initEntries.find? (fun e => e.key.toList = ['r']) = none ∧
      Gen.initEntries.find? (fun e => e.key.toList = ['s', 'q']) = none ∧
      Gen.initEntries.find? (fun e => e.key.toList = ['h', 'y', 'p']) = none ∧
      Gen.initEntries.find? (fun e => e.key.toList = ['s', 'q', 'r', 't']) =
        some ⟨"sqrt", true, .native "sqrt"⟩ := by decide +kernel
  obtain ⟨h1, h2, h3, h4, h5, h6⟩ := key
  simp only [shippedInitEnv_get, h1, h2, h3, h4, h5, h6, Option.map_none, Option.map_some,
    and_self]

/-- the text `f(x) = f(x)⏎f(1)⏎` -/
def loopText : Str :=
  ['f','(','x',')',' ','=',' ','f','(','x',')','\n','f','(','1',')','\n']

/-- the statements the model's scanner and parser produce for it -/
def loopStmts : List (Stmt S) :=
  [.define (idt ['f'] 1 1) ⟨[.ident ['x']]⟩
     (.call (.ident (idt ['f'] 1 8)) (sym .lparen '(' 1 9) [.ident (idt ['x'] 1 10)]),
   .expr (.call (.ident (idt ['f'] 2 1)) (sym .lparen '(' 2 2) [.number (Kernel.ofDecimal 1 0)])]

theorem loopText_eq : loopText = "f(x) = f(x)\nf(1)\n".toList := by decide

theorem loopText_front : ∃ toks, scan (witCfg (S := S)) loopText = .ok toks ∧
    parse toks = .ok loopStmts :=
  ⟨[idt ['f'] 1 1, sym .lparen '(' 1 2, idt ['x'] 1 3, sym .rparen ')' 1 4, sym .equal '=' 1 6,
    idt ['f'] 1 8, sym .lparen '(' 1 9, idt ['x'] 1 10, sym .rparen ')' 1 11, nlt 1 12,
    idt ['f'] 2 1, sym .lparen '(' 2 2, numt 1 0 ['1'] 2 3, sym .rparen ')' 2 4, nlt 2 5],
   rfl, rfl⟩

/-- **C01 (the known finding, as a text).**  The text `f(x) = f(x)⏎f(1)⏎`, processed from the
    shipped initial table, prints exactly the fuel line — for every amount of fuel. -/
theorem C01_named_recursion_diverges_text (fuel : Nat) :
    (processText witCfg fuel (shippedInitEnv S) "f(x) = f(x)\nf(1)\n".toList).out = [.fuel] := by
  obtain ⟨toks, hs, hp⟩ := loopText_front (S := S)
  rw [← loopText_eq]
  simp only [processText, hs, hp]
  exact C01_named_recursion_diverges ['f'] ['x'] _ _ _ _ _ _ rfl rfl rfl rfl (by decide) _ _
    shippedInitEnv_facts.1 fuel

/-- the text `w(hh) = hh(hh)⏎w(w)⏎` -/
def selfAppText : Str :=
  ['w','(','h','h',')',' ','=',' ','h','h','(','h','h',')','\n','w','(','w',')','\n']

def selfAppStmts : List (Stmt S) :=
  [.define (idt ['w'] 1 1) ⟨[.ident ['h','h']]⟩
     (.call (.ident (idt ['h','h'] 1 9)) (sym .lparen '(' 1 11) [.ident (idt ['h','h'] 1 12)]),
   .expr (.call (.ident (idt ['w'] 2 1)) (sym .lparen '(' 2 2) [.ident (idt ['w'] 2 3)])]

theorem selfAppText_eq : selfAppText = "w(hh) = hh(hh)\nw(w)\n".toList := by decide

theorem selfAppText_front : ∃ toks, scan (witCfg (S := S)) selfAppText = .ok toks ∧
    parse toks = .ok selfAppStmts :=
  ⟨[idt ['w'] 1 1, sym .lparen '(' 1 2, idt ['h','h'] 1 3, sym .rparen ')' 1 5,
    sym .equal '=' 1 7, idt ['h','h'] 1 9, sym .lparen '(' 1 11, idt ['h','h'] 1 12,
    sym .rparen ')' 1 14, nlt 1 15,
    idt ['w'] 2 1, sym .lparen '(' 2 2, idt ['w'] 2 3, sym .rparen ')' 2 4, nlt 2 5],
   rfl, rfl⟩

/-- **C01 (self-application, as a text).**  `w(hh) = hh(hh)⏎w(w)⏎` from the shipped initial
    table prints exactly the fuel line, for every amount of fuel. -/
theorem C01_self_application_diverges_text (fuel : Nat) :
    (processText witCfg fuel (shippedInitEnv S) "w(hh) = hh(hh)\nw(w)\n".toList).out =
      [.fuel] := by
  obtain ⟨toks, hs, hp⟩ := selfAppText_front (S := S)
  rw [← selfAppText_eq]
  simp only [processText, hs, hp]
  exact C01_self_application_diverges ['w'] ['h','h'] _ _ _ _ _ _ _ rfl rfl rfl rfl rfl _
    shippedInitEnv_facts.2.1 fuel

/-- the text `r(0) = 1⏎r(n) = n * r(n - 1)⏎r(2.5)⏎` -/
def factText : Str :=
  ['r','(','0',')',' ','=',' ','1','\n',
   'r','(','n',')',' ','=',' ','n',' ','*',' ','r','(','n',' ','-',' ','1',')','\n',
   'r','(','2','.','5',')','\n']

def factStmts : List (Stmt S) :=
  [.define (idt ['r'] 1 1) ⟨[.number (Kernel.ofDecimal 0 0)]⟩ (.number (Kernel.ofDecimal 1 0)),
   .define (idt ['r'] 2 1) ⟨[.ident ['n']]⟩
     (.binary (.ident (idt ['n'] 2 8)) (sym .star '*' 2 10)
       (.call (.ident (idt ['r'] 2 12)) (sym .lparen '(' 2 13)
         [.binary (.ident (idt ['n'] 2 14)) (sym .minus '-' 2 16)
           (.number (Kernel.ofDecimal 1 0))])),
   .expr (.call (.ident (idt ['r'] 3 1)) (sym .lparen '(' 3 2)
     [.number (Kernel.ofDecimal 25 (-1))])]

theorem factText_eq :
    factText = "r(0) = 1\nr(n) = n * r(n - 1)\nr(2.5)\n".toList := by decide

theorem factText_front : ∃ toks, scan (witCfg (S := S)) factText = .ok toks ∧
    parse toks = .ok factStmts :=
  ⟨[idt ['r'] 1 1, sym .lparen '(' 1 2, numt 0 0 ['0'] 1 3, sym .rparen ')' 1 4,
    sym .equal '=' 1 6, numt 1 0 ['1'] 1 8, nlt 1 9,
    idt ['r'] 2 1, sym .lparen '(' 2 2, idt ['n'] 2 3, sym .rparen ')' 2 4, sym .equal '=' 2 6,
    idt ['n'] 2 8, sym .star '*' 2 10, idt ['r'] 2 12, sym .lparen '(' 2 13, idt ['n'] 2 14,
    sym .minus '-' 2 16, numt 1 0 ['1'] 2 18, sym .rparen ')' 2 19, nlt 2 20,
    idt ['r'] 3 1, sym .lparen '(' 3 2, numt 25 (-1) ['2','.','5'] 3 3, sym .rparen ')' 3 6,
    nlt 3 7],
   rfl, rfl⟩

/-! ### `C01_ranked_terminates` is not vacuous: `sq`, `hyp` -/

/-- the text `sq(x) = x*x⏎hyp(a, k) = sqrt(sq(a) + sq(k))⏎` -/
def sqHypText : Str :=
  ['s','q','(','x',')',' ','=',' ','x','*','x','\n',
   'h','y','p','(','a',',',' ','k',')',' ','=',' ','s','q','r','t','(','s','q','(','a',')',
   ' ','+',' ','s','q','(','k',')',')','\n']

def sqBody : Expr S :=
  .binary (.ident (idt ['x'] 1 9)) (sym .star '*' 1 10) (.ident (idt ['x'] 1 11))

def hypBody : Expr S :=
  .call (.ident (idt ['s','q','r','t'] 2 13)) (sym .lparen '(' 2 17)
    [.binary (.call (.ident (idt ['s','q'] 2 18)) (sym .lparen '(' 2 20) [.ident (idt ['a'] 2 21)])
      (sym .plus '+' 2 24)
      (.call (.ident (idt ['s','q'] 2 26)) (sym .lparen '(' 2 28) [.ident (idt ['k'] 2 29)])]

def sqHypStmts : List (Stmt S) :=
  [.define (idt ['s','q'] 1 1) ⟨[.ident ['x']]⟩ sqBody,
   .define (idt ['h','y','p'] 2 1) ⟨[.ident ['a'], .ident ['k']]⟩ hypBody]

/-- the function values the two definitions store -/
def sqFn : UserFn S := ⟨['s','q'], [(⟨[.ident ['x']]⟩, sqBody)]⟩
def hypFn : UserFn S := ⟨['h','y','p'], [(⟨[.ident ['a'], .ident ['k']]⟩, hypBody)]⟩

/-- the expression `hyp(3, 4)` -/
def hypCall : Expr S :=
  .call (.ident (idt ['h','y','p'] 1 1)) (sym .lparen '(' 1 4)
    [.number (Kernel.ofDecimal 3 0), .number (Kernel.ofDecimal 4 0)]

theorem sqHypText_eq :
    sqHypText = "sq(x) = x*x\nhyp(a, k) = sqrt(sq(a) + sq(k))\n".toList := by decide

theorem sqHypText_front : ∃ toks, scan (witCfg (S := S)) sqHypText = .ok toks ∧
    parse toks = .ok sqHypStmts :=
  ⟨[idt ['s','q'] 1 1, sym .lparen '(' 1 3, idt ['x'] 1 4, sym .rparen ')' 1 5,
    sym .equal '=' 1 7, idt ['x'] 1 9, sym .star '*' 1 10, idt ['x'] 1 11, nlt 1 12,
    idt ['h','y','p'] 2 1, sym .lparen '(' 2 4, idt ['a'] 2 5, sym .comma ',' 2 6,
    idt ['k'] 2 8, sym .rparen ')' 2 9, sym .equal '=' 2 11, idt ['s','q','r','t'] 2 13,
    sym .lparen '(' 2 17, idt ['s','q'] 2 18, sym .lparen '(' 2 20, idt ['a'] 2 21,
    sym .rparen ')' 2 22, sym .plus '+' 2 24, idt ['s','q'] 2 26, sym .lparen '(' 2 28,
    idt ['k'] 2 29, sym .rparen ')' 2 30, sym .rparen ')' 2 31, nlt 2 32],
   rfl, rfl⟩

theorem hypCall_front : ∃ toks,
    scan (witCfg (S := S)) ['h','y','p','(','3',',',' ','4',')','\n'] = .ok toks ∧
    parse toks = .ok [.expr hypCall] :=
  ⟨[idt ['h','y','p'] 1 1, sym .lparen '(' 1 4, numt 3 0 ['3'] 1 5, sym .comma ',' 1 6,
    numt 4 0 ['4'] 1 8, sym .rparen ')' 1 9, nlt 1 10], rfl, rfl⟩

/-- the table after the two definitions, starting from the shipped initial table -/
def sqHypEnv : Env S := (runStmts 0 (shippedInitEnv S) sqHypStmts).env

theorem sqHypEnv_eq : sqHypEnv (S := S) =
    Env.insert (Env.insert (shippedInitEnv S) ['s','q'] ⟨.user sqFn, false⟩)
      ['h','y','p'] ⟨.user hypFn, false⟩ := by
  have h1 := (shippedInitEnv_facts (S := S)).2.2.2.1
  have h2 : Env.get (Env.insert (shippedInitEnv S) ['s','q'] ⟨.user sqFn, false⟩)
      ['h','y','p'] = none := by
    rw [Env.get_insert_ne _ _ (by decide)]
    exact (shippedInitEnv_facts (S := S)).2.2.2.2.1
  unfold sqFn at h2
  simp only [sqHypEnv, sqHypStmts, runStmts, step, idt, h1, h2, sqFn, hypFn]

/-- `sq`, `hyp`, `sqrt` in that table: rank 0 for `sq` (its body calls nothing) and for the
    native `sqrt`, rank 1 for `hyp` (its body calls `sqrt` and `sq`); bodies of depth ≤ 3. -/
theorem sqHyp_ranked :
    Ranked (sqHypEnv (S := S)) (fun m => m ∈ [['s','q'], ['h','y','p'], ['s','q','r','t']])
      (fun m => if m = ['h','y','p'] then 1 else 0) 3 := by
  have hsqrt : IsNativeIn (sqHypEnv (S := S)) ['s','q','r','t'] := by
    refine ⟨"sqrt".toList, true, ?_⟩
    rw [sqHypEnv_eq, Env.get_insert_ne _ _ (by decide), Env.get_insert_ne _ _ (by decide)]
    exact (shippedInitEnv_facts (S := S)).2.2.2.2.2
  constructor
  intro m hm
  simp only [List.mem_cons, List.not_mem_nil, or_false] at hm
  rcases hm with rfl | rfl | rfl
  · -- sq
    refine .inr ⟨sqFn, ⟨false, ?_⟩, ?_⟩
    · rw [sqHypEnv_eq, Env.get_insert_ne _ _ (by decide), Env.get_insert_self]
    · intro sb hsb
      simp only [sqFn, List.mem_singleton] at hsb
      subst hsb
      refine ⟨?_, by simp [sqBody, Expr.depth], ?_⟩
      · intro p hp
        simp only [List.mem_singleton, Param.ident.injEq] at hp
        subst hp
        decide
      · intro c hc
        simp [sqBody, Expr.callees] at hc
  · -- hyp
    refine .inr ⟨hypFn, ⟨false, ?_⟩, ?_⟩
    · rw [sqHypEnv_eq, Env.get_insert_self]
    · intro sb hsb
      simp only [hypFn, List.mem_singleton] at hsb
      subst hsb
      refine ⟨?_, by simp [hypBody, Expr.depth, Expr.depthArgs], ?_⟩
      · intro p hp
        simp only [List.mem_cons, Param.ident.injEq, List.not_mem_nil, or_false] at hp
        rcases hp with rfl | rfl <;> decide
      · intro c hc
        simp only [hypBody, Expr.callees, Expr.calleesArgs, List.mem_cons, List.mem_append,
          List.not_mem_nil, or_false, List.append_nil, List.nil_append] at hc
        rcases hc with rfl | rfl | rfl
        · exact ⟨_, rfl, by simp [idt], .inl hsqrt⟩
        · exact ⟨_, rfl, by simp [idt], .inr (by simp [idt])⟩
        · exact ⟨_, rfl, by simp [idt], .inr (by simp [idt])⟩
  · -- sqrt
    exact .inl hsqrt

/-- `sq(x) = x*x; hyp(a, k) = sqrt(sq(a) + sq(k)); hyp(3, 4)`: the hypotheses of
    `C01_ranked_terminates` hold with `K = 2` rank levels and body depth `D = 3`; `hyp(3, 4)` has
    depth 1; so every fuel above `1 + 2 * (3 + 1) = 9` suffices. -/
example : ∀ fuel, 9 < fuel → (eval fuel (hypCall (S := S)) sqHypEnv).res ≠ .fuel := by
  intro fuel hf
  apply C01_ranked_terminates sqHyp_ranked 2 hypCall _ fuel
  · simp [hypCall, Expr.depth, Expr.depthArgs]; omega
  · intro c hc
    simp only [hypCall, Expr.callees, Expr.calleesArgs, List.mem_cons,
      List.not_mem_nil, or_false, List.append_nil] at hc
    subst hc
    exact ⟨_, rfl, by simp [idt], .inr (by simp [idt])⟩

end Witnesses

/-! ### `r(2.5)` over an exact kernel -/

section Exact
variable {K : Type} [Field K] [CharZero K] [Kernel K] [LawfulKernel K]

theorem descend_eq (a : K) (k : Nat) : descend (1 : K) a k = a - (k : K) := by
  induction k generalizing a with
  | zero => simp [descend]
  | succ k ih => rw [descend, ih, Nat.cast_succ, sub_sub, add_comm (1 : K)]

/-- over an exact kernel none of `2.5, 1.5, 0.5, -0.5, …` equals `0` -/
theorem descend_half_ne_zero (k : Nat) :
    Kernel.eq (descend (Kernel.ofDecimal 1 0 : K) (Kernel.ofDecimal 25 (-1)) k)
      (Kernel.ofDecimal 0 0) = false := by
  rw [Bool.eq_false_iff]
  intro h
  rw [LawfulKernel.eq_iff] at h
  simp only [LawfulKernel.ofDecimal_eq] at h
  simp only [Nat.cast_one, zpow_zero, mul_one, Nat.cast_zero] at h
  rw [descend_eq] at h
  have h10 : (10 : K) ≠ 0 := by
    have : ((10 : Nat) : K) ≠ 0 := Nat.cast_ne_zero.mpr (by decide)
    rwa [Nat.cast_ofNat] at this
  have h3 := sub_eq_zero.mp h
  rw [zpow_neg_one, mul_inv_eq_iff_eq_mul₀ h10] at h3
  have h2 : ((25 : Nat) : K) = ((k * 10 : Nat) : K) := by rw [h3]; push_cast; rfl
  have := Nat.cast_injective h2
  omega

/-- **C01 (`r(2.5)` diverges).**  Over any exact kernel (a field of characteristic zero whose
    `==` is equality and whose literals denote their decimal value, e.g. `ℂ`):
    `r(0) = 1; r(n) = n * r(n - 1); r(2.5)` from the shipped initial table prints exactly the
    fuel line, for every amount of fuel — the base case `r(0)` is stepped over. -/
theorem C01_noninteger_factorial_diverges (fuel : Nat) :
    (processText witCfg fuel (shippedInitEnv K)
      "r(0) = 1\nr(n) = n * r(n - 1)\nr(2.5)\n".toList).out = [.fuel] := by
  obtain ⟨toks, hs, hp⟩ := factText_front (S := K)
  rw [← factText_eq]
  simp only [processText, hs, hp]
  exact C01_missed_base_case_diverges ['r'] ['n'] _ _ _ _ _ _ _ _ _ _ _ _ _ _
    rfl rfl rfl rfl rfl rfl (by decide) rfl descend_half_ne_zero _
    shippedInitEnv_facts.2.2.1 fuel

end Exact
end Calc
