/-
  Calc.Props.C01Scan — C01, scanner half: "the scanner returns for every text (never loops,
  never panics)".  Property theorems only; proofs are in Calc/Proofs/ScanLoop.lean.
-/
import Calc.Proofs.ScanLoop
import Calc.Proofs.ScanTables
namespace Calc

variable {S : Type} [Kernel S]

/-- C01 "never loops", general form: the scanner loop consumes at least one character per
    iteration, so it never runs out of fuel when given more fuel than characters. -/
theorem C01_scanLoop_fuel (cfg : ScanCfg S) (f : Nat) (s : List Char) (p : Pos)
    (h : s.length < f) : scanLoop cfg f s p ≠ .fuel :=
  scanLoop_ne_fuel f s p h

/-- C01 "never loops": the fuel `scan` supplies (`length + 1`) always suffices. -/
theorem C01_scan_fuel (cfg : ScanCfg S) (input : List Char) : scan cfg input ≠ .fuel :=
  scanLoop_ne_fuel _ _ _ (Nat.lt_succ_self _)

/-- C01 "never panics": provided every identifier-start character is an identifier-continue
    character (`hstart`), neither `unwrap()` of the float reader nor the empty-identifier
    site is ever reached. -/
theorem C01_scan_no_panic (cfg : ScanCfg S)
    (hstart : ∀ c, isIdentStart c = true → isIdentCont cfg c = true)
    (input : List Char) (site : Str) : scan cfg input ≠ .panic site :=
  scanLoop_ne_panic hstart _ _ _ _

/-- C01, scanner half, in one statement: under `hstart` the scanner returns tokens or a
    bad-character report for every text. -/
theorem C01_scan_returns (cfg : ScanCfg S)
    (hstart : ∀ c, isIdentStart c = true → isIdentCont cfg c = true) (input : List Char) :
    (∃ toks, scan cfg input = .ok toks) ∨ (∃ e, scan cfg input = .bad e) := by
  cases h : scan cfg input with
  | ok toks => exact .inl ⟨toks, rfl⟩
  | bad e => exact .inr ⟨e, rfl⟩
  | panic site => exact absurd h (C01_scan_no_panic cfg hstart input site)
  | fuel => exact absurd h (C01_scan_fuel cfg input)

/-- C01, scanner half, for the shipped `char::is_alphanumeric` table (`tableCfg`: the generated
    range table as continue class, any tab size, any keyword table): `hstart` holds, so every
    text yields tokens or a bad-character report. -/
theorem C01_scan_returns_table (tab : Nat) (kw : Str → Option (Kind S)) (input : List Char) :
    (∃ toks, scan (tableCfg tab kw) input = .ok toks) ∨
      (∃ e, scan (tableCfg tab kw) input = .bad e) :=
  C01_scan_returns _ (tableCfg_hstart tab kw) input

/-- `hstart` is satisfiable (for any tab size and keyword table): take a continue class that
    contains the start characters. -/
example (tab : Nat) (kw : Str → Option (Kind S)) :
    ∀ c, isIdentStart c = true →
      isIdentCont (⟨tab, fun c => isIdentStart c || isDigit c, kw⟩ : ScanCfg S) c = true := by
  intro c h; simp [isIdentCont, h]

/-- without `hstart` the empty-identifier site is reachable in the model: with an empty
    continue class the text `a` panics (so the hypothesis cannot be dropped). -/
example (kw : Str → Option (Kind S)) :
    scan (⟨4, fun _ => false, kw⟩ : ScanCfg S) ['a'] = .panic "ident-empty".toList := by
  rfl

end Calc
