/-
  Property C18 — every listing entry of every stored function reads back, over the bit-pattern
  kernel `litKernel`, with `LitOK` discharged by `C18_scanned_literals_ok_bits`.

  `C18Listing.C18_session_listing_reparse` quantifies its hypothesis `hlit` over ALL texts.  With
  "is not +inf" in place of `LitOK` that would be unsatisfiable (`1e999` scans to +inf), so the
  hypothesis here ranges only over the texts the session can scan (`SessionText`): the file, the
  expression, the prompt lines, each with its trailing line break ensured.
-/
import Calc.Props.C18Listing
namespace Calc.Props.C18ListingBits
open Calc Calc.Props.C18Entry Calc.Props.C18Listing Calc.LitBits Calc.Exec

/-- the texts a session hands to the scanner: the file, the expression, the prompt lines, each
    with its trailing line break ensured (a superset: lines after `exit` are included) -/
def SessionText (file expr : Option Str) (stdin : List Str) (text : Str) : Prop :=
  (∃ f, file = some f ∧ text = ensureTrailingNewline f) ∨
  (∃ e, expr = some e ∧ text = ensureTrailingNewline e) ∨
  (∃ l ∈ stdin, text = ensureTrailingNewline l)

section Inv
variable {S : Type} [Add S] [Sub S] [Mul S] [Div S] [Zero S] [One S] [Kernel S]
variable {Q : Tok S → Prop}

theorem fromDefs_repl_lines (cfg : ScanCfg S) (fuel : Nat) (ls : List Str)
    (hQ : ∀ l ∈ ls, ∀ ts, scan cfg (ensureTrailingNewline l) = .ok ts → ∀ t ∈ ts, Q t) :
    ∀ env : Env S, EnvP (FromDefs Q) env → EnvP (FromDefs Q) (repl cfg fuel env ls).env := by
  induction ls with
  | nil => intro env h; exact h
  | cons l ls ih =>
    intro env h
    simp only [repl]
    split
    · exact h
    · exact ih (fun l' hl' => hQ l' (List.mem_cons_of_mem _ hl')) _
        (fromDefs_processText cfg fuel env _ (hQ l List.mem_cons_self) h)

/-- `FromDefs Q` along a session, `Q` assumed only of the tokens of the session's own texts -/
theorem fromDefs_session_texts (cfg : ScanCfg S) (fuel : Nat) (init : Env S)
    (file expr : Option Str) (stdin : List Str)
    (hQ : ∀ text, SessionText file expr stdin text →
      ∀ ts, scan cfg text = .ok ts → ∀ t ∈ ts, Q t)
    (h : EnvP (FromDefs Q) init) :
    EnvP (FromDefs Q) (session cfg fuel init file expr stdin).env := by
  have hr : ∀ env : Env S, EnvP (FromDefs Q) env →
      EnvP (FromDefs Q) (repl cfg fuel env stdin).env :=
    fromDefs_repl_lines cfg fuel stdin
      (fun l hl => hQ _ (Or.inr (Or.inr ⟨l, hl, rfl⟩)))
  unfold session
  cases file with
  | none =>
    cases expr with
    | none => exact hr _ h
    | some t =>
      exact fromDefs_processText cfg fuel _ _ (hQ _ (Or.inr (Or.inl ⟨t, rfl, rfl⟩))) h
  | some f =>
    have h1 := fromDefs_processText cfg fuel init (ensureTrailingNewline f)
      (hQ _ (Or.inl ⟨f, rfl, rfl⟩)) h
    cases expr with
    | none => exact hr _ h1
    | some t =>
      exact fromDefs_processText cfg fuel _ _ (hQ _ (Or.inr (Or.inl ⟨t, rfl, rfl⟩))) h1

end Inv

section Bits
attribute [local instance] litKernel

/- `CxPat` carries no arithmetic of its own (`litKernel` fixes only literals and printing); the
   arithmetic the evaluator uses is arbitrary here -/
variable [Add CxPat] [Sub CxPat] [Mul CxPat] [Div CxPat] [Zero CxPat] [One CxPat]

/-- **C18 (every listing entry of every stored function reads back; all definitions whose
    numeric literals are finite).** Shipped configuration over the bit-pattern kernel
    `litKernel` (real reader `decimalToBits`, real printer `fmtBits`; any arithmetic on `CxPat`,
    taken as instance arguments).  The hypothesis `hfin` is
    the property's own proviso "all definitions whose numeric literals are finite": no number
    token of any text scanned during the session (`SessionText`: the file, the expression, the
    prompt lines) overflows to +inf.  Then the conclusion of
    `C18Listing.C18_session_listing_reparse` holds for every function value `fn` in the session's
    table, with `LitOK` discharged by `C18_scanned_literals_ok_bits`. -/
theorem C18_session_listing_reparse_bits (tab : Nat) (fuel : Nat)
    (init : Env CxPat) (hinit : ∀ kv ∈ init, ∀ fn, kv.2.value ≠ .user fn)
    (file expr : Option Str) (stdin : List Str)
    (hfin : ∀ text, SessionText file expr stdin text →
      ∀ ts, scan (shippedCfg (S := CxPat) tab) text = .ok ts →
      ∀ t ∈ ts, ∀ z, t.kind = .number z → z.re ≠ 0x7FF0000000000000)
    (k : Str) (v : Variable CxPat) (fn : UserFn CxPat)
    (hkv : (k, v) ∈ (session (shippedCfg tab) fuel init file expr stdin).env)
    (hv : v.value = .user fn) :
    showUserFn fn = joinWith ['\n'] (fn.sigs.map (showSigEntry fn.name)) ∧
    ∀ sig body, (sig, body) ∈ fn.sigs → body.NoMatrix →
      ∃ (toks : List (Tok CxPat)) (nl name' : Tok CxPat) (body' : Expr CxPat),
        scan (shippedCfg tab) (showSigEntry fn.name (sig, body) ++ ['\n']) = .ok (toks ++ [nl]) ∧
        nl.kind = .newline ∧ name'.lexeme = fn.name ∧ Expr.SimLex body body' ∧
        ∀ f, 10 + 13 * (toks ++ [nl]).length ≤ f →
          pStatement f (toks ++ [nl]) = .ok (.define name' sig body') [] :=
  C18_listing_entries_reparse tab fn
    (fromDefs_session_texts (Q := LitTok (shippedCfg tab)) (shippedCfg tab) fuel init file expr
      stdin
      (fun text hst ts h t ht => ⟨scan_all_wf h t ht, fun z hz =>
        C18_scanned_literals_ok_bits tab text ts h t ht z hz (hfin text hst ts h t ht z hz)⟩)
      (EnvP.of_no_user hinit) (k, v) hkv fn hv)

end Bits

end Calc.Props.C18ListingBits
