/-
  Property C15 — The text printed for a result determines the result.

  "A number's text reads back as exactly that complex number, including its sign, both parts and
   the special forms `i`, `-i` and `0`; a measurement prints that number — parenthesised when it
   has both a real and an imaginary part — followed by its unit's symbol; a matrix prints every
   entry in row-major order, one row per line; a built-in prints its name marked as built-in."

  The printers are those of the model (Calc/Model/Print.lean).  How one *real* is printed is a
  parameter of the model (`Kernel.fmtRe/fmtIm/fmtAbsIm`, Rust's `Display for f64`), so the number
  theorems are stated under the explicit hypothesis `Spec.FmtSpec` (Calc/Spec/Reader.lean): the
  printer of reals has a left inverse, prints no blank and ends like a real's text.  The hypothesis
  is satisfiable (`Calc.PrintExample.fmtSpec`, examples at the end).  The readers
  (`Spec.readComplex`, `Spec.unformat`) are written independently of the printers.
-/
import Calc.Proofs.PrintComplex
import Calc.Proofs.PrintExample
import Calc.Props.C05
namespace Calc.Props.C15
open Calc Calc.Spec

variable {S : Type} [Kernel S]

/-! ### built-ins -/

/-- **C15 (built-in).** A built-in prints its name marked as built-in. -/
theorem C15_native (n : Str) : showValue (S := S) (.native n) = n ++ " (built-in)".toList := rfl

/-! ### measurements -/

/-- **C15 (measurement).** A measurement prints its number — parenthesised exactly when both the
    real and the imaginary part are non-zero — immediately followed by its unit's symbol. -/
theorem C15_measurement (z : S) (u : Unit) :
    showMeasurement z u =
      (if Kernel.reIsZero z = false ∧ Kernel.imIsZero z = false
        then "(".toList ++ complexToString z ++ ")".toList
        else complexToString z) ++ (Gen.unitSymbol u).toList := by
  unfold showMeasurement unitSymbol
  cases Kernel.reIsZero z <;> cases Kernel.imIsZero z <;> simp

/-- … and a measurement value is printed that way. -/
theorem C15_measurement_value (z : S) (u : Unit) :
    showValue (.measurement z u) = showMeasurement z u := rfl

/-- **C15 (symbols).** Different units print different symbols: the symbol determines the unit. -/
theorem C15_symbols_distinct : ∀ u v : Unit, Gen.unitSymbol u = Gen.unitSymbol v → u = v := by
  have h : ∀ u ∈ Unit.all, ∀ v ∈ Unit.all, Gen.unitSymbol u = Gen.unitSymbol v → u = v := by
    decide +kernel
  exact fun u v => h u (C05.unit_all_complete u) v (C05.unit_all_complete v)

/-- … and the printed symbol is the documented one (C05). -/
theorem C15_symbol_documented (u : Unit) : unitSymbol u = (Spec.unitSymbol u).toList := by
  unfold Calc.unitSymbol; rw [C05.C05_symbols]

/-! ### numbers -/

section Complex
variable {R : Type} [Zero R] [One R] [Neg R]

/-- **C15 (number).** The text printed for the number `z` reads back as `z`: the independent
    reader `Spec.readComplex` recovers the real and the imaginary part — sign included, in all
    nine forms `<re>`, `<im>i`, `<re> + <im>i`, `<re> - <|im|>i`, `<re> + i`, `<re> - i`, `i`,
    `-i`, `0` — each up to the zero test: a part that tests as zero (`0` or `-0`) is not printed
    (or the whole number is printed as `0`) and reads back as `0`. -/
theorem C15_complex (F : FmtSpec S R) (z : S) :
    ∃ a b, readComplex F.read (complexToString z) = some (a, b) ∧
      F.same a (F.re z) ∧ F.same b (F.im z) :=
  readComplex_complexToString F z

/-- **C15 (number, exact).** When zero is the only real that passes the zero test, the printed
    text reads back as exactly the pair of parts. -/
theorem C15_complex_exact (F : FmtSpec S R) (hz : ∀ x : R, F.isZero x = true → x = 0) (z : S) :
    readComplex F.read (complexToString z) = some (F.re z, F.im z) := by
  obtain ⟨a, b, h, ha, hb⟩ := C15_complex F z
  have e : ∀ {x y : R}, F.same x y → x = y := by
    rintro x y (h | ⟨h1, h2⟩)
    · exact h
    · rw [hz x h1, hz y h2]
  rw [h, e ha, e hb]

/-- **C15 (the text determines the number).** Two numbers with the same printed text have the
    same real parts and the same imaginary parts (up to the zero test). -/
theorem C15_complex_determines (F : FmtSpec S R) (z w : S)
    (h : complexToString z = complexToString w) :
    F.same (F.re z) (F.re w) ∧ F.same (F.im z) (F.im w) := by
  obtain ⟨a, b, hz, ha, hb⟩ := C15_complex F z
  obtain ⟨a', b', hw, ha', hb'⟩ := C15_complex F w
  rw [h, hw] at hz
  injection hz with hz; injection hz with e1 e2
  subst e1 e2
  have tr : ∀ {x y y' : R}, F.same x y → F.same x y' → F.same y y' := by
    rintro x y y' (h | ⟨h1, h2⟩) (h' | ⟨h1', h2'⟩)
    · exact Or.inl (h ▸ h')
    · exact Or.inr ⟨h ▸ h1', h2'⟩
    · exact Or.inr ⟨h2, h' ▸ h1⟩
    · exact Or.inr ⟨h2, h2'⟩
  exact ⟨tr ha ha', tr hb hb'⟩

/-- a number value is printed by `complexToString` -/
theorem C15_number_value (z : S) : showValue (.number z) = complexToString z := rfl

end Complex

/-! ### the hypotheses are satisfiable -/

/-- `FmtSpec` has an instance: Gaussian integers printed in decimal. -/
example : Nonempty (FmtSpec PrintExample.G Int) := ⟨PrintExample.fmtSpec⟩

/-- … for which the exact form applies: `3 - 4i` is printed as `3 - 4i` and read back. -/
example : complexToString ((3, -4) : PrintExample.G) = "3 - 4i".toList := by decide +kernel
example : readComplex PrintExample.readInt "3 - 4i".toList = some (3, -4) := by decide +kernel
example (z : PrintExample.G) :
    readComplex PrintExample.readInt (complexToString z) = some (z.1, z.2) :=
  C15_complex_exact PrintExample.fmtSpec PrintExample.fmtSpec_isZero z

/-- the special forms -/
example : complexToString ((0, 1) : PrintExample.G) = "i".toList := by decide +kernel
example : complexToString ((0, -1) : PrintExample.G) = "-i".toList := by decide +kernel
example : complexToString ((0, 0) : PrintExample.G) = "0".toList := by decide +kernel
example : complexToString ((-2, 1) : PrintExample.G) = "-2 + i".toList := by decide +kernel
example : showMeasurement ((5, 0) : PrintExample.G) (.distance .meter) = "5m".toList := by decide +kernel
example : showMeasurement ((5, 2) : PrintExample.G) (.storage .kibibyte) = "(5 + 2i)KiB".toList := by
  decide +kernel

end Calc.Props.C15
