/-
  Property C15 — The text printed for a result determines the result.

  "A number's text reads back as exactly that complex number, including its sign, both parts and
   the special forms `i`, `-i` and `0`; a measurement prints that number — parenthesised when it
   has both a real and an imaginary part — followed by its unit's symbol; a matrix prints every
   entry in row-major order, one row per line; a built-in prints its name marked as built-in."

  The printers are those of the model (Calc/Model/Print.lean).  How one *real* is printed is a
  parameter of the model (`Kernel.fmtRe/fmtIm/fmtAbsIm`, Rust's `Display for f64`), so the number
  theorems are stated under the explicit hypothesis `Spec.FmtSpec` (Calc/Spec/Reader.lean): the
  printer of reals has a left inverse, prints no blank and ends like a real's text.  The hypothesis
  is satisfiable (`Calc.PrintExample.fmtSpec`, examples at the end).  The readers
  (`Spec.readComplex`, `Spec.unformat`) are written independently of the printers.
-/
import Calc.Proofs.PrintComplex
import Calc.Proofs.PrintExample
import Calc.Proofs.PrintMatrix
import Calc.Proofs.PrintSplit
import Calc.Props.C05
namespace Calc.Props.C15
open Calc Calc.Spec

variable {S : Type} [Kernel S]

/-! ### built-ins -/

/-- **C15 (built-in).** A built-in prints its name marked as built-in. -/
theorem C15_native (n : Str) : showValue (S := S) (.native n) = n ++ " (built-in)".toList := rfl

/-! ### measurements -/

/-- **C15 (measurement).** A measurement prints its number — parenthesised exactly when both the
    real and the imaginary part are non-zero — immediately followed by its unit's symbol. -/
theorem C15_measurement (z : S) (u : Unit) :
    showMeasurement z u =
      (if Kernel.reIsZero z = false ∧ Kernel.imIsZero z = false
        then "(".toList ++ complexToString z ++ ")".toList
        else complexToString z) ++ (Gen.unitSymbol u).toList := by
  unfold showMeasurement unitSymbol
  cases Kernel.reIsZero z <;> cases Kernel.imIsZero z <;> simp

/-- … and a measurement value is printed that way. -/
theorem C15_measurement_value (z : S) (u : Unit) :
    showValue (.measurement z u) = showMeasurement z u := rfl

/-- **C15 (symbols).** Different units print different symbols: the symbol determines the unit. -/
theorem C15_symbols_distinct : ∀ u v : Unit, Gen.unitSymbol u = Gen.unitSymbol v → u = v := by
  have h : ∀ u ∈ Unit.all, ∀ v ∈ Unit.all, Gen.unitSymbol u = Gen.unitSymbol v → u = v := by
    decide +kernel
  exact fun u v => h u (C05.unit_all_complete u) v (C05.unit_all_complete v)

/-- … and the printed symbol is the documented one (C05). -/
theorem C15_symbol_documented (u : Unit) : unitSymbol u = (Spec.unitSymbol u).toList := by
  unfold Calc.unitSymbol; rw [C05.C05_symbols]

/-! ### numbers -/

section Complex
variable {R : Type} [Zero R] [One R] [Neg R]

/-- **C15 (number).** The text printed for the number `z` reads back as `z`: the independent
    reader `Spec.readComplex` recovers the real and the imaginary part — sign included, in all
    nine forms `<re>`, `<im>i`, `<re> + <im>i`, `<re> - <|im|>i`, `<re> + i`, `<re> - i`, `i`,
    `-i`, `0` — each up to the zero test: a part that tests as zero (`0` or `-0`) is not printed
    (or the whole number is printed as `0`) and reads back as `0`. -/
theorem C15_complex (F : FmtSpec S R) (z : S) :
    ∃ a b, readComplex F.read (complexToString z) = some (a, b) ∧
      F.same a (F.re z) ∧ F.same b (F.im z) :=
  readComplex_complexToString F z

/-- **C15 (number, exact).** When zero is the only real that passes the zero test, the printed
    text reads back as exactly the pair of parts. -/
theorem C15_complex_exact (F : FmtSpec S R) (hz : ∀ x : R, F.isZero x = true → x = 0) (z : S) :
    readComplex F.read (complexToString z) = some (F.re z, F.im z) := by
  obtain ⟨a, b, h, ha, hb⟩ := C15_complex F z
  have e : ∀ {x y : R}, F.same x y → x = y := by
    rintro x y (h | ⟨h1, h2⟩)
    · exact h
    · rw [hz x h1, hz y h2]
  rw [h, e ha, e hb]

/-- **C15 (the text determines the number).** Two numbers with the same printed text have the
    same real parts and the same imaginary parts (up to the zero test). -/
theorem C15_complex_determines (F : FmtSpec S R) (z w : S)
    (h : complexToString z = complexToString w) :
    F.same (F.re z) (F.re w) ∧ F.same (F.im z) (F.im w) := by
  obtain ⟨a, b, hz, ha, hb⟩ := C15_complex F z
  obtain ⟨a', b', hw, ha', hb'⟩ := C15_complex F w
  rw [h, hw] at hz
  injection hz with hz; injection hz with e1 e2
  subst e1 e2
  have tr : ∀ {x y y' : R}, F.same x y → F.same x y' → F.same y y' := by
    rintro x y y' (h | ⟨h1, h2⟩) (h' | ⟨h1', h2'⟩)
    · exact Or.inl (h ▸ h')
    · exact Or.inr ⟨h ▸ h1', h2'⟩
    · exact Or.inr ⟨h2, h' ▸ h1⟩
    · exact Or.inr ⟨h2, h2'⟩
  exact ⟨tr ha ha', tr hb hb'⟩

/-- a number value is printed by `complexToString` -/
theorem C15_number_value (z : S) : showValue (.number z) = complexToString z := rfl

end Complex

/-! ### measurements: the split `number text ++ symbol` is unique -/

/-- **C15 (the measurement text splits in one way).** Some symbols are suffixes of others (`m` of
    `nm`, `t` of `ft`, `B` of `KiB`), yet a text is `number text ++ unit symbol` in at most one way:
    for texts `x`, `y` that end as printed numbers do (`Spec.numTextEnd`: a digit, `inf`, `NaN`,
    `)`, or an `i` that is the whole text or follows a digit, `inf`, `NaN`, a blank or `-`),
    `x ++ symbol u = y ++ symbol v` forces `x = y` and `u = v`.  The finite core
    (`symbol_suffix_table`, over all 48 × 48 pairs of shipped symbols) is checked by the kernel. -/
theorem C15_measurement_split (x y : Str) (u v : Unit)
    (hx : numTextEnd x = true) (hy : numTextEnd y = true)
    (h : x ++ (Gen.unitSymbol u).toList = y ++ (Gen.unitSymbol v).toList) : x = y ∧ u = v :=
  split_unique x y u v (C05.unit_all_complete u) (C05.unit_all_complete v) hx hy h

section Measurement
variable {R : Type} [Zero R] [One R] [Neg R]

/-- … and the number part of a printed measurement is such a text. -/
theorem C15_measurement_number_text (F : FmtSpec S R) (z : S) :
    numTextEnd (complexToString z) = true ∧
    numTextEnd ("(".toList ++ complexToString z ++ ")".toList) = true := by
  refine ⟨numTextEnd_complexToString F z, ?_⟩
  unfold numTextEnd
  simp only [List.reverse_append]
  rfl

/-- **C15 (the text determines the measurement).** Two measurements with the same printed text
    have the same unit and the same number (parts up to the zero test, as in `C15_complex`). -/
theorem C15_measurement_determines (F : FmtSpec S R) (z w : S) (u v : Unit)
    (h : showMeasurement z u = showMeasurement w v) :
    u = v ∧ F.same (F.re z) (F.re w) ∧ F.same (F.im z) (F.im w) := by
  have := showMeasurement_inj F z w u v (C05.unit_all_complete u) (C05.unit_all_complete v) h
  exact ⟨this.2, C15_complex_determines F z w this.1⟩

end Measurement

/-! ### matrices -/

/-- **C15 (matrix, one row per line).** A matrix with at least one row and no empty row prints
    as `[`, its rows joined by line breaks, `]`; the line of row `i` is a blank (for `i > 0`)
    followed by the row's cells joined by `, `, the `j`-th cell being the `j`-th entry padded on
    the left to the width of column `j`. -/
theorem C15_matrix_lines (m : List (List Str)) (hne : m ≠ []) (hrows : ∀ r ∈ m, r ≠ []) :
    matrixFormat m =
      '[' :: joinWith ['\n'] ((List.zipIdx m).map fun p =>
        (if p.2 = 0 then [] else [' ']) ++
          joinWith ", ".toList ((List.zip p.1 (mfWidths m)).map fun ew => padLeft ew.2 ew.1)) ++ [']'] :=
  matrixFormat_eq m hne hrows

/-- … and padding only prepends blanks: dropping the blanks in front of a padded cell gives the
    entry's text (when that does not itself begin with a blank). -/
theorem C15_matrix_padding (w : Nat) (s : Str) (hs : s.head? ≠ some ' ') :
    (padLeft w s).dropWhile (· = ' ') = s :=
  padLeft_trim w s hs

/-- **C15 (matrix, every entry in row-major order).** Reading the printed text back — strip `[`
    and `]`, one row per line, cells separated by `,`, blanks in front of a cell dropped
    (`Spec.unformat`) — gives exactly the rows of entry texts, provided there is at least one row,
    no row is empty, and every entry text is non-empty, contains no comma and no line break and
    does not begin with a blank. -/
theorem C15_matrix (m : List (List Str)) (hne : m ≠ []) (hrows : ∀ r ∈ m, r ≠ [])
    (hclean : ∀ r ∈ m, ∀ e ∈ r, e ≠ [] ∧ ',' ∉ e ∧ '\n' ∉ e ∧ e.head? ≠ some ' ') :
    unformat (matrixFormat m) = m :=
  unformat_matrixFormat m hne hrows
    (fun r hr e he => ⟨⟨(hclean r hr e he).2.1, (hclean r hr e he).2.2.1, (hclean r hr e he).2.2.2⟩,
      (hclean r hr e he).1⟩)

/-- the empty matrix prints as `[]` and reads back as no rows -/
theorem C15_matrix_empty : matrixFormat [] = "[]".toList ∧ unformat "[]".toList = [] := by
  constructor <;> decide

section MatrixValue
variable {R : Type} [Zero R] [One R] [Neg R]

/-- **C15 (matrix value).** A matrix value prints the texts of its entries (`complexToString`) in
    that layout; under `FmtSpec`, when the printer of reals prints no comma and no line break,
    the printed matrix reads back as the rows of the entries' texts — each of which reads back as
    the entry (`C15_complex`). -/
theorem C15_matrix_value (F : FmtSpec S R) (hf : ∀ x : R, ',' ∉ F.fmt x ∧ '\n' ∉ F.fmt x)
    (m : List (List S)) (hne : m ≠ []) (hrows : ∀ r ∈ m, r ≠ []) :
    unformat (showValue (.matrix m)) = m.map fun r => r.map complexToString := by
  show unformat (matrixFormat (m.map fun r => r.map complexToString)) = _
  apply unformat_matrixFormat
  · simpa using hne
  · intro r hr
    simp only [List.mem_map] at hr
    obtain ⟨r', hr', rfl⟩ := hr
    simpa using hrows r' hr'
  · intro r hr e he
    simp only [List.mem_map] at hr
    obtain ⟨r', -, rfl⟩ := hr
    simp only [List.mem_map] at he
    obtain ⟨z, -, rfl⟩ := he
    exact (cleanText_complexToString F hf z).cell

end MatrixValue

/-! ### the hypotheses are satisfiable -/

/-- `FmtSpec` has an instance: Gaussian integers printed in decimal. -/
example : Nonempty (FmtSpec PrintExample.G Int) := ⟨PrintExample.fmtSpec⟩

/-- … for which the exact form applies: `3 - 4i` is printed as `3 - 4i` and read back. -/
example : complexToString ((3, -4) : PrintExample.G) = "3 - 4i".toList := by decide +kernel
example : readComplex PrintExample.readInt "3 - 4i".toList = some (3, -4) := by decide +kernel
example (z : PrintExample.G) :
    readComplex PrintExample.readInt (complexToString z) = some (z.1, z.2) :=
  C15_complex_exact PrintExample.fmtSpec PrintExample.fmtSpec_isZero z

/-- the special forms -/
example : complexToString ((0, 1) : PrintExample.G) = "i".toList := by decide +kernel
example : complexToString ((0, -1) : PrintExample.G) = "-i".toList := by decide +kernel
example : complexToString ((0, 0) : PrintExample.G) = "0".toList := by decide +kernel
example : complexToString ((-2, 1) : PrintExample.G) = "-2 + i".toList := by decide +kernel
example : showMeasurement ((5, 0) : PrintExample.G) (.distance .meter) = "5m".toList := by decide +kernel
example : showMeasurement ((5, 2) : PrintExample.G) (.storage .kibibyte) = "(5 + 2i)KiB".toList := by
  decide +kernel


/-- the lexical hypothesis of `C15_matrix_value` holds of the example instance -/
example : ∀ x : Int, ',' ∉ PrintExample.fmtSpec.fmt x ∧ '\n' ∉ PrintExample.fmtSpec.fmt x :=
  PrintExample.fmtInt_clean

/-- the matrix of the test suite: `[[1, 2], [3 + 4i, i]]` -/
example : showValue (.matrix [[((1, 0) : PrintExample.G), (2, 0)], [(3, 4), (0, 1)]]) =
    "[     1, 2\n 3 + 4i, i]".toList := by decide +kernel
example : unformat "[     1, 2\n 3 + 4i, i]".toList =
    [["1".toList, "2".toList], ["3 + 4i".toList, "i".toList]] := by decide +kernel

/-- the measurement split: `5KiB` is `5` + `KiB`, not `5Ki` + `B` -/
example : numTextEnd "5".toList = true ∧ numTextEnd "5Ki".toList = false ∧
    numTextEnd "5f".toList = false ∧ numTextEnd "inf".toList = true := by decide +kernel

end Calc.Props.C15
