/-
  Calc.Props.C10 — A failed statement changes nothing; a malformed text runs nothing.
-/
import Calc.Model.Front
import Calc.Proofs.EnvLemmas
import Calc.Proofs.EvalPure
import Calc.Proofs.EnvStep
namespace Calc

variable {S : Type} [Add S] [Sub S] [Mul S] [Div S] [Zero S] [One S] [Kernel S]

/-- the output lines that report a failure (a diagnostic of any stage, a panic of the Rust, or
    the model running out of fuel) -/
def Line.isFailure : Line S → Bool
  | .evalErr _ => true
  | .parseErr _ => true
  | .scanErr _ => true
  | .panic _ => true
  | .fuel => true
  | .value _ => false
  | .banner => false
  | .goodbye => false

/-- C10, atomicity: if a statement of any kind prints a failure line, the environment after it is
    the environment before it. -/
theorem C10_atomic (fuel : Nat) (env : Env S) (s : Stmt S) :
    (∃ l ∈ (step fuel env s).out, l.isFailure = true) → (step fuel env s).env = env := by
  rintro ⟨l, hl, -⟩
  rcases step_env_or_silent fuel env s with h | h
  · exact h
  · rw [h] at hl; cases hl

/-- C10, atomicity, stated on the output alone: a statement that changes the environment prints
    nothing at all (so in particular no failure line). -/
theorem C10_changed_silent (fuel : Nat) (env : Env S) (s : Stmt S) :
    (step fuel env s).env ≠ env → (step fuel env s).out = [] := by
  intro hne
  rcases step_env_or_silent fuel env s with h | h
  · exact absurd h hne
  · exact h

/-- C10: a statement prints at most one line. -/
theorem C10_silent_or_one_line (fuel : Nat) (env : Env S) (s : Stmt S) :
    (step fuel env s).out.length ≤ 1 :=
  step_out_length fuel env s

/-- C10, malformed text: if scanning the text fails, or scanning succeeds and parsing the tokens
    fails, then no statement runs (the environment is untouched) and exactly one line is printed. -/
theorem C10_text (cfg : ScanCfg S) (fuel : Nat) (env : Env S) (text : Str) :
    ((∀ toks, scan cfg text ≠ .ok toks) ∨
      (∃ toks, scan cfg text = .ok toks ∧ ∀ stmts, parse toks ≠ .ok stmts)) →
    (processText cfg fuel env text).env = env ∧ (processText cfg fuel env text).out.length = 1 := by
  intro h
  unfold processText
  rcases h with h | ⟨toks, hs, hp⟩
  · cases hsc : scan cfg text with
    | ok toks => exact absurd hsc (h toks)
    | bad e => exact ⟨rfl, rfl⟩
    | panic s => exact ⟨rfl, rfl⟩
    | fuel => exact ⟨rfl, rfl⟩
  · rw [hs]
    simp only
    cases hpa : parse toks with
    | ok stmts => exact absurd hpa (hp stmts)
    | err e => exact ⟨rfl, rfl⟩
    | fuel => exact ⟨rfl, rfl⟩

/-- C10, malformed text, the printed line: it is a failure line. -/
theorem C10_text_line (cfg : ScanCfg S) (fuel : Nat) (env : Env S) (text : Str) :
    ((∀ toks, scan cfg text ≠ .ok toks) ∨
      (∃ toks, scan cfg text = .ok toks ∧ ∀ stmts, parse toks ≠ .ok stmts)) →
    ∀ l ∈ (processText cfg fuel env text).out, l.isFailure = true := by
  intro h
  unfold processText
  rcases h with h | ⟨toks, hs, hp⟩
  · cases hsc : scan cfg text with
    | ok toks => exact absurd hsc (h toks)
    | bad e => intro l hl; simp only [List.mem_singleton] at hl; subst hl; rfl
    | panic s => intro l hl; simp only [List.mem_singleton] at hl; subst hl; rfl
    | fuel => intro l hl; simp only [List.mem_singleton] at hl; subst hl; rfl
  · rw [hs]
    simp only
    cases hpa : parse toks with
    | ok stmts => exact absurd hpa (hp stmts)
    | err e => intro l hl; simp only [List.mem_singleton] at hl; subst hl; rfl
    | fuel => intro l hl; simp only [List.mem_singleton] at hl; subst hl; rfl

/-! ### the hypotheses are satisfiable -/

section Example
variable (z : S)

/-- `C10_atomic` has a non-vacuous instance: an expression statement out of fuel prints the
    failure line `.fuel`. -/
example : ∃ l ∈ (step 0 ([] : Env S) (.expr (.number z))).out, l.isFailure = true :=
  ⟨.fuel, List.mem_singleton.mpr rfl, rfl⟩

/-- … and one with a real diagnostic: assigning from an unknown variable. -/
example (t n : Tok S) :
    ∃ l ∈ (step 1 ([] : Env S) (.assign n (.ident t))).out, l.isFailure = true :=
  ⟨.evalErr ⟨.unknownVariable, t.line, t.col, t.lexeme⟩, List.mem_singleton.mpr rfl, rfl⟩

/-- `C10_text`, first disjunct: the text `$` does not scan, whatever the configuration. -/
example (cfg : ScanCfg S) : ∀ toks, scan cfg "$".toList ≠ .ok toks := by
  intro toks h
  simp [scan, scanLoop, isBlank, singleKind, isIdentStart, isDigit] at h

/-- `C10_text`, second disjunct: the token list consisting of the keyword `clear` with no
    statement delimiter after it does not parse. -/
example (t : Tok S) (ht : t.kind = .clear) : ∀ stmts, parse [t] ≠ .ok stmts := by
  intro stmts h
  obtain ⟨k, lx, l, c⟩ := t
  simp only at ht
  subst ht
  simp [parse, parseLoop, Tok.tag, Kind.tag, pStatement, consumeDelim] at h

end Example

end Calc
