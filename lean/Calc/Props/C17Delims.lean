/-
  Property C17 (parser half) — newline and `;` are the same statement delimiter.

  "Replacing a statement-ending newline token by `;` or the reverse (outside `[ ]`) changes
   nothing; extra separators are ignored."

  * `C17_consumeDelim`, `C17_parseLoop_skip`, `C17_parseLoop_flip`: the two places where the
    statement layer looks at a delimiter treat both kinds alike.
  * `C17_delims` / `C17_delims_flip` / `C17_delims_tail`: a statement that ends at the delimiter
    `d` is parsed to the same tree when `d` is replaced by the other delimiter (and whatever
    follows is replaced by anything else).  "Outside `[ ]`" is the hypothesis that the statement
    *ends* at `d`: a `;` between two matrix rows never ends a statement.
  * `C17_delims_program`: whole token lists that differ only in which delimiter ends each
    statement / fills each gap between statements give the same `parseLoop` result, for every fuel.
  * `C17_extra_delims`, `C17_extra_delims_after`: additional delimiters before a statement or after
    a statement's own delimiter are skipped (explicit loop fuel: one unit per skipped token).
  * `C17_program_any_fuel`: both together, for every outcome other than "out of fuel".

  Everything rests on `Calc.Proofs.ParseLocality`: the expression parser inspects the token it
  stops at only through its tag, and tells newline from `;` only between matrix rows.
-/
import Calc.Proofs.ParseLocality
import Calc.Proofs.ParseProgram
namespace Calc
variable {S : Type}

/-! ## Delimiter tokens -/

/-- the other delimiter at the same position: newline ↦ `;`, `;` ↦ newline, anything else
    unchanged -/
def flipDelim (t : Tok S) : Tok S :=
  match t.kind with
  | .newline => { t with kind := .semicolon, lexeme := [';'] }
  | .semicolon => { t with kind := .newline, lexeme := ['\n'] }
  | _ => t

theorem tag_newline_kind {t : Tok S} (h : t.tag = .newline) : t.kind = .newline := by
  unfold Tok.tag at h
  cases hk : t.kind <;> simp [hk, Kind.tag] at h
  rfl

theorem tag_semicolon_kind {t : Tok S} (h : t.tag = .semicolon) : t.kind = .semicolon := by
  unfold Tok.tag at h
  cases hk : t.kind <;> simp [hk, Kind.tag] at h
  rfl

/-- **C17 (flip).** `flipDelim` turns a newline token into a `;` token and a `;` token into a
    newline token, keeping the position. -/
theorem flipDelim_spec (t : Tok S) :
    (t.tag = .newline → (flipDelim t).tag = .semicolon) ∧
    (t.tag = .semicolon → (flipDelim t).tag = .newline) ∧
    (¬ isDelim t → flipDelim t = t) ∧
    (flipDelim t).line = t.line ∧ (flipDelim t).col = t.col := by
  refine ⟨fun h => ?_, fun h => ?_, fun h => ?_, ?_, ?_⟩
  · simp [flipDelim, tag_newline_kind h, Tok.tag, Kind.tag]
  · simp [flipDelim, tag_semicolon_kind h, Tok.tag, Kind.tag]
  · unfold flipDelim
    split
    · rename_i hk; exact absurd (Or.inl (by simp [Tok.tag, hk, Kind.tag])) h
    · rename_i hk; exact absurd (Or.inr (by simp [Tok.tag, hk, Kind.tag])) h
    · rfl
  · unfold flipDelim; split <;> rfl
  · unfold flipDelim; split <;> rfl

/-- a flipped delimiter is a delimiter -/
theorem isDelim_flipDelim {t : Tok S} (h : isDelim t) : isDelim (flipDelim t) := by
  rcases h with h | h
  · exact Or.inr ((flipDelim_spec t).1 h)
  · exact Or.inl ((flipDelim_spec t).2.1 h)

/-! ## The statement layer's own delimiter tests -/

/-- **C17 (end of statement).** The test that ends a statement accepts a newline and a `;`
    alike, consuming exactly that one token. -/
theorem C17_consumeDelim {d d' : Tok S} (r : List (Tok S)) (hd : isDelim d) (hd' : isDelim d') :
    consumeDelim (d :: r) = .ok d r ∧ consumeDelim (d' :: r) = .ok d' r :=
  ⟨consumeDelim_delim hd r, consumeDelim_delim hd' r⟩

/-- **C17 (separator skipped).** The statement loop skips a leading delimiter of either kind. -/
theorem C17_parseLoop_skip {d : Tok S} (inner f : Nat) (r : List (Tok S)) (hd : isDelim d) :
    parseLoop inner (f + 1) (d :: r) = parseLoop inner f r := by
  rcases hd with hd | hd <;> simp [parseLoop, hd]

/-- **C17 (separator kind irrelevant).** A leading delimiter may be replaced by any other
    delimiter, in particular by its flip. -/
theorem C17_parseLoop_flip {d d' : Tok S} (inner f : Nat) (r : List (Tok S)) (hd : isDelim d)
    (hd' : isDelim d') :
    parseLoop inner f (d :: r) = parseLoop inner f (d' :: r) ∧
    parseLoop inner f (d :: r) = parseLoop inner f (flipDelim d :: r) := by
  cases f with
  | zero => exact ⟨rfl, rfl⟩
  | succ f =>
    rw [C17_parseLoop_skip inner f r hd, C17_parseLoop_skip inner f r hd',
      C17_parseLoop_skip inner f r (isDelim_flipDelim hd)]
    exact ⟨rfl, rfl⟩

/-! ## One statement -/

/-- a successful statement parse determines the delimiter that ended it -/
theorem pStatement_split {inner : Nat} {c : List (Tok S)} {d : Tok S} {r : List (Tok S)}
    {s : Stmt S} (h : pStatement inner (c ++ d :: r) = .ok s r) :
    c ≠ [] ∧ isDelim d ∧
      ∀ d' r', isDelim d' → pStatement inner (c ++ d' :: r') = .ok s r' := by
  obtain ⟨c0, x, hc0, hx, hts, H⟩ := pStatement_swap h
  obtain ⟨rfl, hxr⟩ := List.append_inj' hts (by simp)
  cases hxr
  exact ⟨hc0, hx, H⟩

/-- **C17 (statement delimiter, with the rest replaced too).** If a statement ends at `d`, then
    with any delimiter `d'` in place of `d` and any input `r'` after it the same statement is
    parsed and the rest is `r'`. -/
theorem C17_delims_tail {inner : Nat} {c : List (Tok S)} {d d' : Tok S} {r : List (Tok S)}
    {s : Stmt S} (h : pStatement inner (c ++ d :: r) = .ok s r) (hd' : isDelim d')
    (r' : List (Tok S)) : pStatement inner (c ++ d' :: r') = .ok s r' :=
  (pStatement_split h).2.2 d' r' hd'

/-- **C17 (statement delimiter).** Replacing the newline that ends a statement by `;`, or the
    reverse, gives the same statement and the same rest.  (A `;` inside `[ ]` does not end the
    statement, so the hypothesis `… = .ok s r` with exactly `r` left excludes it.) -/
theorem C17_delims {inner : Nat} {c : List (Tok S)} {d d' : Tok S} {r : List (Tok S)}
    {s : Stmt S} (h : pStatement inner (c ++ d :: r) = .ok s r) (_hd : isDelim d)
    (hd' : isDelim d') : pStatement inner (c ++ d' :: r) = .ok s r :=
  C17_delims_tail h hd' r

/-- **C17 (statement delimiter, flipped).** The same with `flipDelim`; that `d` is a delimiter
    follows from the statement ending there. -/
theorem C17_delims_flip {inner : Nat} {c : List (Tok S)} {d : Tok S} {r : List (Tok S)}
    {s : Stmt S} (h : pStatement inner (c ++ d :: r) = .ok s r) :
    isDelim d ∧ pStatement inner (c ++ flipDelim d :: r) = .ok s r :=
  ⟨(pStatement_split h).2.1,
   C17_delims_tail h (isDelim_flipDelim (pStatement_split h).2.1) r⟩

/-! ## Whole programs, same fuel -/

/-- `DelimEquiv inner a b`: `b` is `a` with some of the delimiters that separate statements, or
    that end a (successfully parsed) statement, replaced by other delimiters.  Delimiters inside a
    statement body — the `;` between matrix rows — are part of `c` and stay. -/
inductive DelimEquiv (inner : Nat) : List (Tok S) → List (Tok S) → Prop
  /-- nothing changed from here on (in particular: the empty list; a statement that fails) -/
  | refl (a : List (Tok S)) : DelimEquiv inner a a
  /-- a separating delimiter replaced -/
  | delim {d d' : Tok S} {a b : List (Tok S)} :
      isDelim d → isDelim d' → DelimEquiv inner a b → DelimEquiv inner (d :: a) (d' :: b)
  /-- the delimiter ending a statement replaced -/
  | stmt {c : List (Tok S)} {d d' : Tok S} {a b : List (Tok S)} {s : Stmt S} :
      pStatement inner (c ++ d :: a) = .ok s a → isDelim d' → DelimEquiv inner a b →
      DelimEquiv inner (c ++ d :: a) (c ++ d' :: b)

/-- prepend a statement to a loop outcome -/
def ParseRes.consStmt (s : Stmt S) : ParseRes S → ParseRes S
  | .ok ss => .ok (s :: ss)
  | other => other

/-- one loop iteration on a statement -/
theorem parseLoop_stmt {inner f : Nat} {c : List (Tok S)} {d : Tok S} {a : List (Tok S)}
    {s : Stmt S} (h : pStatement inner (c ++ d :: a) = .ok s a) :
    parseLoop inner (f + 1) (c ++ d :: a) = ParseRes.consStmt s (parseLoop inner f a) := by
  obtain ⟨hc, _, _⟩ := pStatement_split h
  cases c with
  | nil => exact absurd rfl hc
  | cons t c' =>
    have ht := pStatement_head h
    simp only [List.cons_append] at h ⊢
    have ht' : ¬ (t.tag = .newline ∨ t.tag = .semicolon) := ht
    simp only [parseLoop, Bool.or_eq_true, decide_eq_true_eq, ht', if_false, h]
    cases parseLoop inner f a <;> rfl

/-- **C17 (program).** Token lists that differ only in the kind of the delimiters between and at
    the end of statements parse to the same statements — the same result of the statement loop
    for every inner and outer fuel, errors and "out of fuel" included. -/
theorem C17_delims_program {inner : Nat} {a b : List (Tok S)} (h : DelimEquiv inner a b) :
    ∀ outer, parseLoop inner outer a = parseLoop inner outer b := by
  induction h with
  | refl a => intro outer; rfl
  | delim hd hd' _ ih =>
    intro outer
    cases outer with
    | zero => rfl
    | succ f => rw [C17_parseLoop_skip _ _ _ hd, C17_parseLoop_skip _ _ _ hd', ih f]
  | @stmt c d d' a b s hs hd' _ ih =>
    intro outer
    have hs' := C17_delims_tail hs hd' b
    cases outer with
    | zero =>
      obtain ⟨hc, _, _⟩ := pStatement_split hs
      cases c with
      | nil => exact absurd rfl hc
      | cons t c' => rfl
    | succ f => rw [parseLoop_stmt hs, parseLoop_stmt hs', ih f]

/-! ## Extra separators -/

/-- **C17 (extra separators, leading).** Any run of delimiters in front of the input is skipped,
    one unit of loop fuel per skipped token. -/
theorem C17_extra_delims (inner outer : Nat) (ds ts : List (Tok S)) (hds : ∀ d ∈ ds, isDelim d) :
    parseLoop inner (outer + ds.length) (ds ++ ts) = parseLoop inner outer ts := by
  induction ds with
  | nil => rfl
  | cons d ds ih =>
    have hd : isDelim d := hds d (by simp)
    simp only [List.length_cons, List.cons_append, ← Nat.add_assoc]
    rw [C17_parseLoop_skip _ _ _ hd]
    exact ih (fun x hx => hds x (by simp [hx]))

/-- **C17 (extra separators, after a statement).** Any run of delimiters after the delimiter that
    ends a statement is ignored: the statement is parsed as before and the loop continues with
    what follows the run. -/
theorem C17_extra_delims_after {inner : Nat} (outer : Nat) {c : List (Tok S)} {d : Tok S}
    {ts : List (Tok S)} {s : Stmt S} (ds : List (Tok S))
    (h : pStatement inner (c ++ d :: ts) = .ok s ts) (hds : ∀ x ∈ ds, isDelim x) :
    parseLoop inner (outer + ds.length + 1) (c ++ d :: (ds ++ ts)) =
      parseLoop inner (outer + 1) (c ++ d :: ts) := by
  have h' := C17_delims_tail h (pStatement_split h).2.1 (ds ++ ts)
  rw [parseLoop_stmt h, parseLoop_stmt h', C17_extra_delims inner outer ds ts hds]

/-! ## Whole programs, any fuel -/

/-- `DelimSim inner a b`: `b` is `a` with delimiters between statements added, removed or
    replaced, and delimiters that end statements replaced. -/
inductive DelimSim (inner : Nat) : List (Tok S) → List (Tok S) → Prop
  | refl (a : List (Tok S)) : DelimSim inner a a
  /-- a separating delimiter present only on the left -/
  | skipL {d : Tok S} {a b : List (Tok S)} : isDelim d → DelimSim inner a b → DelimSim inner (d :: a) b
  /-- a separating delimiter present only on the right -/
  | skipR {d : Tok S} {a b : List (Tok S)} : isDelim d → DelimSim inner a b → DelimSim inner a (d :: b)
  /-- the delimiter ending a statement replaced -/
  | stmt {c : List (Tok S)} {d d' : Tok S} {a b : List (Tok S)} {s : Stmt S} :
      pStatement inner (c ++ d :: a) = .ok s a → isDelim d' → DelimSim inner a b →
      DelimSim inner (c ++ d :: a) (c ++ d' :: b)

/-- `res` is the outcome of the statement loop on `ts` for some loop fuel -/
def LoopYields (inner : Nat) (ts : List (Tok S)) (res : ParseRes S) : Prop :=
  ∃ outer, parseLoop inner outer ts = res

theorem loopYields_delim {inner : Nat} {d : Tok S} {a : List (Tok S)} {res : ParseRes S}
    (hd : isDelim d) (hres : res ≠ .fuel) :
    LoopYields inner (d :: a) res ↔ LoopYields inner a res := by
  constructor
  · rintro ⟨outer, h⟩
    cases outer with
    | zero => exact absurd h.symm hres
    | succ f => exact ⟨f, by rw [← h, C17_parseLoop_skip _ _ _ hd]⟩
  · rintro ⟨outer, h⟩
    exact ⟨outer + 1, by rw [C17_parseLoop_skip _ _ _ hd, h]⟩

theorem loopYields_stmt {inner : Nat} {c : List (Tok S)} {d : Tok S} {a : List (Tok S)}
    {s : Stmt S} (h : pStatement inner (c ++ d :: a) = .ok s a) {res : ParseRes S}
    (hres : res ≠ .fuel) :
    LoopYields inner (c ++ d :: a) res ↔
      ∃ res', res' ≠ .fuel ∧ LoopYields inner a res' ∧ res = ParseRes.consStmt s res' := by
  have step : ∀ f, parseLoop inner (f + 1) (c ++ d :: a) =
      ParseRes.consStmt s (parseLoop inner f a) := fun f => parseLoop_stmt h
  constructor
  · rintro ⟨outer, ho⟩
    cases outer with
    | zero =>
      obtain ⟨hc, _, _⟩ := pStatement_split h
      cases c with
      | nil => exact absurd rfl hc
      | cons t c' => exact absurd ho.symm hres
    | succ f =>
      rw [step f] at ho
      refine ⟨parseLoop inner f a, ?_, ⟨f, rfl⟩, ho.symm⟩
      intro hf
      rw [hf] at ho
      exact hres ho.symm
  · rintro ⟨res', _, ⟨f, hf⟩, rfl⟩
    exact ⟨f + 1, by rw [step f, hf]⟩

/-- **C17 (program, any fuel).** Replacing statement-ending and separating delimiters by other
    delimiters and adding or removing separating delimiters changes no outcome of the statement
    loop: the same statement list, or the same error, is produced (each side with enough loop
    fuel for its own length). -/
theorem C17_program_any_fuel {inner : Nat} {a b : List (Tok S)} (h : DelimSim inner a b) :
    ∀ res, res ≠ .fuel → (LoopYields inner a res ↔ LoopYields inner b res) := by
  induction h with
  | refl a => intro res _; exact Iff.rfl
  | skipL hd _ ih => intro res hres; exact (loopYields_delim hd hres).trans (ih res hres)
  | skipR hd _ ih => intro res hres; exact (ih res hres).trans (loopYields_delim hd hres).symm
  | @stmt c d d' a b s hs hd' _ ih =>
    intro res hres
    have hs' := C17_delims_tail hs hd' b
    rw [loopYields_stmt hs hres, loopYields_stmt hs' hres]
    constructor
    · rintro ⟨res', h1, h2, h3⟩; exact ⟨res', h1, (ih res' h1).mp h2, h3⟩
    · rintro ⟨res', h1, h2, h3⟩; exact ⟨res', h1, (ih res' h1).mpr h2, h3⟩

/-! ## The hypotheses are satisfiable -/

section Examples
private def c17Tok (k : Kind S) (n : Nat) : Tok S := ⟨k, [], 1, n⟩
private def c17Nl : Tok S := c17Tok .newline 9
private def c17Semi : Tok S := c17Tok .semicolon 9
private def c17A : Tok S := c17Tok (.ident ['a']) 0
private def c17B : Tok S := c17Tok (.ident ['b']) 2

example : isDelim (c17Nl : Tok S) ∧ isDelim (c17Semi : Tok S) := ⟨Or.inl rfl, Or.inr rfl⟩
example : flipDelim (c17Nl : Tok S) = ⟨.semicolon, [';'], 1, 9⟩ := rfl
/-- `a = b` ended by a newline: hypothesis of `C17_delims`, `C17_delims_tail`, `C17_delims_flip`,
    `C17_extra_delims_after` -/
example : pStatement 40 ([c17A, c17Tok .equal 1, c17B] ++ c17Nl :: ([] : List (Tok S))) =
    .ok (.assign c17A (.ident c17B)) [] := rfl
/-- … and what `C17_delims` concludes for it -/
example : pStatement 40 ([c17A, c17Tok .equal 1, c17B] ++ c17Semi :: ([] : List (Tok S))) =
    .ok (.assign c17A (.ident c17B)) [] := C17_delims (d := c17Nl) rfl (Or.inl rfl) (Or.inr rfl)
/-- a `;` inside `[ ]` does not end the statement: the hypothesis of `C17_delims` fails for it
    (the statement `[a;b]` followed by a newline leaves `[]`, not `b ] newline`) -/
example : pStatement 40 ([c17Tok .lbracket 5, c17A] ++ c17Semi ::
      ([c17B, c17Tok .rbracket 6, c17Nl] : List (Tok S))) =
    .ok (.expr (.matrix (c17Tok .rbracket 6) [[.ident c17A], [.ident c17B]])) [] := rfl
/-- `a <newline> b ;` and `a ; b <newline>`: hypothesis of `C17_delims_program` -/
example : DelimEquiv (S := S) 40 ([c17A] ++ c17Nl :: ([c17B] ++ c17Semi :: []))
    ([c17A] ++ c17Semi :: ([c17B] ++ c17Nl :: [])) :=
  .stmt (s := .expr (.ident c17A)) rfl (Or.inr rfl)
    (.stmt (s := .expr (.ident c17B)) rfl (Or.inl rfl) (.refl []))
/-- `a <newline> b ;` and `; a ; <newline> b <newline>`: hypothesis of `C17_program_any_fuel` -/
example : DelimSim (S := S) 40 ([c17A] ++ c17Nl :: ([c17B] ++ c17Semi :: []))
    (c17Semi :: ([c17A] ++ c17Semi :: (c17Nl :: ([c17B] ++ c17Nl :: [])))) :=
  .skipR (Or.inr rfl) (.stmt (s := .expr (.ident c17A)) rfl (Or.inr rfl)
    (.skipR (Or.inl rfl) (.stmt (s := .expr (.ident c17B)) rfl (Or.inl rfl) (.refl []))))
example : ∀ d ∈ ([c17Nl, c17Semi] : List (Tok S)), isDelim d := by
  intro d hd
  simp only [List.mem_cons, List.not_mem_nil, or_false] at hd
  rcases hd with rfl | rfl
  · exact Or.inl rfl
  · exact Or.inr rfl
end Examples

/-! ## The `parse` level (fixed fuel `parseFuel`) -/

/-- **C17 (extra separators, `parse`).** Leading delimiters are ignored by `parse`. -/
theorem C17_extra_delims_parse (ds ts : List (Tok S)) (hds : ∀ d ∈ ds, isDelim d) :
    parse (ds ++ ts) = parse ts := by
  have h1 := C17_extra_delims (parseFuel (ds ++ ts).length) (ts.length + 1) ds ts hds
  have h2 : parse (ds ++ ts) =
      parseLoop (parseFuel (ds ++ ts).length) (ts.length + 1 + ds.length) (ds ++ ts) := by
    unfold parse
    congr 1
    simp; omega
  rw [h2, h1]
  exact parseLoop_eq_parse ts
    (Nat.le_trans (parseFuel_ge ts.length) (by unfold parseFuel; simp; omega)) (by omega)

example : parse ([c17Nl, c17Semi] ++ ([c17A, c17Nl] : List (Tok S))) = parse [c17A, c17Nl] :=
  C17_extra_delims_parse _ _ (by
    intro d hd
    simp only [List.mem_cons, List.not_mem_nil, or_false] at hd
    rcases hd with rfl | rfl
    · exact Or.inl rfl
    · exact Or.inr rfl)

/-- **C17 (program, `parse`).** Token lists related by `DelimSim` (delimiters between statements
    added, removed or replaced; statement-ending delimiters replaced) have the same `parse`
    outcome — the same statement list or the same error — provided the statement hypotheses of
    `DelimSim` were checked with at least the fuel `parse` uses. -/
theorem C17_delims_parse {inner : Nat} {a b : List (Tok S)} (h : DelimSim inner a b)
    (ha : 10 + 13 * a.length ≤ inner) (hb : 10 + 13 * b.length ≤ inner) : parse a = parse b := by
  have e1 := parseLoop_eq_parse (inner := inner) (outer := a.length) a ha (Nat.le_refl _)
  have hne : parse a ≠ .fuel := parse_ne_fuel a
  obtain ⟨outer, e2⟩ := (C17_program_any_fuel h (parse a) hne).mp ⟨a.length, e1⟩
  have e3 := parseLoop_mono_outer (outer' := max outer b.length) (by rw [e2]; exact hne)
    (Nat.le_max_left _ _)
  rw [← e2, ← e3]
  exact parseLoop_eq_parse b hb (Nat.le_max_right _ _)

/-- the delimiter predicate used here is the grammar's (`Tok.isDelim`, Calc.Spec.Grammar) -/
theorem isDelim_iff_grammar (t : Tok S) : isDelim t ↔ t.isDelim := Iff.rfl

/-- `DelimVariant a b`, purely in terms of the grammar: `b` is `a` with delimiters between
    statements added, removed or replaced, and the delimiter ending a statement phrase
    (`DerivesStmt`, see `Calc.Spec.Grammar`) replaced by another delimiter.  After the last such
    statement the two lists continue identically (`refl`). -/
inductive DelimVariant : List (Tok S) → List (Tok S) → Prop
  | refl (a : List (Tok S)) : DelimVariant a a
  | skipL {d : Tok S} {a b : List (Tok S)} : isDelim d → DelimVariant a b → DelimVariant (d :: a) b
  | skipR {d : Tok S} {a b : List (Tok S)} : isDelim d → DelimVariant a b → DelimVariant a (d :: b)
  | stmt {c : List (Tok S)} {d d' : Tok S} {a b : List (Tok S)} {s : Stmt S} :
      DerivesStmt c s → isDelim d → isDelim d' → DelimVariant a b →
      DelimVariant (c ++ d :: a) (c ++ d' :: b)

theorem DelimVariant.sim {a b : List (Tok S)} (h : DelimVariant a b) :
    ∃ N, ∀ inner, N ≤ inner → DelimSim inner a b := by
  induction h with
  | refl a => exact ⟨0, fun inner _ => .refl a⟩
  | skipL hd _ ih =>
    obtain ⟨N, ih⟩ := ih
    exact ⟨N, fun inner hi => .skipL hd (ih inner hi)⟩
  | skipR hd _ ih =>
    obtain ⟨N, ih⟩ := ih
    exact ⟨N, fun inner hi => .skipR hd (ih inner hi)⟩
  | @stmt c d d' a b s hs hd hd' _ ih =>
    obtain ⟨N, ih⟩ := ih
    obtain ⟨N2, h2⟩ := hs.complete
    exact ⟨N + N2, fun inner hi => .stmt (h2 inner (by omega) d a hd) hd' (ih inner (by omega))⟩

/-- **C17 (main statement, `parse`).** Replacing the newline that ends a statement by `;` or the
    reverse, and adding or removing delimiters between statements, changes nothing: `parse`
    returns the same statement list, or the same error. -/
theorem C17_delims_variant {a b : List (Tok S)} (h : DelimVariant a b) : parse a = parse b := by
  obtain ⟨N, h⟩ := h.sim
  exact C17_delims_parse (h (N + (10 + 13 * a.length) + (10 + 13 * b.length)) (by omega))
    (by omega) (by omega)

/-- `a <newline> b ;` and `; a ; <newline> b <newline>` are delimiter variants -/
example : DelimVariant ([c17A] ++ c17Nl :: ([c17B] ++ c17Semi :: ([] : List (Tok S))))
    (c17Semi :: ([c17A] ++ c17Semi :: (c17Nl :: ([c17B] ++ c17Nl :: [])))) :=
  .skipR (Or.inr rfl) (.stmt (s := .expr (.ident c17A))
    (.expr (Derives.of_primary (Derives.ident rfl))) (Or.inl rfl) (Or.inr rfl)
    (.skipR (Or.inl rfl) (.stmt (s := .expr (.ident c17B))
      (.expr (Derives.of_primary (Derives.ident rfl))) (Or.inr rfl) (Or.inl rfl) (.refl []))))

end Calc
