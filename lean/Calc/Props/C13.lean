/-
  Calc.Props.C13 — User functions dispatch by arity and literal patterns in definition order.

  A user function is an ordered list of signatures (`UserFn.sigs`).  `callUser` runs the first
  entry that `sigMatches` the arguments; `defineSig` replaces the first `sigEquiv` entry in place or
  appends; signature deletion filters with `sigEq`; the listing prints the list in order.

  `Kernel.eq` is the `==` of the scalar type and need not be reflexive (NaN).  The theorems that
  need it to be an equivalence take `heq : ∀ a b, Kernel.eq a b = true ↔ a = b` explicitly;
  all others hold for an arbitrary `Kernel.eq`.
-/
import Calc.Model.Front
import Calc.Model.Print
import Calc.Proofs.EnvLemmas
import Calc.Proofs.EvalPure
import Calc.Proofs.EnvStep
import Calc.Proofs.SigLemmas
import Calc.Proofs.SigInv
namespace Calc

/-! ## calls -/

section Call
variable {S : Type} [Kernel S]

/-- C13, "a call runs the first signature, in order of first definition, that matches; if none
    matches a diagnostic is reported".  (1) If the list splits as `pre ++ (sig, body) :: post`
    with `sig` matching and no entry of `pre` matching, the call is the body evaluated in the
    call-time table extended by the parameter bindings.  (2) If no entry matches, the result is
    the diagnostic `noMatchingSignature` at the call position, naming the function.  (3) One of
    the two cases always applies. -/
theorem C13_call_first (ev : Evaluator S) (fn : UserFn S) (line col : Nat)
    (args : List (Value S)) (env : Env S) :
    (∀ pre sig body post, fn.sigs = pre ++ (sig, body) :: post →
        sigMatches sig.params args = true →
        (∀ se ∈ pre, sigMatches se.1.params args = false) →
        callUser ev fn line col args env = (ev body (bindParams sig.params args env)).res) ∧
    ((∀ se ∈ fn.sigs, sigMatches se.1.params args = false) →
        callUser ev fn line col args env = .diag ⟨.noMatchingSignature, line, col, fn.name⟩) ∧
    ((∃ pre sig body post, fn.sigs = pre ++ (sig, body) :: post ∧
        sigMatches sig.params args = true ∧ ∀ se ∈ pre, sigMatches se.1.params args = false) ∨
      (∀ se ∈ fn.sigs, sigMatches se.1.params args = false)) := by
  refine ⟨?_, ?_, ?_⟩
  · intro pre sig body post hs hm hpre
    exact callUser_first ev fn line col args env pre post sig body hs hm hpre
  · exact callUser_none ev fn line col args env
  · rcases first_split (fun se : Sig S × Expr S => sigMatches se.1.params args) fn.sigs with
      ⟨pre, ⟨sig, body⟩, post, hs, hm, hpre⟩ | hnone
    · exact .inl ⟨pre, sig, body, post, hs, hm, hpre⟩
    · exact .inr hnone

/-- C13, "whose parameter count equals the argument count and whose literal parameters equal the
    corresponding arguments": a signature matches exactly when the counts agree and at every
    position holding a literal `z` the argument is a plain number `w` with `w == z`. -/
theorem C13_sigMatches_iff (ps : List (Param S)) (as : List (Value S)) :
    sigMatches ps as = true ↔
      ps.length = as.length ∧
      ∀ (i : Nat) (z : S), ps[i]? = some (Param.number z) →
        ∃ w : S, as[i]? = some (Value.number w) ∧ Kernel.eq w z = true :=
  sigMatches_iff ps as

omit [Kernel S] in
/-- C13, "with the named parameters bound to their arguments": the name at position `i` is bound,
    as a non-constant, to the `i`-th argument — for the LAST position at which the name occurs
    (a repeated parameter name takes the later argument). -/
theorem C13_bind_param (ps : List (Param S)) (as : List (Value S)) (env : Env S) (n : Str)
    (i : Nat) (a : Value S) (hp : ps[i]? = some (.ident n)) (ha : as[i]? = some a)
    (hlast : ∀ j, i < j → ps[j]? ≠ some (.ident n)) :
    Env.get (bindParams ps as env) n = some ⟨a, false⟩ :=
  bindParams_get_last ps as env n i a hp ha hlast

omit [Kernel S] in
/-- C13, "and other names read from the environment at call time": a name that is not a parameter
    has, inside the body, exactly the binding the table has when the call is made. -/
theorem C13_bind_other (ps : List (Param S)) (as : List (Value S)) (env : Env S) (k : Str)
    (hk : Param.ident k ∉ ps) :
    Env.get (bindParams ps as env) k = Env.get env k :=
  bindParams_get_of_not_param ps as env k hk

end Call

section CallEval
variable {S : Type} [Add S] [Sub S] [Mul S] [Div S] [Zero S] [One S] [Kernel S]

/-- C13, the call expression: when the callee evaluates to a user function and the arguments
    evaluate (left to right) to `vs`, the value of `callee(args)` is `callUser` on `vs` in the
    table the call expression was evaluated in, positioned at the opening parenthesis. -/
theorem C13_call_eval (f : Nat) (callee : Expr S) (paren : Tok S) (args : List (Expr S))
    (env : Env S) (fn : UserFn S) (vs : List (Value S))
    (hc : (eval f callee env).res = .ok (.user fn))
    (ha : (evalList (eval f) args env).1 = .ok vs) :
    (eval (f + 1) (.call callee paren args) env).res =
      callUser (eval f) fn paren.line paren.col vs env := by
  have hl := evalList_env (eval f) (eval_env f) args env
  simp only [eval, eval_env, hc]
  generalize evalList (eval f) args env = q at ha hl
  obtain ⟨r, env'⟩ := q
  simp only at ha hl
  subst ha; subst hl
  rfl

end CallEval

/-! ## definitions -/

section Define
variable {S : Type} [Kernel S]

/-- C13, "defining a signature equivalent to an existing one replaces that one in place":
    (1) if an equivalent entry exists, the FIRST one is replaced — same length, same order, every
    other entry unchanged; (2) otherwise the new entry is appended at the end; (3) one of the two
    cases always applies. -/
theorem C13_define (sigs : List (Sig S × Expr S)) (sig : Sig S) (body : Expr S) :
    (∀ pre s b post, sigs = pre ++ (s, b) :: post → sigEquiv s.params sig.params = true →
        (∀ e ∈ pre, sigEquiv e.1.params sig.params = false) →
        defineSig sigs sig body = pre ++ (sig, body) :: post) ∧
    ((∀ e ∈ sigs, sigEquiv e.1.params sig.params = false) →
        defineSig sigs sig body = sigs ++ [(sig, body)]) ∧
    ((∃ pre s b post, sigs = pre ++ (s, b) :: post ∧ sigEquiv s.params sig.params = true ∧
        ∀ e ∈ pre, sigEquiv e.1.params sig.params = false) ∨
      (∀ e ∈ sigs, sigEquiv e.1.params sig.params = false)) := by
  refine ⟨?_, defineSig_append sigs sig body, ?_⟩
  · intro pre s b post hs he hpre
    rw [hs]
    exact defineSig_replace pre post s b sig body he hpre
  · rcases first_split (fun e : Sig S × Expr S => sigEquiv e.1.params sig.params) sigs with
      ⟨pre, ⟨s, b⟩, post, hs, he, hpre⟩ | hnone
    · exact .inl ⟨pre, s, b, post, hs, he, hpre⟩
    · exact .inr hnone

/-- C13, "same count, same literals in the same positions, parameter names irrelevant": when
    `Kernel.eq` is equality, two signatures are equivalent exactly when erasing the parameter
    names makes them equal (`Param.shape` maps a name to `none` and a literal `z` to `some z`). -/
theorem C13_sigEquiv_iff (heq : ∀ a b : S, Kernel.eq a b = true ↔ a = b)
    (ps qs : List (Param S)) :
    sigEquiv ps qs = true ↔ ps.map Param.shape = qs.map Param.shape :=
  sigEquiv_iff heq ps qs

end Define

section Stmts
variable {S : Type} [Add S] [Sub S] [Mul S] [Div S] [Zero S] [One S] [Kernel S]

/-- C13, definitions at the statement level: (1) for a name bound to a non-constant user function
    the function is stored back with `defineSig` applied to its list (its recorded name is kept);
    (2) for an unbound name, and (3) for a non-constant binding to a value that is not a function,
    a new function with the single entry is stored under the name.  All three are silent. -/
theorem C13_define_step (fuel : Nat) (env : Env S) (name : Tok S) (sig : Sig S) (body : Expr S) :
    (∀ fn, Env.get env name.lexeme = some ⟨.user fn, false⟩ →
      step fuel env (.define name sig body) =
        ⟨Env.insert env name.lexeme
          ⟨.user { fn with sigs := defineSig fn.sigs sig body }, false⟩, []⟩) ∧
    (Env.get env name.lexeme = none →
      step fuel env (.define name sig body) =
        ⟨Env.insert env name.lexeme ⟨.user ⟨name.lexeme, [(sig, body)]⟩, false⟩, []⟩) ∧
    (∀ v, Env.get env name.lexeme = some ⟨v, false⟩ →
      (∀ fn, v ≠ .user fn) → (∀ n, v ≠ .native n) →
      step fuel env (.define name sig body) =
        ⟨Env.insert env name.lexeme ⟨.user ⟨name.lexeme, [(sig, body)]⟩, false⟩, []⟩) := by
  refine ⟨?_, ?_, ?_⟩
  · intro fn hg
    simp [step, hg]
  · intro hg
    simp [step, hg]
  · intro v hg hu hn
    cases v with
    | user fn => exact absurd rfl (hu fn)
    | native n => exact absurd rfl (hn n)
    | number z => simp [step, hg]
    | measurement z u => simp [step, hg]
    | matrix m => simp [step, hg]

/-! ## deletion -/

/-- C13, "deleting a signature removes exactly that one; a function whose last signature is
    deleted no longer exists".  For a name bound to a non-constant user function, with
    `kept` = the entries not `==` to the given signature: `kept` is a sublist (order preserved);
    (1) if nothing is `==`, one `noMatchingSignature` diagnostic and the table is unchanged;
    (2) if something is removed and nothing is left, the name is removed;
    (3) if something is removed and something is left, the function is stored with `kept`. -/
theorem C13_delete (fuel : Nat) (env : Env S) (name : Tok S) (sig : Sig S) (fn : UserFn S)
    (hg : Env.get env name.lexeme = some ⟨.user fn, false⟩) :
    let kept := fn.sigs.filter (fun se => !sigEq se.1.params sig.params)
    kept.Sublist fn.sigs ∧
    ((∀ se ∈ fn.sigs, sigEq se.1.params sig.params = false) →
      step fuel env (.deleteSig name sig) =
        ⟨env, [.evalErr ⟨.noMatchingSignature, name.line, name.col, fn.name⟩]⟩) ∧
    ((∃ se ∈ fn.sigs, sigEq se.1.params sig.params = true) → kept = [] →
      step fuel env (.deleteSig name sig) = ⟨Env.remove env name.lexeme, []⟩ ∧
      Env.get (step fuel env (.deleteSig name sig)).env name.lexeme = none) ∧
    ((∃ se ∈ fn.sigs, sigEq se.1.params sig.params = true) → kept ≠ [] →
      step fuel env (.deleteSig name sig) =
        ⟨Env.insert env name.lexeme ⟨.user { fn with sigs := kept }, false⟩, []⟩) := by
  intro kept
  have hlen := filter_not_length_eq_iff (fun se : Sig S × Expr S => sigEq se.1.params sig.params)
    fn.sigs
  have hne : (∃ se ∈ fn.sigs, sigEq se.1.params sig.params = true) →
      ¬ kept.length = fn.sigs.length := by
    rintro ⟨se, hm, hse⟩ he
    have := hlen.mp he se hm
    simp [hse] at this
  have hstep : step fuel env (.deleteSig name sig) =
      if kept.length = fn.sigs.length then errOut env .noMatchingSignature name fn.name
      else if kept.isEmpty then ⟨Env.remove env name.lexeme, []⟩
      else ⟨Env.insert env name.lexeme ⟨.user { fn with sigs := kept }, false⟩, []⟩ := by
    simp only [step, hg, Bool.false_eq_true, if_false]
    rfl
  refine ⟨List.filter_sublist, ?_, ?_, ?_⟩
  · intro hnone
    have : kept.length = fn.sigs.length := hlen.mpr hnone
    rw [hstep, if_pos this]
    rfl
  · intro hex hk
    have hs : step fuel env (.deleteSig name sig) = ⟨Env.remove env name.lexeme, []⟩ := by
      rw [hstep, if_neg (hne hex), if_pos (by rw [hk]; rfl)]
    rw [hs]
    exact ⟨rfl, Env.get_remove_self env name.lexeme⟩
  · intro hex hk
    rw [hstep, if_neg (hne hex), if_neg (by rw [List.isEmpty_iff]; exact hk)]

omit [Add S] [Sub S] [Mul S] [Div S] [Zero S] [One S] in
/-- C13, "removes exactly that one", under the invariant of `C13_distinct` and `Kernel.eq`
    equality: if the list is `pre ++ (s, b) :: post` with `s == sig`, the kept list is
    `pre ++ post`; in particular exactly one entry goes. -/
theorem C13_delete_exactly_one (heq : ∀ a b : S, Kernel.eq a b = true ↔ a = b)
    (pre post : List (Sig S × Expr S)) (s : Sig S) (b : Expr S) (sig : Sig S)
    (hinv : PairwiseInequiv (pre ++ (s, b) :: post)) (hs : sigEq s.params sig.params = true) :
    (pre ++ (s, b) :: post).filter (fun se => !sigEq se.1.params sig.params) = pre ++ post ∧
    ((pre ++ (s, b) :: post).filter (fun se => !sigEq se.1.params sig.params)).length + 1 =
      (pre ++ (s, b) :: post).length := by
  have h := filter_sigEq_remove_exactly heq pre post s b sig hinv hs
  rw [h]
  exact ⟨rfl, by simp; omega⟩

omit [Add S] [Sub S] [Mul S] [Div S] [Zero S] [One S] in
/-- C13, the same without naming the entry: under the invariant and `Kernel.eq` equality, if
    anything is removed then exactly one entry is. -/
theorem C13_delete_at_most_one (heq : ∀ a b : S, Kernel.eq a b = true ↔ a = b)
    (sigs : List (Sig S × Expr S)) (sig : Sig S) (hinv : PairwiseInequiv sigs)
    (hex : ∃ se ∈ sigs, sigEq se.1.params sig.params = true) :
    (sigs.filter (fun se => !sigEq se.1.params sig.params)).length + 1 = sigs.length := by
  have h1 := length_filter_not_add_countP
    (fun se : Sig S × Expr S => sigEq se.1.params sig.params) sigs
  have h2 := countP_sigEq_le_one heq hinv sig
  have h3 : 0 < sigs.countP (fun se => sigEq se.1.params sig.params) := by
    rw [List.countP_pos_iff]
    exact hex
  omega

/-! ## distinctness -/

/-- C13, the invariant "no two signatures of a function are equivalent, and no stored function has
    an empty list", when `Kernel.eq` is equality:
    (1)–(3) `sigEquiv` is an equivalence relation;
    (4) `defineSig` preserves `PairwiseInequiv` and never returns the empty list;
    (5) filtering (signature deletion) preserves `PairwiseInequiv`;
    (6) every statement preserves `FnInv` (every function value stored in the table is
        well formed) — this goes through `eval`, which only returns function values that are
        stored in the table or were passed as arguments;
    (7) hence in every table reachable by statements from a table that stores no user function,
        every visible user function has a non-empty, pairwise inequivalent signature list. -/
theorem C13_distinct (heq : ∀ a b : S, Kernel.eq a b = true ↔ a = b) :
    (∀ ps : List (Param S), sigEquiv ps ps = true) ∧
    (∀ ps qs : List (Param S), sigEquiv ps qs = true → sigEquiv qs ps = true) ∧
    (∀ ps qs rs : List (Param S), sigEquiv ps qs = true → sigEquiv qs rs = true →
      sigEquiv ps rs = true) ∧
    (∀ (sigs : List (Sig S × Expr S)) (sig : Sig S) (body : Expr S), PairwiseInequiv sigs →
      PairwiseInequiv (defineSig sigs sig body) ∧ defineSig sigs sig body ≠ []) ∧
    (∀ (sigs : List (Sig S × Expr S)) (p : Sig S × Expr S → Bool), PairwiseInequiv sigs →
      PairwiseInequiv (sigs.filter p)) ∧
    (∀ (fuel : Nat) (env : Env S) (s : Stmt S), FnInv env → FnInv (step fuel env s).env) ∧
    (∀ (fuel : Nat) (init : Env S) (ss : List (Stmt S)),
      (∀ kv ∈ init, ∀ fn, kv.2.value ≠ .user fn) →
      ∀ k fn c, Env.get (runStmts fuel init ss).env k = some ⟨.user fn, c⟩ →
        fn.sigs ≠ [] ∧ PairwiseInequiv fn.sigs) := by
  refine ⟨sigEquiv_refl heq, fun _ _ => sigEquiv_symm heq, fun _ _ _ => sigEquiv_trans heq,
    ?_, ?_, ?_, ?_⟩
  · intro sigs sig body h
    exact ⟨h.defineSig heq sig body, defineSig_ne_nil sigs sig body⟩
  · intro sigs p h
    exact h.filter p
  · intro fuel env s h
    exact fnInv_step heq fuel env s h
  · intro fuel init ss hinit k fn c hg
    have := fnInv_runStmts heq fuel ss init (FnInv.of_no_user hinit)
    exact this.get hg fn rfl

/-- C13, the invariant along a whole session (file, then expression or prompt lines) started on a
    table that stores no user function. -/
theorem C13_distinct_session (heq : ∀ a b : S, Kernel.eq a b = true ↔ a = b) (cfg : ScanCfg S)
    (fuel : Nat) (init : Env S) (file expr : Option Str) (stdin : List Str)
    (hinit : ∀ kv ∈ init, ∀ fn, kv.2.value ≠ .user fn) (k : Str) (fn : UserFn S) (c : Bool)
    (hg : Env.get (session cfg fuel init file expr stdin).env k = some ⟨.user fn, c⟩) :
    fn.sigs ≠ [] ∧ PairwiseInequiv fn.sigs :=
  (fnInv_session heq cfg fuel init file expr stdin (FnInv.of_no_user hinit)).get hg fn rfl

/-- C13, the evaluator only returns well-formed function values from a well-formed table. -/
theorem C13_eval_wellformed (fuel : Nat) (e : Expr S) (env : Env S) (hinv : FnInv env)
    (fn : UserFn S) (h : (eval fuel e env).res = .ok (.user fn)) :
    fn.sigs ≠ [] ∧ PairwiseInequiv fn.sigs :=
  eval_good fuel e env hinv _ h fn rfl

end Stmts

/-! ## listing -/

section Listing
variable {S : Type} [Kernel S]

/-- C13, "listing a function shows its signatures in dispatch order": the listing is the entries
    of the signature list, rendered one by one in list order and joined by newlines; the `i`-th
    rendered piece is the rendering of the `i`-th signature (the one `callUser` tries `i`-th);
    and `joinWith` puts the first piece first, followed by the separator and the join of the
    rest. -/
theorem C13_listing_order (fn : UserFn S) :
    showUserFn fn = joinWith ['\n'] (fn.sigs.map (showSigEntry fn.name)) ∧
    (∀ i : Nat, (fn.sigs.map (showSigEntry fn.name))[i]? = (fn.sigs[i]?).map (showSigEntry fn.name)) ∧
    (fn.sigs.map (showSigEntry fn.name)).length = fn.sigs.length ∧
    (∀ (sep x : Str), joinWith sep [x] = x) ∧
    (∀ (sep x y : Str) (ys : List Str),
      joinWith sep (x :: y :: ys) = x ++ sep ++ joinWith sep (y :: ys)) :=
  ⟨rfl, fun _ => List.getElem?_map, List.length_map _, fun _ _ => rfl, fun _ _ _ _ => rfl⟩

end Listing

/-! ## examples -/

section Example
variable {S : Type} [Kernel S]

private def pn : Param S := .ident "n".toList
private def px : Param S := .ident "x".toList
private def py : Param S := .ident "y".toList
private def pt : Param S := .ident "t".toList

/-- A literal base case defined before the general case dispatches on the literal:
    with `f(z0) = b0; f(n) = b1`, the call `f(w)` with `w == z0` runs `b0` in the call-time table
    (a literal parameter binds nothing) … -/
example (ev : Evaluator S) (z0 w : S) (b0 b1 : Expr S) (env : Env S) (l c : Nat)
    (h : Kernel.eq w z0 = true) :
    callUser ev ⟨"f".toList, [(⟨[.number z0]⟩, b0), (⟨[pn]⟩, b1)]⟩ l c [.number w] env =
      (ev b0 env).res := by
  simp [callUser, sigMatches, bindParams, h]

/-- … and with `w != z0` it runs the general case `b1` with `n` bound to the argument. -/
example (ev : Evaluator S) (z0 w : S) (b0 b1 : Expr S) (env : Env S) (l c : Nat)
    (h : Kernel.eq w z0 = false) :
    callUser ev ⟨"f".toList, [(⟨[.number z0]⟩, b0), (⟨[pn]⟩, b1)]⟩ l c [.number w] env =
      (ev b1 (Env.insert env "n".toList ⟨.number w, false⟩)).res := by
  simp [callUser, sigMatches, bindParams, h, pn]

/-- In the other definition order the general case shadows the literal one. -/
example (ev : Evaluator S) (z0 w : S) (b0 b1 : Expr S) (env : Env S) (l c : Nat) :
    callUser ev ⟨"f".toList, [(⟨[pn]⟩, b1), (⟨[.number z0]⟩, b0)]⟩ l c [.number w] env =
      (ev b1 (Env.insert env "n".toList ⟨.number w, false⟩)).res := by
  simp [callUser, List.find?_cons, sigMatches, bindParams, pn]

/-- A call with the wrong number of arguments matches nothing. -/
example (ev : Evaluator S) (z0 w : S) (b0 b1 : Expr S) (env : Env S) (l c : Nat) :
    callUser ev ⟨"f".toList, [(⟨[.number z0]⟩, b0), (⟨[pn]⟩, b1)]⟩ l c [.number w, .number w] env =
      .diag ⟨.noMatchingSignature, l, c, "f".toList⟩ := by
  simp [callUser, sigMatches, pn]

/-- Redefinition with other parameter names replaces in place: with `f(x) = b1; f(x, y) = b2`,
    defining `f(t) = b3` replaces the first entry and keeps the order. -/
example (b1 b2 b3 : Expr S) :
    defineSig [((⟨[px]⟩ : Sig S), b1), (⟨[px, py]⟩, b2)] ⟨[pt]⟩ b3 =
      [(⟨[pt]⟩, b3), (⟨[px, py]⟩, b2)] := by
  simp [defineSig, sigEquiv, paramEquiv, px, py, pt]

/-- A definition with a new arity is appended. -/
example (b1 b2 : Expr S) :
    defineSig [((⟨[px]⟩ : Sig S), b1)] ⟨[px, py]⟩ b2 = [(⟨[px]⟩, b1), (⟨[px, py]⟩, b2)] := by
  simp [defineSig, sigEquiv, paramEquiv, px, py]

/-- The invariant of `C13_distinct` / `C13_delete_exactly_one` is satisfiable. -/
example (b1 b2 : Expr S) : PairwiseInequiv [((⟨[px]⟩ : Sig S), b1), (⟨[px, py]⟩, b2)] := by
  simp [PairwiseInequiv, sigEquiv, paramEquiv, px, py]

/-- Deleting `f(x)` from `f(x) = b1; f(x, y) = b2` keeps exactly `f(x, y)`; deleting `f(t)` (other
    name) removes nothing, because deletion compares with `==`, names included. -/
example (b1 b2 : Expr S) :
    [((⟨[px]⟩ : Sig S), b1), (⟨[px, py]⟩, b2)].filter (fun se => !sigEq se.1.params [px]) =
      [(⟨[px, py]⟩, b2)] ∧
    [((⟨[px]⟩ : Sig S), b1), (⟨[px, py]⟩, b2)].filter (fun se => !sigEq se.1.params [pt]) =
      [(⟨[px]⟩, b1), (⟨[px, py]⟩, b2)] := by
  constructor <;> simp [sigEq, paramEq, px, py, pt]

end Example

end Calc
