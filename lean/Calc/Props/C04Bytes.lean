/-
  Calc.Props.C04Bytes — the byte cursor of the Rust scanner (property theorems; C04 and C01).

  The model of the scanner (Calc/Model/Scanner.lean) works on characters: "the lexeme is the list
  of characters consumed since the token started".  The Rust code works on BYTES: `Tokenizer::next`
  adds `ch.len_utf8()` to `current_pos.idx` for every character it consumes (tokenizer.rs:284),
  `prev_pos` is the cursor at the start of the pending token, and `add_token` slices
  `self.input[self.prev_pos.idx..self.current_pos.idx]` (tokenizer.rs:261) — an operation that
  PANICS when either offset is not a character boundary or lies beyond the end, and that would
  return some other text if the offsets were boundaries of the wrong characters.

  This file closes that gap inside the model: with the text encoded in UTF-8 exactly as Lean's
  `String` (and Rust's `str`) does, the byte offsets the cursor arithmetic produces for every token
  of every successful scan are character boundaries inside the text, are ordered, and the bytes
  between them are the encoding of exactly the characters the character-level model says were
  consumed — so the slice never panics and the character-level lexeme of C04 is what the byte
  slice denotes (the encoding is injective).
-/
import Calc.Props.C04Scanner
namespace Calc.Props.C04Bytes
open Calc

/-- UTF-8 encoding of a text (what `String.ofList` stores, see `enc_eq_utf8Encode`). -/
def enc (cs : List Char) : List UInt8 := cs.flatMap String.utf8EncodeChar

/-- the byte cursor: `self.current_pos.idx += ch.len_utf8()` for every consumed character -/
def idxAfter (i : Nat) (cs : List Char) : Nat := cs.foldl (fun i c => i + c.utf8Size) i

/-- Rust's `str::is_char_boundary` for an offset that `&input[a..b]` accepts: the offset is the
    length of the encoding of a prefix of the text (0 and the end included). -/
def IsBoundary (input : List Char) (i : Nat) : Prop :=
  ∃ pre post, input = pre ++ post ∧ i = (enc pre).length

/-- `&bytes[a..b]` -/
def slice (bs : List UInt8) (a b : Nat) : List UInt8 := (bs.drop a).take (b - a)

theorem enc_append (a b : List Char) : enc (a ++ b) = enc a ++ enc b := by simp [enc]

theorem enc_eq_utf8Encode (cs : List Char) : (enc cs).toByteArray = cs.utf8Encode := rfl

/-- the cursor arithmetic computes encoded lengths -/
theorem idxAfter_eq (i : Nat) (cs : List Char) : idxAfter i cs = i + (enc cs).length := by
  induction cs generalizing i with
  | nil => simp [idxAfter, enc]
  | cons c cs ih =>
    have := ih (i + c.utf8Size)
    simp only [idxAfter, List.foldl_cons] at this ⊢
    rw [this]
    simp [enc, String.length_utf8EncodeChar]
    omega

/-- **C04 (the encoding loses nothing).** Two texts with the same UTF-8 bytes are the same text, so
    "the bytes of the slice are the encoding of `ℓ`" determines the sliced string. -/
theorem C04_enc_injective (a b : List Char) (h : enc a = enc b) : a = b := by
  have h1 : (String.ofList a).toByteArray = (String.ofList b).toByteArray := by
    rw [String.toByteArray_ofList, String.toByteArray_ofList, ← enc_eq_utf8Encode,
      ← enc_eq_utf8Encode, h]
  have h2 : String.ofList a = String.ofList b := String.toByteArray_inj.mp h1
  have := congrArg String.toList h2
  simpa using this

/-- **C04 / C01 (the slice of a consumed segment).** In a text `pre ++ ℓ ++ post`, the cursor
    after `pre` and the cursor after `pre ++ ℓ` are character boundaries of the text, the first
    is not behind the second, the second is not beyond the end of the text, and the bytes between
    them are the encoding of `ℓ` — whatever the characters are (1 to 4 bytes each). -/
theorem C04_slice_segment (pre l post : List Char) :
    let input := pre ++ l ++ post
    let a := idxAfter 0 pre
    let b := idxAfter a l
    IsBoundary input a ∧ IsBoundary input b ∧ a ≤ b ∧ b ≤ (enc input).length ∧
      slice (enc input) a b = enc l := by
  intro input a b
  have ha : a = (enc pre).length := by simp [a, idxAfter_eq]
  have hb : b = (enc pre).length + (enc l).length := by simp [b, idxAfter_eq, ha]
  refine ⟨⟨pre, l ++ post, by simp [input], ha⟩, ⟨pre ++ l, post, rfl, ?_⟩, by omega, ?_, ?_⟩
  · simp [hb, enc_append]
  · simp [hb, input, enc_append]
  · simp [slice, ha, hb, input, enc_append]

/-- **C04 / C01 (every token of every scan).** For a text the scanner accepts, decomposed as
    `b₀ ℓ₁ b₁ … ℓₙ bₙ` (`C04_decomp`), take any token `ℓ` of it: the byte cursor at its start
    (`prev_pos.idx`: after everything in front of it and its leading blanks) and after it
    (`current_pos.idx`) are character boundaries of the text, in order and inside it, and
    `input[prev..cur]` is the UTF-8 encoding of the characters `ℓ` — the characters whose
    `lexemeOf` is the lexeme the token carries in the character-level model. -/
theorem C04_token_slices {S : Type} [Kernel S] (cfg : ScanCfg S) (input : List Char) (toks : List (Tok S))
    (h : scan cfg input = .ok toks) :
    ∃ segs bn, Decomp cfg Pos.start input toks segs bn ∧
      ∀ pre sg post, segs = pre ++ sg :: post →
        let a := idxAfter 0 (flat pre ++ sg.1)
        let b := idxAfter a sg.2
        IsBoundary input a ∧ IsBoundary input b ∧ a ≤ b ∧ b ≤ (enc input).length ∧
          slice (enc input) a b = enc sg.2 ∧
          ∃ t, toks[pre.length]? = some t ∧ t.lexeme = lexemeOf sg.2 := by
  obtain ⟨segs, bn, hd⟩ := Calc.C04_decomp cfg input toks h
  refine ⟨segs, bn, hd, ?_⟩
  intro pre sg post hs a b
  have htext : input = (flat pre ++ sg.1) ++ sg.2 ++ (flat post ++ bn) := by
    rw [hd.text, hs]
    have : ∀ (x : List (List Char × List Char)) y, flat (x ++ y) = flat x ++ flat y := by
      intro x y; induction x with
      | nil => rfl
      | cons p x ih => obtain ⟨p1, p2⟩ := p; simp [flat, ih]
    simp [this, flat]
  have := C04_slice_segment (flat pre ++ sg.1) sg.2 (flat post ++ bn)
  simp only at this
  rw [← htext] at this
  obtain ⟨h1, h2, h3, h4, h5⟩ := this
  obtain ⟨t, ht, _, hl, _⟩ := hd.token pre sg post hs
  exact ⟨h1, h2, h3, h4, h5, t, ht, hl⟩

/-- non-vacuity and a multi-byte instance: in `π µm` the token `µm` (two characters, three bytes)
    starts at byte 3 and ends at byte 6 -/
example : idxAfter 0 "π ".toList = 3 ∧ idxAfter 3 "µm".toList = 6 ∧
    slice (enc "π µm".toList) 3 6 = enc "µm".toList := by decide

end Calc.Props.C04Bytes
