/-
  Property C18 — A function listing shows each definition as it was written.

  "Listing a user function prints one entry per signature, `name(params) = body`, and the body,
   when read again by the calculator, has the same sequence of tokens as the body that was
   defined.  Parentheses and other groupings, operator order, keyword operators such as dot and
   cross, units, and literals are therefore neither lost, fused with their neighbours, nor
   reordered."

  Stated on the model's printers (Calc/Model/Print.lean).  The vocabulary (`Piece`, `render`,
  `Expr.pieces`, `Expr.lexemes`, `Expr.tokenCount`, `opChars`, `needsSep`, `Expr.OpLexemes`) is
  defined in Calc/Proofs/PrintExpr.lean:
    * `Expr.lexemes e`   — the lexemes of the tree in source order, defined by in-order traversal
                           (no printer involved);
    * `Expr.pieces e`    — what the printer emits, lexemes interleaved with glue (blanks);
    * `render`           — concatenation of the pieces' texts.
  A number, a measurement and a matrix literal are one lexeme each; their texts are the subject
  of C15.

  What is proved here is the printer's side of the round trip (order, completeness, separation).
  The scanner's side needed to conclude — that the scan of a concatenation of separated lexemes
  is the concatenation of the scans — is OPEN (`C18_roundtrip`, see the end of the file).
-/
import Calc.Proofs.PrintExpr
import Calc.Generated.UnicodeClasses
namespace Calc.Props.C18
open Calc

variable {S : Type} [Kernel S]

/-! ### the listing -/

/-- **C18 (one entry per signature).** The listing of a user function is its entries joined by
    line breaks, one per signature, in the order of the signatures; an entry is
    `name(p₁, …, pₙ) = body`. -/
theorem C18_listing_shape (fn : UserFn S) :
    showUserFn fn = joinWith ['\n'] (fn.sigs.map (showSigEntry fn.name)) ∧
    ∀ (sig : Sig S) (body : Expr S),
      showSigEntry fn.name (sig, body) =
        fn.name ++ "(".toList ++ joinWith ", ".toList (sig.params.map showParam) ++ ") = ".toList ++
          showExpr body :=
  ⟨rfl, fun _ _ => rfl⟩

/-- … and that is what a user function value prints. -/
theorem C18_listing_value (fn : UserFn S) : showValue (.user fn) = showUserFn fn := rfl

/-- a parameter prints as its name, or as its number (C15) -/
theorem C18_param (n : Str) (z : S) :
    showParam (S := S) (.ident n) = n ∧ showParam (.number z) = complexToString z := ⟨rfl, rfl⟩

/-! ### the body -/

/-- **C18 (nothing lost, nothing reordered).** The printed body is the concatenation of the
    pieces `Expr.pieces body`; the lexemes among these pieces are exactly the lexemes of the tree
    in source order (`Expr.lexemes`: left operand, operator, right operand; prefix operator before
    and postfix `!` after the operand; both brackets of every grouping around its contents;
    callee, `(`, arguments separated by `,`, `)`; `as` and the unit symbol after the converted
    expression); there are as many of them as the tree has tokens; and every piece of glue is a
    single blank. -/
theorem C18_printer_structure (e : Expr S) :
    showExpr e = render e.pieces ∧
    lexemesOf e.pieces = e.lexemes ∧
    e.lexemes.length = e.tokenCount ∧
    ∀ g ∈ gluesOf e.pieces, g = [' '] :=
  ⟨showExpr_eq_render e, lexemesOf_pieces e, length_lexemes e, gluesOf_pieces e⟩

/-- **C18 (groupings keep both their brackets).** -/
theorem C18_grouping (t : Tok S) (k : GKind) (e : Expr S) :
    showExpr (.grouping t k e) = openBr k ++ showExpr e ++ closeBr k ∧
    (Expr.grouping t k e).lexemes = openBr k :: e.lexemes ++ [closeBr k] := by
  constructor
  · cases k <;> simp [showExpr, openBr, closeBr]
  · simp [Expr.lexemes]

/-- **C18 (operator order).** A binary node prints left operand, operator, right operand; a
    prefix operator stands before and the postfix `!` after its operand. -/
theorem C18_operator_order (l r x : Expr S) (op : Tok S) :
    (Expr.binary l op r).lexemes = l.lexemes ++ op.lexeme :: r.lexemes ∧
    (op.tag = .bang → (Expr.unary op x).lexemes = x.lexemes ++ [op.lexeme]) ∧
    (op.tag ≠ .bang → (Expr.unary op x).lexemes = op.lexeme :: x.lexemes) := by
  refine ⟨by simp [Expr.lexemes], ?_, ?_⟩ <;> intro h <;> simp [Expr.lexemes, h]

/-- **C18 (keyword operators).** `dot` and `cross`, which may be spelled as words, are printed
    with a blank on either side, and so is `as`; the symbolic operators are printed bare. -/
theorem C18_word_operators_spaced (l r : Expr S) (op t : Tok S) (u : Unit) :
    (isWordOp op.tag = true →
      showExpr (.binary l op r) = showExpr l ++ [' '] ++ op.lexeme ++ [' '] ++ showExpr r) ∧
    (isWordOp op.tag = false → showExpr (.binary l op r) = showExpr l ++ op.lexeme ++ showExpr r) ∧
    showExpr (.as_ l t u) = showExpr l ++ " as ".toList ++ (Gen.unitSymbol u).toList := by
  refine ⟨?_, ?_, rfl⟩
  · intro h
    have h' : (decide (op.tag = Tag.dot) || decide (op.tag = Tag.cross)) = true := h
    simp [showExpr, h']
  · intro h
    have h' : (decide (op.tag = Tag.dot) || decide (op.tag = Tag.cross)) = false := h
    simp only [showExpr, h']; simp

/-- **C18 (call arguments).** A call prints callee, `(`, the arguments separated by `, `, `)`. -/
theorem C18_call (c : Expr S) (t : Tok S) (args : List (Expr S)) :
    showExpr (.call c t args) =
      showExpr c ++ ['('] ++ joinWith ", ".toList (showArgs args) ++ [')'] ∧
    showArgs args = args.map showExpr := by
  refine ⟨rfl, ?_⟩
  induction args with
  | nil => rfl
  | cons a as ih => simp [showArgs, ih]

/-- **C18 (nothing fused).** Under the hypothesis that the operator tokens of the tree carry
    their one-character lexemes (`Expr.OpLexemes`: every unary operator and every binary operator
    other than `dot`/`cross`), any two lexemes the printer puts next to each other WITHOUT a blank
    include a one-character operator, bracket or comma lexeme (one of
    `+ - * / % ^ ! √ ( ) | ⌈ ⌉ ⌊ ⌋ [ ] , • ×`). -/
theorem C18_adjacent_op (e : Expr S) (he : e.OpLexemes) (pre post : List Piece) (a b : Str)
    (h : e.pieces = pre ++ .lex a :: .lex b :: post) :
    isOpLexeme a = true ∨ isOpLexeme b = true :=
  safeB_pair pre a b post (h ▸ safeB_pieces e he)

/-- **C18 (nothing fused, in the scanner's terms).** For a scanner configuration whose
    alphanumeric class contains none of the operator characters, no two lexemes printed without
    a blank between them need one: never does the first end with a word/number character while
    the second begins with one or with the decimal point. -/
theorem C18_adjacent_safe (cfg : ScanCfg S) (hop : ∀ c ∈ opChars, cfg.isAlnum c = false)
    (e : Expr S) (he : e.OpLexemes) (pre post : List Piece) (a b : Str)
    (h : e.pieces = pre ++ .lex a :: .lex b :: post) : ¬ needsSep cfg a b :=
  not_needsSep_of_op cfg hop a b (C18_adjacent_op e he pre post a b h)

/-- **C18 (why that suffices).** An operator character is a token on its own whatever follows it
    (the scanner emits it and goes on with the rest), and it ends whatever stands before it: it
    is no identifier-continue character, no digit, not `.` and not `e`, so the scanner's word rule
    (`takeWhile isIdentCont`) and number rule (digits, `.`digits, `e`-exponent) stop in front of it. -/
theorem C18_op_char_boundary (cfg : ScanCfg S) (hop : ∀ c ∈ opChars, cfg.isAlnum c = false)
    (c : Char) (hc : c ∈ opChars) :
    (∀ (f : Nat) (cs : List Char) (p : Pos), ∃ k, singleKind (S := S) c = some k ∧
      scanLoop cfg (f + 1) (c :: cs) p =
        (scanLoop cfg f cs (adv cfg.tab p c)).cons ⟨k, [c], p.line, p.col⟩) ∧
    isIdentCont cfg c = false ∧ isDigit c = false ∧ c ≠ '.' ∧ c ≠ 'e' :=
  ⟨fun f cs p => scanLoop_opChar cfg c hc f cs p, opChar_stops cfg hop c hc⟩

/-! ### literals: the residual cases -/

/-- A number literal prints the text of its value (C15); for a real literal (imaginary part zero,
    as every literal the scanner produces) that is the text of the real part, or `0`. -/
theorem C18_number_literal (z : S) (h0 : Kernel.imIsZero z = true) (h1 : Kernel.imIsOne z = false)
    (h2 : Kernel.imIsNegOne z = false) :
    showExpr (.number z) = if Kernel.reIsZero z then ['0'] else Kernel.fmtRe z := by
  simp only [showExpr, complexToString, h0, h1, h2]
  cases Kernel.reIsZero z <;> simp

/-- A measurement literal is ONE construct: the number's text immediately followed by the unit's
    symbol (`5m`), read again as a number token followed by a unit token.  This adjacency is inside
    one lexeme of `Expr.lexemes` and is not covered by `C18_adjacent_safe`. -/
theorem C18_measurement_literal (z : S) (u : Unit) (h0 : Kernel.imIsZero z = true)
    (h1 : Kernel.imIsOne z = false) (h2 : Kernel.imIsNegOne z = false) :
    showExpr (.measurement z u) =
      (if Kernel.reIsZero z then ['0'] else Kernel.fmtRe z) ++ (Gen.unitSymbol u).toList := by
  simp only [showExpr, showMeasurement, complexToString, unitSymbol, h0, h1, h2]
  cases Kernel.reIsZero z <;> simp

/-- A matrix literal is printed by `matrixFormat` from the printed entries, row by row (C15). -/
theorem C18_matrix_literal (t : Tok S) (rows : List (List (Expr S))) :
    showExpr (.matrix t rows) = matrixFormat (rows.map fun r => r.map showExpr) := by
  have hargs : ∀ es : List (Expr S), showArgs es = es.map showExpr := by
    intro es; induction es with
    | nil => rfl
    | cons a as ih => simp [showArgs, ih]
  have hrows : ∀ rs : List (List (Expr S)), showRows rs = rs.map fun r => r.map showExpr := by
    intro rs; induction rs with
    | nil => rfl
    | cons a as ih => simp [showRows, hargs, ih]
  simp [showExpr, hrows]

/- OPEN — C18_roundtrip (T2): for a body `e` produced by the parser (so `e.OpLexemes`), without
   matrix literals and with finite non-negative real literals,
       scan cfg (showExpr e) = .ok toks  ∧  toks.map (·.kind) = the token kinds of `e` in order.
   The printer's half is `C18_printer_structure` + `C18_adjacent_safe` + `C18_op_char_boundary`;
   the missing half is the compositionality of `scanLoop` over `render` (scanner theorems of
   Calc/Proofs/Scan*.lean) and the fact that `Kernel.fmtRe` of a literal is a `NumberText` that
   reads back as the literal (a hypothesis on the formatter of reals, cf. `Spec.FmtSpec`).
   Known limits of the statement, true of the implementation and of the model alike: a literal whose
   value prints as `inf` or `NaN` reads back as an identifier; a number node holding a value with two
   non-zero parts prints as `a + bi` without parentheses (the parser never builds one). -/

/-! ### the hypotheses are satisfiable -/

/-- the shipped class table of `char::is_alphanumeric` contains none of the operator characters -/
example : ∀ c ∈ opChars, (Gen.alnumRanges.any fun r => r.1 ≤ c.toNat && c.toNat ≤ r.2) = false := by
  decide +kernel

/-- `Expr.OpLexemes` holds of the tree of `-(a+2)!`, and its printed text is that -/
example (z : S) (h : complexToString z = ['2']) :
    let minus : Tok S := ⟨.minus, ['-'], 1, 1⟩
    let plus : Tok S := ⟨.plus, ['+'], 1, 4⟩
    let bang : Tok S := ⟨.bang, ['!'], 1, 7⟩
    let lp : Tok S := ⟨.lparen, ['('], 1, 2⟩
    let a : Tok S := ⟨.ident ['a'], ['a'], 1, 3⟩
    let e : Expr S := .unary minus (.unary bang (.grouping lp .grouping (.binary (.ident a) plus (.number z))))
    e.OpLexemes ∧ showExpr e = "-(a+2)!".toList ∧ e.tokenCount = 7 := by
  refine ⟨?_, ?_, rfl⟩
  · simp only [Expr.OpLexemes]
    exact ⟨by decide, by decide, fun _ => by decide, trivial, trivial⟩
  · simp [showExpr, Tok.tag, Kind.tag, h]

end Calc.Props.C18
