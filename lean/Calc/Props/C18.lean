/-
  Property C18 — A function listing shows each definition as it was written.

  "Listing a user function prints one entry per signature, `name(params) = body`, and the body,
   when read again by the calculator, has the same sequence of tokens as the body that was
   defined.  Parentheses and other groupings, operator order, keyword operators such as dot and
   cross, units, and literals are therefore neither lost, fused with their neighbours, nor
   reordered."

  Stated on the model's printers (Calc/Model/Print.lean).  The vocabulary (`Piece`, `render`,
  `Expr.pieces`, `Expr.lexemes`, `Expr.tokenCount`, `opChars`, `needsSep`, `Expr.OpLexemes`) is
  defined in Calc/Proofs/PrintExpr.lean:
    * `Expr.lexemes e`   — the lexemes of the tree in source order, defined by in-order traversal
                           (no printer involved);
    * `Expr.pieces e`    — what the printer emits, lexemes interleaved with glue (blanks);
    * `render`           — concatenation of the pieces' texts.
  A number, a measurement and a matrix literal are one lexeme each; their texts are the subject
  of C15.

  The round trip itself (`C18_roundtrip`) is proved from the definition of the scanner
  (Calc/Proofs/PrintRoundtrip.lean), under explicit hypotheses on the lexemes of the tree.
-/
import Calc.Proofs.PrintRoundtrip
import Calc.Generated.UnicodeClasses
import Calc.Props.C05
namespace Calc.Props.C18
open Calc

variable {S : Type} [Kernel S]

/-! ### the listing -/

/-- **C18 (one entry per signature).** The listing of a user function is its entries joined by
    line breaks, one per signature, in the order of the signatures; an entry is
    `name(p₁, …, pₙ) = body`. -/
theorem C18_listing_shape (fn : UserFn S) :
    showUserFn fn = joinWith ['\n'] (fn.sigs.map (showSigEntry fn.name)) ∧
    ∀ (sig : Sig S) (body : Expr S),
      showSigEntry fn.name (sig, body) =
        fn.name ++ "(".toList ++ joinWith ", ".toList (sig.params.map showParam) ++ ") = ".toList ++
          showExpr body :=
  ⟨rfl, fun _ _ => rfl⟩

/-- … and that is what a user function value prints. -/
theorem C18_listing_value (fn : UserFn S) : showValue (.user fn) = showUserFn fn := rfl

/-- a parameter prints as its name, or as its number (C15) -/
theorem C18_param (n : Str) (z : S) :
    showParam (S := S) (.ident n) = n ∧ showParam (.number z) = complexToString z := ⟨rfl, rfl⟩

/-! ### the body -/

/-- **C18 (nothing lost, nothing reordered).** The printed body is the concatenation of the
    pieces `Expr.pieces body`; the lexemes among these pieces are exactly the lexemes of the tree
    in source order (`Expr.lexemes`: left operand, operator, right operand; prefix operator before
    and postfix `!` after the operand; both brackets of every grouping around its contents;
    callee, `(`, arguments separated by `,`, `)`; `as` and the unit symbol after the converted
    expression); there are as many of them as the tree has tokens; and every piece of glue is a
    single blank. -/
theorem C18_printer_structure (e : Expr S) :
    showExpr e = render e.pieces ∧
    lexemesOf e.pieces = e.lexemes ∧
    e.lexemes.length = e.tokenCount ∧
    ∀ g ∈ gluesOf e.pieces, g = [' '] :=
  ⟨showExpr_eq_render e, lexemesOf_pieces e, length_lexemes e, gluesOf_pieces e⟩

/-- **C18 (groupings keep both their brackets).** -/
theorem C18_grouping (t : Tok S) (k : GKind) (e : Expr S) :
    showExpr (.grouping t k e) = openBr k ++ showExpr e ++ closeBr k ∧
    (Expr.grouping t k e).lexemes = openBr k :: e.lexemes ++ [closeBr k] := by
  constructor
  · cases k <;> simp [showExpr, openBr, closeBr]
  · simp [Expr.lexemes]

/-- **C18 (operator order).** A binary node prints left operand, operator, right operand; a
    prefix operator stands before and the postfix `!` after its operand. -/
theorem C18_operator_order (l r x : Expr S) (op : Tok S) :
    (Expr.binary l op r).lexemes = l.lexemes ++ op.lexeme :: r.lexemes ∧
    (op.tag = .bang → (Expr.unary op x).lexemes = x.lexemes ++ [op.lexeme]) ∧
    (op.tag ≠ .bang → (Expr.unary op x).lexemes = op.lexeme :: x.lexemes) := by
  refine ⟨by simp [Expr.lexemes], ?_, ?_⟩ <;> intro h <;> simp [Expr.lexemes, h]

/-- **C18 (keyword operators).** `dot` and `cross`, which may be spelled as words, are printed
    with a blank on either side, and so is `as`; the symbolic operators are printed bare. -/
theorem C18_word_operators_spaced (l r : Expr S) (op t : Tok S) (u : Unit) :
    (isWordOp op.tag = true →
      showExpr (.binary l op r) = showExpr l ++ [' '] ++ op.lexeme ++ [' '] ++ showExpr r) ∧
    (isWordOp op.tag = false → showExpr (.binary l op r) = showExpr l ++ op.lexeme ++ showExpr r) ∧
    showExpr (.as_ l t u) = showExpr l ++ " as ".toList ++ (Gen.unitSymbol u).toList := by
  refine ⟨?_, ?_, rfl⟩
  · intro h
    have h' : (decide (op.tag = Tag.dot) || decide (op.tag = Tag.cross)) = true := h
    simp [showExpr, h']
  · intro h
    have h' : (decide (op.tag = Tag.dot) || decide (op.tag = Tag.cross)) = false := h
    simp only [showExpr, h']; simp

/-- **C18 (call arguments).** A call prints callee, `(`, the arguments separated by `, `, `)`. -/
theorem C18_call (c : Expr S) (t : Tok S) (args : List (Expr S)) :
    showExpr (.call c t args) =
      showExpr c ++ ['('] ++ joinWith ", ".toList (showArgs args) ++ [')'] ∧
    showArgs args = args.map showExpr := by
  refine ⟨rfl, ?_⟩
  induction args with
  | nil => rfl
  | cons a as ih => simp [showArgs, ih]

/-- **C18 (nothing fused).** Under the hypothesis that the operator tokens of the tree carry
    their one-character lexemes (`Expr.OpLexemes`: every unary operator and every binary operator
    other than `dot`/`cross`), any two lexemes the printer puts next to each other WITHOUT a blank
    include a one-character operator, bracket or comma lexeme (one of
    `+ - * / % ^ ! √ ( ) | ⌈ ⌉ ⌊ ⌋ [ ] , • ×`). -/
theorem C18_adjacent_op (e : Expr S) (he : e.OpLexemes) (pre post : List Piece) (a b : Str)
    (h : e.pieces = pre ++ .lex a :: .lex b :: post) :
    isOpLexeme a = true ∨ isOpLexeme b = true :=
  safeB_pair pre a b post (h ▸ safeB_pieces e he)

/-- **C18 (nothing fused, in the scanner's terms).** For a scanner configuration whose
    alphanumeric class contains none of the operator characters, no two lexemes printed without
    a blank between them need one: never does the first end with a word/number character while
    the second begins with one or with the decimal point. -/
theorem C18_adjacent_safe (cfg : ScanCfg S) (hop : ∀ c ∈ opChars, cfg.isAlnum c = false)
    (e : Expr S) (he : e.OpLexemes) (pre post : List Piece) (a b : Str)
    (h : e.pieces = pre ++ .lex a :: .lex b :: post) : ¬ needsSep cfg a b :=
  not_needsSep_of_op cfg hop a b (C18_adjacent_op e he pre post a b h)

/-- **C18 (why that suffices).** An operator character is a token on its own whatever follows it
    (the scanner emits it and goes on with the rest), and it ends whatever stands before it: it
    is no identifier-continue character, no digit, not `.` and not `e`, so the scanner's word rule
    (`takeWhile isIdentCont`) and number rule (digits, `.`digits, `e`-exponent) stop in front of it. -/
theorem C18_op_char_boundary (cfg : ScanCfg S) (hop : ∀ c ∈ opChars, cfg.isAlnum c = false)
    (c : Char) (hc : c ∈ opChars) :
    (∀ (f : Nat) (cs : List Char) (p : Pos), ∃ k, singleKind (S := S) c = some k ∧
      scanLoop cfg (f + 1) (c :: cs) p =
        (scanLoop cfg f cs (adv cfg.tab p c)).cons ⟨k, [c], p.line, p.col⟩) ∧
    isIdentCont cfg c = false ∧ isDigit c = false ∧ c ≠ '.' ∧ c ≠ 'e' :=
  ⟨fun f cs p => scanLoop_opChar cfg c hc f cs p, opChar_stops cfg hop c hc⟩

/-! ### literals: the residual cases -/

/-- A number literal prints the text of its value (C15); for a real literal (imaginary part zero,
    as every literal the scanner produces) that is the text of the real part, or `0`. -/
theorem C18_number_literal (z : S) (h0 : Kernel.imIsZero z = true) (h1 : Kernel.imIsOne z = false)
    (h2 : Kernel.imIsNegOne z = false) :
    showExpr (.number z) = if Kernel.reIsZero z then ['0'] else Kernel.fmtRe z := by
  simp only [showExpr, complexToString, h0, h1, h2]
  cases Kernel.reIsZero z <;> simp

/-- A measurement literal is ONE construct: the number's text immediately followed by the unit's
    symbol (`5m`), read again as a number token followed by a unit token.  This adjacency is inside
    one lexeme of `Expr.lexemes` and is not covered by `C18_adjacent_safe`. -/
theorem C18_measurement_literal (z : S) (u : Unit) (h0 : Kernel.imIsZero z = true)
    (h1 : Kernel.imIsOne z = false) (h2 : Kernel.imIsNegOne z = false) :
    showExpr (.measurement z u) =
      (if Kernel.reIsZero z then ['0'] else Kernel.fmtRe z) ++ (Gen.unitSymbol u).toList := by
  simp only [showExpr, showMeasurement, complexToString, unitSymbol, h0, h1, h2]
  cases Kernel.reIsZero z <;> simp

/-- A matrix literal is printed by `matrixFormat` from the printed entries, row by row (C15). -/
theorem C18_matrix_literal (t : Tok S) (rows : List (List (Expr S))) :
    showExpr (.matrix t rows) = matrixFormat (rows.map fun r => r.map showExpr) := by
  have hargs : ∀ es : List (Expr S), showArgs es = es.map showExpr := by
    intro es; induction es with
    | nil => rfl
    | cons a as ih => simp [showArgs, ih]
  have hrows : ∀ rs : List (List (Expr S)), showRows rs = rs.map fun r => r.map showExpr := by
    intro rs; induction rs with
    | nil => rfl
    | cons a as ih => simp [showRows, hargs, ih]
  simp [showExpr, hrows]

/-! ### the round trip -/

/-- **C18 (round trip, T2).** Reading the printed body again gives the body's tokens: for a tree
    whose lexemes are what the scanner makes of them (`Expr.TreeOK cfg`, below) and a scanner whose
    alphanumeric class contains neither an operator character nor the blank, scanning `showExpr e`
    succeeds and the kinds of the tokens — number values, unit, identifier names included — are
    `Expr.kinds e`: the kinds of the tree's tokens in source order.

    `Expr.TreeOK cfg e` says, node by node:
    * a unary operator, and a binary operator other than `dot`/`cross`, is a token made of one
      operator character (`OpTok`); `dot`/`cross` is that or a word the scanner reads as that
      operator (`WordLex`: begins with an identifier-start character, consists of
      identifier-continue characters, and the keyword table gives the operator's kind);
    * an identifier's lexeme is such a word, read as the identifier token's own kind;
    * `as` is a keyword of the table, and the printed symbol of every unit mentioned is a word
      that the table reads as that unit;
    * the text printed for a number literal `z` is a number literal of value `z`
      (`NumLit`: begins with a digit, is what the scanner's number rule consumes in front of
      anything that is no digit, `.` or `e`, and its decimal value is `z`); a measurement literal
      has such a number and not both parts non-zero;
    * there is no matrix literal. -/
theorem C18_roundtrip (cfg : ScanCfg S) (hop : ∀ c ∈ opChars, cfg.isAlnum c = false)
    (hblank : cfg.isAlnum ' ' = false) (e : Expr S) (he : e.TreeOK cfg) :
    ∃ toks, scan cfg (showExpr e) = .ok toks ∧ toks.map (·.kind) = e.kinds :=
  scan_showExpr cfg hop hblank e he

/-- … in any context: in front of any rest that begins with a character that ends words and
    numbers (as `)`, `,`, a blank, a line break do), the scanner reads the tokens of the body and
    continues with the rest. -/
theorem C18_roundtrip_in_context (cfg : ScanCfg S) (hop : ∀ c ∈ opChars, cfg.isAlnum c = false)
    (hblank : cfg.isAlnum ' ' = false) (e : Expr S) (he : e.TreeOK cfg) :
    ScansAs cfg (showExpr e) e.kinds (stop cfg) :=
  scansAs_showExpr cfg hop hblank e he

/-- **C18 (units, on the shipped keyword table).** Every unit that a token can carry — every unit
    some spelling of the shipped keyword table denotes — prints a symbol that the table reads as
    that very unit. -/
theorem C18_unit_symbols_read_back :
    ∀ p ∈ Gen.keywordTable, ∀ u : Unit, p.2 = .unit u →
      C05.lookup (Gen.unitSymbol u) = some (.unit u) := by
  have h : ∀ p ∈ Gen.keywordTable, ∀ u ∈ Unit.all, p.2 = .unit u →
      C05.lookup (Gen.unitSymbol u) = some (.unit u) := by decide +kernel
  exact fun p hp u => h p hp u (C05.unit_all_complete u)

/-- … and so does every unit other than the yard and the mile. -/
theorem C18_unit_symbols_read_back_partial : ∀ u : Unit, u ≠ .distance .yard → u ≠ .distance .mile →
    C05.lookup (Gen.unitSymbol u) = some (.unit u) := by
  have h : ∀ u ∈ Unit.all, u ≠ .distance .yard → u ≠ .distance .mile →
      C05.lookup (Gen.unitSymbol u) = some (.unit u) := by decide +kernel
  exact fun u => h u (C05.unit_all_complete u)

/- OPEN (false on the current tree):
     theorem C18_unit_symbols_read_back_all : ∀ u, C05.lookup (Gen.unitSymbol u) = some (.unit u)
   The hypothesis `WordLex cfg (unitSymbol u) (.unit u)` of `C18_roundtrip` FAILS for the yard and
   for the mile with the shipped table (next theorem).  No text can denote these two units (no
   spelling of the table does — the yard's spellings denote the foot, known finding K2; the mile
   has no spelling at all), so no parsed body contains them; a yard written `yd` is a foot in the
   tree and is listed as `ft`. -/

/-- the negation at the witnesses: the yard's printed symbol reads back as the foot, the mile's
    printed symbol is no keyword (it reads back as an identifier) — and no spelling of the shipped
    table denotes either unit -/
theorem C18_yard_mile_counterexample :
    C05.lookup (Gen.unitSymbol (.distance .yard)) = some (.unit (.distance .foot)) ∧
    C05.lookup (Gen.unitSymbol (.distance .mile)) = none ∧
    ∀ p ∈ Gen.keywordTable, p.2 ≠ .unit (.distance .yard) ∧ p.2 ≠ .unit (.distance .mile) := by
  decide +kernel

/-- the keywords the printer emits are in the shipped table -/
theorem C18_keywords_read_back :
    C05.lookup "as" = some .as_ ∧ C05.lookup "dot" = some .dot ∧ C05.lookup "cross" = some .cross := by
  decide +kernel

/- Known limits of `C18_roundtrip`, true of the implementation and of the model alike (they are
   hypotheses of `Expr.TreeOK`, not conclusions): a literal whose value prints as `inf` or `NaN`,
   or in a form the scanner's number rule does not read back to the same value, is not a `NumLit`;
   a number node holding a value with two non-zero parts prints as `a + bi` without parentheses
   (the parser never builds one); matrix literals are excluded (their layout, with padding blanks
   and line breaks, is the subject of C15). -/

/-! ### the hypotheses are satisfiable -/

/-- the shipped class table of `char::is_alphanumeric` contains none of the operator characters,
    nor the blank (hypotheses `hop`, `hblank`) -/
example :
    ∀ c ∈ ' ' :: opChars,
      (Gen.alnumRanges.toList.any fun r => r.1 ≤ c.toNat && c.toNat ≤ r.2) = false := by
  decide +kernel

/-- `Expr.OpLexemes` holds of the tree of `-(a+2)!`, and its printed text is that -/
example (z : S) (h : complexToString z = ['2']) :
    let minus : Tok S := ⟨.minus, ['-'], 1, 1⟩
    let plus : Tok S := ⟨.plus, ['+'], 1, 4⟩
    let bang : Tok S := ⟨.bang, ['!'], 1, 7⟩
    let lp : Tok S := ⟨.lparen, ['('], 1, 2⟩
    let a : Tok S := ⟨.ident ['a'], ['a'], 1, 3⟩
    let e : Expr S := .unary minus (.unary bang (.grouping lp .grouping (.binary (.ident a) plus (.number z))))
    e.OpLexemes ∧ showExpr e = "-(a+2)!".toList ∧ e.tokenCount = 7 := by
  refine ⟨?_, ?_, rfl⟩
  · simp only [Expr.OpLexemes]
    exact ⟨by decide, by decide, fun _ => by decide, trivial, trivial⟩
  · simp [showExpr, Tok.tag, Kind.tag, h]


/-- a run of digits is a number literal (`NumLit`) -/
example : NumLit (S := S) "42".toList (Kernel.ofDecimal 42 0) :=
  numLit_digits "42".toList (by decide) (by decide)

/-- `Expr.TreeOK` holds of the tree of `-(a+2)!` when `a` is alphanumeric and no keyword and the
    literal prints as `2`; so its printed text scans to the seven kinds `- ( a + 2 ) !` -/
example (cfg : ScanCfg S) (hop : ∀ c ∈ opChars, cfg.isAlnum c = false)
    (hblank : cfg.isAlnum ' ' = false) (ha : cfg.isAlnum 'a' = true) (hk : cfg.keyword ['a'] = none)
    (h2 : complexToString (Kernel.ofDecimal 2 0 : S) = ['2']) :
    ∃ toks, scan cfg "-(a+2)!".toList = .ok toks ∧
      toks.map (·.kind) =
        [.minus, .lparen, .ident ['a'], .plus, .number (Kernel.ofDecimal 2 0), .rparen, .bang] := by
  let minus : Tok S := ⟨.minus, ['-'], 1, 1⟩
  let plus : Tok S := ⟨.plus, ['+'], 1, 4⟩
  let bang : Tok S := ⟨.bang, ['!'], 1, 7⟩
  let lp : Tok S := ⟨.lparen, ['('], 1, 2⟩
  let a : Tok S := ⟨.ident ['a'], ['a'], 1, 3⟩
  let e : Expr S := .unary minus (.unary bang (.grouping lp .grouping
    (.binary (.ident a) plus (.number (Kernel.ofDecimal 2 0)))))
  have hOK : e.TreeOK cfg := by
    simp only [e, Expr.TreeOK]
    refine ⟨⟨'-', rfl, by decide, by simp [singleKind, minus]⟩, ⟨'!', rfl, by decide, by simp [singleKind, bang]⟩, ?_, ?_, ?_⟩
    · show OpTok plus
      exact ⟨'+', rfl, by decide, by simp [singleKind, plus]⟩
    · refine ⟨⟨'a', [], rfl, by decide⟩, ?_, ?_⟩
      · intro d hd; simp only [a, List.mem_singleton] at hd; subst hd; simp [isIdentCont, ha]
      · simp [wordKindOf, a, hk]
    · rw [h2]
      exact numLit_digits ['2'] (by decide) (by decide)
  have hshow : showExpr e = "-(a+2)!".toList := by
    simp [e, minus, plus, bang, a, showExpr, Tok.tag, Kind.tag, h2]
  obtain ⟨toks, h1, h3⟩ := C18_roundtrip cfg hop hblank e hOK
  refine ⟨toks, hshow ▸ h1, ?_⟩
  rw [h3]
  simp [e, minus, plus, bang, a, Expr.kinds, Tok.tag, Kind.tag, openKind, closeKind]

end Calc.Props.C18
