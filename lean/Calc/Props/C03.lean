/-
  Calc.Props.C03 — the parser reads exactly the documented grammar (`Calc.Spec.Grammar`).
  Property theorems only; proofs are in Calc/Proofs/ParseSound.lean (soundness),
  ParseComplete.lean (completeness per level), ParseProgram.lean (statements, programs).
-/
import Calc.Proofs.ParseProgram
import Calc.Proofs.ParseTokens
namespace Calc
variable {S : Type}

/-- C03 (soundness, every function): whatever any of the 22 parser functions accepts is a
    phrase of the documented grammar at that function's level, and the returned tree is the
    reading the grammar gives it; the input is the consumed phrase followed by the returned
    rest.  (`SoundAt` spells out the statement per function; loops are in accumulator form.) -/
theorem C03_sound : ∀ f, SoundAt S f := soundAt

/-- C03 (soundness, expressions): if `expression` accepts, the consumed prefix `c` is derived
    by the grammar at level `expr` with exactly the returned tree. -/
theorem C03_sound_expression (f : Nat) (ts : List (Tok S)) (e : Expr S) (r : List (Tok S))
    (h : pExpression f ts = .ok e r) : ∃ c, ts = c ++ r ∧ Derives .expr c e :=
  (soundAt f).expression ts e r h

/-- C03 (statement shapes): if `statement` accepts, the input is a statement phrase `c` in one
    of the documented shapes (`DerivesStmt`: `clear`; `delete x`; `delete f(p…)`; `x = e`;
    `f(p…) = e` with every `p` an identifier or a number literal; or an expression), followed by
    a delimiter token `d`, followed by the returned rest. -/
theorem C03_stmt_shapes (f : Nat) (ts : List (Tok S)) (s : Stmt S) (r : List (Tok S))
    (h : pStatement f ts = .ok s r) :
    ∃ c d, ts = c ++ d :: r ∧ d.isDelim ∧ DerivesStmt c s :=
  pStatement_sound h

/-- C03 (statement shapes, spelled out per form). -/
theorem C03_stmt_shapes_cases (f : Nat) (ts : List (Tok S)) (s : Stmt S) (r : List (Tok S))
    (h : pStatement f ts = .ok s r) :
    (∃ t d, s = .clear ∧ ts = t :: d :: r ∧ t.tag = .clear ∧ d.isDelim) ∨
    (∃ del name n d, s = .deleteVar name ∧ ts = del :: name :: d :: r ∧ del.tag = .delete ∧
        name.kind = .ident n ∧ d.isDelim) ∨
    (∃ del name lp args ps c d, s = .deleteSig name ⟨ps⟩ ∧ ts = del :: c ++ d :: r ∧
        del.tag = .delete ∧ Derives .expr c (.call (.ident name) lp args) ∧
        DerivesParams args ps ∧ d.isDelim) ∨
    (∃ name n eq c e d, s = .assign name e ∧ ts = name :: eq :: c ++ d :: r ∧
        name.kind = .ident n ∧ eq.tag = .equal ∧ Derives .expr c e ∧ d.isDelim) ∨
    (∃ name lp args ps c₁ eq c₂ body d, s = .define name ⟨ps⟩ body ∧
        ts = c₁ ++ eq :: c₂ ++ d :: r ∧ Derives .expr c₁ (.call (.ident name) lp args) ∧
        DerivesParams args ps ∧ eq.tag = .equal ∧ Derives .expr c₂ body ∧ d.isDelim) ∨
    (∃ c e d, s = .expr e ∧ ts = c ++ d :: r ∧ Derives .expr c e ∧ d.isDelim) := by
  obtain ⟨c, d, rfl, hd, ds⟩ := pStatement_sound h
  cases ds with
  | clear ht => exact Or.inl ⟨_, d, rfl, rfl, ht, hd⟩
  | deleteVar hdel hn => exact Or.inr (Or.inl ⟨_, _, _, d, rfl, rfl, hdel, hn, hd⟩)
  | deleteSig hdel hc hp =>
    exact Or.inr (Or.inr (Or.inl ⟨_, _, _, _, _, _, d, rfl, rfl, hdel, hc, hp, hd⟩))
  | assign hn heq he =>
    exact Or.inr (Or.inr (Or.inr (Or.inl ⟨_, _, _, _, _, d, rfl, by simp, hn, heq, he, hd⟩)))
  | define hc hp heq hb =>
    exact Or.inr (Or.inr (Or.inr (Or.inr (Or.inl
      ⟨_, _, _, _, _, _, _, _, d, rfl, by simp, hc, hp, heq, hb, hd⟩))))
  | expr he => exact Or.inr (Or.inr (Or.inr (Or.inr (Or.inr ⟨_, _, d, rfl, rfl, he, hd⟩))))

/-- C03 (shape of a signature target): the left side of a function definition, and the operand
    of `delete f(…)`, is literally `IDENT "(" … ")"` where the tokens between the parentheses are
    single identifier tokens and number tokens separated by commas (possibly none). -/
theorem C03_signature_shape (c : List (Tok S)) (name lp : Tok S) (args : List (Expr S))
    (ps : List (Param S)) (h : Derives .expr c (.call (.ident name) lp args))
    (hp : DerivesParams args ps) :
    ∃ ca rp n, c = name :: lp :: ca ++ [rp] ∧ name.kind = .ident n ∧ lp.tag = .lparen ∧
      rp.tag = .rparen ∧ ∀ t ∈ ca, t.tag = .ident ∨ t.tag = .number ∨ t.tag = .comma := by
  obtain ⟨ca, rp, n, hc, hn, hl, hr, ha⟩ := h.call_ident_inv
  refine ⟨ca, rp, n, hc, hn, hl, hr, ?_⟩
  rcases ha with ⟨rfl, _⟩ | ha
  · intro t ht; simp at ht
  · exact ha.params_inv hp

/-- C03 (every statement must be terminated): whenever `statement` accepts, the token just
    before the returned rest is a `newline` or `;` token. -/
theorem C03_delimiter_required (f : Nat) (ts : List (Tok S)) (s : Stmt S) (r : List (Tok S))
    (h : pStatement f ts = .ok s r) :
    ∃ c d, ts = c ++ d :: r ∧ (d.tag = .newline ∨ d.tag = .semicolon) :=
  let ⟨c, d, h1, h2, _⟩ := pStatement_sound h; ⟨c, d, h1, h2⟩

/-- C03 (whole programs): an accepted token list is a sequence of delimiter-terminated
    statements of the documented shapes, with extra delimiters between them, and the returned
    statement list is its reading. -/
theorem C03_sound_program (ts : List (Tok S)) (ss : List (Stmt S)) (h : parse ts = .ok ss) :
    DerivesProgram ts ss :=
  parse_sound h

/-! ### Precedence and associativity on concrete phrases

Tokens are built with their column as an index, so that the operator token stored at each node
identifies which occurrence it is. -/

section Examples
/-- a token of kind `k` at column `n` -/
def exTok (k : Kind S) (n : Nat) : Tok S := ⟨k, [], 1, n⟩
/-- an identifier token at column `n` -/
def exId (c : Char) (n : Nat) : Tok S := exTok (.ident [c]) n
local notation "𝐚" => exId 'a' 0
local notation "𝐛" => exId 'b' 2
local notation "𝐜" => exId 'c' 4

/-- `a + b * c` is `a + (b * c)` -/
example : pExpression 40 ([𝐚, exTok .plus 1, 𝐛, exTok .star 3, 𝐜] : List (Tok S)) =
    .ok (.binary (.ident 𝐚) (exTok .plus 1) (.binary (.ident 𝐛) (exTok .star 3) (.ident 𝐜))) [] :=
  rfl
/-- `a - b - c` is `(a - b) - c` -/
example : pExpression 40 ([𝐚, exTok .minus 1, 𝐛, exTok .minus 3, 𝐜] : List (Tok S)) =
    .ok (.binary (.binary (.ident 𝐚) (exTok .minus 1) (.ident 𝐛)) (exTok .minus 3) (.ident 𝐜)) [] :=
  rfl
/-- `a ^ b ^ c` is `a ^ (b ^ c)` -/
example : pExpression 40 ([𝐚, exTok .caret 1, 𝐛, exTok .caret 3, 𝐜] : List (Tok S)) =
    .ok (.binary (.ident 𝐚) (exTok .caret 1) (.binary (.ident 𝐛) (exTok .caret 3) (.ident 𝐜))) [] :=
  rfl
/-- `-a ^ b` is `(-a) ^ b` (prefix minus binds tighter than `^`) -/
example : pExpression 40 ([exTok .minus 9, 𝐚, exTok .caret 1, 𝐛] : List (Tok S)) =
    .ok (.binary (.unary (exTok .minus 9) (.ident 𝐚)) (exTok .caret 1) (.ident 𝐛)) [] :=
  rfl
/-- `a dot b cross c` is `a dot (b cross c)` -/
example : pExpression 40 ([𝐚, exTok .dot 1, 𝐛, exTok .cross 3, 𝐜] : List (Tok S)) =
    .ok (.binary (.ident 𝐚) (exTok .dot 1) (.binary (.ident 𝐛) (exTok .cross 3) (.ident 𝐜))) [] :=
  rfl
/-- `a cross b dot c` is `(a cross b) dot c` -/
example : pExpression 40 ([𝐚, exTok .cross 1, 𝐛, exTok .dot 3, 𝐜] : List (Tok S)) =
    .ok (.binary (.binary (.ident 𝐚) (exTok .cross 1) (.ident 𝐛)) (exTok .dot 3) (.ident 𝐜)) [] :=
  rfl
/-- `-a!` is `-(a!)` (postfix `!` binds tighter than prefix minus) -/
example : pExpression 40 ([exTok .minus 9, 𝐚, exTok .bang 1] : List (Tok S)) =
    .ok (.unary (exTok .minus 9) (.unary (exTok .bang 1) (.ident 𝐚))) [] :=
  rfl
/-- `a * b as km` is `(a * b) as km` (`as` is loosest) -/
example : pExpression 40
      ([𝐚, exTok .star 1, 𝐛, exTok .as_ 3, exTok (.unit (.distance .kilometer)) 4] : List (Tok S)) =
    .ok (.as_ (.binary (.ident 𝐚) (exTok .star 1) (.ident 𝐛)) (exTok .as_ 3)
      (.distance .kilometer)) [] :=
  rfl
/-- `a * b dot c` is `a * (b dot c)` (`dot` binds tighter than `*`) -/
example : pExpression 40 ([𝐚, exTok .star 1, 𝐛, exTok .dot 3, 𝐜] : List (Tok S)) =
    .ok (.binary (.ident 𝐚) (exTok .star 1) (.binary (.ident 𝐛) (exTok .dot 3) (.ident 𝐜))) [] :=
  rfl
/-- `(a + b) * c`: parentheses override -/
example : pExpression 40
      ([exTok .lparen 8, 𝐚, exTok .plus 1, 𝐛, exTok .rparen 9, exTok .star 3, 𝐜] : List (Tok S)) =
    .ok (.binary (.grouping (exTok .lparen 8) .grouping
      (.binary (.ident 𝐚) (exTok .plus 1) (.ident 𝐛))) (exTok .star 3) (.ident 𝐜)) [] :=
  rfl
/-- the hypotheses of the soundness theorems are satisfiable: `a` followed by a newline is an
    expression statement -/
example : pStatement 40 ([𝐚, exTok .newline 1] : List (Tok S)) = .ok (.expr (.ident 𝐚)) [] := rfl
example : parse ([𝐚, exTok .equal 1, 𝐛, exTok .semicolon 3] : List (Tok S)) =
    .ok [.assign 𝐚 (.ident 𝐛)] := rfl
end Examples

/-! ### Completeness: everything the grammar derives is accepted, with the grammar's reading -/

/-- C03 (completeness, every level): a phrase `c` of level `l` read by the grammar as `e` is
    accepted by that level's parser function (`pL l`: `pExpression`, `pTerm`, …, `pPrimary`)
    with exactly the tree `e`, leaving exactly the rest `r`, for all sufficiently large fuel —
    provided the rest does not begin with a token that continues the phrase (`Stop l r`: no
    operator of level `l` or tighter, see `stopSet`) and a phrase ending in a NUMBER token is
    not followed by a UNIT token (`NoGlue c r`; the parser would read them as one measurement). -/
theorem C03_complete (l : Level) (c : List (Tok S)) (e : Expr S) (h : Derives l c e) :
    ∃ N, ∀ f, N ≤ f → ∀ r, Stop l r → NoGlue c r → pL l f (c ++ r) = .ok e r :=
  h.complete

/-- C03 (completeness, expressions), spelled out for `expression`. -/
theorem C03_complete_expression (c : List (Tok S)) (e : Expr S) (h : Derives .expr c e) :
    ∃ N, ∀ f, N ≤ f → ∀ r, Stop .expr r → NoGlue c r → pExpression f (c ++ r) = .ok e r :=
  h.complete

/-- C03 (completeness, expressions, explicit fuel): with the linear fuel bound of C01 (which
    `parseFuel` meets) the phrase is accepted — "sufficiently large" is `10 + 13 · length`. -/
theorem C03_complete_expression_fuel (c : List (Tok S)) (e : Expr S) (h : Derives .expr c e)
    (f : Nat) (r : List (Tok S)) (hs : Stop .expr r) (hg : NoGlue c r)
    (hf : 10 + 13 * (c ++ r).length ≤ f) : pExpression f (c ++ r) = .ok e r := by
  obtain ⟨N, hN⟩ := h.complete
  have h1 : pExpression f (c ++ r) ≠ .fuel := pExpression_adequate hf
  have h2 := pExpression_mono h1 (Nat.le_max_left f N)
  rw [← h2]
  exact hN (max f N) (Nat.le_max_right f N) r hs hg

/-- C03 (completeness, argument lists and matrix rows): comma-separated phrases are accepted by
    the argument loop, `;`-separated rows of equal length by the row loop. -/
theorem C03_complete_lists :
    (∀ (c : List (Tok S)) es, DerivesArgs c es →
      ∃ N, ∀ f, N ≤ f → ∀ r, StopArgs r → NoGlue c r → pArgsLoop f (c ++ r) = .ok es r) ∧
    (∀ (c : List (Tok S)) rows, DerivesRows c rows →
      ∃ N, ∀ f, N ≤ f → ∀ br prev idx r, StopRows r → NoGlue c r → Uniform (prev ++ rows) →
        pRows f br prev idx (c ++ r) = .ok (prev ++ rows) r) :=
  ⟨fun _ _ h => h.completeArgs, fun _ _ h => h.completeRows⟩

/-- C03 (completeness, statements): each documented statement shape, followed by a newline or
    `;`, is accepted as that statement, the rest being what follows the delimiter. -/
theorem C03_complete_statement (c : List (Tok S)) (s : Stmt S) (h : DerivesStmt c s) :
    ∃ N, ∀ f, N ≤ f → ∀ d r, d.isDelim → pStatement f (c ++ d :: r) = .ok s r :=
  h.complete

/-- C03 (completeness, statements, explicit fuel). -/
theorem C03_complete_statement_fuel (c : List (Tok S)) (s : Stmt S) (h : DerivesStmt c s)
    (f : Nat) (d : Tok S) (r : List (Tok S)) (hd : d.isDelim)
    (hf : 10 + 13 * (c ++ d :: r).length ≤ f) : pStatement f (c ++ d :: r) = .ok s r := by
  obtain ⟨N, hN⟩ := h.complete
  have h1 : pStatement f (c ++ d :: r) ≠ .fuel := pStatement_adequate hf
  have h2 := pStatement_mono h1 (Nat.le_max_left f N)
  rw [← h2]
  exact hN (max f N) (Nat.le_max_right f N) d r hd

/-- C03 (completeness, programs): every program of the grammar is accepted by `parse` (which
    uses the fixed fuel `parseFuel`) and read as the grammar reads it. -/
theorem C03_complete_program (ts : List (Tok S)) (ss : List (Stmt S))
    (h : DerivesProgram ts ss) : parse ts = .ok ss :=
  parse_complete h

/-- C03 (main statement): a token list is accepted exactly when the documented grammar derives
    it, and it is then read with that grammar's structure. -/
theorem C03_exact (ts : List (Tok S)) (ss : List (Stmt S)) :
    parse ts = .ok ss ↔ DerivesProgram ts ss :=
  parse_iff

/-- C03 (one reading): the grammar is unambiguous — a phrase has at most one reading at each
    level, and a program at most one statement list (precedence and associativity leave no
    choice). -/
theorem C03_unambiguous :
    (∀ (l : Level) (c : List (Tok S)) (e e' : Expr S), Derives l c e → Derives l c e' → e = e') ∧
    (∀ (ts : List (Tok S)) (ss ss' : List (Stmt S)),
      DerivesProgram ts ss → DerivesProgram ts ss' → ss = ss') := by
  constructor
  · intro l c e e' h h'
    obtain ⟨N, hN⟩ := h.complete
    obtain ⟨N', hN'⟩ := h'.complete
    have e1 := hN (N + N') (by omega) [] (Stop_nil l) (NoGlue_nil c)
    have e2 := hN' (N + N') (by omega) [] (Stop_nil l) (NoGlue_nil c)
    rw [e1] at e2
    cases e2; rfl
  · intro ts ss ss' h h'
    have e1 := parse_complete h
    have e2 := parse_complete h'
    rw [e1] at e2
    cases e2; rfl

/-- the hypotheses of the completeness theorems are satisfiable: `a + b` is a `term`, and `)`
    neither continues it nor glues to it -/
example : Derives .term ([exId 'a' 0, exTok .plus 1, exId 'b' 2] : List (Tok S))
      (.binary (.ident (exId 'a' 0)) (exTok .plus 1) (.ident (exId 'b' 2))) ∧
    Stop .term [(exTok .rparen 3 : Tok S)] ∧
    NoGlue [exId 'a' 0, exTok .plus 1, exId 'b' 2] [(exTok .rparen 3 : Tok S)] :=
  ⟨Derives.binl (c₁ := [_]) rfl rfl (Derives.of_primary (Derives.ident rfl))
      (Derives.of_primary (Derives.ident rfl)),
    Stop_cons.mpr (by simp [exTok, Tok.tag, Kind.tag, stopSet]),
    NoGlue_cons (by simp [exTok, Tok.tag, Kind.tag])⟩

/-- the hypothesis of `C03_complete_statement` / `C03_complete_program` is satisfiable, and the
    theorem applies: `a = b ;` is a program of the grammar -/
example : parse ([exId 'a' 0, exTok .equal 1, exId 'b' 2, exTok .semicolon 3] : List (Tok S)) =
    .ok [.assign (exId 'a' 0) (.ident (exId 'b' 2))] :=
  C03_complete_program _ _
    (.stmt (c := [_, _, _]) (.assign rfl rfl (Derives.of_primary (Derives.ident rfl)))
      (Or.inr rfl) .nil)

/-! ### Tokens -/

/-- C03 (tokens preserved, partial): the tokens stored in the returned tree (`Expr.toks`:
    operator tokens, `as`, opening tokens of groupings, `(` of calls, closing `]` of matrices,
    identifier tokens — in reading order) form a subsequence of the consumed prefix.
    OPEN (not statable of this tree type): "the in-order token sequence of the tree plus the
    consumed brackets and commas EQUALS the consumed prefix" — `Expr` does not store number/unit
    tokens, closing tokens of groupings and calls, the opening `[`, commas or `;`, so the prefix
    cannot be rebuilt from the tree.  What is consumed is pinned exactly by `C03_sound`
    (`ts = c ++ r ∧ Derives .expr c e`) and `C03_exact`. -/
theorem C03_tokens_preserved_partial (f : Nat) (ts : List (Tok S)) (e : Expr S) (r : List (Tok S))
    (h : pExpression f ts = .ok e r) : ∃ c, ts = c ++ r ∧ e.toks.Sublist c :=
  let ⟨c, hc, d⟩ := (soundAt f).expression ts e r h
  ⟨c, hc, d.toks_sublist⟩

end Calc
