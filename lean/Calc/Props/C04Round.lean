/-
  Calc.Props.C04Round — C04 "a number literal denotes the binary64 nearest to its decimal text".
  Property theorems only.  The reader is `Calc.Exec.decimalToBits m e` (bits of `f64::from_str`
  for the digit string `m` and decimal exponent `e`, as produced by `parseDecimal`); the value of
  a bit pattern is `Calc.bitsToRat` (Calc/Proofs/Lawful.lean).  Proofs: Calc/Proofs/DecimalRound.lean,
  Calc/Proofs/ShortestRoundTrip.lean, Calc/Proofs/FmtText.lean.
-/
import Calc.Proofs.DecimalRound
import Calc.Proofs.ShortestRoundTrip
import Calc.Proofs.FmtText
import Calc.Exec.Cx
namespace Calc
open Calc.Exec Calc.Proofs.DecimalRound Calc.Proofs.ShortestRoundTrip Calc.Proofs.FmtText

/-- C04 "correctly rounded": for every digit string `m` and every decimal exponent `e`, with
    `x = m · 10^e` as an exact rational and `b = decimalToBits m e`:

    * `b` is a non-negative, non-NaN pattern (`b ≤ 0x7FF0000000000000 = +inf`);
    * overflow: `b = +inf` exactly when `x ≥ 2^1024 − 2^970`, the round-to-nearest overflow
      threshold (half an ulp above the largest finite binary64);
    * nearest: otherwise no finite non-negative pattern `b'` is strictly nearer to `x` than `b`;
    * ties to even: if a different finite pattern `b'` is exactly as near, the significand of `b`
      (the low bit of the pattern) is even.

    This covers subnormals, underflow to `+0` (the nearest pattern when `x ≤ 2^-1075`) and both
    early exits of the routine. -/
theorem C04_number_correctly_rounded (m : Nat) (e : Int) :
    decimalToBits m e ≤ 0x7FF0000000000000 ∧
    (decimalToBits m e = 0x7FF0000000000000 ↔ (2 : ℚ) ^ 1024 - 2 ^ 970 ≤ (m : ℚ) * (10 : ℚ) ^ e) ∧
    (decimalToBits m e < 0x7FF0000000000000 →
      ∀ b' : UInt64, b' < 0x7FF0000000000000 →
        |bitsToRat (decimalToBits m e).toNat - (m : ℚ) * (10 : ℚ) ^ e|
            ≤ |bitsToRat b'.toNat - (m : ℚ) * (10 : ℚ) ^ e| ∧
        (b' ≠ decimalToBits m e →
          |bitsToRat b'.toNat - (m : ℚ) * (10 : ℚ) ^ e|
              = |bitsToRat (decimalToBits m e).toNat - (m : ℚ) * (10 : ℚ) ^ e| →
          (decimalToBits m e).toNat % 2 = 0)) :=
  ⟨decimalToBits_nonneg m e, decimalToBits_inf_iff m e, fun hfin b' hb' =>
    ⟨decimalToBits_nearest m e hfin b' hb', decimalToBits_ties_even m e hfin b' hb'⟩⟩

/-- C04: a literal whose digits are all zero denotes `+0`, whatever its exponent. -/
theorem C04_number_zero (e : Int) : decimalToBits 0 e = 0 :=
  decimalToBits_zero e

/-- C04: the value read for a finite non-negative pattern with exponent field `E` and fraction
    field `F` is `(if E = 0 then F else 2^52 + F) · 2^(max E 1 − 1075)`, and distinct finite
    non-negative patterns have distinct values (so "nearest" above determines `b` up to ties). -/
theorem C04_pattern_value (b : UInt64) (hb : b < 0x7FF0000000000000) :
    bitsToRat b.toNat =
      ((if b.toNat / 2 ^ 52 = 0 then b.toNat % 2 ^ 52 else 2 ^ 52 + b.toNat % 2 ^ 52 : ℕ) : ℚ)
        * (2 : ℚ) ^ (((max (b.toNat / 2 ^ 52) 1 : ℕ) : ℤ) - 1075) ∧
    ∀ b' : UInt64, b' < 0x7FF0000000000000 → bitsToRat b.toNat = bitsToRat b'.toNat → b = b' :=
  ⟨bitsVal_eq b hb, fun b' hb' h => bitsVal_injective b b' hb hb' h⟩

/-- C04/printing round trip: for every positive finite pattern `b`, the digit string `c` and decimal
    exponent `k` that the printer chooses (`shortestDigits b`, the digits of Rust's
    `Display for f64`) are non-zero and read back to exactly `b`. -/
theorem C04_printed_digits_read_back (b : UInt64) (hb0 : 0 < b) (hb : b < 0x7FF0000000000000) :
    0 < (shortestDigits b).1 ∧ decimalToBits (shortestDigits b).1 (shortestDigits b).2 = b :=
  ⟨shortestDigits_pos b hb0 hb, shortest_roundtrip b hb0 hb⟩

/-- C04/printing round trip on the text: for every positive finite pattern `b`, the text that
    `fmtBits b` prints (Rust's `format!("{}", x)`: digits, or digits `.` digits, no exponent form)
    is accepted by the number reader `parseDecimal`, and the decimal it denotes reads back to
    exactly `b`. -/
theorem C04_printed_text_reads_back (b : UInt64) (hb0 : 0 < b) (hb : b < 0x7FF0000000000000) :
    ∃ d : Decimal, parseDecimal (fmtBits b).toList = some d ∧ decimalToBits d.mant d.exp = b :=
  fmtBits_reads_back b hb0 hb

/-- C04/C15, the link to the executable model that the correspondence streams run: the `Float`
    instance of the scalar interface reads a literal with `decimalToBits` (so the value of every
    number token of the executable model is the correctly rounded one, by
    `C04_number_correctly_rounded`), and prints the parts of a number with `fmtBits` (so the
    printed parts read back, by `C04_printed_text_reads_back`).  Both hold by definition. -/
theorem C04_float_kernel_uses_these (m : Nat) (e : Int) (x : Float) :
    (Kernel.ofDecimal m e : Exec.Cx) = ⟨Float.ofBits (decimalToBits m e), 0.0⟩ ∧
    Exec.Cx.fmtF x = (fmtBits x.toBits).toList :=
  ⟨rfl, rfl⟩

/-- the shortest digits of `0x3FB999999999999A` are `1 · 10^-1` -/
example : shortestDigits 0x3FB999999999999A = (1, -1) := by decide +kernel
/-- `0x3FB999999999999A` prints as `0.1`, `2^53` as `9007199254740992`, the smallest subnormal as `0.000…005` -/
example : fmtDigits 1 (-1) = "0.1".toList ∧
    fmtDigits (shortestDigits 0x4340000000000000).1 (shortestDigits 0x4340000000000000).2 = "9007199254740992".toList ∧
    shortestDigits 1 = (5, -324) := by decide +kernel

/-- `0.1` reads as `0x3FB999999999999A` -/
example : decimalToBits 1 (-1) = 0x3FB999999999999A := by decide +kernel
/-- the halfway case `9007199254740993 = 2^53 + 1` goes to the even neighbour `2^53` -/
example : decimalToBits 9007199254740993 0 = 0x4340000000000000 := by decide +kernel
/-- `1.7976931348623158e308` is still finite, `1.7976931348623159e308` is not -/
example : decimalToBits 17976931348623158 292 = 0x7FEFFFFFFFFFFFFF ∧
    decimalToBits 17976931348623159 292 = 0x7FF0000000000000 := by decide +kernel
/-- `4.9e-324` is the smallest subnormal; `2e-324` is `0` -/
example : decimalToBits 49 (-325) = 1 ∧ decimalToBits 2 (-324) = 0 := by decide +kernel

end Calc
