/-
  Property C01, parser half — parsing always returns, never loops, never panics, with bounded work.

  The model's parser is a family of functions structurally recursive on a fuel argument; `.fuel`
  is the only outcome that stands for "did not finish".  The theorems here say that outcome never
  occurs with the fuel `parse` supplies (linear in the number of tokens), that the fuel is only a
  termination device (more fuel, same answer), and that every successful step consumes input.
  Proofs: Calc.Proofs.ParseFuel, Calc.Proofs.ParseBasic.
-/
import Calc.Proofs.ParseFuel
import Calc.Proofs.ParseWF
namespace Calc
variable {S : Type}

/-- **C01 (parser, no panic).** `parse` has exactly three kinds of outcome: a statement list, a
    parse diagnostic, or out-of-fuel.  The model's `ParseRes` has no panic outcome at all — every
    `unwrap` of the Rust parser follows a successful `peek` and is a pattern match on a non-empty
    token list in the model — so this is a case distinction; `C01_parse_fuel` removes the third
    alternative. -/
theorem C01_parse_no_panic (ts : List (Tok S)) :
    (∃ ss, parse ts = .ok ss) ∨ (∃ e, parse ts = .err e) ∨ parse ts = .fuel := by
  cases h : parse ts with
  | ok ss => exact .inl ⟨ss, rfl⟩
  | err e => exact .inr (.inl ⟨e, rfl⟩)
  | fuel => exact .inr (.inr rfl)

/-- **C01 (parser, always returns).** For every token list the fuel supplied by `parse`
    (`parseFuel n = 16 * (n + 2)` nested calls, `n + 1` statements, `n` the number of tokens)
    never runs out: parsing ends in a statement list or a diagnostic. -/
theorem C01_parse_fuel : ∀ ts : List (Tok S), parse ts ≠ .fuel := parse_ne_fuel

/-- **C01 (parser, always returns), combined form.** -/
theorem C01_parse_returns (ts : List (Tok S)) :
    (∃ ss, parse ts = .ok ss) ∨ (∃ e, parse ts = .err e) := by
  rcases C01_parse_no_panic ts with h | h | h
  · exact .inl h
  · exact .inr h
  · exact absurd h (C01_parse_fuel ts)

/-- **C01 (parser, bounded work — expressions).** An explicit linear bound: `10 + 13 * n` nested
    calls are enough to parse an expression from `n` remaining tokens. -/
theorem C01_parse_bound_expression (f : Nat) (ts : List (Tok S)) (hb : 10 + 13 * ts.length ≤ f) :
    pExpression f ts ≠ .fuel := pExpression_adequate hb

example : ∃ (f : Nat) (ts : List (Tok Nat)), 10 + 13 * ts.length ≤ f := ⟨10, [], by decide⟩

/-- **C01 (parser, bounded work — all 22 functions).** The same bound with the rank of each
    function in place of `10` (`AdequateAt` lists them). -/
theorem C01_parse_bound_all : ∀ f, AdequateAt S f := adequateAt

/-- **C01 (parser, bounded work — statements).** `10 + 13 * n` is enough for one statement. -/
theorem C01_parse_bound_statement (f : Nat) (ts : List (Tok S)) (hb : 10 + 13 * ts.length ≤ f) :
    pStatement f ts ≠ .fuel := pStatement_adequate hb

example : ∃ (f : Nat) (ts : List (Tok Nat)), 10 + 13 * ts.length ≤ f := ⟨10, [], by decide⟩

/-- **C01 (parser, bounded work — statement loop).** One loop iteration per token and
    `10 + 13 * n` nested calls are enough for a whole program of `n` tokens; `parse` supplies
    more than that. -/
theorem C01_parse_bound_loop (inner outer : Nat) (ts : List (Tok S))
    (ho : ts.length ≤ outer) (hi : 10 + 13 * ts.length ≤ inner) :
    parseLoop inner outer ts ≠ .fuel := parseLoop_adequate outer ts ho hi

example : ∃ (inner outer : Nat) (ts : List (Tok Nat)),
    ts.length ≤ outer ∧ 10 + 13 * ts.length ≤ inner := ⟨10, 0, [], by decide⟩

/-- **C01 (parser, fuel is only a termination device — expressions).** Once `pExpression` returns
    anything other than out-of-fuel, every larger fuel returns the same. -/
theorem C01_parse_fuel_mono_expression (f f' : Nat) (ts : List (Tok S))
    (h : pExpression f ts ≠ .fuel) (hle : f ≤ f') : pExpression f' ts = pExpression f ts :=
  pExpression_mono h hle

example : ∃ (f f' : Nat) (ts : List (Tok Nat)), pExpression f ts ≠ .fuel ∧ f ≤ f' :=
  ⟨10, 11, [], pExpression_adequate (by decide), by decide⟩

/-- **C01 (parser, fuel is only a termination device — all 22 functions, one step).** -/
theorem C01_parse_fuel_mono_all : ∀ f, MonoAt S f := monoAt

/-- **C01 (parser, fuel is only a termination device — statements).** -/
theorem C01_parse_fuel_mono_statement (f f' : Nat) (ts : List (Tok S))
    (h : pStatement f ts ≠ .fuel) (hle : f ≤ f') : pStatement f' ts = pStatement f ts :=
  pStatement_mono h hle

example : ∃ (f f' : Nat) (ts : List (Tok Nat)), pStatement f ts ≠ .fuel ∧ f ≤ f' :=
  ⟨10, 11, [], pStatement_adequate (by decide), by decide⟩

/-- **C01 (parser, fuel is only a termination device — statement loop).** Both fuels of the
    loop: once it returns anything other than out-of-fuel, larger fuels return the same. -/
theorem C01_parse_fuel_mono_loop (inner inner' outer outer' : Nat) (ts : List (Tok S))
    (h : parseLoop inner outer ts ≠ .fuel) (hi : inner ≤ inner') (ho : outer ≤ outer') :
    parseLoop inner' outer' ts = parseLoop inner outer ts :=
  parseLoop_mono h hi ho

example : ∃ (inner inner' outer outer' : Nat) (ts : List (Tok Nat)),
    parseLoop inner outer ts ≠ .fuel ∧ inner ≤ inner' ∧ outer ≤ outer' :=
  ⟨10, 11, 0, 1, [], parseLoop_adequate 0 [] (by decide) (by decide), by decide, by decide⟩

/-- **C01 (parser, fuel is only a termination device — `parse`).** `parse ts` is the answer of the
    statement loop at every adequate pair of fuels, not just the pair `parse` picks. -/
theorem C01_parse_fuel_independent (inner outer : Nat) (ts : List (Tok S))
    (hi : 10 + 13 * ts.length ≤ inner) (ho : ts.length ≤ outer) :
    parseLoop inner outer ts = parse ts := parseLoop_eq_parse ts hi ho

example : ∃ (inner outer : Nat) (ts : List (Tok Nat)),
    10 + 13 * ts.length ≤ inner ∧ ts.length ≤ outer := ⟨10, 0, [], by decide⟩

/-- **C01 (parser, progress — all 22 functions).** Whenever a parser function succeeds, what it
    leaves is a suffix of what it was given; for the level functions (`pExpression` … `pPrimary`,
    `pArgsLoop`, `pGroup`) a strictly shorter one (`SuffixAt` lists the 22 statements). -/
theorem C01_parse_consumes : ∀ f, SuffixAt S f := suffixAt

/-- **C01 (parser, progress — expressions).** A parsed expression consumed at least one token and
    only from the front. -/
theorem C01_parse_consumes_expression (f : Nat) (ts : List (Tok S)) (e : Expr S) (r : List (Tok S))
    (h : pExpression f ts = .ok e r) : ∃ c, ts = c ++ r ∧ c ≠ [] :=
  pExpression_shorter h

example : ∃ (f : Nat) (ts : List (Tok Nat)) (e : Expr Nat) (r : List (Tok Nat)),
    pExpression f ts = .ok e r :=
  ⟨10, [⟨.number 1, [], 1, 1⟩], .number 1, [], rfl⟩

/-- **C01 (parser, progress — statements).** A parsed statement consumed at least one token and
    only from the front; this is what bounds the number of loop iterations by the token count. -/
theorem C01_parse_consumes_statement (inner : Nat) (ts : List (Tok S)) (s : Stmt S)
    (r : List (Tok S)) (h : pStatement inner ts = .ok s r) : ∃ c, ts = c ++ r ∧ c ≠ [] :=
  pStatement_shorter h

example : ∃ (f : Nat) (ts : List (Tok Nat)) (s : Stmt Nat) (r : List (Tok Nat)),
    pStatement f ts = .ok s r :=
  ⟨10, [⟨.clear, [], 1, 1⟩, ⟨.newline, [], 1, 6⟩], .clear, [], rfl⟩

/-- **C01 (parser, well-formed trees — expressions).** Every tree `expression` returns satisfies
    `Expr.WF` (Calc.Proofs.ParseWF): a `binary` node holds a token tagged `+ - * / % ^ dot cross`,
    a `unary` node one tagged `-`, `√` or `!`, an `as` node the `as` token, a grouping its opening
    token, a call the `(`, an identifier node an identifier token; every matrix literal holds its
    closing `]`, has at least one row, every row at least one entry, and all rows have the same
    length.  (These are the shapes the evaluator's `panic!`/`unreachable!` arms rely on.) -/
theorem C01_parse_wf (f : Nat) (ts : List (Tok S)) (e : Expr S) (r : List (Tok S))
    (h : pExpression f ts = .ok e r) : e.WF :=
  pExpression_wf h

/-- **C01 (parser, well-formed trees — statements).** Every statement `statement` returns holds
    well-formed trees and identifier tokens as names (`Stmt.WF`). -/
theorem C01_parse_wf_statement (f : Nat) (ts : List (Tok S)) (s : Stmt S) (r : List (Tok S))
    (h : pStatement f ts = .ok s r) : s.WF :=
  pStatement_wf h

/-- **C01 (parser, well-formed trees — programs).** Every statement of a parsed program is
    well-formed. -/
theorem C01_parse_wf_program (ts : List (Tok S)) (ss : List (Stmt S)) (h : parse ts = .ok ss) :
    ∀ s ∈ ss, s.WF :=
  parse_wf h

/-- **C01 (parser, well-formed trees — from the grammar).** Well-formedness is a property of the
    grammar's readings, whatever function produced them. -/
theorem C01_parse_wf_derives (l : Level) (c : List (Tok S)) (e : Expr S) (h : Derives l c e) :
    e.WF :=
  h.wf

/-- what `Expr.WF` says about a matrix literal, spelled out -/
theorem C01_parse_wf_matrix (br : Tok S) (rows : List (List (Expr S)))
    (h : (Expr.matrix br rows).WF) :
    br.tag = .rbracket ∧ rows ≠ [] ∧ (∀ a ∈ rows, ∀ b ∈ rows, a.length = b.length) ∧
      ∀ row ∈ rows, row ≠ [] := by
  simp only [Expr.WF] at h
  refine ⟨h.1, h.2.1, h.2.2.1, ?_⟩
  have h4 := h.2.2.2
  clear h
  induction rows with
  | nil => intro _ h; simp at h
  | cons r rs ih =>
    simp only [Expr.WFRows] at h4
    intro row hrow
    simp at hrow
    rcases hrow with rfl | hrow
    · exact h4.1
    · exact ih h4.2.2 row hrow

example : ∃ (f : Nat) (ts : List (Tok Nat)) (e : Expr Nat) (r : List (Tok Nat)),
    pExpression f ts = .ok e r ∧ e.WF :=
  ⟨10, [⟨.number 1, [], 1, 1⟩], .number 1, [], rfl, pExpression_wf (f := 10) (ts := [⟨.number 1, [], 1, 1⟩]) rfl⟩

end Calc
