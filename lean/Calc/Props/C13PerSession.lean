/-
  Calc.Props.C13PerSession — "every stored signature is self-equivalent, hence a redefinition of an
  equivalent signature REPLACES in place" for every program that comes out of the scanner and the
  parser, with NO hypothesis on the literals.

  `Calc/Props/C13Per.lean` (`C13_distinct_per`, part 6) proves this along `runStmts` under the
  explicit hypothesis `∀ s ∈ ss, StmtLitsOK ok s` (the literal parameters of the definitions are
  `ok`, for binary64: not NaN).  Here the hypothesis is discharged:

    scanner   every number token carries `Kernel.ofDecimal m e`          (needs `KeywordsNoNumber`)
    parser    every number leaf of a tree is the value of a number token of the phrase; literal
              parameters are bare number-literal arguments of the call left of `=`
    kernel    `ok (Kernel.ofDecimal m e)` for all `m e`                  (binary64: `ofDecimal_noNaN`)

  Remaining hypotheses: `EqPer S ok` (true of binary64 `==`, `C13_f64_eq_is_per`),
  `∀ m e, ok (Kernel.ofDecimal m e)` (true of binary64, `C13_literal_not_nan`), and
  `KeywordsNoNumber cfg`: the keyword table maps no word to a number kind (without it the model
  lets a table turn the word `nan` into a number token of any value; see the counterexample in
  `Calc/Props/C04Scanner.lean`).

  Property theorems only; proofs are in Calc/Proofs/SigPerScan.lean (core Lean only).  This file
  depends on Mathlib only through Calc/Proofs/SigPerLits.lean (the binary64 instance).
-/
import Calc.Props.C13Per
import Calc.Proofs.SigPerScan
namespace Calc.Props.C13PerSession
open Calc

/-! ## scanner and parser -/

section ScanParse
variable {S : Type}

/-- C13/C04, "a number token has the value of its text": every number token of a successful scan
    carries `Kernel.ofDecimal m e` for some decimal `m · 10^e` — the scanner has no other way of
    making a number (no `nan`, no `inf`, no sign), provided the keyword table maps no word to a
    number kind. -/
theorem C13_scanned_numbers_are_decimals [Kernel S] (cfg : ScanCfg S)
    (hkw : KeywordsNoNumber cfg) (text : List Char) (toks : List (Tok S))
    (h : scan cfg text = .ok toks) :
    ∀ t ∈ toks, ∀ z, t.kind = .number z → ∃ (m : Nat) (e : Int), z = Kernel.ofDecimal m e :=
  scan_number_ofDecimal cfg hkw text toks h

/-- C13, "literal parameters are number tokens of the text":
    (1) every `Expr.number z` / `Expr.measurement z u` leaf (`Expr.lits`) of a tree the grammar reads
        from a phrase `c`, at any level, is the value of a number token of `c`;
    (2) `Signature::from_call_expression` (`sigParams`) succeeds only if EVERY argument is a bare
        identifier or a bare number literal — `-1`, `(2)`, `1+1`, `2 m` are not parameters (the
        parser then reports `invalidAssignmentTarget`) — and then each literal parameter is one of
        the bare number-literal arguments;
    (3) hence every literal parameter of every `define` (and `delete f(…)`) statement of a parsed
        program is the value of a number token of the program's token list. -/
theorem C13_parsed_literals_from_tokens :
    (∀ (l : Level) (c : List (Tok S)) (e : Expr S), Derives l c e →
      ∀ z ∈ e.lits, ∃ t ∈ c, t.kind = .number z) ∧
    (∀ (args : List (Expr S)) (ps : List (Param S)), sigParams args = some ps →
      (∀ a ∈ args, (∃ name, a = .ident name) ∨ (∃ z, a = .number z)) ∧
      (∀ z, Param.number z ∈ ps → Expr.number z ∈ args)) ∧
    (∀ (ts : List (Tok S)) (ss : List (Stmt S)), parse ts = .ok ss →
      (∀ name sig body, Stmt.define name sig body ∈ ss →
        ∀ z, Param.number z ∈ sig.params → ∃ t ∈ ts, t.kind = .number z) ∧
      (∀ name sig, Stmt.deleteSig name sig ∈ ss →
        ∀ z, Param.number z ∈ sig.params → ∃ t ∈ ts, t.kind = .number z)) := by
  refine ⟨fun _ _ _ h => h.lits_from_tokens, ?_, ?_⟩
  · intro args ps h
    exact ⟨sigParams_args_plain args ps h, (sigParams_sound args ps h).number_mem⟩
  · intro ts ss h
    constructor
    · intro name sig body hm z hz
      exact parse_paramLits_from_tokens h _ hm z ((mem_paramLits_iff _ z).mpr hz)
    · intro name sig hm z hz
      exact parse_paramLits_from_tokens h _ hm z ((mem_paramLits_iff _ z).mpr hz)

/-- C13, the missing link: for any kernel in which everything a decimal literal denotes is `ok`,
    every statement of the program parsed from a successfully scanned text satisfies
    `StmtLitsOK ok` — the hypothesis of `C13_distinct_per` (6) holds of every program the front end
    can produce. -/
theorem C13_parsed_program_lits_ok [Kernel S] {ok : S → Prop}
    (hdec : ∀ (m : Nat) (e : Int), ok (Kernel.ofDecimal m e : S)) (cfg : ScanCfg S)
    (hkw : KeywordsNoNumber cfg) (text : List Char) (toks : List (Tok S)) (ss : List (Stmt S))
    (hscan : scan cfg text = .ok toks) (hparse : parse toks = .ok ss) :
    ∀ s ∈ ss, StmtLitsOK ok s :=
  scan_parse_stmtLitsOK hdec cfg hkw text toks ss hscan hparse

end ScanParse

/-! ## sessions -/

section Session
variable {S : Type} [Add S] [Sub S] [Mul S] [Div S] [Zero S] [One S] [Kernel S]

/-- C13, the full invariant along the front end, with NO hypothesis on literals or on the text:
    when `Kernel.eq` is a partial equivalence reflexive on `ok`, and every decimal literal is `ok`,
    (1) `process_text` and (2) the prompt loop keep "every stored user function is non-empty,
    pairwise inequivalent and has only `ok` literal parameters" (`EnvP (GoodLitFn ok)`), and
    (3) in the final table of any session (file, then expression or prompt lines) started on a
    table that stores no user function, every visible user function has a non-empty, pairwise
    inequivalent signature list, each of whose signatures has `ok` literals and is EQUIVALENT TO
    ITSELF. -/
theorem C13_session_self_equivalent {ok : S → Prop} (hper : EqPer S ok)
    (hdec : ∀ (m : Nat) (e : Int), ok (Kernel.ofDecimal m e : S)) (cfg : ScanCfg S)
    (hkw : KeywordsNoNumber cfg) (fuel : Nat) :
    (∀ (env : Env S) (text : Str), EnvP (GoodLitFn ok) env →
      EnvP (GoodLitFn ok) (processText cfg fuel env text).env) ∧
    (∀ (env : Env S) (lines : List Str), EnvP (GoodLitFn ok) env →
      EnvP (GoodLitFn ok) (repl cfg fuel env lines).env) ∧
    (∀ (init : Env S) (file expr : Option Str) (stdin : List Str),
      (∀ kv ∈ init, ∀ fn, kv.2.value ≠ .user fn) →
      ∀ k fn c, Env.get (session cfg fuel init file expr stdin).env k = some ⟨.user fn, c⟩ →
        fn.sigs ≠ [] ∧ PairwiseInequiv fn.sigs ∧
        ∀ e ∈ fn.sigs, SigLitsOK ok e.1.params ∧ sigEquiv e.1.params e.1.params = true) := by
  refine ⟨fun env text h => goodLit_processText hper hdec cfg hkw fuel env text h,
    fun env ls h => goodLit_repl hper hdec cfg hkw fuel ls env h, ?_⟩
  intro init file expr stdin hinit k fn c hg
  have := goodLit_session hper hdec cfg hkw fuel init file expr stdin (EnvP.of_no_user hinit)
  have hfn : GoodLitFn ok fn := this.get hg fn rfl
  exact ⟨hfn.1.1, hfn.1.2, fun e he => ⟨hfn.2 e he, sigEquiv_refl_per hper (hfn.2 e he)⟩⟩

/-- C13, "defining a signature equivalent to an existing one replaces that one", in any session
    state (same hypotheses as `C13_session_self_equivalent`, none on literals).  For a visible user
    function `fn`, a signature `sig` and a body:
    (1) if `fn.sigs = pre ++ (s, b) :: post` with `s` equivalent to `sig`, then the definition
        yields `pre ++ (sig, body) :: post` — same length, same position, everything else kept in
        order — and no other entry is equivalent to `sig` (nothing is asked of `pre`, unlike
        `C13_define`: the invariant supplies it);
    (2) if no entry is equivalent to `sig`, the definition appends `(sig, body)` at the end;
    (3) one of the two cases applies, and at most one entry is equivalent to `sig`;
    (4) in particular, defining again a signature that IS stored replaces its body in place —
        this is where self-equivalence (no NaN literal) is used. -/
theorem C13_redefine_replaces_session {ok : S → Prop} (hper : EqPer S ok)
    (hdec : ∀ (m : Nat) (e : Int), ok (Kernel.ofDecimal m e : S)) (cfg : ScanCfg S)
    (hkw : KeywordsNoNumber cfg) (fuel : Nat) (init : Env S) (file expr : Option Str)
    (stdin : List Str) (hinit : ∀ kv ∈ init, ∀ fn, kv.2.value ≠ .user fn)
    (k : Str) (fn : UserFn S) (c : Bool)
    (hg : Env.get (session cfg fuel init file expr stdin).env k = some ⟨.user fn, c⟩)
    (sig : Sig S) (body : Expr S) :
    (∀ pre s b post, fn.sigs = pre ++ (s, b) :: post → sigEquiv s.params sig.params = true →
      defineSig fn.sigs sig body = pre ++ (sig, body) :: post ∧
      (defineSig fn.sigs sig body).length = fn.sigs.length ∧
      (defineSig fn.sigs sig body)[pre.length]? = some (sig, body) ∧
      ∀ e ∈ pre ++ post, sigEquiv e.1.params sig.params = false) ∧
    ((∀ e ∈ fn.sigs, sigEquiv e.1.params sig.params = false) →
      defineSig fn.sigs sig body = fn.sigs ++ [(sig, body)]) ∧
    (((∃ pre s b post, fn.sigs = pre ++ (s, b) :: post ∧ sigEquiv s.params sig.params = true) ∨
      (∀ e ∈ fn.sigs, sigEquiv e.1.params sig.params = false)) ∧
      fn.sigs.countP (fun se => sigEquiv se.1.params sig.params) ≤ 1) ∧
    (∀ pre s b post, fn.sigs = pre ++ (s, b) :: post →
      defineSig fn.sigs s body = pre ++ (s, body) :: post) := by
  obtain ⟨hne, hinv, hself⟩ := (C13_session_self_equivalent hper hdec cfg hkw fuel).2.2
    init file expr stdin hinit k fn c hg
  have hrep : ∀ (sig : Sig S) pre s b post, fn.sigs = pre ++ (s, b) :: post →
      sigEquiv s.params sig.params = true →
      defineSig fn.sigs sig body = pre ++ (sig, body) :: post := by
    intro sig pre s b post hs he
    rw [hs] at hinv ⊢
    exact defineSig_replace_per hper pre post s b sig body hinv he
  refine ⟨?_, defineSig_append fn.sigs sig body, ⟨?_, countP_sigEquiv_le_one_per hper hinv sig⟩, ?_⟩
  · intro pre s b post hs he
    have h1 := hrep sig pre s b post hs he
    refine ⟨h1, ?_, ?_, ?_⟩
    · rw [h1, hs]; simp
    · rw [h1]; simp
    · rw [hs] at hinv
      exact inequiv_others_per hper pre post s b sig hinv he
  · rcases first_split (fun e : Sig S × Expr S => sigEquiv e.1.params sig.params) fn.sigs with
      ⟨pre, ⟨s, b⟩, post, hs, he, _⟩ | hnone
    · exact .inl ⟨pre, s, b, post, hs, he⟩
    · exact .inr hnone
  · intro pre s b post hs
    refine hrep s pre s b post hs ?_
    exact (hself (s, b) (by rw [hs]; simp)).2

end Session

/-! ## binary64 -/

section Bits
open Calc.F64Eq

/-- C13 for the scalar type the code computes with (pairs of binary64 patterns, `==` = IEEE-754
    comparison, literals read by the correctly rounded decimal reader): in the final table of any
    session started on a table with no user function, under any scanner configuration whose keyword
    table has no number entry, every visible user function has a non-empty list of pairwise
    inequivalent signatures, NO stored literal parameter has a NaN part, every stored signature is
    equivalent to itself, and defining a stored signature again replaces its body in place.
    No hypothesis on `Kernel.eq`, on literals, or on the text is left. -/
theorem C13_session_cx64 (cfg : ScanCfg Cx64) (hkw : KeywordsNoNumber cfg) (fuel : Nat)
    (init : Env Cx64) (file expr : Option Str) (stdin : List Str)
    (hinit : ∀ kv ∈ init, ∀ fn, kv.2.value ≠ .user fn) (k : Str) (fn : UserFn Cx64) (c : Bool)
    (hg : Env.get (session cfg fuel init file expr stdin).env k = some ⟨.user fn, c⟩) :
    fn.sigs ≠ [] ∧ PairwiseInequiv fn.sigs ∧
    (∀ e ∈ fn.sigs, ∀ z, Param.number z ∈ e.1.params → NoNaN z) ∧
    (∀ e ∈ fn.sigs, sigEquiv e.1.params e.1.params = true) ∧
    (∀ pre s b post body, fn.sigs = pre ++ (s, b) :: post →
      defineSig fn.sigs s body = pre ++ (s, body) :: post) := by
  obtain ⟨h1, h2, h3⟩ := (C13_session_self_equivalent eqPer_cx64 ofDecimal_noNaN cfg hkw fuel).2.2
    init file expr stdin hinit k fn c hg
  refine ⟨h1, h2, fun e he z hz => (h3 e he).1 _ hz, fun e he => (h3 e he).2, ?_⟩
  intro pre s b post body hs
  exact (C13_redefine_replaces_session eqPer_cx64 ofDecimal_noNaN cfg hkw fuel init file expr
    stdin hinit k fn c hg s body).2.2.2 pre s b post hs

end Bits

/-! ## examples -/

section Example
open Calc.F64Eq

/-- a scanner configuration over binary64 patterns with an empty keyword table -/
private def cfg0 : ScanCfg Cx64 := ⟨4, fun c => isIdentStart c || isDigit c, fun _ => none⟩

private theorem cfg0_kw : KeywordsNoNumber cfg0 := by
  intro w k h; cases h

/-- `C13_session_cx64` applies to `cfg0` and the empty initial table: whatever the session, every
    visible function's stored signatures are self-equivalent. -/
example (fuel : Nat) (file expr : Option Str) (stdin : List Str) (k : Str) (fn : UserFn Cx64)
    (c : Bool) (hg : Env.get (session cfg0 fuel [] file expr stdin).env k = some ⟨.user fn, c⟩) :
    ∀ e ∈ fn.sigs, sigEquiv e.1.params e.1.params = true :=
  (C13_session_cx64 cfg0 cfg0_kw fuel [] file expr stdin (fun _ h => by cases h) k fn c hg).2.2.2.1

/-- on a concrete text: after the one-shot session `-e "f(0) = 1; f(0.0) = 2; f(n) = n"` on the
    empty table, whatever `f` is bound to has self-equivalent stored signatures, and defining any
    stored signature again replaces its body in place.  (The text is not evaluated here: reducing
    `scan` / `parse` / `Kernel.ofDecimal` on `Cx64` by `rfl` exhausts memory; the theorem is
    applied to the text.) -/
example (fuel : Nat) (fn : UserFn Cx64) (c : Bool)
    (hg : Env.get (session cfg0 fuel [] none (some "f(0) = 1; f(0.0) = 2; f(n) = n".toList) []).env
      ['f'] = some ⟨.user fn, c⟩) :
    (∀ e ∈ fn.sigs, sigEquiv e.1.params e.1.params = true) ∧
    (∀ pre s b post body, fn.sigs = pre ++ (s, b) :: post →
      defineSig fn.sigs s body = pre ++ (s, body) :: post) :=
  (C13_session_cx64 cfg0 cfg0_kw fuel [] none _ [] (fun _ h => by cases h) _ fn c hg).2.2.2

end Example

end Calc.Props.C13PerSession
