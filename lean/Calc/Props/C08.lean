/-
  Property C08 — Every built-in constant and function is what its name says.

  * table half: the built-in table *of the current tree* (Calc/Generated/BuiltinTable.lean,
    InitEnv.lean — regenerated from the compiled code on every run, parameter domains obtained by
    walking the generated argument checks) equals the specification table; constants are the
    stated values; closed by `decide +kernel`.
  * refusal half: for any table, a native call refuses a wrong argument count, then the *first*
    argument outside its parameter's domain, naming function, argument index, parameter and
    domain; otherwise it runs the body registered under the function's own name.
  * the bodies themselves are primitives of the numeric kernel named after the function
    (`nativeBody`), compared with the implementation by the `builtins` stream.
-/
import Calc.Proofs.Lawful
import Calc.Spec.BuiltinSpec
import Calc.Model.Builtins
import Calc.Generated.InitEnv
import Calc.Proofs.Euclid
namespace Calc.Props.C08
open Calc Calc.Gen

/-- **C08 (table).** The shipped native functions are exactly the specified ones: same names,
    same arities, same parameter names and the same stated domain for every parameter. -/
theorem C08_table : Gen.builtins = Spec.builtins := by decide +kernel

/-- a function entry is bound to the native function of the same name; a number entry is one of the
    documented constants -/
def entryNameOK (e : InitEntry) : Bool :=
  match e.val with
  | .native n => n == e.key
  | .number _ _ => Spec.constantNames.contains e.key

/-- **C08 (name table).** Every built-in name is bound, as a constant, to the function or
    constant of that very name — nothing else is in the initial table. -/
theorem C08_init_names :
    (∀ e ∈ Gen.initEntries, (Spec.constantNames ++ Spec.builtins.map (·.name)).contains e.key = true) ∧
    (∀ n ∈ Spec.constantNames ++ Spec.builtins.map (·.name), (Gen.initEntries.map (·.key)).contains n = true) ∧
    (Gen.initEntries.map (·.key)).Nodup ∧
    (∀ e ∈ Gen.initEntries, e.constant = true) ∧
    (∀ e ∈ Gen.initEntries, entryNameOK e = true) := by decide +kernel

def constOK (e : InitEntry) : Prop :=
  match e.val with
  | .native _ => True
  | .number re im =>
    if e.key = "i" then re = 0 ∧ bitsToRat im = 1
    else match Spec.constantBounds e.key with
      | some (lo, hi) => im = 0 ∧ lo ≤ bitsToRat re ∧ bitsToRat re ≤ hi
      | none => False

instance (e : InitEntry) : Decidable (constOK e) := by
  unfold constOK; split <;> try infer_instance
  split <;> try infer_instance
  split <;> infer_instance

/-- **C08 (constants).** `i` is the imaginary unit; `e`, `pi`/`π`, `tau`, `phi`/`ϕ`, `c`, `G` are
    real and lie in the stated 16-digit enclosures. -/
theorem C08_constants : ∀ e ∈ Gen.initEntries, constOK e := by decide +kernel

variable {S : Type} [Add S] [Sub S] [Mul S] [Div S] [Zero S] [One S] [Kernel S]

/-- **C08 (wrong number of arguments).** A call with a wrong argument count is refused with a
    diagnostic naming the function (and the required and received counts), whatever the arguments. -/
theorem C08_refuse_count (name : Str) (spec : BuiltinSpec) (line col : Nat) (args : List (Value S))
    (hs : Gen.builtins.find? (fun b => b.name.toList = name) = some spec)
    (hn : spec.params.length ≠ args.length) :
    callNative name line col args =
      .diag ⟨.incorrectParameterCount, line, col,
             name ++ [':'] ++ natStr spec.params.length ++ [':'] ++ natStr args.length⟩ := by
  unfold callNative; rw [hs]; simp [hn]

/-- **C08 (argument outside its domain).** With the right count, the first argument (in order)
    that is outside its parameter's stated domain is the one reported, with the function's name,
    the argument's 1-based index, the parameter's name and the domain; the body does not run. -/
theorem C08_refuse_domain (name : Str) (spec : BuiltinSpec) (line col : Nat) (args : List (Value S))
    (i : Nat) (p : ParamSpec)
    (hs : Gen.builtins.find? (fun b => b.name.toList = name) = some spec)
    (hn : spec.params.length = args.length)
    (hm : firstMisfit 1 spec.params args = some (i, p)) :
    callNative name line col args =
      .diag ⟨.incorrectParameterType, line, col,
             name ++ [':'] ++ natStr i ++ [':'] ++ p.name.toList ++ [':'] ++ constraintName p.constraint⟩ := by
  unfold callNative; rw [hs]; simp [hn, hm]

omit [Add S] [Sub S] [Mul S] [Div S] [Zero S] [One S] in
/-- what `firstMisfit` returns: the least index whose argument does not fit, all earlier ones fit -/
theorem firstMisfit_spec (k : Nat) (ps : List ParamSpec) (as : List (Value S)) (i : Nat) (p : ParamSpec)
    (h : firstMisfit k ps as = some (i, p)) :
    ∃ j, i = k + j ∧ ps[j]? = some p ∧ (∃ a, as[j]? = some a ∧ fits p.constraint a = false) ∧
      ∀ j' < j, ∃ p' a', ps[j']? = some p' ∧ as[j']? = some a' ∧ fits p'.constraint a' = true := by
  induction ps generalizing k as with
  | nil => simp [firstMisfit] at h
  | cons q qs ih =>
    cases as with
    | nil => simp [firstMisfit] at h
    | cons a as' =>
      simp only [firstMisfit] at h
      by_cases hf : fits q.constraint a = true
      · simp only [hf, if_true] at h
        obtain ⟨j, hj, hp, ha, hall⟩ := ih (k + 1) as' h
        refine ⟨j + 1, by omega, by simpa using hp, by simpa using ha, ?_⟩
        intro j' hj'
        cases j' with
        | zero => exact ⟨q, a, by simp, by simp, hf⟩
        | succ j'' =>
          obtain ⟨p', a', h1, h2, h3⟩ := hall j'' (by omega)
          exact ⟨p', a', by simpa using h1, by simpa using h2, h3⟩
      · simp only [hf] at h
        have hf' : fits q.constraint a = false := by simpa using hf
        simp at h
        obtain ⟨rfl, rfl⟩ := h
        exact ⟨0, by omega, by simp, ⟨a, by simp, hf'⟩, by intro j' hj'; omega⟩

/-- **C08 (accepted call).** With the right count and every argument inside its domain the call
    is the body registered under the function's own name. -/
theorem C08_accept (name : Str) (spec : BuiltinSpec) (line col : Nat) (args : List (Value S))
    (hs : Gen.builtins.find? (fun b => b.name.toList = name) = some spec)
    (hn : spec.params.length = args.length)
    (hm : firstMisfit 1 spec.params args = none) :
    callNative name line col args = nativeBody name line col args := by
  unfold callNative; rw [hs]; simp [hn, hm]

omit [Add S] [Sub S] [Mul S] [Div S] [One S] in
/-- the stated domains are what their names say (at any kernel): a value fits `real` iff it is
    a number whose imaginary part is zero, etc. -/
theorem C08_domains (v : Value S) :
    (fits .number v = true ↔ ∃ z, v = .number z) ∧
    (fits .real v = true ↔ ∃ z, v = .number z ∧ Kernel.imIsZero z = true) ∧
    (fits .integer v = true ↔ ∃ z, v = .number z ∧ Kernel.imIsZero z = true ∧ Kernel.reFractIsZero z = true) ∧
    (fits .positiveInteger v = true ↔
      ∃ z, v = .number z ∧ Kernel.imIsZero z = true ∧ Kernel.reFractIsZero z = true ∧ Kernel.rePos z = true) ∧
    (fits .matrix v = true ↔ ∃ m, v = .matrix m) ∧
    (fits .squareMatrix v = true ↔ ∃ m, v = .matrix m ∧ Mat.nrows m = Mat.ncols m) := by
  cases v <;> simp [fits, Bool.and_eq_true, and_assoc]


/-- **C08 (each name runs its own primitive).** Once the arguments are accepted, the function
    named `f` applies the kernel primitive `f` to its argument — `re`/`im`/`arg`/`conj`/`abs`/`ceil`/
    `floor` are the real part, imaginary part, argument, conjugate, modulus, ceiling, floor; `log`
    takes the base first; `gcd`/`lcm` take their two integers in order; the matrix functions are the
    operations of C07.  (A name table that binds `sin` to the cosine breaks `C08_init_names`; a
    body that computes something else is caught by the `builtins` correspondence stream.) -/
theorem C08_bodies (z w : S) (m : Mat S) (l c : Nat) :
    nativeBody "sin".toList l c [.number z] = .ok (.number (Kernel.sin z)) ∧
    nativeBody "cos".toList l c [.number z] = .ok (.number (Kernel.cos z)) ∧
    nativeBody "tan".toList l c [.number z] = .ok (.number (Kernel.tan z)) ∧
    nativeBody "asin".toList l c [.number z] = .ok (.number (Kernel.asin z)) ∧
    nativeBody "acos".toList l c [.number z] = .ok (.number (Kernel.acos z)) ∧
    nativeBody "atan".toList l c [.number z] = .ok (.number (Kernel.atan z)) ∧
    nativeBody "sinh".toList l c [.number z] = .ok (.number (Kernel.sinh z)) ∧
    nativeBody "cosh".toList l c [.number z] = .ok (.number (Kernel.cosh z)) ∧
    nativeBody "tanh".toList l c [.number z] = .ok (.number (Kernel.tanh z)) ∧
    nativeBody "asinh".toList l c [.number z] = .ok (.number (Kernel.asinh z)) ∧
    nativeBody "acosh".toList l c [.number z] = .ok (.number (Kernel.acosh z)) ∧
    nativeBody "atanh".toList l c [.number z] = .ok (.number (Kernel.atanh z)) ∧
    nativeBody "re".toList l c [.number z] = .ok (.number (Kernel.reS z)) ∧
    nativeBody "im".toList l c [.number z] = .ok (.number (Kernel.imS z)) ∧
    nativeBody "arg".toList l c [.number z] = .ok (.number (Kernel.argS z)) ∧
    nativeBody "conj".toList l c [.number z] = .ok (.number (Kernel.conj z)) ∧
    nativeBody "abs".toList l c [.number z] = .ok (.number (Kernel.norm z)) ∧
    nativeBody "ceil".toList l c [.number z] = .ok (.number (Kernel.ceilRe z)) ∧
    nativeBody "floor".toList l c [.number z] = .ok (.number (Kernel.floorRe z)) ∧
    nativeBody "log2".toList l c [.number z] = .ok (.number (Kernel.log2 z)) ∧
    nativeBody "log10".toList l c [.number z] = .ok (.number (Kernel.log10 z)) ∧
    nativeBody "ln".toList l c [.number z] = .ok (.number (Kernel.ln z)) ∧
    nativeBody "sqrt".toList l c [.number z] = .ok (.number (Kernel.sqrt z)) ∧
    nativeBody "log".toList l c [.number z, .number w] = .ok (.number (Kernel.logBase z w)) ∧
    nativeBody "gcd".toList l c [.number z, .number w] = .ok (.number (Kernel.gcd z w)) ∧
    nativeBody "lcm".toList l c [.number z, .number w] = .ok (.number (Kernel.lcm z w)) ∧
    nativeBody "identity".toList l c [.number z] = (Mat.identity (Kernel.reToNat z)).bind (fun r => .ok (.matrix r)) ∧
    nativeBody "transpose".toList l c [.matrix m] = (Mat.transpose m).bind (fun r => .ok (.matrix r)) ∧
    nativeBody "determinant".toList l c [.matrix m] = (Mat.det m).bind (fun d => .ok (.number d)) ∧
    nativeBody "inverse".toList l c [.matrix m] = (Mat.inverse m).bind (fun r =>
      match r with
      | some inv => .ok (.matrix inv)
      | none => .diag ⟨.noInverseForMatrix, l, c, []⟩) := by
  refine ⟨?_, ?_, ?_, ?_, ?_, ?_, ?_, ?_, ?_, ?_, ?_, ?_, ?_, ?_, ?_, ?_, ?_, ?_, ?_, ?_, ?_, ?_, ?_, ?_, ?_, ?_, ?_, ?_, ?_, ?_⟩ <;> simp [nativeBody, num1, numArg, matArg, Res.bind] <;> cases Mat.inverse m <;> rfl

/-- **C08 (gcd / lcm routine).** Euclid's loop of `_gcd` (on the absolute values of two
    integer-valued arguments, where the float remainder is exact) returns the greatest common
    divisor, which divides both; `_lcm` is the least common multiple; and gcd · lcm = |a · b|.
    (The tie between this loop on ℕ and the float loop of the Rust is the exactness of `fmod` on
    integer-valued doubles — trusted — and the `builtins` stream.) -/
theorem C08_gcd_lcm (a b : Nat) :
    Euclid.loop (b + 1) a b = Nat.gcd a b ∧
    (Euclid.loop (b + 1) a b ∣ a ∧ Euclid.loop (b + 1) a b ∣ b) ∧
    Euclid.lcm a b = Nat.lcm a b ∧
    Euclid.loop (b + 1) a b * Euclid.lcm a b = a * b :=
  ⟨Euclid.gcd_correct a b, Euclid.gcd_dvd a b, Euclid.lcm_correct a b, Euclid.gcd_mul_lcm a b⟩

-- the hypotheses of the refusal theorems are satisfiable on the shipped table
example : Gen.builtins.find? (fun b => b.name.toList = "log".toList) =
    some ⟨"log", [⟨"base", .real⟩, ⟨"val", .number⟩]⟩ := by decide +kernel

end Calc.Props.C08
