/-
  Property C01 (evaluator half) — "processing ends normally … never panics".

  In the model every panic site of the Rust (`assert!`, `unwrap`, slice index, `_ => panic!()`)
  is an explicit `.panic` result.  The theorems below say these branches are dead code on the
  reachable states: well-formed trees (`Expr.EvalWF` — what the parser produces), well-formed
  values (`Value.WF`) and tables holding well-formed values (`EnvWF`).

  One hypothesis about the abstract numeric kernel is needed, for `identity`:
  `PosToNat S` — a scalar that is real, integer-valued and positive converts (`as usize`) to a
  positive natural number.  It holds for `f64`; it is explicit in every statement that uses it.

  Property theorems only; proofs are in Calc/Proofs/WfDefs.lean, NoPanicMat.lean,
  NoPanicOps.lean, NoPanicNative.lean, NoPanicEval.lean, NoPanicStep.lean, NoPanicFuel.lean.
-/
import Calc.Proofs.NoPanicStep
import Calc.Proofs.NoPanicFuel
namespace Calc

variable {S : Type} [Add S] [Sub S] [Mul S] [Div S] [Zero S] [One S] [Kernel S]

/-! ## matrix operations -/

/-- **C01 (matrix operations).**  On matrices that `Matrix::from_rows` accepts and that pass
    the evaluator's shape guards, no assertion of matrix.rs fires: sum, difference and product
    return a well-shaped matrix of the expected shape; scaling, negation and division by a scalar
    keep the shape; transposition swaps it; `identity n` exists for `n ≥ 1`; determinant and
    inverse of a square matrix return normally (the inverse, when there is one, is well shaped);
    the cross and dot products return normally under their guards. -/
theorem C01_matrix_ops_no_panic (a b : Mat S) (ha : Mat.wellShaped a = true)
    (hb : Mat.wellShaped b = true) :
    (Mat.nrows a = Mat.nrows b → Mat.ncols a = Mat.ncols b →
      ∃ r, Mat.add a b = .ok r ∧ Mat.wellShaped r = true ∧ Mat.nrows r = Mat.nrows a ∧
        Mat.ncols r = Mat.ncols a) ∧
    (Mat.nrows a = Mat.nrows b → Mat.ncols a = Mat.ncols b →
      ∃ r, Mat.sub a b = .ok r ∧ Mat.wellShaped r = true ∧ Mat.nrows r = Mat.nrows a ∧
        Mat.ncols r = Mat.ncols a) ∧
    (Mat.ncols a = Mat.nrows b →
      ∃ r, Mat.mul a b = .ok r ∧ Mat.wellShaped r = true ∧ Mat.nrows r = Mat.nrows a ∧
        Mat.ncols r = Mat.ncols b) ∧
    (∀ k, Mat.wellShaped (Mat.scale a k) = true ∧ Mat.nrows (Mat.scale a k) = Mat.nrows a ∧
        Mat.ncols (Mat.scale a k) = Mat.ncols a) ∧
    (Mat.wellShaped (Mat.neg a) = true ∧ Mat.nrows (Mat.neg a) = Mat.nrows a ∧
        Mat.ncols (Mat.neg a) = Mat.ncols a) ∧
    (∀ k, Mat.wellShaped (Mat.divScalar a k) = true ∧ Mat.nrows (Mat.divScalar a k) = Mat.nrows a ∧
        Mat.ncols (Mat.divScalar a k) = Mat.ncols a) ∧
    (∃ r, Mat.transpose a = .ok r ∧ Mat.wellShaped r = true ∧ Mat.nrows r = Mat.ncols a ∧
        Mat.ncols r = Mat.nrows a) ∧
    (∀ n, 0 < n → ∃ r : Mat S, Mat.identity n = .ok r ∧ Mat.wellShaped r = true ∧
        Mat.nrows r = n ∧ Mat.ncols r = n) ∧
    (Mat.nrows a = Mat.ncols a → ∃ d, Mat.det a = .ok d) ∧
    (Mat.nrows a = Mat.ncols a →
      Mat.inverse a = .ok none ∨
      ∃ r, Mat.inverse a = .ok (some r) ∧ Mat.wellShaped r = true ∧ Mat.nrows r = Mat.nrows a ∧
        Mat.ncols r = Mat.nrows a) ∧
    (Mat.nrows a = 1 → Mat.nrows b = 1 → Mat.ncols a = 3 → Mat.ncols b = 3 →
      ∃ r, Mat.rowCross a b = .ok r ∧ Mat.wellShaped r = true) ∧
    (Mat.ncols a = 1 → Mat.ncols b = 1 → Mat.nrows a = 3 → Mat.nrows b = 3 →
      ∃ r, Mat.colCross a b = .ok r ∧ Mat.wellShaped r = true) ∧
    (Mat.nrows a = 1 → Mat.nrows b = 1 → Mat.ncols a = Mat.ncols b →
      ∃ z, Mat.rowDot a b = .ok z) ∧
    (Mat.ncols a = 1 → Mat.ncols b = 1 → Mat.nrows a = Mat.nrows b →
      ∃ z, Mat.colDot a b = .ok z) :=
  ⟨Mat.NoPanic.add_ok ha hb, Mat.NoPanic.sub_ok ha hb, Mat.NoPanic.mul_ok ha hb, fun k => Mat.NoPanic.scale_shape k ha,
   Mat.NoPanic.neg_shape ha, fun k => Mat.NoPanic.divScalar_shape k ha, Mat.NoPanic.transpose_ok ha,
   fun _ hn => Mat.NoPanic.identity_ok hn, fun hsq => ⟨_, Mat.NoPanic.det_ok ha hsq⟩, Mat.NoPanic.inverse_ok ha,
   fun h1 h2 h3 h4 => let ⟨r, hr, hw, _⟩ := Mat.NoPanic.rowCross_ok h1 h2 h3 h4; ⟨r, hr, hw⟩,
   fun h1 h2 h3 h4 => let ⟨r, hr, hw, _⟩ := Mat.NoPanic.colCross_ok h1 h2 h3 h4; ⟨r, hr, hw⟩,
   Mat.NoPanic.rowDot_ok, Mat.NoPanic.colDot_ok⟩

/-! ## operators -/

/-- **C01 (binary operators).**  For well-formed operands and a token that is one of the eight
    binary operators, `evaluate_binary` returns a well-formed value or a diagnostic: the
    `_ => panic!("Invalid token kind…")` arm and the matrix assertions are not reached. -/
theorem C01_binop_no_panic (op : Tok S) (a b : Value S) (hop : binTag op.tag = true)
    (ha : a.WF) (hb : b.WF) :
    (∃ v, binop op a b = .ok v ∧ v.WF) ∨ (∃ d, binop op a b = .diag d) :=
  Res.safe_iff.mp (binop_safe op a b hop ha hb)

/-- **C01 (unary operators).**  Likewise for `-`, `√`, `!` on a well-formed operand. -/
theorem C01_unop_no_panic (op : Tok S) (v : Value S) (hop : unTag op.tag = true) (hv : v.WF) :
    (∃ w, unop op v = .ok w ∧ w.WF) ∨ (∃ d, unop op v = .diag d) :=
  Res.safe_iff.mp (unop_safe op v hop hv)

/-- **C01 (groupings).**  Parentheses, `|…|`, `⌈…⌉`, `⌊…⌋` on a well-formed operand. -/
theorem C01_groupop_no_panic (paren : Tok S) (k : GKind) (v : Value S) (hv : v.WF) :
    (∃ w, groupop paren k v = .ok w ∧ w.WF) ∨ (∃ d, groupop paren k v = .diag d) :=
  Res.safe_iff.mp (groupop_safe paren k v hv)

/-- **C01 (unit conversion).**  `as` on any value. -/
theorem C01_asop_no_panic (tok : Tok S) (u : Unit) (v : Value S) :
    (∃ w, asop tok u v = .ok w ∧ w.WF) ∨ (∃ d, asop tok u v = .diag d) :=
  Res.safe_iff.mp (asop_safe tok u v)

/-! ## native functions -/

/-- the three ways of saying that `n` names a native function agree (the third is the
    specification table of C08) -/
theorem C01_nativeName (n : Str) :
    (NativeName n ↔ (Gen.builtins.find? (fun b => b.name.toList = n)).isSome = true) ∧
    (NativeName n ↔ ∃ spec ∈ Spec.builtins, spec.name.toList = n) :=
  ⟨nativeName_iff_find n, nativeName_iff_spec n⟩

/-- **C01 (native calls).**  A call to a function of the built-in table with well-formed
    arguments — any number of them, of any kinds — returns a well-formed value or a diagnostic:
    the table lookup succeeds, the count check precedes every `args[i]`, the domain check makes
    every generated `match … { _ => panic!() }` extraction succeed, `identity` receives a size
    `≥ 1`, `determinant` and `inverse` a square matrix. -/
theorem C01_native_no_panic (hpos : PosToNat S) (name : Str) (hn : NativeName name)
    (line col : Nat) (args : List (Value S)) (hargs : ∀ a ∈ args, a.WF) :
    (∃ v, callNative name line col args = .ok v ∧ v.WF) ∨
    (∃ d, callNative name line col args = .diag d) :=
  Res.safe_iff.mp (callNative_safe hpos name hn line col args hargs)

/-! ## the evaluator -/

/-- **C01 (evaluation).**  Evaluating a well-formed tree in a well-formed table returns a
    well-formed value, or a diagnostic, or — in the model only — runs out of fuel; it never
    reaches a panic site.  For every amount of fuel, every tree, every table; user-function
    calls of any depth included. -/
theorem C01_eval_no_panic (hpos : PosToNat S) (fuel : Nat) (e : Expr S) (env : Env S)
    (hwf : e.EvalWF) (henv : EnvWF env) :
    (∃ v, (eval fuel e env).res = .ok v ∧ v.WF) ∨ (∃ d, (eval fuel e env).res = .diag d) ∨
    (eval fuel e env).res = .fuel :=
  Res.noPanic_iff.mp (eval_noPanic hpos fuel e env hwf henv)

/-- the same, as a negative statement -/
theorem C01_eval_never_panics (hpos : PosToNat S) (fuel : Nat) (e : Expr S) (env : Env S)
    (hwf : e.EvalWF) (henv : EnvWF env) (site : Str) : (eval fuel e env).res ≠ .panic site := by
  intro h
  have := eval_noPanic hpos fuel e env hwf henv
  rw [h] at this
  exact this

/-! ## statements -/

/-- **C01 (one statement).**  A well-formed statement run in a well-formed table leaves a
    well-formed table and prints no panic line. -/
theorem C01_step_inv (hpos : PosToNat S) (fuel : Nat) (env : Env S) (s : Stmt S)
    (henv : EnvWF env) (hs : s.EvalWF) :
    EnvWF (step fuel env s).env ∧ ∀ l ∈ (step fuel env s).out, ∀ site, l ≠ Line.panic site := by
  have h := step_good hpos fuel env s henv hs
  refine ⟨h.env, ?_⟩
  intro l hl site heq
  have := h.out l hl
  rw [heq] at this
  cases this

/-- **C01 (any number of statements).**  Running a list of well-formed statements — of any
    length — from a well-formed table leaves a well-formed table and prints no panic line. -/
theorem C01_runStmts_inv (hpos : PosToNat S) (fuel : Nat) (env : Env S) (ss : List (Stmt S))
    (henv : EnvWF env) (hss : ∀ s ∈ ss, s.EvalWF) :
    EnvWF (runStmts fuel env ss).env ∧
    ∀ l ∈ (runStmts fuel env ss).out, ∀ site, l ≠ Line.panic site := by
  have h := runStmts_good hpos fuel ss env henv hss
  refine ⟨h.env, ?_⟩
  intro l hl site heq
  have := h.out l hl
  rw [heq] at this
  cases this

/-! ## magnitudes -/

/-- **C01 (magnitude-free termination).**  The size of the numbers involved never determines
    how long an evaluation runs:
    * `n!` performs at most 169 multiplications whatever `n` is — beyond 170 it is `∞` at once,
      up to 170 it is the product over `2..=n`;
    * a tree without call nodes never runs out of fuel once the fuel exceeds its nesting depth —
      whatever numbers occur in it and whatever the table holds. -/
theorem C01_magnitude_free :
    (∀ n : Nat, 170 < n → factorial (S := S) n = Kernel.inf) ∧
    (∀ n : Nat, n ≤ 170 →
      factorial (S := S) n = (List.range' 2 (n - 1)).foldl (fun acc k => acc * Kernel.ofNat k) 1 ∧
      (List.range' 2 (n - 1)).length ≤ 169) ∧
    (∀ (fuel : Nat) (e : Expr S) (env : Env S), e.callFree → e.depth < fuel →
      (eval fuel e env).res ≠ .fuel) :=
  ⟨factorial_big, factorial_small, eval_callFree_ne_fuel⟩

/-- **C01 (call-free trees end normally).**  Combined: a well-formed tree without calls, in a
    well-formed table, with fuel above its depth, returns a well-formed value or a diagnostic. -/
theorem C01_callFree_total (hpos : PosToNat S) (fuel : Nat) (e : Expr S) (env : Env S)
    (hwf : e.EvalWF) (henv : EnvWF env) (hcf : e.callFree) (hd : e.depth < fuel) :
    (∃ v, (eval fuel e env).res = .ok v ∧ v.WF) ∨ (∃ d, (eval fuel e env).res = .diag d) := by
  rcases C01_eval_no_panic hpos fuel e env hwf henv with h | h | h
  · exact .inl h
  · exact .inr h
  · exact absurd h (eval_callFree_ne_fuel fuel e env hcf hd)

/-! ## the starting state is reachable -/

/-- the shipped initial table over an arbitrary scalar type (same construction as
    `Exec.initEnv`) -/
def shippedInitEnv (S : Type) [Kernel S] : Env S :=
  Gen.initEntries.map fun e =>
    (e.key.toList,
     ⟨match e.val with
       | .number re im => .number (Kernel.ofBits re im)
       | .native n => .native n.toList,
      e.constant⟩)

omit [Add S] [Sub S] [Mul S] [Div S] [Zero S] [One S] in
/-- **C01 (initial table).**  The shipped initial table is well formed: every native function
    value in it names a function of the built-in table. -/
theorem C01_init_wf : EnvWF (shippedInitEnv S) := by
  intro kv hkv
  obtain ⟨e, he, rfl⟩ := List.mem_map.mp hkv
  have key : ∀ e ∈ Gen.initEntries,
      (match e.val with
        | .native n => Gen.builtins.any (fun b => b.name == n)
        | .number _ _ => true) = true := by decide +kernel
  have hk := key e he
  cases hv : e.val with
  | number re im => simp only; exact trivial
  | native n =>
    rw [hv] at hk
    simp only [List.any_eq_true, beq_iff_eq] at hk
    obtain ⟨b, hb, rfl⟩ := hk
    simp only
    exact ⟨b, hb, rfl⟩

/-! ## the hypotheses are satisfiable -/

section Example
variable (z : S)

/-- a well-formed tree with every kind of node the hypotheses constrain: `[1, 2] + -x` -/
example (plus minus br x : Tok S) (hp : plus.tag = .plus) (hm : minus.tag = .minus) :
    (Expr.binary (.matrix br [[.number z, .number z]]) plus (.unary minus (.ident x))).EvalWF := by
  simp [Expr.EvalWF, Expr.EvalWFRows, Expr.EvalWFArgs, binTag, unTag, hp, hm]

/-- a well-formed table holding a user function and a native one -/
example (x : Tok S) :
    EnvWF ([("f".toList, ⟨.user ⟨"f".toList, [(⟨[.ident "x".toList]⟩, .ident x)]⟩, false⟩),
            ("s".toList, ⟨.native "sin".toList, true⟩)] : Env S) := by
  intro kv hkv
  simp only [List.mem_cons, List.not_mem_nil, or_false] at hkv
  rcases hkv with rfl | rfl
  · intro se hse
    simp only [List.mem_singleton] at hse
    subst hse
    simp [Expr.EvalWF]
  · exact ⟨⟨"sin", [⟨"val", .number⟩]⟩, by decide, rfl⟩

/-- a call-free tree of depth 2: `-(x)` -/
example (minus lp x : Tok S) :
    (Expr.unary minus (.grouping lp .grouping (.ident x))).callFree ∧
    (Expr.unary minus (.grouping lp .grouping (.ident x))).depth = 2 := by
  simp [Expr.callFree, Expr.depth]

/-- a well-shaped matrix -/
example : Mat.wellShaped [[z, z], [z, z]] = true := rfl

end Example

end Calc
