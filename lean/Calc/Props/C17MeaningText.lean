/-
  Calc.Props.C17MeaningText — C17 end to end: "blank space never changes MEANING", from the text
  to what is printed.

  Props/C17Blanks.lean, C17Remove.lean: inserting / removing blanks at a token boundary changes
  only the line and column of the scanned tokens.  Props/C17Meaning.lean: evaluation, statement
  execution and printing ignore line and column.  Here the link between the two: the PARSER
  ignores line and column (statements related by `Stmt.SimP`, parse errors equal up to their
  position), hence `processText` (scan, parse, run) on the two texts prints the same value texts,
  reports the same diagnostics up to line/col, and leaves related tables.
  Property theorems only; proofs in Calc/Proofs/ParsePos.lean (which rests on `parse_erasePos`
  of Calc/Proofs/FrontParseTab.lean: parsing commutes with erasing positions) and
  Calc/Proofs/EvalPos.lean.
-/
import Calc.Proofs.ParsePos
import Calc.Proofs.ParseFuel
import Calc.Props.C17Blanks
import Calc.Props.C17Remove
import Calc.Props.C17Delims
namespace Calc.Props.C17MeaningText
open Calc

variable {S : Type}

/-- C17, parser: two token lists of the same length whose tokens agree pointwise in everything
    except line and column (`Tok.EqModPos`: same kind — number value included — and same lexeme)
    are either both accepted, as statement lists of the same length that are pointwise the same up
    to the positions of the stored tokens (`Stmt.SimP`), or both rejected, with the same parse
    error (kind and info text; both "at end of input" or both "at a token") up to line/col. -/
theorem C17_parse_ignores_positions (ts ts' : List (Tok S)) (h : All₂ Tok.EqModPos ts ts') :
    (∃ ss ss', parse ts = .ok ss ∧ parse ts' = .ok ss' ∧ All₂ Stmt.SimP ss ss') ∨
    (∃ e e', parse ts = .err e ∧ parse ts' = .err e' ∧ PErr.SimPos e e') := by
  have hp := parse_simP h
  generalize h1 : parse ts = r at hp
  generalize h2 : parse ts' = r' at hp
  cases hp with
  | ok hs => exact .inl ⟨_, _, rfl, rfl, hs⟩
  | err he => exact .inr ⟨_, _, rfl, rfl, he⟩
  | fuel => exact absurd h1 (parse_ne_fuel ts)

/-- the same with the hypothesis in the form the scanner theorems deliver it
    (`toks'.map Tok.noPos = toks.map Tok.noPos`); the two forms are equivalent -/
theorem C17_parse_ignores_positions_noPos (ts ts' : List (Tok S))
    (h : ts.map Tok.noPos = ts'.map Tok.noPos) :
    (∃ ss ss', parse ts = .ok ss ∧ parse ts' = .ok ss' ∧ All₂ Stmt.SimP ss ss') ∨
    (∃ e e', parse ts = .err e ∧ parse ts' = .err e' ∧ PErr.SimPos e e') :=
  C17_parse_ignores_positions ts ts' (all₂_eqModPos_iff_noPos.2 h)

/-- pointwise `EqModPos` is the same as equal lists of `Tok.noPos` -/
theorem C17_eqModPos_lists_iff_noPos (ts ts' : List (Tok S)) :
    All₂ Tok.EqModPos ts ts' ↔ ts.map Tok.noPos = ts'.map Tok.noPos :=
  all₂_eqModPos_iff_noPos

variable [Add S] [Sub S] [Mul S] [Div S] [Zero S] [One S] [Kernel S]

/-- C17, `processText`: two texts that both scan, to token lists that agree pointwise up to
    line/col, processed with the same fuel from tables related by `Env.SimP`, print the same
    number of lines, pointwise related (`Line.SimP`: a value line faces a value line with a related
    value, an evaluation / parse diagnostic faces the same diagnostic up to line/col, panic and
    fuel lines are equal), and leave related tables. -/
theorem C17_processText_ignores_positions (cfg cfg' : ScanCfg S) (fuel : Nat) (env env' : Env S)
    (text text' : Str) (toks toks' : List (Tok S))
    (h : scan cfg text = .ok toks) (h' : scan cfg' text' = .ok toks')
    (ht : All₂ Tok.EqModPos toks toks') (henv : Env.SimP env env') :
    StepOut.SimP (processText cfg fuel env text) (processText cfg' fuel env' text') :=
  processText_simP h h' ht fuel henv

omit [Add S] [Sub S] [Mul S] [Div S] [Zero S] [One S] in
/-- C17, what the user sees: related outputs have the same number of lines and the same printed
    value texts, line by line (`Line.valueText` = `some (showValue v)` on a value line, `none` on
    any other line) — equal TEXT, not merely related values. -/
theorem C17_related_outputs_print_same (o o' : List (Line S)) (h : All₂ Line.SimP o o') :
    o.length = o'.length ∧ o.map Line.valueText = o'.map Line.valueText :=
  ⟨h.length_eq, valueTexts_simP h⟩

/-- **C17, inserting blanks, end to end.**  Under the hypotheses of `C17_blank_insert` (the text
    `x ++ y` scans, the split is a token boundary, `b` is a run of spaces, tabs and carriage
    returns; no blank continues an identifier), processing `x ++ y` and `x ++ b ++ y` with the same
    fuel from related tables (in particular from the same table) gives: related tables afterwards;
    the same number of output lines, pointwise related — diagnostics (evaluation and parse errors)
    equal up to line/col; and the same printed value texts line by line. -/
theorem C17_blank_insert_meaning (cfg : ScanCfg S)
    (hblank : ∀ c, isBlank c = true → isIdentCont cfg c = false)
    (x y b : List Char) (toks : List (Tok S))
    (h : scan cfg (x ++ y) = .ok toks) (hbd : Boundary cfg x y) (hb : b.all isBlank = true)
    (fuel : Nat) (env env' : Env S) (henv : Env.SimP env env') :
    StepOut.SimP (processText cfg fuel env (x ++ y)) (processText cfg fuel env' (x ++ b ++ y)) ∧
    (processText cfg fuel env (x ++ y)).out.map Line.valueText =
      (processText cfg fuel env' (x ++ b ++ y)).out.map Line.valueText := by
  obtain ⟨toks', h', e⟩ := C17_blank_insert cfg hblank x y b toks h hbd hb
  have hs := processText_simP h h' (all₂_eqModPos_iff_noPos.2 e.symm) fuel henv
  exact ⟨hs, valueTexts_simP hs.out⟩

/-- the same for the shipped identifier table (`tableCfg`), where `hblank` holds -/
theorem C17_blank_insert_meaning_table (tab : Nat) (kw : Str → Option (Kind S))
    (x y b : List Char) (toks : List (Tok S))
    (h : scan (tableCfg tab kw) (x ++ y) = .ok toks) (hbd : Boundary (tableCfg tab kw) x y)
    (hb : b.all isBlank = true) (fuel : Nat) (env env' : Env S) (henv : Env.SimP env env') :
    StepOut.SimP (processText (tableCfg tab kw) fuel env (x ++ y))
      (processText (tableCfg tab kw) fuel env' (x ++ b ++ y)) ∧
    (processText (tableCfg tab kw) fuel env (x ++ y)).out.map Line.valueText =
      (processText (tableCfg tab kw) fuel env' (x ++ b ++ y)).out.map Line.valueText :=
  C17_blank_insert_meaning _ (tableCfg_hblank tab kw) x y b toks h hbd hb fuel env env' henv

/-- **C17, removing blanks, end to end.**  Under the hypotheses of `C17_blank_remove` (the text
    `x ++ b ++ y` scans, `b` is a blank run at a token boundary, and the adjacency rule
    `needsSepAt` does not ask for a separator between `x` and `y`), processing `x ++ b ++ y` and
    `x ++ y` gives related tables, pointwise related output lines and equal printed value texts. -/
theorem C17_blank_remove_meaning (cfg : ScanCfg S) (x b y : List Char) (toks : List (Tok S))
    (h : scan cfg (x ++ b ++ y) = .ok toks) (hbd : Boundary cfg x (b ++ y))
    (hb : b.all isBlank = true) (hsep : needsSepAt cfg x y = false)
    (fuel : Nat) (env env' : Env S) (henv : Env.SimP env env') :
    StepOut.SimP (processText cfg fuel env (x ++ b ++ y)) (processText cfg fuel env' (x ++ y)) ∧
    (processText cfg fuel env (x ++ b ++ y)).out.map Line.valueText =
      (processText cfg fuel env' (x ++ y)).out.map Line.valueText := by
  obtain ⟨toks', h', e⟩ := C17_blank_remove cfg x b y toks h hbd hb hsep
  have hs := processText_simP h h' (all₂_eqModPos_iff_noPos.2 e.symm) fuel henv
  exact ⟨hs, valueTexts_simP hs.out⟩

/-- **C17, delimiters, end to end.**  Two texts that scan to delimiter variants of each other
    (`DelimVariant`: newline and `;` exchanged at statement ends, delimiters added or removed
    between statements) are processed identically: same table afterwards, same output lines. -/
theorem C17_delims_meaning (cfg cfg' : ScanCfg S) (text text' : Str) (a b : List (Tok S))
    (h : scan cfg text = .ok a) (h' : scan cfg' text' = .ok b) (hv : DelimVariant a b)
    (fuel : Nat) (env : Env S) :
    processText cfg fuel env text = processText cfg' fuel env text' :=
  processText_of_parse_eq h h' (C17_delims_variant hv) fuel env

/-! ## Satisfiability of the hypotheses -/

/-- the hypotheses of `C17_blank_insert_meaning` are satisfiable and the theorem applies: a tab
    and a space inserted before `2-1 <newline>` (the start of the text is a boundary) -/
example (fuel : Nat) (env : Env S) :
    let cfg : ScanCfg S := ⟨4, fun c => isIdentStart c || isDigit c, fun _ => none⟩
    StepOut.SimP (processText cfg fuel env ([] ++ "2-1\n".toList))
      (processText cfg fuel env ([] ++ "\t ".toList ++ "2-1\n".toList)) := by
  intro cfg
  refine (C17_blank_insert_meaning cfg ?_ [] "2-1\n".toList "\t ".toList _ rfl .nil rfl fuel env env
    (Env.SimP.refl env)).1
  intro c h
  simp only [isBlank, Bool.or_eq_true, decide_eq_true_eq] at h
  rcases h with (rfl | rfl) | rfl <;> rfl

/-- the hypotheses of `C17_blank_remove_meaning` are satisfiable: `2 \t- 1` against `2- 1` -/
example (fuel : Nat) (env : Env S) :
    (processText adjCfg fuel env ("2".toList ++ " \t".toList ++ "- 1".toList)).out.map
        Line.valueText =
      (processText adjCfg fuel env ("2".toList ++ "- 1".toList)).out.map Line.valueText :=
  (C17_blank_remove_meaning adjCfg "2".toList " \t".toList "- 1".toList _ rfl adjEx_boundary rfl rfl
    fuel env env (Env.SimP.refl env)).2

/-- the hypothesis of `C17_parse_ignores_positions` is satisfiable by different token lists -/
example :
    let t : Tok S := ⟨.ident ['x'], ['x'], 1, 1⟩
    let t' : Tok S := ⟨.ident ['x'], ['x'], 3, 7⟩
    All₂ Tok.EqModPos [t] [t'] ∧ [t] ≠ [t'] := by
  refine ⟨.cons ⟨rfl, rfl⟩ .nil, ?_⟩
  intro h
  simp only [List.cons.injEq, Tok.mk.injEq, and_true] at h
  exact absurd h.2.2.1 (by decide)

end Calc.Props.C17MeaningText
