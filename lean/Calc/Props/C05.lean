/-
  Property C05 — Unit conversions follow the units' definitions.

  Table half (this file): the factors, symbols and spellings *shipped by the current tree*
  (Calc/Generated/*.lean, regenerated from the compiled code on every run) against the exact
  definitions (Calc/Spec/ExactUnits.lean, Calc/Spec/Spellings.lean).  Closed by `decide +kernel`
  on exact rationals: no axioms; a wrong entry is refuted by the kernel.
  Algebra half: Calc/Props/C05Algebra.lean (round trip, paths, cross-kind refusal, bare numbers).
-/
import Calc.Proofs.Lawful
import Calc.Spec.ExactUnits
import Calc.Spec.Spellings
import Calc.Generated.UnitTable
import Calc.Generated.Keywords
namespace Calc.Props.C05
open Calc Calc.Spec

/-- every unit is in the protocol list (so `∀ u ∈ Unit.all` is `∀ u`) -/
theorem unit_all_complete : ∀ u : Unit, u ∈ Unit.all := by
  intro u
  cases u with
  | distance d => cases d <;> decide
  | mass d => cases d <;> decide
  | temperature d => cases d <;> decide
  | storage d => cases d <;> decide

/-- the shipped factor of `u` ("how many `u` per base unit") times the exact size of one `u`
    is 1 up to the tolerance of `u` -/
def FactorOK (u : Unit) : Prop :=
  |bitsToRat (Gen.perBaseBits u) * unitSize u - 1| ≤ tolerance u

instance (u : Unit) : Decidable (FactorOK u) := by unfold FactorOK; infer_instance

/- OPEN (false on the current tree — known finding K1, pinned by `test_get_per_byte`):
     theorem C05_table : ∀ u, u.kind ≠ .temperature → FactorOK u
   The thirteen bit-family rows ship 1/8 per byte where the definition is 8 bits per byte. -/

/-- **C05 (factors).** Every shipped factor outside the bit family follows the unit's definition. -/
theorem C05_table_partial : ∀ u : Unit, u.kind ≠ .temperature → isBitFamily u = false → FactorOK u := by
  have h : ∀ u ∈ Unit.all, u.kind ≠ .temperature → isBitFamily u = false → FactorOK u := by decide +kernel
  exact fun u => h u (unit_all_complete u)

/-- the negation at the witness: the shipped `bit` factor is not the definition's (replayed on the
    implementation on every run as `1 B as b`) -/
theorem C05_bit_counterexample : ∀ u : Unit, isBitFamily u = true → ¬ FactorOK u := by
  have h : ∀ u ∈ Unit.all, isBitFamily u = true → ¬ FactorOK u := by decide +kernel
  exact fun u => h u (unit_all_complete u)

/-- the known finding K1 stated exactly, so that any *other* deviation of a bit-family row is not
    covered by it: each of the thirteen rows ships the definition's factor divided by 64
    (1/8 per byte where 8 bits make a byte, and so on through the prefixes). -/
def FactorAsKnown (u : Unit) : Prop :=
  |bitsToRat (Gen.perBaseBits u) * unitSize u * 64 - 1| ≤ tolerance u

instance (u : Unit) : Decidable (FactorAsKnown u) := by unfold FactorAsKnown; infer_instance

theorem C05_bit_family_exactly_as_known : ∀ u : Unit, isBitFamily u = true → FactorAsKnown u := by
  have h : ∀ u ∈ Unit.all, isBitFamily u = true → FactorAsKnown u := by decide +kernel
  exact fun u => h u (unit_all_complete u)

/-- the shipped factors are positive, and the base units' factors are exactly 1
    (the hypotheses `hpos` / `hbase` of the algebraic theorems of C05/C06) -/
theorem C05_factor_pos : ∀ u : Unit, u.kind ≠ .temperature → 0 < bitsToRat (Gen.perBaseBits u) := by
  have h : ∀ u ∈ Unit.all, u.kind ≠ .temperature → 0 < bitsToRat (Gen.perBaseBits u) := by decide +kernel
  exact fun u => h u (unit_all_complete u)

theorem C05_base_factor_one :
    bitsToRat (Gen.perBaseBits (.distance .meter)) = 1 ∧ bitsToRat (Gen.perBaseBits (.mass .kilogram)) = 1 ∧
    bitsToRat (Gen.perBaseBits (.storage .byte)) = 1 := by decide +kernel

/-- **C05 (symbols).** Every unit prints its documented symbol. -/
theorem C05_symbols : ∀ u : Unit, Gen.unitSymbol u = Spec.unitSymbol u := by
  have h : ∀ u ∈ Unit.all, Gen.unitSymbol u = Spec.unitSymbol u := by decide +kernel
  exact fun u => h u (unit_all_complete u)

def lookup (w : String) : Option Gen.KwKind := (Gen.keywordTable.find? (·.1 == w)).map (·.2)

def isYardSpelling (w : String) : Bool := w == "yard" || w == "yards" || w == "yd"

/- OPEN (false on the current tree — known finding K2, pinned by `test_all_valid_tokens`):
     theorem C05_spellings : ∀ p ∈ Spec.spellings, lookup p.1 = some p.2 -/

/-- **C05 / C04 (spellings).** Every documented spelling other than `yard`, `yards`, `yd` denotes
    what it is documented to denote … -/
theorem C05_spellings_partial :
    ∀ p ∈ Spec.spellings, isYardSpelling p.1 = false → lookup p.1 = some p.2 := by decide +kernel

/-- … and the scanner's table holds no word that is not documented. -/
theorem C05_no_undocumented_spelling :
    ∀ p ∈ Gen.keywordTable, (Spec.spellings.find? (·.1 == p.1)).isSome = true := by decide +kernel

/-- the negation at the witness (replayed on the implementation as `1 yd as ft`) -/
theorem C05_yard_counterexample : lookup "yd" = some (.unit (.distance .foot)) := by decide +kernel

/-- the known finding K2 stated exactly: each of the three yard spellings denotes the foot (so a
    change that makes them denote anything else is not covered by the finding). -/
theorem C05_yard_exactly_as_known :
    ∀ p ∈ Spec.spellings, isYardSpelling p.1 = true → lookup p.1 = some (.unit (.distance .foot)) := by
  decide +kernel

end Calc.Props.C05
