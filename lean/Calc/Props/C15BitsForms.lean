/-
  Property C15, binary64 — the remaining printed forms: measurements and matrices.

  Calc/Props/C15Bits.lean discharges the hypothesis `Spec.FmtSpec` of the C15 theorems for
  `Calc.Exec.fmtBits` (the formatter of reals the executable model runs) and instantiates the
  NUMBER theorems.  Here every other theorem of Calc/Props/C15.lean that is stated under `FmtSpec`
  — or under a lexical side hypothesis on the printed texts — is instantiated at
  `PrintBits.fmtSpecBits`, with the side hypotheses PROVED from the character set of `fmtBits`:

    1. `fmtBits_charset` — for every pattern the text is non-empty and is `inf`, `-inf`, `NaN`, or
       consists of decimal digits, `.` and `-` only (so: no comma, semicolon, line break, blank,
       tab, bracket, parenthesis; the only letters are those of `inf` / `NaN`); the exact shape is
       `C15_bits_real_shape`; for the text of a number, `C15_bits_number_charset`.
    2. measurements — the form, the unique split `<number><unit symbol>`, the text determines the
       measurement, and a reader: whichever way a printed measurement is split into a text that
       ends as numbers do and a unit symbol, the symbol is the unit's and the text reads back as
       the number.
    3. matrices — one row per line, padding, alignment, the round trip through `Spec.unformat`,
       the entries read back (`readMatrix`), the text determines the matrix.

  All statements are for ALL pairs of canonical patterns (`CxBits`), all 48 units, and all matrix
  shapes with at least one row and no empty row (ragged rows included).  What is FALSE at bit
  level, and what is proved instead:

    * `C15_complex_exact` assumes that zero is the only real passing the zero test; the pattern
      of `-0` passes it too.  The strongest true variant is `C15Bits.C15_bits_complex_exact`
      (a `-0` part reads back as `+0`); the same caveat is carried through the measurement and
      matrix readers here (`… ∨ (a = 0 ∧ isZero …)`, and the `_exact` forms without `-0` parts).
    * the shape hypotheses of the matrix theorems (`m ≠ []`, no empty row) are NOT lexical and
      cannot be discharged: a matrix with an empty row does not read back
      (`C15_bits_matrix_empty_row_counterexample`).  `Matrix::from_rows` asserts them for every
      matrix value (`Mat.wellShaped`), and `C15_bits_matrix_wellShaped` states the round trip
      under that assertion.  The empty matrix is `C15_bits_matrix_empty`.
    * `C15_measurement_split` keeps its hypothesis `numTextEnd` on an ARBITRARY text (without it
      `5KiB` = `5Ki` ++ `B`); for printed numbers it is proved (`C15_bits_measurement_number_text`)
      and the split theorems below have no such hypothesis on the printed side.
-/
import Calc.Proofs.PrintBitsForms
import Calc.Props.C15
import Calc.Props.C15Bits
namespace Calc.Props.C15BitsForms
open Calc Calc.Spec Calc.Exec Calc.PrintBits

/-! ### 0. which printer prints which value -/

/-- the value forms at the pattern kernel (`C15_number_value`, `C15_measurement_value`,
    `C15_native` and the matrix clause of `showValue`): a number prints with `complexToString`, a
    measurement with `showMeasurement`, a matrix with `matrixFormat` on its entries' texts, a
    built-in as its name marked as built-in -/
theorem C15_bits_value_forms (z : CxBits) (u : Unit) (m : List (List CxBits)) (n : Str) :
    showValue (.number z) = complexToString z ∧
    showValue (.measurement z u) = showMeasurement z u ∧
    showValue (.matrix m) = matrixFormat (m.map fun r => r.map complexToString) ∧
    showValue (S := CxBits) (.native n) = n ++ " (built-in)".toList :=
  ⟨rfl, rfl, rfl, rfl⟩

/-! ### 1. the character set of the printer -/

/-- **C15 (binary64, character set of a real).**  For EVERY 64-bit pattern `b` the text
    `fmtBits b` is non-empty, and it is `inf`, `-inf` or `NaN`, or every character of it is a
    decimal digit, `.` or `-`. -/
theorem fmtBits_charset (b : UInt64) :
    (fmtBits b).toList ≠ [] ∧
    ((fmtBits b).toList = "inf".toList ∨ (fmtBits b).toList = "-inf".toList ∨
      (fmtBits b).toList = "NaN".toList ∨
      ∀ c ∈ (fmtBits b).toList, isDigitCh c = true ∨ c = '.' ∨ c = '-') :=
  PrintBits.fmtBits_charset b

/-- … in particular none of the delimiters of the printed forms occurs in it: no comma, no
    semicolon, no line break (LF, CR), no blank, no tab, no bracket, no parenthesis, no `+`. -/
theorem C15_bits_real_no_delims (b : UInt64) :
    ',' ∉ (fmtBits b).toList ∧ ';' ∉ (fmtBits b).toList ∧ '\n' ∉ (fmtBits b).toList ∧
    '\r' ∉ (fmtBits b).toList ∧ ' ' ∉ (fmtBits b).toList ∧ '\t' ∉ (fmtBits b).toList ∧
    '[' ∉ (fmtBits b).toList ∧ ']' ∉ (fmtBits b).toList ∧ '(' ∉ (fmtBits b).toList ∧
    ')' ∉ (fmtBits b).toList ∧ '+' ∉ (fmtBits b).toList :=
  fmtBits_no_delims b

/-- … and a character of it that is not a digit, `.` or `-` is a letter of `inf` / `NaN`, the
    text then being `inf`, `-inf` or `NaN`. -/
theorem C15_bits_real_letters (b : UInt64) (c : Char) (hc : c ∈ (fmtBits b).toList)
    (hl : isDigitCh c = false ∧ c ≠ '.' ∧ c ≠ '-') :
    (fmtBits b).toList = "inf".toList ∨ (fmtBits b).toList = "-inf".toList ∨
      (fmtBits b).toList = "NaN".toList :=
  fmtBits_letters b c hc hl

/-- **C15 (binary64, shape of a real's text).**  The text is `NaN`, or an optional `-` — present
    exactly when the sign bit is set — followed by `inf` or by a positional literal: a non-empty
    string of digits, optionally followed by `.` and a non-empty string of digits.  (So `-` occurs
    only in front, `.` at most once and between digits; there is no exponent form.) -/
theorem C15_bits_real_shape (b : UInt64) :
    (fmtBits b).toList = "NaN".toList ∨
    ∃ body, (fmtBits b).toList = (if b >>> 63 = 1 then ['-'] else []) ++ body ∧
      (body = "inf".toList ∨
       (body ≠ [] ∧ ∀ c ∈ body, isDigitCh c = true) ∨
       ∃ ip fp, (ip ≠ [] ∧ ∀ c ∈ ip, isDigitCh c = true) ∧
         (fp ≠ [] ∧ ∀ c ∈ fp, isDigitCh c = true) ∧ body = ip ++ '.' :: fp) :=
  fmtBits_shape b

/-- **C15 (binary64, character set of a number).**  Every character of the text of a pair of
    patterns is a digit or one of `.`, `-`, `+`, blank, `i`, `n`, `f`, `N`, `a`. -/
theorem C15_bits_number_charset (z : CxBits) :
    ∀ c ∈ complexToString z,
      isDigitCh c = true ∨ c ∈ ['.', '-', '+', ' ', 'i', 'n', 'f', 'N', 'a'] := by
  intro c hc
  have := complexToString_cxChars z c hc
  simp only [cxChar, realChar, Bool.or_eq_true, decide_eq_true_eq] at this
  simp only [List.mem_cons, List.not_mem_nil, or_false]
  tauto

/-- … so it contains no comma, semicolon, line break, tab, bracket or parenthesis; it is not
    empty and does not begin with a blank; and each of its characters is one byte long. -/
theorem C15_bits_number_no_delims (z : CxBits) :
    (',' ∉ complexToString z ∧ ';' ∉ complexToString z ∧ '\n' ∉ complexToString z ∧
      '\r' ∉ complexToString z ∧ '\t' ∉ complexToString z ∧ '[' ∉ complexToString z ∧
      ']' ∉ complexToString z ∧ '(' ∉ complexToString z ∧ ')' ∉ complexToString z) ∧
    complexToString z ≠ [] ∧ (complexToString z).head? ≠ some ' ' ∧
    utf8Len (complexToString z) = (complexToString z).length :=
  ⟨complexToString_no_delims z, (cleanText_bits z).1, (cleanText_bits z).2.1,
    utf8Len_complexToString z⟩

/-! ### 2. measurements -/

/-- **C15 (binary64, measurement).**  `C15_measurement` at the pattern kernel: a measurement prints
    its number — parenthesised exactly when neither part is a zero pattern (`+0` or `-0`) —
    immediately followed by its unit's symbol. -/
theorem C15_bits_measurement (z : CxBits) (u : Unit) :
    showMeasurement z u =
      (if z.re.isZero = false ∧ z.im.isZero = false
        then "(".toList ++ complexToString z ++ ")".toList
        else complexToString z) ++ (Gen.unitSymbol u).toList :=
  C15.C15_measurement z u

/-- **C15 (binary64, the number part ends as numbers do).**  `C15_measurement_number_text` with
    `FmtSpec` discharged: the hypothesis `numTextEnd` of the split theorem holds of every printed
    number, bare or parenthesised. -/
theorem C15_bits_measurement_number_text (z : CxBits) :
    numTextEnd (complexToString z) = true ∧
    numTextEnd ("(".toList ++ complexToString z ++ ")".toList) = true :=
  C15.C15_measurement_number_text fmtSpecBits z

/-- **C15 (binary64, the measurement text splits in one way).**  `C15_measurement_split` with both
    number texts printed ones (parenthesised — `p`, `q` — or not) and its hypotheses `numTextEnd`
    discharged: for all pairs of patterns `z`, `w` and all units `u`, `v`, if the number text of
    `z` followed by the symbol of `u` is the number text of `w` followed by the symbol of `v`,
    then both are parenthesised or neither is, the number texts are equal, and `u = v`. -/
theorem C15_bits_measurement_split (p q : Bool) (z w : CxBits) (u v : Unit)
    (h : paren p (complexToString z) ++ (Gen.unitSymbol u).toList =
      paren q (complexToString w) ++ (Gen.unitSymbol v).toList) :
    p = q ∧ complexToString z = complexToString w ∧ u = v := by
  have := C15.C15_measurement_split _ _ u v (numTextEnd_paren p z) (numTextEnd_paren q w) h
  exact ⟨(paren_inj p q z w this.1).1, (paren_inj p q z w this.1).2, this.2⟩

/-- … where `paren` is: -/
theorem C15_bits_paren (s : Str) :
    paren true s = "(".toList ++ s ++ ")".toList ∧ paren false s = s := ⟨rfl, rfl⟩

/-- **C15 (binary64, ANY split of a printed measurement is the split).**  If the text printed for
    the measurement `z u` is `y ++ symbol v` for a text `y` that ends as numbers do
    (`Spec.numTextEnd`) and a unit `v`, then `v = u` and `y` is the number part that was printed. -/
theorem C15_bits_measurement_split_any (z : CxBits) (u v : Unit) (y : Str)
    (hy : numTextEnd y = true) (h : showMeasurement z u = y ++ (Gen.unitSymbol v).toList) :
    v = u ∧ y = paren (!z.re.isZero && !z.im.isZero) (complexToString z) := by
  rw [showMeasurement_eq, measText_eq_paren] at h
  have := C15.C15_measurement_split _ _ u v (numTextEnd_paren _ z) hy h
  exact ⟨this.2.symm, this.1.symm⟩

/-- **C15 (binary64, the text determines the measurement).**  `C15_measurement_determines` with
    `FmtSpec` discharged: two measurements with the same printed text have the same unit, and the
    same real parts and the same imaginary parts bit for bit, except that `+0` and `-0` parts are
    not told apart. -/
theorem C15_bits_measurement_determines (z w : CxBits) (u v : Unit)
    (h : showMeasurement z u = showMeasurement w v) :
    u = v ∧ (z.re = w.re ∨ (z.re.isZero = true ∧ w.re.isZero = true)) ∧
      (z.im = w.im ∨ (z.im.isZero = true ∧ w.im.isZero = true)) :=
  C15.C15_measurement_determines fmtSpecBits z w u v h

/-- **C15 (binary64, a printed measurement reads back).**  The text printed for `z u` IS a text
    that ends as numbers do followed by a unit symbol; and for EVERY such split `y ++ symbol v` of
    it, `v` is `u` and `y`, its parentheses dropped (`PrintBits.unparen`), reads back with
    `Spec.readComplex` over `readBits` as the two patterns of `z` — each exactly, or as `+0` for a
    part that is `+0` or `-0`. -/
theorem C15_bits_measurement_reads_back (z : CxBits) (u : Unit) :
    ∃ a b, (a = z.re ∨ (a = 0 ∧ z.re.isZero = true)) ∧ (b = z.im ∨ (b = 0 ∧ z.im.isZero = true)) ∧
      (∃ y, numTextEnd y = true ∧ showMeasurement z u = y ++ (Gen.unitSymbol u).toList) ∧
      ∀ (y : Str) (v : Unit), numTextEnd y = true →
        showMeasurement z u = y ++ (Gen.unitSymbol v).toList →
        v = u ∧ readComplex readBits (unparen y) = some (a, b) := by
  obtain ⟨a, b, hr, ha, hb⟩ := (C15Bits.C15_bits_complex_exact z).1
  refine ⟨a, b, ha, hb, ⟨paren (!z.re.isZero && !z.im.isZero) (complexToString z),
    numTextEnd_paren _ z, ?_⟩, ?_⟩
  · rw [showMeasurement_eq, measText_eq_paren]; rfl
  · intro y v hy h
    obtain ⟨h1, h2⟩ := C15_bits_measurement_split_any z u v y hy h
    rw [h2, unparen_paren]
    exact ⟨h1, hr⟩

/-- … exactly, when neither part is the pattern of `-0`. -/
theorem C15_bits_measurement_exact (z : CxBits) (u v : Unit) (y : Str)
    (hre : z.re.bits ≠ 0x8000000000000000) (him : z.im.bits ≠ 0x8000000000000000)
    (hy : numTextEnd y = true) (h : showMeasurement z u = y ++ (Gen.unitSymbol v).toList) :
    v = u ∧ readComplex readBits (unparen y) = some (z.re, z.im) := by
  obtain ⟨h1, h2⟩ := C15_bits_measurement_split_any z u v y hy h
  rw [h2, unparen_paren]
  exact ⟨h1, (C15Bits.C15_bits_complex_exact z).2 hre him⟩

/-! ### 3. matrices -/

/-- **C15 (binary64, matrix, one row per line).**  `C15_matrix_lines` for a matrix of pairs of
    patterns with at least one row and no empty row: `[`, the rows joined by line breaks, `]`; the
    line of row `i` is a blank (for `i > 0`) followed by the texts of the row's entries, each
    padded on the left to the width of its column, joined by `, `. -/
theorem C15_bits_matrix_lines (m : List (List CxBits)) (hne : m ≠ []) (hrows : ∀ r ∈ m, r ≠ []) :
    showValue (.matrix m) =
      '[' :: joinWith ['\n'] ((List.zipIdx (entryTexts m)).map fun p =>
        (if p.2 = 0 then [] else [' ']) ++
          joinWith ", ".toList
            ((List.zip p.1 (mfWidths (entryTexts m))).map fun ew => padLeft ew.2 ew.1)) ++ [']'] :=
  C15.C15_matrix_lines (entryTexts m) (entryTexts_ne_nil hne) (entryTexts_rows hrows)

/-- … where the entry texts are those of the numbers, row by row. -/
theorem C15_bits_matrix_entryTexts (m : List (List CxBits)) :
    entryTexts m = m.map fun r => r.map complexToString := rfl

/-- **C15 (binary64, padding).**  `C15_matrix_padding` with its hypothesis discharged: dropping the
    blanks in front of a padded cell gives the entry's text, for every width and every entry. -/
theorem C15_bits_matrix_padding (w : Nat) (z : CxBits) :
    (padLeft w (complexToString z)).dropWhile (· = ' ') = complexToString z :=
  C15.C15_matrix_padding w _ (cleanText_bits z).2.1

/-- **C15 (binary64, the columns line up).**  The column width is computed in BYTES
    (`String::len`) and the padding in characters; every character of a number's text is one byte
    long, so every padded cell of a printed matrix is exactly as long as its column is wide. -/
theorem C15_bits_matrix_aligned (m : List (List CxBits)) :
    ∀ r ∈ entryTexts m, ∀ ew ∈ List.zip r (mfWidths (entryTexts m)),
      (padLeft ew.2 ew.1).length = ew.2 :=
  padded_cell_length m

/-- **C15 (binary64, the entries are clean cells).**  The lexical hypothesis `hclean` of
    `C15_matrix` holds of every matrix of pairs of patterns: every entry text is non-empty,
    contains no comma and no line break and does not begin with a blank. -/
theorem C15_bits_matrix_entries_clean (m : List (List CxBits)) :
    ∀ r ∈ entryTexts m, ∀ e ∈ r, e ≠ [] ∧ ',' ∉ e ∧ '\n' ∉ e ∧ e.head? ≠ some ' ' :=
  entryTexts_clean m

/-- **C15 (binary64, matrix, every entry in row-major order).**  `C15_matrix` / `C15_matrix_value`
    with `FmtSpec` and the lexical hypothesis on the printer of reals discharged: for every matrix
    of pairs of patterns with at least one row and no empty row (rows may differ in length),
    reading the printed text back with `Spec.unformat` gives exactly the rows of the entries'
    texts. -/
theorem C15_bits_matrix_value (m : List (List CxBits)) (hne : m ≠ []) (hrows : ∀ r ∈ m, r ≠ []) :
    unformat (showValue (.matrix m)) = m.map fun r => r.map complexToString :=
  C15.C15_matrix_value fmtSpecBits fmt_clean m hne hrows

/-- … the same through `C15_matrix`, from the lexical facts about the entries. -/
theorem C15_bits_matrix (m : List (List CxBits)) (hne : m ≠ []) (hrows : ∀ r ∈ m, r ≠ []) :
    unformat (matrixFormat (entryTexts m)) = entryTexts m :=
  C15.C15_matrix (entryTexts m) (entryTexts_ne_nil hne) (entryTexts_rows hrows)
    (C15_bits_matrix_entries_clean m)

/-- the empty matrix prints as `[]`, which reads back as no rows -/
theorem C15_bits_matrix_empty :
    showValue (.matrix ([] : List (List CxBits))) = "[]".toList ∧
    unformat (showValue (.matrix ([] : List (List CxBits)))) = [] :=
  C15.C15_matrix_empty

/-- **C15 (binary64, a printed matrix reads back).**  Reading the printed text with
    `PrintBits.readMatrix` — `Spec.unformat`, then `Spec.readComplex` over `readBits` on every
    cell — gives, row by row and entry by entry, the two patterns of the entry: each part
    exactly, or as `+0` for a part that is `+0` or `-0`. -/
theorem C15_bits_matrix_reads_back (m : List (List CxBits)) (hne : m ≠ [])
    (hrows : ∀ r ∈ m, r ≠ []) :
    List.Forall₂ (List.Forall₂ fun (o : Option (B64 × B64)) (z : CxBits) =>
        ∃ a b, o = some (a, b) ∧ (a = z.re ∨ (a = 0 ∧ z.re.isZero = true)) ∧
          (b = z.im ∨ (b = 0 ∧ z.im.isZero = true)))
      (readMatrix readBits (showValue (.matrix m))) m := by
  rw [readMatrix_showMatrix m hne hrows]
  apply forall₂_map_left
  intro r _
  apply forall₂_map_left
  intro z _
  obtain ⟨a, b, h, ha, hb⟩ := (C15Bits.C15_bits_complex_exact z).1
  exact ⟨a, b, h, ha, hb⟩

/-- what `readMatrix` is -/
theorem C15_bits_readMatrix (s : Str) :
    readMatrix readBits s = (unformat s).map fun r => r.map (readComplex readBits) := rfl

/-- **C15 (binary64, matrix, exact).**  When no part of any entry is the pattern of `-0`, the
    printed matrix reads back as exactly the bit patterns of its entries. -/
theorem C15_bits_matrix_exact (m : List (List CxBits)) (hne : m ≠ []) (hrows : ∀ r ∈ m, r ≠ [])
    (hz : ∀ r ∈ m, ∀ z ∈ r, z.re.bits ≠ 0x8000000000000000 ∧ z.im.bits ≠ 0x8000000000000000) :
    readMatrix readBits (showValue (.matrix m)) = m.map fun r => r.map fun z => some (z.re, z.im) := by
  rw [readMatrix_showMatrix m hne hrows]
  apply List.map_congr_left
  intro r hr
  apply List.map_congr_left
  intro z hzr
  exact (C15Bits.C15_bits_complex_exact z).2 (hz r hr z hzr).1 (hz r hr z hzr).2

/-- **C15 (binary64, the text determines the matrix).**  Two matrices (each with at least one row
    and no empty row) with the same printed text have the same number of rows, rows of the same
    lengths, and entry by entry the same real parts and the same imaginary parts, bit for bit,
    except that `+0` and `-0` parts are not told apart. -/
theorem C15_bits_matrix_determines (m m' : List (List CxBits))
    (hne : m ≠ []) (hrows : ∀ r ∈ m, r ≠ []) (hne' : m' ≠ []) (hrows' : ∀ r ∈ m', r ≠ [])
    (h : showValue (.matrix m) = showValue (.matrix m')) :
    List.Forall₂ (List.Forall₂ fun (z w : CxBits) =>
        (z.re = w.re ∨ (z.re.isZero = true ∧ w.re.isZero = true)) ∧
        (z.im = w.im ∨ (z.im.isZero = true ∧ w.im.isZero = true))) m m' := by
  have e : entryTexts m = entryTexts m' := by
    rw [← unformat_showMatrix m hne hrows, h, unformat_showMatrix m' hne' hrows']
  refine forall₂_imp ?_ (forall₂_of_map_eq _ m m' e)
  intro r r' hr
  refine forall₂_imp ?_ (forall₂_of_map_eq _ r r' hr)
  intro z w hzw
  exact C15Bits.C15_bits_complex_determines z w hzw

/-- **C15 (binary64, matrix values).**  Under the three assertions of `Matrix::from_rows`
    (`Mat.wellShaped`: at least one row, no empty row, rows of equal length — what every matrix
    value satisfies), the printed matrix reads back as the rows of the entries' texts and every
    cell as its entry. -/
theorem C15_bits_matrix_wellShaped (m : List (List CxBits)) (h : Mat.wellShaped m = true) :
    unformat (showValue (.matrix m)) = (m.map fun r => r.map complexToString) ∧
    List.Forall₂ (List.Forall₂ fun (o : Option (B64 × B64)) (z : CxBits) =>
        ∃ a b, o = some (a, b) ∧ (a = z.re ∨ (a = 0 ∧ z.re.isZero = true)) ∧
          (b = z.im ∨ (b = 0 ∧ z.im.isZero = true)))
      (readMatrix readBits (showValue (.matrix m))) m :=
  ⟨C15_bits_matrix_value m (shape_of_wellShaped h).1 (shape_of_wellShaped h).2,
    C15_bits_matrix_reads_back m (shape_of_wellShaped h).1 (shape_of_wellShaped h).2⟩

/-- **The shape hypothesis cannot be dropped.**  A matrix with an empty row does not read back:
    `[[]]` prints as `[]`, which reads as no rows; `[[1], []]` prints as `[1⏎]`, which reads as
    the rows `1` and (one empty cell). -/
theorem C15_bits_matrix_empty_row_counterexample :
    showValue (.matrix ([[]] : List (List CxBits))) = "[]".toList ∧
    unformat (showValue (.matrix ([[]] : List (List CxBits)))) ≠ [[]] ∧
    showValue (.matrix ([[⟨1, 0⟩], []] : List (List CxBits))) = "[1\n]".toList ∧
    unformat (showValue (.matrix ([[⟨1, 0⟩], []] : List (List CxBits)))) = [["1".toList], [[]]] := by
  decide +kernel

/-! ### concrete values (checked by the kernel) -/

/-- the patterns used below -/
def b1_5 : B64 := ⟨0x3FF8000000000000, by decide⟩   -- 1.5
def bm2 : B64 := ⟨0xC000000000000000, by decide⟩    -- -2
def b0_1 : B64 := ⟨0x3FB999999999999A, by decide⟩   -- 0.1
def b1e21 : B64 := ⟨0x444B1AE4D6E2EF50, by decide⟩  -- 1e21
def bm0 : B64 := ⟨0x8000000000000000, by decide⟩    -- -0

/-- `1.5 − 2i` kilometres prints as `(1.5 - 2i)km` … -/
example : showMeasurement (⟨b1_5, bm2⟩ : CxBits) (.distance .kilometer) = "(1.5 - 2i)km".toList := by
  decide +kernel
/-- … `(1.5 - 2i)` ends as numbers do, `(1.5 - 2i)k` does not (so `…k` + `m` is no split) … -/
example : numTextEnd "(1.5 - 2i)".toList = true ∧ numTextEnd "(1.5 - 2i)k".toList = false := by
  decide +kernel
/-- … and the number part, its parentheses dropped, reads back as the two patterns. -/
example : (readComplex readBits (unparen "(1.5 - 2i)".toList)).map (fun p => (p.1.bits, p.2.bits))
    = some (0x3FF8000000000000, 0xC000000000000000) := by decide +kernel
/-- a real measurement is not parenthesised; nor is a purely imaginary one -/
example : showMeasurement (⟨b1_5, 0⟩ : CxBits) (.distance .kilometer) = "1.5km".toList ∧
    showMeasurement (⟨bm0, bm2⟩ : CxBits) (.distance .meter) = "-2im".toList ∧
    showMeasurement (⟨B64.inf, bm0⟩ : CxBits) (.storage .kibibyte) = "infKiB".toList ∧
    showMeasurement (⟨B64.nan, 0⟩ : CxBits) (.distance .nanometer) = "NaNnm".toList := by
  decide +kernel

/-- a 2×2 matrix with entries of different widths: the columns are padded on the left to the
    widths 8 and 3, the second line starts with a blank under the `[` … -/
example : showValue (.matrix [[(⟨b1_5, bm2⟩ : CxBits), ⟨b0_1, 0⟩], [⟨0, 1⟩, ⟨bm2, 0⟩]]) =
    "[1.5 - 2i, 0.1\n        i,  -2]".toList := by decide +kernel
/-- … the text reads back as the rows of entry texts (padding dropped) … -/
example : unformat "[1.5 - 2i, 0.1\n        i,  -2]".toList =
    [["1.5 - 2i".toList, "0.1".toList], ["i".toList, "-2".toList]] := by decide +kernel
/-- … and as the bit patterns of the entries. -/
example : (readMatrix readBits "[1.5 - 2i, 0.1\n        i,  -2]".toList).map
      (·.map (·.map fun p => (p.1.bits, p.2.bits))) =
    [[some (0x3FF8000000000000, 0xC000000000000000), some (0x3FB999999999999A, 0)],
     [some (0, 0x3FF0000000000000), some (0xC000000000000000, 0)]] := by decide +kernel

/-- `-0`, `inf`, `NaN` entries and a 22-digit one (`1e21`): a `-0` entry prints as `0`
    (`complex_to_string` prints a number whose parts are both zero as `0`), `-inf`, `NaN` and
    `NaN + infi` print as such; the columns have widths 22 and 10 … -/
example : showValue (.matrix [[(⟨bm0, bm0⟩ : CxBits), ⟨-B64.inf, 0⟩],
      [⟨b1e21, 0⟩, ⟨B64.nan, B64.inf⟩], [⟨B64.nan, bm0⟩, ⟨bm0, B64.nan⟩]]) =
    ("[                     0,       -inf\n" ++
     " 1000000000000000000000, NaN + infi\n" ++
     "                    NaN,       NaNi]").toList := by decide +kernel
/-- … and the text reads back: `-0` parts as `+0`, every other part as its own pattern (the
    NaN as the canonical NaN). -/
example : (readMatrix readBits
      ("[                     0,       -inf\n" ++
       " 1000000000000000000000, NaN + infi\n" ++
       "                    NaN,       NaNi]").toList).map
      (·.map (·.map fun p => (p.1.bits, p.2.bits))) =
    [[some (0, 0), some (0xFFF0000000000000, 0)],
     [some (0x444B1AE4D6E2EF50, 0), some (0x7FF8000000000000, 0x7FF0000000000000)],
     [some (0x7FF8000000000000, 0), some (0, 0x7FF8000000000000)]] := by decide +kernel

/-- one real with the sign of zero: `-0` as a real prints as `-0` (`fmtBits`), and it is only
    `complex_to_string` that drops zero parts -/
example : fmtBits 0x8000000000000000 = "-0" ∧
    complexToString (⟨bm0, b1_5⟩ : CxBits) = "1.5i".toList ∧
    complexToString (⟨b1_5, bm0⟩ : CxBits) = "1.5".toList := by decide +kernel

/-- a ragged matrix (rows of different lengths) also reads back: the general theorems do not
    need equal row lengths -/
example : showValue (.matrix [[(⟨b1_5, 0⟩ : CxBits)], [⟨bm2, 0⟩, ⟨0, 1⟩]]) =
    "[1.5\n  -2, i]".toList ∧
    unformat "[1.5\n  -2, i]".toList = [["1.5".toList], ["-2".toList, "i".toList]] := by
  decide +kernel

end Calc.Props.C15BitsForms
