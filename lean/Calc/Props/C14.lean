/-
  Property C14 (evaluator half) — Each failing statement yields one located diagnostic.

  "For every diagnostic other than syntax errors the reported position is one of the failing
  construct's own tokens — its operator, bracket, call parenthesis, identifier or keyword — and
  never a neighbour's; when several parts of one expression would fail, the failure of the part
  evaluated first (left operand before right, callee before arguments, arguments and matrix
  entries left to right) is the one reported; after an evaluation error the following
  statements are still executed in order."

  Property theorems only; proofs are in Calc/Proofs/BlameOps.lean, BlameOrder.lean,
  BlameStmt.lean, BlameEval.lean.  (The parser half is Calc/Props/C14Parse.lean.)
-/
import Calc.Props.C10
import Calc.Proofs.BlameOps
import Calc.Proofs.BlameOrder
import Calc.Proofs.BlameStmt
import Calc.Proofs.BlameEval
namespace Calc

variable {S : Type} [Add S] [Sub S] [Mul S] [Div S] [Zero S] [One S] [Kernel S]

/-! ## positions of the value-level operations -/

/-- **C14 (own token, operators and calls).**  Whatever the operand values are, a diagnostic
    produced by a binary operator, a unary operator, a grouping, an `as` conversion, an
    identifier lookup or a call to a native function carries the position of that construct's
    own token: the operator, the opening bracket, the `as` keyword, the identifier, the call's
    parenthesis.  A user-function call that fails because no signature matches is reported at
    the call's parenthesis; otherwise its result is that of the selected body. -/
theorem C14_op_positions :
    (∀ (op : Tok S) (a b : Value S) (d : Diag), binop op a b = .diag d →
        d.line = op.line ∧ d.col = op.col) ∧
    (∀ (op : Tok S) (v : Value S) (d : Diag), unop op v = .diag d →
        (d.line, d.col) = (op.line, op.col)) ∧
    (∀ (paren : Tok S) (k : GKind) (v : Value S) (d : Diag), groupop paren k v = .diag d →
        (d.line, d.col) = (paren.line, paren.col)) ∧
    (∀ (tok : Tok S) (u : Unit) (v : Value S) (d : Diag), asop tok u v = .diag d →
        (d.line, d.col) = (tok.line, tok.col)) ∧
    (∀ (name : Tok S) (env : Env S) (d : Diag), lookupIdent name env = .diag d →
        (d.line, d.col) = (name.line, name.col) ∧ d.kind = .unknownVariable) ∧
    (∀ (name : Str) (line col : Nat) (args : List (Value S)) (d : Diag),
        callNative name line col args = .diag d → (d.line, d.col) = (line, col)) ∧
    (∀ (ev : Evaluator S) (fn : UserFn S) (line col : Nat) (args : List (Value S)) (env : Env S)
        (d : Diag), callUser ev fn line col args env = .diag d →
        (fn.sigs.find? (fun se => sigMatches se.1.params args) = none ∧
          d = ⟨.noMatchingSignature, line, col, fn.name⟩) ∨
        (∃ sig body, fn.sigs.find? (fun se => sigMatches se.1.params args) = some (sig, body) ∧
          (ev body (bindParams sig.params args env)).res = .diag d)) := by
  refine ⟨binop_diag_pos, ?_, ?_, ?_, ?_, ?_, callUser_diag⟩
  · intro op v d h
    obtain ⟨h1, h2⟩ := unop_diag_pos op v d h
    rw [h1, h2]
  · intro p k v d h
    obtain ⟨h1, h2⟩ := groupop_diag_pos p k v d h
    rw [h1, h2]
  · intro t u v d h
    obtain ⟨h1, h2⟩ := asop_diag_pos t u v d h
    rw [h1, h2]
  · intro n env d h
    obtain ⟨h1, h2, h3, -⟩ := lookupIdent_diag n env d h
    rw [h1, h2]
    exact ⟨rfl, h3⟩
  · intro n l c args d h
    obtain ⟨h1, h2⟩ := callNative_diag_pos n l c args d h
    rw [h1, h2]

/-! ## evaluation order -/

/-- **C14 (the part evaluated first is the one reported).**
    * left operand before right: if the left operand fails, that failure is the result of the
      binary node whatever the right operand is (it is not evaluated); the right operand's
      failure is reported only when the left operand is a value;
    * callee before arguments: if the callee fails, that is the result of the call; a callee
      that is a function whose arguments fail reports the arguments' failure;
    * arguments left to right: the first argument's failure is the list's failure, and when
      the first argument is a value the list continues with the rest;
    * matrix entries left to right, rows top to bottom: likewise for `evalRow` / `evalRows`. -/
theorem C14_order :
    (∀ (fuel : Nat) (l r : Expr S) (op : Tok S) (env : Env S) (d : Diag),
        (eval fuel l env).res = .diag d →
        (eval (fuel + 1) (.binary l op r) env).res = .diag d) ∧
    (∀ (fuel : Nat) (l r : Expr S) (op : Tok S) (env : Env S) (a : Value S) (d : Diag),
        (eval fuel l env).res = .ok a → (eval fuel r env).res = .diag d →
        (eval (fuel + 1) (.binary l op r) env).res = .diag d) ∧
    (∀ (fuel : Nat) (c : Expr S) (p : Tok S) (args : List (Expr S)) (env : Env S) (d : Diag),
        (eval fuel c env).res = .diag d →
        (eval (fuel + 1) (.call c p args) env).res = .diag d) ∧
    (∀ (fuel : Nat) (c : Expr S) (p : Tok S) (args : List (Expr S)) (env : Env S) (v : Value S)
        (d : Diag), (eval fuel c env).res = .ok v →
        ((∃ n, v = .native n) ∨ (∃ f, v = .user f)) →
        (evalList (eval fuel) args env).1 = .diag d →
        (eval (fuel + 1) (.call c p args) env).res = .diag d) ∧
    (∀ (ev : Evaluator S) (e : Expr S) (es : List (Expr S)) (env : Env S) (d : Diag),
        (ev e env).res = .diag d → (evalList ev (e :: es) env).1 = .diag d) ∧
    (∀ (ev : Evaluator S) (e : Expr S) (es : List (Expr S)) (env : Env S) (v : Value S),
        (ev e env).res = .ok v →
        (evalList ev (e :: es) env).1 =
          (match (evalList ev es (ev e env).env).1 with
            | .ok vs => .ok (v :: vs)
            | other => other)) ∧
    (∀ (ev : Evaluator S) (br : Tok S) (ri ci : Nat) (e : Expr S) (es : List (Expr S))
        (env : Env S) (d : Diag), (ev e env).res = .diag d →
        (evalRow ev br ri ci (e :: es) env).1 = .diag d) ∧
    (∀ (ev : Evaluator S) (br : Tok S) (ri ci : Nat) (e : Expr S) (es : List (Expr S))
        (env : Env S) (z : S), (ev e env).res = .ok (.number z) →
        (evalRow ev br ri ci (e :: es) env).1 =
          (match (evalRow ev br ri (ci + 1) es (ev e env).env).1 with
            | .ok zs => .ok (z :: zs)
            | other => other)) ∧
    (∀ (ev : Evaluator S) (br : Tok S) (ri : Nat) (row : List (Expr S))
        (rows : List (List (Expr S))) (env : Env S) (d : Diag),
        (evalRow ev br ri 0 row env).1 = .diag d →
        (evalRows ev br ri (row :: rows) env).1 = .diag d) ∧
    (∀ (ev : Evaluator S) (br : Tok S) (ri : Nat) (row : List (Expr S))
        (rows : List (List (Expr S))) (env : Env S) (zs : List S),
        (evalRow ev br ri 0 row env).1 = .ok zs →
        (evalRows ev br ri (row :: rows) env).1 =
          (match (evalRows ev br (ri + 1) rows (evalRow ev br ri 0 row env).2).1 with
            | .ok zss => .ok (zs :: zss)
            | other => other)) := by
  refine ⟨eval_binary_left_diag, ?_, ?_, eval_call_args_diag, evalList_head_diag,
    evalList_head_ok, evalRow_head_diag, evalRow_head_ok, evalRows_head_diag, evalRows_head_ok⟩
  · intro fuel l r op env a d hl hr
    rw [eval_binary_right fuel l r op env a hl (by intro b hb; rw [hr] at hb; cases hb), hr]
  · intro fuel c p args env d h
    rw [eval_call_callee fuel c p args env (by intro a ha; rw [h] at ha; cases ha), h]

/-- **C14 (first failure, whole lists).**  A diagnostic that comes out of an argument list
    is the diagnostic of one argument, and every argument before it evaluated to a value;
    a diagnostic that comes out of the rows of a matrix literal comes out of one row, and every
    row before it evaluated to numbers; a diagnostic that comes out of a row is the diagnostic of
    one entry, or the report — at the literal's bracket — that this entry is not a number, and
    every entry before it evaluated to a number.  (For any evaluator that hands back the table
    it was given, which `eval fuel` does: C11.) -/
theorem C14_order_first_failure (ev : Evaluator S) (hp : ∀ e env, (ev e env).env = env)
    (env : Env S) (d : Diag) :
    (∀ es, (evalList ev es env).1 = .diag d →
      ∃ pre e post, es = pre ++ e :: post ∧ (∀ x ∈ pre, ∃ v, (ev x env).res = .ok v) ∧
        (ev e env).res = .diag d) ∧
    (∀ br ri es ci, (evalRow ev br ri ci es env).1 = .diag d →
      ∃ pre e post, es = pre ++ e :: post ∧
        (∀ x ∈ pre, ∃ z, (ev x env).res = .ok (.number z)) ∧
        ((ev e env).res = .diag d ∨
         (∃ v, (ev e env).res = .ok v ∧ (∀ z, v ≠ .number z) ∧
            d = ⟨.invalidMatrixParameter, br.line, br.col,
                 natStr (ri + 1) ++ [':'] ++ natStr (ci + pre.length + 1)⟩))) ∧
    (∀ br rows ri, (evalRows ev br ri rows env).1 = .diag d →
      ∃ pre row post, rows = pre ++ row :: post ∧
        (∀ k (hk : k < pre.length), ∃ zs, (evalRow ev br (ri + k) 0 pre[k] env).1 = .ok zs) ∧
        (evalRow ev br (ri + pre.length) 0 row env).1 = .diag d) :=
  ⟨fun es h => evalList_first_failure ev hp es env d h,
   fun br ri es ci h => evalRow_first_failure ev hp br ri es ci env d h,
   fun br rows ri h => evalRows_first_failure ev hp br rows ri env d h⟩

/-! ## whole trees -/

/-- **C14 (own token, one level).**  A diagnostic reported for a node is located at the node's
    own token (`Expr.ownPositions`: the `as` keyword, the operator, the opening bracket of the
    grouping, the bracket of the matrix literal, the identifier, the call's parenthesis), or it
    is — unchanged — the diagnostic of one of the node's direct sub-expressions evaluated in the
    same table, or it arose while evaluating the body of the user function that the node calls
    (`FromBody`: callee and all arguments were values and a signature matched).  A node never
    reports at a neighbour's token. -/
theorem C14_eval_blame_step (fuel : Nat) (e : Expr S) (env : Env S) (d : Diag)
    (h : (eval (fuel + 1) e env).res = .diag d) :
    (d.line, d.col) ∈ e.ownPositions ∨
    (∃ c ∈ e.children, (eval fuel c env).res = .diag d) ∨
    FromBody fuel e env d :=
  eval_blame_step fuel e env d h

/-- **C14 (located diagnostics, whole trees).**  Every diagnostic of the evaluator carries the
    position of a token of some node of the evaluated tree (`Expr.allPositions`), or — when it
    arose inside a called user function, whose body is a different text — of some node of the body
    of a function stored in the table (`EnvPositions`).  For every tree, table and fuel; no
    well-formedness is assumed.  (Function values are never created by evaluation, they only
    travel out of the table through identifiers, groupings, arguments and results of calls:
    `eval_blame_gen`.) -/
theorem C14_eval_blame (fuel : Nat) (e : Expr S) (env : Env S) (d : Diag)
    (h : (eval fuel e env).res = .diag d) :
    (d.line, d.col) ∈ e.allPositions ++ EnvPositions env :=
  eval_blame fuel e env d h

/-- **C14 (located diagnostics, values).**  The companion fact: a value returned by the
    evaluator that is a user function has all its bodies' tokens among those stored in the table. -/
theorem C14_eval_values_from_table (fuel : Nat) (e : Expr S) (env : Env S) (v : Value S)
    (h : (eval fuel e env).res = .ok v) : ∀ p ∈ v.bodyPositions, p ∈ EnvPositions env :=
  (eval_blame_gen (· ∈ EnvPositions env) fuel e env (envPosIn_self env)).1 v h

/-- **C14 (located diagnostics, statements).**  A diagnostic printed by an expression statement
    or an assignment is at the assignment's name token, at a token of the statement's
    expression, or at a token of a stored function body. -/
theorem C14_stmt_located (fuel : Nat) (env : Env S) (d : Diag) :
    (∀ e, Line.evalErr d ∈ (step fuel env (.expr e)).out →
        (d.line, d.col) ∈ e.allPositions ++ EnvPositions env) ∧
    (∀ name e, Line.evalErr d ∈ (step fuel env (.assign name e)).out →
        (d.line, d.col) ∈ (name.line, name.col) :: (e.allPositions ++ EnvPositions env)) := by
  constructor
  · intro e h
    exact eval_blame fuel e env d (step_expr_blame fuel env e d h)
  · intro name e h
    rcases step_assign_blame fuel env name e d h with ⟨h1, h2, -⟩ | h'
    · rw [h1, h2]; exact List.mem_cons_self
    · exact List.mem_cons_of_mem _ (eval_blame fuel e env d h')

/-! ## statements -/

/-- **C14 (own token, statements).**  A diagnostic printed by a `delete`, a signature deletion
    or a function definition carries the position of the statement's name token; a diagnostic
    printed by an assignment is either the refusal to assign to a constant, at the name token,
    or the diagnostic of evaluating the right-hand side; a diagnostic printed by an expression
    statement is the diagnostic of evaluating the expression; `clear` prints nothing. -/
theorem C14_stmt_blame (fuel : Nat) (env : Env S) (name : Tok S) (d : Diag) :
    (Line.evalErr d ∈ (step fuel env (.deleteVar name)).out →
        (d.line, d.col) = (name.line, name.col)) ∧
    (∀ sig, Line.evalErr d ∈ (step fuel env (.deleteSig name sig)).out →
        (d.line, d.col) = (name.line, name.col)) ∧
    (∀ sig body, Line.evalErr d ∈ (step fuel env (.define name sig body)).out →
        (d.line, d.col) = (name.line, name.col)) ∧
    (∀ e, Line.evalErr d ∈ (step fuel env (.assign name e)).out →
        ((d.line, d.col) = (name.line, name.col) ∧ d.kind = .constantAssignment) ∨
        (eval fuel e env).res = .diag d) ∧
    (∀ e, Line.evalErr d ∈ (step fuel env (.expr e)).out → (eval fuel e env).res = .diag d) ∧
    (step fuel env .clear).out = [] := by
  refine ⟨?_, ?_, ?_, ?_, fun e h => step_expr_blame fuel env e d h, rfl⟩
  · intro h
    obtain ⟨h1, h2, -⟩ := step_deleteVar_blame fuel env name d h
    rw [h1, h2]
  · intro sig h
    obtain ⟨h1, h2, -⟩ := step_deleteSig_blame fuel env name sig d h
    rw [h1, h2]
  · intro sig body h
    obtain ⟨h1, h2, -⟩ := step_define_blame fuel env name sig body d h
    rw [h1, h2]
  · intro e h
    rcases step_assign_blame fuel env name e d h with ⟨h1, h2, h3, -⟩ | h'
    · rw [h1, h2]; exact .inl ⟨rfl, h3⟩
    · exact .inr h'

/-- **C14 (one line, then go on).**  A failing statement prints exactly one line and leaves
    the table as it was, so the statements after it run exactly as if the failing one were
    absent: the output of `s :: ss` is the one line of `s` followed by the output of `ss` from the
    unchanged table, and the final table is that of running `ss` alone. -/
theorem C14_one_line_and_continue (fuel : Nat) (env : Env S) (s : Stmt S) (ss : List (Stmt S))
    (h : ∃ l ∈ (step fuel env s).out, l.isFailure = true) :
    (step fuel env s).out.length = 1 ∧
    (runStmts fuel env (s :: ss)).out = (step fuel env s).out ++ (runStmts fuel env ss).out ∧
    (runStmts fuel env (s :: ss)).env = (runStmts fuel env ss).env := by
  have henv := C10_atomic fuel env s h
  refine ⟨?_, ?_, ?_⟩
  · have hle := step_out_length fuel env s
    obtain ⟨l, hl, -⟩ := h
    have : 0 < (step fuel env s).out.length := List.length_pos_of_mem hl
    omega
  · rw [runStmts_cons, henv]
  · rw [runStmts_cons_env, henv]

/-- **C14 (statements in order, any number of them).**  Whatever a statement does, the output
    of the whole list is the outputs of the statements one after the other, each at most one
    line, each run from the table its predecessor left. -/
theorem C14_statements_in_order (fuel : Nat) (env : Env S) (s : Stmt S) (ss : List (Stmt S)) :
    (runStmts fuel env (s :: ss)).out =
      (step fuel env s).out ++ (runStmts fuel (step fuel env s).env ss).out ∧
    (step fuel env s).out.length ≤ 1 :=
  ⟨rfl, step_out_length fuel env s⟩

/-! ## the hypotheses are satisfiable -/

section Example
variable (z : S)

/-- a binary operator applied to a function value is refused at the operator -/
example (op : Tok S) (h : op.tag = .plus) (n : Str) :
    binop op (.native n) (.number z) =
      .diag ⟨.unsupportedBinaryOperator, op.line, op.col, []⟩ := by
  simp [binop, h, diagAt]

/-- `C14_order`, first clause: an unknown identifier on the left of any operator -/
example (t op : Tok S) (r : Expr S) :
    (eval 2 (.binary (.ident t) op r) ([] : Env S)).res =
      .diag ⟨.unknownVariable, t.line, t.col, t.lexeme⟩ :=
  eval_binary_left_diag 1 (.ident t) r op [] _ rfl

/-- `C14_one_line_and_continue`: deleting an unknown name fails, the next statement still runs -/
example (t : Tok S) (ss : List (Stmt S)) :
    (runStmts 5 ([] : Env S) (.deleteVar t :: ss)).out =
      [.evalErr ⟨.unknownVariable, t.line, t.col, t.lexeme⟩] ++ (runStmts 5 [] ss).out :=
  (C14_one_line_and_continue 5 [] (.deleteVar t) ss
    ⟨.evalErr ⟨.unknownVariable, t.line, t.col, t.lexeme⟩, List.mem_singleton.mpr rfl, rfl⟩).2.1

/-- `C14_eval_blame`: in `f(1)` with `f(x) = x + y` stored and `y` unknown, the diagnostic is at
    the token `y` of the stored body, not at any token of the calling text -/
example (one : S) (f lp x plus y : Tok S) (hf : f.lexeme = "f".toList) (hx : x.lexeme = "x".toList)
    (hy : y.lexeme = "y".toList) :
    (eval 5 (.call (.ident f) lp [.number one])
      ([("f".toList, ⟨.user ⟨"f".toList,
          [(⟨[.ident "x".toList]⟩, .binary (.ident x) plus (.ident y))]⟩, false⟩)] : Env S)).res =
      .diag ⟨.unknownVariable, y.line, y.col, y.lexeme⟩ := by
  simp [eval, lookupIdent, Env.get, hf, hx, hy, evalList, callUser, sigMatches, bindParams,
    Env.insert, Env.remove, diagAt]

end Example

end Calc
