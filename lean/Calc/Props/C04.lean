/-
  Property C04 — Tokens carry exact text, value and position.

  Table half (this file): "a word is a keyword or unit exactly when the whole word is one of the
  documented spellings" for the spelling table *of the current tree* (Calc/Generated/Keywords.lean,
  regenerated from the compiled scanner on every run) against the documented spellings
  (Calc/Spec/Spellings.lean).  The scanner half — slices, positions, number values, whole-word
  lookup, longest match — is Calc/Props/C04Scanner.lean.
-/
import Calc.Props.C05
namespace Calc.Props.C04
open Calc

/- OPEN (false on the current tree — known finding K2, pinned by `test_all_valid_tokens`):
     theorem Keywords_documented : ∀ p ∈ Spec.spellings, C05.lookup p.1 = some p.2 -/

/-- **C04 (documented spellings).** Every documented word other than `yard`, `yards`, `yd` is in
    the scanner's table with the kind it is documented to have … -/
theorem Keywords_documented_partial :
    ∀ p ∈ Spec.spellings, C05.isYardSpelling p.1 = false → C05.lookup p.1 = some p.2 :=
  C05.C05_spellings_partial

/-- … the table holds no other word (so any other word is an identifier, by `C04_keyword`) … -/
theorem Keywords_nothing_else :
    ∀ p ∈ Gen.keywordTable, (Spec.spellings.find? (·.1 == p.1)).isSome = true :=
  C05.C05_no_undocumented_spelling

/-- … and no word occurs twice in the table (the lookup is a function). -/
theorem Keywords_unambiguous : (Gen.keywordTable.map (·.1)).Nodup := by decide +kernel

/-- the negation at the witness of the known finding (replayed on the implementation as the
    token kind of `yd`) -/
theorem Keywords_yard_counterexample : C05.lookup "yd" = some (.unit (.distance .foot)) :=
  C05.C05_yard_counterexample

end Calc.Props.C04
