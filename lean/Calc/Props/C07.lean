/-
  Calc.Props.C07 — matrix and vector operations obey linear algebra.

  Over any field `K` with a lawful kernel, for matrices of ARBITRARY size.  `Mat K` is the model's
  list of rows; `toM r c m` reads it as a Mathlib `Matrix (Fin r) (Fin c) K`; `Mat.IsShape m r c`
  says it has `r` rows of length `c`.  Each theorem states (i) the model operation does not hit an
  assertion of the Rust (`Mat.*` returns `.ok`), (ii) the result is well-shaped, and (iii) it is
  the Mathlib operation.
-/
import Calc.Proofs.MatDet
import Calc.Proofs.MatOps
import Calc.Proofs.MatInverse
import Calc.Proofs.MatVec
import Calc.Proofs.MatShapes

namespace Calc

set_option linter.unusedSectionVars false

open Matrix

variable {K : Type} [Field K] [CharZero K] [Kernel K] [LawfulKernel K]

/-- the shape hypothesis is satisfiable: a concrete 2×3 and a concrete 3×3 matrix -/
example : Mat.IsShape ([[1, 2, 3], [4, 5, 6]] : Mat K) 2 3 := ⟨rfl, by simp⟩
example : Mat.IsShape ([[2, 0, 1], [1, 3, 0], [0, 1, 4]] : Mat K) 3 3 := ⟨rfl, by simp⟩

/-- the regularity hypothesis of the inverse is satisfiable: `det [[1,2],[3,4]] = -2 ≠ 0` -/
example : Mat.detN 2 ([[1, 2], [3, 4]] : Mat K) ≠ 0 := by
  simp only [Mat.detN, Mat.get, List.getD_cons_zero, List.getD_cons_succ]; norm_num

/-! ## Refinement: the list operations are the matrix operations -/

/-- C07, what `from_rows` accepts: exactly the well-shaped lists with positive sizes, so every
    result below can be rebuilt by `Matrix::from_rows` without tripping an assertion. -/
theorem C07_fromRows (m : Mat K) :
    (∀ r c, Mat.IsShape m r c → 0 < r → 0 < c → Mat.fromRows m = .ok m)
    ∧ (∀ m', Mat.fromRows m = .ok m' →
        m' = m ∧ Mat.IsShape m (Mat.nrows m) (Mat.ncols m) ∧ 0 < Mat.nrows m ∧ 0 < Mat.ncols m) := by
  refine ⟨fun r c h hr hc => h.fromRows hr hc, fun m' h => ?_⟩
  unfold Mat.fromRows at h
  split at h
  · next hw => cases h; exact ⟨rfl, Mat.isShape_of_wellShaped hw⟩
  · cases h

/-- C07, addition: on equal shapes `Mat.add` succeeds, the sum is well-shaped, and it is `+`. -/
theorem C07_add {a b : Mat K} {r c : Nat} (ha : Mat.IsShape a r c) (hb : Mat.IsShape b r c)
    (hr : 0 < r) :
    ∃ s, Mat.add a b = .ok s ∧ Mat.IsShape s r c ∧ toM r c s = toM r c a + toM r c b :=
  ⟨_, Mat.add_ok ha hb hr, Mat.zipAdd_isShape ha hb, Mat.toM_zipAdd ha hb⟩

/-- C07, subtraction: likewise with `-`. -/
theorem C07_sub {a b : Mat K} {r c : Nat} (ha : Mat.IsShape a r c) (hb : Mat.IsShape b r c)
    (hr : 0 < r) :
    ∃ s, Mat.sub a b = .ok s ∧ Mat.IsShape s r c ∧ toM r c s = toM r c a - toM r c b :=
  ⟨_, Mat.sub_ok ha hb hr, Mat.zipAdd_isShape ha (Mat.neg_isShape hb), Mat.toM_subResult ha hb⟩

/-- C07, scaling by a number (either operand order of `*` calls `Mat.scale`). -/
theorem C07_scale {a : Mat K} {r c : Nat} (ha : Mat.IsShape a r c) (k : K) :
    Mat.IsShape (Mat.scale a k) r c ∧ toM r c (Mat.scale a k) = k • toM r c a :=
  ⟨Mat.scale_isShape ha k, Mat.toM_scale a k r c⟩

/-- C07, unary minus. -/
theorem C07_neg {a : Mat K} {r c : Nat} (ha : Mat.IsShape a r c) :
    Mat.IsShape (Mat.neg a) r c ∧ toM r c (Mat.neg a) = - toM r c a :=
  ⟨Mat.neg_isShape ha, Mat.toM_neg a r c⟩

/-- C07, division by a number: multiplication by its inverse. -/
theorem C07_divScalar {a : Mat K} {r c : Nat} (ha : Mat.IsShape a r c) (k : K) :
    Mat.IsShape (Mat.divScalar a k) r c ∧ toM r c (Mat.divScalar a k) = k⁻¹ • toM r c a :=
  ⟨Mat.divScalar_isShape ha k, Mat.toM_divScalar a k r c⟩

/-- C07, product: on conforming shapes `Mat.mul` succeeds (its inner `from_rows` included), the
    product is `r × c`, and it is the matrix product. -/
theorem C07_mul {a b : Mat K} {r n c : Nat} (ha : Mat.IsShape a r n) (hb : Mat.IsShape b n c)
    (hr : 0 < r) (hn : 0 < n) (hc : 0 < c) :
    Mat.mul a b = .ok (Mat.mulRaw a b) ∧ Mat.IsShape (Mat.mulRaw a b) r c
      ∧ toM r c (Mat.mulRaw a b) = toM r n a * toM n c b :=
  ⟨Mat.mul_ok ha hb hr hn hc, Mat.mulRaw_isShape ha hb hn, Mat.toM_mulRaw ha hb hr hn⟩

/-- C07, transpose: succeeds, is `c × r`, and is `Matrix.transpose`. -/
theorem C07_transpose {a : Mat K} {r c : Nat} (ha : Mat.IsShape a r c) (hr : 0 < r) (hc : 0 < c) :
    Mat.transpose a = .ok (Mat.transposeRaw a) ∧ Mat.IsShape (Mat.transposeRaw a) c r
      ∧ toM c r (Mat.transposeRaw a) = (toM r c a)ᵀ :=
  ⟨Mat.transpose_ok ha hr hc, Mat.transposeRaw_isShape ha hr, Mat.toM_transposeRaw ha hr⟩

/-- C07, identity: for `n > 0` it succeeds, is `n × n`, and is `1`; `identity 0` trips the
    `from_rows` assertion (the evaluator's `positive_integer` domain keeps that dead). -/
theorem C07_identity (n : Nat) :
    (0 < n → ∃ e : Mat K, Mat.identity n = .ok e ∧ Mat.IsShape e n n ∧ toM n n e = 1)
    ∧ ∃ s, (Mat.identity 0 : Res (Mat K)) = .panic s :=
  ⟨fun hn => ⟨_, Mat.identity_ok hn, Mat.identityRaw_isShape n, Mat.toM_identityRaw n⟩,
   Mat.identity_zero_panics⟩

/-- C07, extensionality: a well-shaped list matrix is determined by its Mathlib reading, so every
    matrix identity below is also an identity between the lists the calculator holds. -/
theorem C07_ext {a b : Mat K} {r c : Nat} (ha : Mat.IsShape a r c) (hb : Mat.IsShape b r c)
    (h : toM r c a = toM r c b) : a = b :=
  Mat.toM_injective ha hb h

/-! ## Determinant -/

/-- C07, determinant: the model's determinant (closed forms at sizes 1 and 2, cofactor expansion
    along row 0 from size 3) is the determinant, at every size.  No shape hypothesis is needed:
    entries outside the lists read as `0` on both sides. -/
theorem C07_det (m : Mat K) (n : Nat) (hn : 0 < n) :
    Mat.detN n m = Matrix.det (toM n n m) := by
  obtain ⟨k, rfl⟩ : ∃ k, n = k + 1 := ⟨n - 1, by omega⟩
  exact detN_eq_det k m

/-- C07, determinant as called by the `determinant` builtin: on a well-shaped square matrix
    neither assertion of `Mat.det` fires and the value is the determinant. -/
theorem C07_det_call {m : Mat K} {n : Nat} (hm : Mat.IsShape m n n) (hn : 0 < n) :
    Mat.det m = .ok (Matrix.det (toM n n m)) := by
  unfold Mat.det
  simp only [hm.nrows, hm.ncols hn, ne_eq, not_true_eq_false, if_false,
    Nat.pos_iff_ne_zero.mp hn, C07_det m n hn]

/-- C07: the determinant is multiplicative, through the model's product and determinant. -/
theorem C07_det_mul {a b : Mat K} {n : Nat} (ha : Mat.IsShape a n n) (hb : Mat.IsShape b n n)
    (hn : 0 < n) :
    Mat.detN n (Mat.mulRaw a b) = Mat.detN n a * Mat.detN n b := by
  rw [C07_det _ n hn, C07_det _ n hn, C07_det _ n hn, Mat.toM_mulRaw ha hb hn hn, Matrix.det_mul]

/-- C07: the determinant of the transpose is the determinant. -/
theorem C07_det_transpose {a : Mat K} {n : Nat} (ha : Mat.IsShape a n n) (hn : 0 < n) :
    Mat.detN n (Mat.transposeRaw a) = Mat.detN n a := by
  rw [C07_det _ n hn, C07_det _ n hn, Mat.toM_transposeRaw ha hn, Matrix.det_transpose]

/-- C07: the determinant of the identity is one. -/
theorem C07_det_identity {n : Nat} (hn : 0 < n) :
    ∃ e : Mat K, Mat.identity n = .ok e ∧ Mat.detN n e = 1 :=
  ⟨_, Mat.identity_ok hn, by rw [C07_det _ n hn, Mat.toM_identityRaw, Matrix.det_one]⟩

/-! ## Transpose laws -/

/-- C07: transposing twice gives back the very same list of rows. -/
theorem C07_transpose_involution {a : Mat K} {r c : Nat} (ha : Mat.IsShape a r c)
    (hr : 0 < r) (hc : 0 < c) :
    ∃ t, Mat.transpose a = .ok t ∧ Mat.transpose t = .ok a := by
  have ht := Mat.transposeRaw_isShape ha hr
  refine ⟨_, Mat.transpose_ok ha hr hc, ?_⟩
  rw [Mat.transpose_ok ht hc hr]
  congr 1
  apply Mat.toM_injective (Mat.transposeRaw_isShape ht hc) ha
  rw [Mat.toM_transposeRaw ht hc, Mat.toM_transposeRaw ha hr, Matrix.transpose_transpose]

/-- C07: `(A·B)ᵀ = Bᵀ·Aᵀ`, as an equality of the lists the model computes. -/
theorem C07_transpose_mul {a b : Mat K} {r n c : Nat} (ha : Mat.IsShape a r n)
    (hb : Mat.IsShape b n c) (hr : 0 < r) (hn : 0 < n) (hc : 0 < c) :
    Mat.transposeRaw (Mat.mulRaw a b) = Mat.mulRaw (Mat.transposeRaw b) (Mat.transposeRaw a) := by
  have hab := Mat.mulRaw_isShape ha hb hn
  have hat := Mat.transposeRaw_isShape ha hr
  have hbt := Mat.transposeRaw_isShape hb hn
  apply Mat.toM_injective (Mat.transposeRaw_isShape hab hr) (Mat.mulRaw_isShape hbt hat hn)
  rw [Mat.toM_transposeRaw hab hr, Mat.toM_mulRaw ha hb hr hn, Mat.toM_mulRaw hbt hat hc hn,
    Mat.toM_transposeRaw ha hr, Mat.toM_transposeRaw hb hn, Matrix.transpose_mul]

/-- C07: the identity is neutral for the model's product (as lists). -/
theorem C07_mul_identity {a : Mat K} {r c : Nat} (ha : Mat.IsShape a r c) (hr : 0 < r) (hc : 0 < c) :
    Mat.mulRaw a (Mat.identityRaw c) = a ∧ Mat.mulRaw (Mat.identityRaw r) a = a := by
  constructor
  · apply Mat.toM_injective (Mat.mulRaw_isShape ha (Mat.identityRaw_isShape c) hc) ha
    rw [Mat.toM_mulRaw ha (Mat.identityRaw_isShape c) hr hc, Mat.toM_identityRaw, Matrix.mul_one]
  · apply Mat.toM_injective (Mat.mulRaw_isShape (Mat.identityRaw_isShape r) ha hr) ha
    rw [Mat.toM_mulRaw (Mat.identityRaw_isShape r) ha hr hr, Mat.toM_identityRaw, Matrix.one_mul]

/-! ## Inverse -/

/-- C07, inverse (every size): on a well-shaped square matrix `Mat.inverse` never trips an
    assertion; it reports "singular" exactly when the determinant is zero; otherwise the result
    is well-shaped, is a two-sided inverse, is Mathlib's `⁻¹`, and the model's own product of the
    matrix with it is the model's identity (as lists). -/
theorem C07_inverse {m : Mat K} {n : Nat} (hm : Mat.IsShape m n n) (hn : 0 < n) :
    (Mat.inverse m = .ok none ↔ Mat.detN n m = 0)
    ∧ (Mat.detN n m ≠ 0 → ∃ inv, Mat.inverse m = .ok (some inv))
    ∧ (∀ inv, Mat.inverse m = .ok (some inv) →
        Mat.IsShape inv n n
        ∧ toM n n m * toM n n inv = 1 ∧ toM n n inv * toM n n m = 1
        ∧ toM n n inv = (toM n n m)⁻¹
        ∧ Mat.mulRaw m inv = Mat.identityRaw n ∧ Mat.mulRaw inv m = Mat.identityRaw n) := by
  by_cases hd : Mat.detN n m = 0
  · have hs := Mat.inverse_singular hm hn hd
    refine ⟨⟨fun _ => hd, fun _ => hs⟩, fun h => absurd hd h, fun inv h => ?_⟩
    rw [hs] at h; cases h
  · obtain ⟨inv0, h0, hshape, htoM⟩ := Mat.inverse_regular hm hn hd
    refine ⟨⟨fun h => ?_, fun h => absurd h hd⟩, fun _ => ⟨inv0, h0⟩, fun inv h => ?_⟩
    · rw [h0] at h; cases h
    · rw [h0] at h; cases h
      have hdet : Matrix.det (toM n n m) ≠ 0 := by rwa [← C07_det m n hn]
      rw [C07_det m n hn] at htoM
      obtain ⟨hr, hl⟩ := Mat.mul_smul_adjugate (toM n n m) hdet
      rw [← htoM] at hr hl
      refine ⟨hshape, hr, hl, (Matrix.inv_eq_right_inv hr).symm, ?_, ?_⟩
      · apply Mat.toM_injective (Mat.mulRaw_isShape hm hshape hn) (Mat.identityRaw_isShape n)
        rw [Mat.toM_mulRaw hm hshape hn hn, hr, Mat.toM_identityRaw]
      · apply Mat.toM_injective (Mat.mulRaw_isShape hshape hm hn) (Mat.identityRaw_isShape n)
        rw [Mat.toM_mulRaw hshape hm hn hn, hl, Mat.toM_identityRaw]

/-- C07, inverse of a 1×1 matrix is the reciprocal of its entry. -/
theorem C07_inverse_one (x : K) (hx : x ≠ 0) :
    Mat.inverse ([[x]] : Mat K) = .ok (some [[1 / x]]) := by
  have heq : Kernel.eq x (0 : K) = false := Mat.eq_false_of_ne hx
  unfold Mat.inverse
  simp [Mat.nrows, Mat.ncols, Mat.detN, Mat.get, heq]

/-! ## Dot and cross products -/

/-- C07, dot product: on two lists of the same length `Mat.dotList` is the dot product. -/
theorem C07_dot (n : Nat) (xs ys : List K) (hx : xs.length = n) (hy : ys.length = n) :
    Mat.dotList xs ys = toV n xs ⬝ᵥ toV n ys :=
  Mat.dotList_eq_dotProduct n xs ys hx hy

/-- C07, cross product: the model's three components are Mathlib's cross product. -/
theorem C07_cross (a1 a2 a3 b1 b2 b3 : K) :
    toV 3 (Mat.cross3 a1 a2 a3 b1 b2 b3) = crossProduct ![a1, a2, a3] ![b1, b2, b3] :=
  Mat.toV_cross3 a1 a2 a3 b1 b2 b3

/-- C07: the cross product is orthogonal to both operands, through the model's own dot. -/
theorem C07_cross_orthogonal (a1 a2 a3 b1 b2 b3 : K) :
    Mat.dotList [a1, a2, a3] (Mat.cross3 a1 a2 a3 b1 b2 b3) = 0
    ∧ Mat.dotList [b1, b2, b3] (Mat.cross3 a1 a2 a3 b1 b2 b3) = 0 := by
  constructor
  · rw [Mat.dotList_eq_dotProduct 3 _ _ rfl rfl, Mat.toV_cross3, Mat.toV_three]
    exact dot_self_cross _ _
  · rw [Mat.dotList_eq_dotProduct 3 _ _ rfl rfl, Mat.toV_cross3, Mat.toV_three]
    exact dot_cross_self _ _

/-- C07: the cross product is anticommutative, and `v × v = 0`. -/
theorem C07_cross_anticomm (a1 a2 a3 b1 b2 b3 : K) :
    toV 3 (Mat.cross3 b1 b2 b3 a1 a2 a3) = - toV 3 (Mat.cross3 a1 a2 a3 b1 b2 b3)
    ∧ toV 3 (Mat.cross3 a1 a2 a3 a1 a2 a3) = 0 := by
  refine ⟨?_, ?_⟩
  · rw [Mat.toV_cross3, Mat.toV_cross3, cross_anticomm]
  · rw [Mat.toV_cross3, cross_self]

/-- C07, cross of two row vectors through the evaluator: a 1×3 row holding the cross product. -/
theorem C07_cross_rows (op : Tok K) (hop : op.tag = .cross) (a1 a2 a3 b1 b2 b3 : K) :
    binop op (.matrix [[a1, a2, a3]]) (.matrix [[b1, b2, b3]])
      = .ok (.matrix [Mat.cross3 a1 a2 a3 b1 b2 b3]) := by
  have ha : Mat.IsShape ([[a1, a2, a3]] : Mat K) 1 3 := Mat.row_isShape _
  have hb : Mat.IsShape ([[b1, b2, b3]] : Mat K) 1 3 := Mat.row_isShape _
  rw [binop_cross_matrix ha hb (by omega) (by omega) op hop]
  rfl

/-- C07, cross of two COLUMN vectors through the evaluator (known finding about orientation):
    the components are the cross product, but the result is a single ROW (1×3), not a 3×1
    column as the operands are. -/
theorem C07_cross_columns_yield_row (op : Tok K) (hop : op.tag = .cross) (a1 a2 a3 b1 b2 b3 : K) :
    binop op (.matrix [[a1], [a2], [a3]]) (.matrix [[b1], [b2], [b3]])
      = .ok (.matrix [Mat.cross3 a1 a2 a3 b1 b2 b3])
    ∧ Mat.IsShape ([Mat.cross3 a1 a2 a3 b1 b2 b3] : Mat K) 1 3 := by
  have ha : Mat.IsShape ([[a1], [a2], [a3]] : Mat K) 3 1 := ⟨rfl, by simp⟩
  have hb : Mat.IsShape ([[b1], [b2], [b3]] : Mat K) 3 1 := ⟨rfl, by simp⟩
  refine ⟨?_, Mat.row_isShape _⟩
  rw [binop_cross_matrix ha hb (by omega) (by omega) op hop]
  rfl

/-! ## Euclidean length -/

/-- C07, `|v|`: the length of a list of entries is `sqrt` of the sum of the `normSqr`s (the left
    fold the code runs is that sum), and `| |` applies it to a row vector's row, else to a column
    vector's column, else refuses the matrix. -/
theorem C07_abs (xs : List K) :
    (xs.map Kernel.normSqr).foldl (· + ·) 0 = (xs.map Kernel.normSqr).sum
    ∧ vecNorm xs = Kernel.sqrt ((xs.map Kernel.normSqr).sum)
    ∧ (∀ s : K, (xs.map Kernel.normSqr).sum = s → vecNorm xs = Kernel.sqrt s) := by
  have h := foldl_add_eq_listSum (xs.map Kernel.normSqr)
  refine ⟨h, ?_, ?_⟩
  · unfold vecNorm; rw [h]
  · intro s hs; unfold vecNorm; rw [h, hs]

/-- C07, `|m|` through the evaluator on a well-shaped matrix. -/
theorem C07_abs_matrix {a : Mat K} {r c : Nat} (ha : Mat.IsShape a r c) (hr : 0 < r)
    (paren : Tok K) :
    (r = 1 → groupop paren .absolute (.matrix a) = .ok (.number (vecNorm (a.headD []))))
    ∧ (r ≠ 1 → c = 1 →
        groupop paren .absolute (.matrix a) = .ok (.number (vecNorm (Mat.col0 a))))
    ∧ (r ≠ 1 → c ≠ 1 → groupop paren .absolute (.matrix a)
        = .diag ⟨.invalidGroupingOperand, paren.line, paren.col, []⟩) := by
  rw [groupop_abs_matrix ha hr paren]
  refine ⟨fun h => by simp only [h, if_true], fun h1 h2 => by simp only [h1, h2, if_true, if_false],
    fun h1 h2 => by simp only [h1, h2, if_false]⟩

/-! ## The four matrix builtins -/

/-- C07, builtins: the bodies of `determinant`, `transpose`, `inverse`, `identity` (as run after
    the arity and domain checks) on a well-shaped square matrix / a positive size: no assertion
    is reached, the values are the determinant, the transpose, a two-sided inverse (or the
    `noInverseForMatrix` diagnostic at the call position exactly when the determinant is zero),
    and the identity matrix. -/
theorem C07_builtins {m : Mat K} {n : Nat} (hm : Mat.IsShape m n n) (hn : 0 < n) (line col : Nat) :
    nativeBody "determinant".toList line col [.matrix m] = .ok (.number (Matrix.det (toM n n m)))
    ∧ (∃ t, nativeBody "transpose".toList line col [.matrix m] = .ok (.matrix t)
        ∧ Mat.IsShape t n n ∧ toM n n t = (toM n n m)ᵀ)
    ∧ (Mat.detN n m = 0 → nativeBody "inverse".toList line col [.matrix m]
        = .diag ⟨.noInverseForMatrix, line, col, []⟩)
    ∧ (Mat.detN n m ≠ 0 → ∃ inv, nativeBody "inverse".toList line col [.matrix m]
        = .ok (.matrix inv) ∧ Mat.IsShape inv n n ∧ toM n n m * toM n n inv = 1
          ∧ toM n n inv * toM n n m = 1)
    ∧ (∀ z : K, Kernel.reToNat z = n → ∃ e, nativeBody "identity".toList line col [.number z]
        = .ok (.matrix e) ∧ Mat.IsShape e n n ∧ toM n n e = 1) := by
  refine ⟨?_, ?_, ?_, ?_, ?_⟩
  · rw [nativeBody_determinant, C07_det_call hm hn]; rfl
  · refine ⟨_, ?_, Mat.transposeRaw_isShape hm hn, Mat.toM_transposeRaw hm hn⟩
    rw [nativeBody_transpose, Mat.transpose_ok hm hn hn]; rfl
  · intro hd
    exact nativeBody_inverse_none (((C07_inverse hm hn).1).mpr hd) line col
  · intro hd
    obtain ⟨inv, hinv⟩ := (C07_inverse hm hn).2.1 hd
    obtain ⟨hs, h1, h2, _⟩ := (C07_inverse hm hn).2.2 inv hinv
    exact ⟨inv, nativeBody_inverse_some hinv line col, hs, h1, h2⟩
  · intro z hz
    refine ⟨_, ?_, Mat.identityRaw_isShape n, Mat.toM_identityRaw n⟩
    rw [nativeBody_identity, hz, Mat.identity_ok hn]; rfl

/-! ## Shapes: the evaluator's guards keep every assertion dead -/

section shapes
variable {a b : Mat K} {r c r' c' : Nat}

/-- C07, shapes, `+`: equal shapes give the well-shaped sum; any other pair is
    `unsupportedBinaryOperator` at the operator. -/
theorem C07_shapes_add (ha : Mat.IsShape a r c) (hb : Mat.IsShape b r' c') (hr : 0 < r)
    (hr' : 0 < r') (op : Tok K) (hop : op.tag = .plus) :
    (r = r' ∧ c = c' → ∃ s, binop op (.matrix a) (.matrix b) = .ok (.matrix s)
        ∧ Mat.IsShape s r c ∧ toM r c s = toM r c a + toM r c b)
    ∧ (¬ (r = r' ∧ c = c') → binop op (.matrix a) (.matrix b)
        = .diag ⟨.unsupportedBinaryOperator, op.line, op.col, []⟩) := by
  rw [binop_plus_matrix ha hb hr hr' op hop]
  refine ⟨fun h => ?_, fun h => by simp only [h, if_false]⟩
  obtain ⟨rfl, rfl⟩ := h
  exact ⟨_, by simp only [and_self, if_true], Mat.zipAdd_isShape ha hb, Mat.toM_zipAdd ha hb⟩

/-- C07, shapes, `-`. -/
theorem C07_shapes_sub (ha : Mat.IsShape a r c) (hb : Mat.IsShape b r' c') (hr : 0 < r)
    (hr' : 0 < r') (op : Tok K) (hop : op.tag = .minus) :
    (r = r' ∧ c = c' → ∃ s, binop op (.matrix a) (.matrix b) = .ok (.matrix s)
        ∧ Mat.IsShape s r c ∧ toM r c s = toM r c a - toM r c b)
    ∧ (¬ (r = r' ∧ c = c') → binop op (.matrix a) (.matrix b)
        = .diag ⟨.unsupportedBinaryOperator, op.line, op.col, []⟩) := by
  rw [binop_minus_matrix ha hb hr hr' op hop]
  refine ⟨fun h => ?_, fun h => by simp only [h, if_false]⟩
  obtain ⟨rfl, rfl⟩ := h
  exact ⟨_, by simp only [and_self, if_true], Mat.zipAdd_isShape ha (Mat.neg_isShape hb),
    Mat.toM_subResult ha hb⟩

/-- C07, shapes, `*` of two matrices: inner sizes must agree. -/
theorem C07_shapes_mul (ha : Mat.IsShape a r c) (hb : Mat.IsShape b r' c') (hr : 0 < r)
    (hr' : 0 < r') (hc' : 0 < c') (op : Tok K) (hop : op.tag = .star) :
    (c = r' → ∃ s, binop op (.matrix a) (.matrix b) = .ok (.matrix s)
        ∧ Mat.IsShape s r c' ∧ toM r c' s = toM r c a * toM c c' b)
    ∧ (c ≠ r' → binop op (.matrix a) (.matrix b)
        = .diag ⟨.unsupportedBinaryOperator, op.line, op.col, []⟩) := by
  rw [binop_star_matrix ha hb hr hr' hc' op hop]
  refine ⟨fun h => ?_, fun h => by simp only [h, if_false]⟩
  subst h
  exact ⟨_, by simp only [if_true], Mat.mulRaw_isShape ha hb hr', Mat.toM_mulRaw ha hb hr hr'⟩

/-- C07, shapes, `*` and `/` with a number: always defined on a matrix, shape kept; division by
    zero is the `divisionByZero` diagnostic. -/
theorem C07_shapes_scalar (ha : Mat.IsShape a r c) (k : K) (op : Tok K) :
    (op.tag = .star → binop op (.number k) (.matrix a) = .ok (.matrix (Mat.scale a k))
        ∧ binop op (.matrix a) (.number k) = .ok (.matrix (Mat.scale a k))
        ∧ Mat.IsShape (Mat.scale a k) r c)
    ∧ (op.tag = .slash → k ≠ 0 →
        binop op (.matrix a) (.number k) = .ok (.matrix (Mat.divScalar a k))
        ∧ Mat.IsShape (Mat.divScalar a k) r c)
    ∧ (op.tag = .slash →
        binop op (.matrix a) (.number 0) = .diag ⟨.divisionByZero, op.line, op.col, []⟩) := by
  refine ⟨fun hop => ⟨?_, ?_, Mat.scale_isShape ha k⟩,
    fun hop hk => ⟨binop_slash_matrix_number a hk op hop, Mat.divScalar_isShape ha k⟩,
    fun hop => binop_slash_matrix_zero a op hop⟩
  · unfold binop; simp only [hop]
  · unfold binop; simp only [hop]

/-- C07, shapes, `dot`: two rows of equal length, or two columns of equal height; the value is the
    dot product of the two vectors; any other pair is refused. -/
theorem C07_shapes_dot (ha : Mat.IsShape a r c) (hb : Mat.IsShape b r' c') (hr : 0 < r)
    (hr' : 0 < r') (op : Tok K) (hop : op.tag = .dot) :
    (r = 1 ∧ r' = 1 ∧ c = c' → binop op (.matrix a) (.matrix b)
        = .ok (.number (toV c (a.headD []) ⬝ᵥ toV c (b.headD []))))
    ∧ (¬ (r = 1 ∧ r' = 1 ∧ c = c') → c = 1 ∧ c' = 1 ∧ r = r' → binop op (.matrix a) (.matrix b)
        = .ok (.number (toV r (Mat.col0 a) ⬝ᵥ toV r (Mat.col0 b))))
    ∧ (¬ (r = 1 ∧ r' = 1 ∧ c = c') → ¬ (c = 1 ∧ c' = 1 ∧ r = r') →
        binop op (.matrix a) (.matrix b)
          = .diag ⟨.unsupportedBinaryOperator, op.line, op.col, []⟩) := by
  rw [binop_dot_matrix ha hb hr hr' op hop]
  refine ⟨fun h => ?_, fun h1 h2 => ?_, fun h1 h2 => by simp only [h1, h2, if_false]⟩
  · rw [if_pos h]
    obtain ⟨rfl, rfl, rfl⟩ := h
    have h1 : (a.headD []).length = c := ha.ncols hr
    have h2 : (b.headD []).length = c := hb.ncols hr'
    rw [Mat.dotList_eq_dotProduct c _ _ h1 h2]
  · rw [if_neg h1, if_pos h2]
    obtain ⟨rfl, rfl, rfl⟩ := h2
    have h1 : (Mat.col0 a).length = r := by simp [Mat.col0, ha.1]
    have h2 : (Mat.col0 b).length = r := by simp [Mat.col0, hb.1]
    rw [Mat.dotList_eq_dotProduct r _ _ h1 h2]

/-- C07, shapes, `cross`: two 1×3 rows or two 3×1 columns; in BOTH cases the result is a 1×3 row
    (the orientation finding) holding Mathlib's cross product; any other pair is refused. -/
theorem C07_shapes_cross (ha : Mat.IsShape a r c) (hb : Mat.IsShape b r' c') (hr : 0 < r)
    (hr' : 0 < r') (op : Tok K) (hop : op.tag = .cross) :
    (r = 1 ∧ r' = 1 ∧ c = 3 ∧ c' = 3 → ∃ v, binop op (.matrix a) (.matrix b) = .ok (.matrix [v])
        ∧ Mat.IsShape ([v] : Mat K) 1 3
        ∧ toV 3 v = crossProduct ![Mat.get a 0 0, Mat.get a 0 1, Mat.get a 0 2]
                                 ![Mat.get b 0 0, Mat.get b 0 1, Mat.get b 0 2])
    ∧ (c = 1 ∧ c' = 1 ∧ r = 3 ∧ r' = 3 → ∃ v, binop op (.matrix a) (.matrix b) = .ok (.matrix [v])
        ∧ Mat.IsShape ([v] : Mat K) 1 3
        ∧ toV 3 v = crossProduct ![Mat.get a 0 0, Mat.get a 1 0, Mat.get a 2 0]
                                 ![Mat.get b 0 0, Mat.get b 1 0, Mat.get b 2 0])
    ∧ (¬ (r = 1 ∧ r' = 1 ∧ c = 3 ∧ c' = 3) → ¬ (c = 1 ∧ c' = 1 ∧ r = 3 ∧ r' = 3) →
        binop op (.matrix a) (.matrix b)
          = .diag ⟨.unsupportedBinaryOperator, op.line, op.col, []⟩) := by
  rw [binop_cross_matrix ha hb hr hr' op hop]
  refine ⟨fun h => ?_, fun h => ?_, fun h1 h2 => by simp only [h1, h2, if_false]⟩
  · exact ⟨_, by rw [if_pos h], Mat.row_isShape _, Mat.toV_cross3 _ _ _ _ _ _⟩
  · have h' : ¬ (r = 1 ∧ r' = 1 ∧ c = 3 ∧ c' = 3) := by omega
    exact ⟨_, by rw [if_neg h', if_pos h], Mat.row_isShape _,
      Mat.toV_cross3 _ _ _ _ _ _⟩

/-- C07, shapes, the remaining binary operators on two matrices (`/ ^ %`) are refused. -/
theorem C07_shapes_other (a b : Mat K) (op : Tok K)
    (hop : op.tag = .slash ∨ op.tag = .caret ∨ op.tag = .percent) :
    binop op (.matrix a) (.matrix b)
      = .diag ⟨.unsupportedBinaryOperator, op.line, op.col, []⟩ :=
  binop_matrix_other a b op hop

/-- C07, shapes, summary: for every binary operator token, two well-shaped matrices never reach
    an assertion of the matrix code. -/
theorem C07_shapes_no_panic (ha : Mat.IsShape a r c) (hb : Mat.IsShape b r' c') (hr : 0 < r)
    (hr' : 0 < r') (hc' : 0 < c') (op : Tok K)
    (hop : op.tag = .plus ∨ op.tag = .minus ∨ op.tag = .star ∨ op.tag = .slash ∨ op.tag = .caret
      ∨ op.tag = .percent ∨ op.tag = .dot ∨ op.tag = .cross) (s : Str) :
    binop op (.matrix a) (.matrix b) ≠ .panic s := by
  rcases hop with hop | hop | hop | hop | hop | hop | hop | hop
  · rw [binop_plus_matrix ha hb hr hr' op hop]; split <;> exact fun h => by cases h
  · rw [binop_minus_matrix ha hb hr hr' op hop]; split <;> exact fun h => by cases h
  · rw [binop_star_matrix ha hb hr hr' hc' op hop]; split <;> exact fun h => by cases h
  · rw [binop_matrix_other a b op (.inl hop)]; exact fun h => by cases h
  · rw [binop_matrix_other a b op (.inr (.inl hop))]; exact fun h => by cases h
  · rw [binop_matrix_other a b op (.inr (.inr hop))]; exact fun h => by cases h
  · rw [binop_dot_matrix ha hb hr hr' op hop]
    split
    · exact fun h => by cases h
    · split <;> exact fun h => by cases h
  · rw [binop_cross_matrix ha hb hr hr' op hop]
    split
    · exact fun h => by cases h
    · split <;> exact fun h => by cases h

end shapes

end Calc
