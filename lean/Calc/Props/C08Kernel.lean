/-
  Property C08 (kernel half) — the formulas behind every built-in compute the function the name
  says.

  `C08_bodies` (Calc/Props/C08.lean) says: the built-in named `f` applies the kernel primitive
  `Kernel.f`.  At the executable kernel `Cx = CxOf Float` that primitive is num-complex's formula,
  written once in Calc/Model/CxGeneric.lean over an abstract real type and compared bit for bit
  with the Rust at `Float`.  Here the SAME text is read at `R = ℝ` (Calc/Proofs/CxReal.lean) and
  proved equal, through `toC : CxOf ℝ → ℂ`, to
    * the mathematical function (`C08_kernel_formulas`), under the side conditions the mathematics
      needs, written out as hypotheses;
    * the corresponding field of the exact kernel `Kernel ℂ` that every theorem stated at ℂ uses
      (`C08_kernel_agrees`), unconditionally except at the poles of `atan`/`atanh` — the exact
      kernel follows Mathlib's conventions `x / 0 = 0`, `log 0 = 0` at the singular points, and so
      does the formula read at ℝ.
  What this does NOT say: anything about rounding.  `Float` is not ℝ; the tie between the two
  readings is that they are one text.  What ℝ lacks (±inf, NaN, −0) and which branches that kills
  is stated in `C08_kernel_ieee_branches`, at every instance.
-/
import Calc.Proofs.CxReal
namespace Calc.Props.C08Kernel
open Calc Calc.CxReal Complex

/-- **C08 (operators).** `+ − * / ^ %`, negation: the formulas of num-complex's `Add Sub Mul Div
    powc Rem Neg`, read at ℝ, are the field operations of ℂ, the principal power `x ^ y`
    (`exp (y · log x)`; the shortcut `y = 0 ⇒ 1` is `x ^ 0 = 1`), and `a − m·trunc(a / m)`. -/
theorem C08_kernel_operators (a b : CxOf ℝ) :
    toC (a + b) = toC a + toC b ∧
    toC (a - b) = toC a - toC b ∧
    toC (a * b) = toC a * toC b ∧
    (toC b ≠ 0 → toC (a / b) = toC a / toC b) ∧
    toC (-a) = -toC a ∧
    (toC a ≠ 0 → toC (CxOf.powc a b) = toC a ^ toC b) ∧
    (toC b = 0 → toC (CxOf.powc a b) = 1) ∧
    (toC b ≠ 0 → toC (CxOf.rem a b) = toC a - toC b * truncC (toC a / toC b)) :=
  ⟨toC_hadd a b, toC_hsub a b, toC_hmul a b, fun _ => toC_hdiv a b, toC_hneg a,
   fun h => toC_powc a b (Or.inl h), toC_powc_zero a b, fun _ => toC_rem a b⟩

/-- **C08 (formulas compute the functions).** One clause per built-in (plus `exp`, `norm`, `arg`,
    which the others are made of): num-complex's formula, read at ℝ, is the mathematical function.
    `sqrt` is the principal root (`z ^ (1/2)`; on the negative real axis `+i√(−re)`, the value for
    an imaginary part `+0`); `ln` is the principal logarithm; the inverse trigonometric and
    hyperbolic functions are the logarithm formulas the exact kernel is defined by. -/
theorem C08_kernel_formulas (a b : CxOf ℝ) :
    -- building blocks
    CxOf.norm a = ‖toC a‖ ∧
    CxOf.arg a = Complex.arg (toC a) ∧
    toC (CxOf.exp a) = Complex.exp (toC a) ∧
    -- sin cos tan
    toC (CxOf.sin a) = Complex.sin (toC a) ∧
    toC (CxOf.cos a) = Complex.cos (toC a) ∧
    (Complex.cos (toC a) ≠ 0 → toC (CxOf.tan a) = Complex.tan (toC a)) ∧
    -- asin acos atan
    toC (CxOf.asin a) = -I * Complex.log ((1 - toC a * toC a) ^ ((1 : ℂ) / 2) + I * toC a) ∧
    toC (CxOf.acos a) = -I * Complex.log (I * (1 - toC a * toC a) ^ ((1 : ℂ) / 2) + toC a) ∧
    (toC a ≠ I → toC a ≠ -I →
      toC (CxOf.atan a) = (Complex.log (1 + I * toC a) - Complex.log (1 - I * toC a)) / (2 * I)) ∧
    -- sinh cosh tanh
    toC (CxOf.sinh a) = Complex.sinh (toC a) ∧
    toC (CxOf.cosh a) = Complex.cosh (toC a) ∧
    (Complex.cosh (toC a) ≠ 0 → toC (CxOf.tanh a) = Complex.tanh (toC a)) ∧
    -- asinh acosh atanh
    toC (CxOf.asinh a) = Complex.log (toC a + (1 + toC a * toC a) ^ ((1 : ℂ) / 2)) ∧
    toC (CxOf.acosh a)
      = 2 * Complex.log (((toC a + 1) / 2) ^ ((1 : ℂ) / 2) + ((toC a - 1) / 2) ^ ((1 : ℂ) / 2)) ∧
    (toC a ≠ 1 → toC a ≠ -1 →
      toC (CxOf.atanh a) = (Complex.log (1 + toC a) - Complex.log (1 - toC a)) / 2) ∧
    -- re im arg conj abs
    toC (CxOf.reS a) = ((toC a).re : ℂ) ∧
    toC (CxOf.imS a) = ((toC a).im : ℂ) ∧
    toC (CxOf.argS a) = (Complex.arg (toC a) : ℂ) ∧
    toC (CxOf.conj a) = starRingEnd ℂ (toC a) ∧
    toC (CxOf.normS a) = (‖toC a‖ : ℂ) ∧
    -- ln log2 log10 log sqrt
    (toC a ≠ 0 → toC (CxOf.ln a) = Complex.log (toC a)) ∧
    (toC a ≠ 0 → toC (CxOf.log2 a) = Complex.log (toC a) / (Real.log 2 : ℂ)) ∧
    (toC a ≠ 0 → toC (CxOf.log10 a) = Complex.log (toC a) / (Real.log 10 : ℂ)) ∧
    (toC b ≠ 0 → Real.log a.re ≠ 0 →
      toC (CxOf.logBase a b) = Complex.log (toC b) / (Real.log (toC a).re : ℂ)) ∧
    toC (CxOf.sqrt a) = toC a ^ ((1 : ℂ) / 2) ∧
    (toC (CxOf.sqrt a) * toC (CxOf.sqrt a) = toC a ∧ 0 ≤ (toC (CxOf.sqrt a)).re) :=
  ⟨norm_eq a, arg_eq a, toC_exp a,
   toC_sin a, toC_cos a, fun _ => toC_tan a,
   toC_asin a, toC_acos a, toC_atan a,
   toC_sinh a, toC_cosh a, fun _ => toC_tanh a,
   toC_asinh a, toC_acosh a, toC_atanh a,
   toC_reS a, toC_imS a, toC_argS a, toC_conj a, toC_normS a,
   fun _ => toC_ln a, fun _ => toC_log2 a, fun _ => toC_log10 a, fun _ _ => toC_logBase a b,
   toC_sqrt a, sqrt_spec a⟩

/-- **C08 (the two kernels agree).** For every primitive of the numeric kernel that num-complex
    computes by a formula, the formula read at ℝ is, through `toC`, the field of the exact kernel
    `Kernel ℂ` — the kernel at which the theorems of C02, C05–C07 are stated.  Together with the
    bit-for-bit comparison of the same formulas at `Float` with the Rust this replaces the
    assumption "num-complex's formulas compute the mathematical functions". -/
theorem C08_kernel_agrees (a b : CxOf ℝ) :
    toC (CxOf.sin a) = Kernel.sin (toC a) ∧
    toC (CxOf.cos a) = Kernel.cos (toC a) ∧
    toC (CxOf.tan a) = Kernel.tan (toC a) ∧
    toC (CxOf.asin a) = Kernel.asin (toC a) ∧
    toC (CxOf.acos a) = Kernel.acos (toC a) ∧
    (toC a ≠ I → toC a ≠ -I → toC (CxOf.atan a) = Kernel.atan (toC a)) ∧
    toC (CxOf.sinh a) = Kernel.sinh (toC a) ∧
    toC (CxOf.cosh a) = Kernel.cosh (toC a) ∧
    toC (CxOf.tanh a) = Kernel.tanh (toC a) ∧
    toC (CxOf.asinh a) = Kernel.asinh (toC a) ∧
    toC (CxOf.acosh a) = Kernel.acosh (toC a) ∧
    (toC a ≠ 1 → toC a ≠ -1 → toC (CxOf.atanh a) = Kernel.atanh (toC a)) ∧
    toC (CxOf.reS a) = Kernel.reS (toC a) ∧
    toC (CxOf.imS a) = Kernel.imS (toC a) ∧
    toC (CxOf.argS a) = Kernel.argS (toC a) ∧
    toC (CxOf.conj a) = Kernel.conj (toC a) ∧
    toC (CxOf.normS a) = Kernel.norm (toC a) ∧
    toC (CxOf.normSqr a) = Kernel.normSqr (toC a) ∧
    toC (CxOf.ln a) = Kernel.ln (toC a) ∧
    toC (CxOf.log2 a) = Kernel.log2 (toC a) ∧
    toC (CxOf.log10 a) = Kernel.log10 (toC a) ∧
    toC (CxOf.logBase a b) = Kernel.logBase (toC a) (toC b) ∧
    toC (CxOf.sqrt a) = Kernel.sqrt (toC a) ∧
    ((toC a ≠ 0 ∨ toC b = 0) → toC (CxOf.powc a b) = Kernel.powc (toC a) (toC b)) ∧
    toC (CxOf.rem a b) = Kernel.rem (toC a) (toC b) ∧
    toC (CxOf.mulRe a b) = Kernel.mulRe (toC a) (toC b) ∧
    (CxOf.beq a b = true ↔ Kernel.eq (toC a) (toC b) = true) ∧
    (CxOf.normIsZero a = true ↔ Kernel.normIsZero (toC a) = true) ∧
    toC (a + b) = toC a + toC b ∧ toC (a - b) = toC a - toC b ∧
    toC (a * b) = toC a * toC b ∧ toC (a / b) = toC a / toC b ∧
    toC (0 : CxOf ℝ) = 0 ∧ toC (1 : CxOf ℝ) = 1 ∧ toC (CxOf.I : CxOf ℝ) = Kernel.i :=
  ⟨toC_sin a, toC_cos a, toC_tan a, toC_asin a, toC_acos a, toC_atan a,
   toC_sinh a, toC_cosh a, toC_tanh a, toC_asinh a, toC_acosh a, toC_atanh a,
   toC_reS a, toC_imS a, toC_argS a, toC_conj a, toC_normS a, toC_normSqr a,
   toC_ln a, toC_log2 a, toC_log10 a, toC_logBase a b, toC_sqrt a,
   toC_powc a b, toC_rem a b, toC_mulRe a b,
   (beq_iff a b).trans (LawfulKernel.eq_iff (toC a) (toC b)).symm,
   (normIsZero_iff a).trans (LawfulKernel.normIsZero_iff (toC a)).symm,
   toC_hadd a b, toC_hsub a b, toC_hmul a b, toC_hdiv a b, toC_zero', toC_one', toC_I⟩

/-- **C08 (the IEEE-only branches).** At EVERY real type — in particular at `Float` — the branches
    of the formulas that have no counterpart in ℝ are reached only by the inputs named here:
    `exp` leaves `from_polar(e^re, im)` only for an infinite or NaN real part; `atan` and `atanh`
    leave the logarithm formula only at `±i`, `±1`; `sqrt` of a negative real gives `+i√(−re)` for
    an imaginary part `+0` (what is proved above) and the conjugate `−i√(−re)` for `−0`. -/
theorem C08_kernel_ieee_branches {R : Type} [RealOps R] (z : CxOf R) :
    (RealOps.isInfinite z.re = false → RealOps.isNaN z.re = false →
      CxOf.exp z = CxOf.fromPolar (RealOps.exp z.re) z.im) ∧
    (CxOf.beq z CxOf.I = false → CxOf.beq z (CxOf.neg CxOf.I) = false →
      CxOf.atan z = CxOf.div (CxOf.sub (CxOf.ln (CxOf.add CxOf.one (CxOf.mul CxOf.I z)))
        (CxOf.ln (CxOf.sub CxOf.one (CxOf.mul CxOf.I z)))) (CxOf.mul CxOf.two CxOf.I)) ∧
    (CxOf.beq z CxOf.one = false → CxOf.beq z (CxOf.neg CxOf.one) = false →
      CxOf.atanh z = CxOf.div (CxOf.sub (CxOf.ln (CxOf.add CxOf.one z))
        (CxOf.ln (CxOf.sub CxOf.one z))) CxOf.two) ∧
    (RealOps.isZero z.im = true → RealOps.signPos z.re = false → RealOps.signPos z.im = true →
      CxOf.sqrt z = ⟨RealOps.zero, RealOps.sqrt (-z.re)⟩) ∧
    (RealOps.isZero z.im = true → RealOps.signPos z.re = false → RealOps.signPos z.im = false →
      CxOf.sqrt z = ⟨RealOps.zero, -RealOps.sqrt (-z.re)⟩) :=
  ⟨exp_of_finite z, atan_of_ne z, atanh_of_ne z, sqrt_neg_real_pos_zero z, sqrt_neg_real_neg_zero z⟩

/-- the hypotheses of the theorems above are about ALL complex numbers: `toC` is onto -/
theorem C08_kernel_toC_onto (w : ℂ) : ∃ a : CxOf ℝ, toC a = w := ⟨⟨w.re, w.im⟩, rfl⟩

end Calc.Props.C08Kernel
